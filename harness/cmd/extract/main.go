// extract — the translator: regenerates coq/Extracted/*.v from /repo's working tree.
//
// It prints *data* the proofs talk about, as Gallina terms:
//
//	SourceConst.v  string / integer constants and flags (labels, separator, unit strings, rule names, lruSize, @tag flag)
//	SourceRegex.v  every regexp.MustCompile literal of valid/init.go and file/parse.go as an [rx] tree
//	               (a direct image of regexp/syntax.Parse(expr, syntax.Perl))
//	SourceTable.v  the rule-name -> function table validName2FnMap
//	SourceLRU.v    a lock / field-access summary of every LRUCache method
//
// Files are rewritten only when their content changes.
package main

import (
	"bytes"
	"fmt"
	"go/ast"
	"go/parser"
	"go/token"
	"os"
	"path/filepath"
	"regexp/syntax"
	"sort"
	"strconv"
	"strings"
)

var repo = "/repo"

func die(format string, a ...interface{}) {
	fmt.Fprintf(os.Stderr, "extract: "+format+"\n", a...)
	os.Exit(2)
}

func gstr(s string) string {
	var b strings.Builder
	b.WriteString("[")
	for i := 0; i < len(s); i++ {
		if i > 0 {
			b.WriteString("; ")
		}
		b.WriteString(strconv.Itoa(int(s[i])))
	}
	b.WriteString("]%N")
	return b.String()
}

type env struct {
	strs map[string]string
	ints map[string]int64
	iota int64 // position in the enclosing const block, -1 outside
}

func (e *env) evalStr(x ast.Expr) (string, bool) {
	switch v := x.(type) {
	case *ast.BasicLit:
		if v.Kind == token.STRING {
			s, err := strconv.Unquote(v.Value)
			if err != nil {
				return "", false
			}
			return s, true
		}
	case *ast.Ident:
		s, ok := e.strs[v.Name]
		return s, ok
	case *ast.BinaryExpr:
		if v.Op == token.ADD {
			a, ok1 := e.evalStr(v.X)
			b, ok2 := e.evalStr(v.Y)
			return a + b, ok1 && ok2
		}
	case *ast.ParenExpr:
		return e.evalStr(v.X)
	}
	return "", false
}

func (e *env) evalInt(x ast.Expr) (int64, bool) {
	switch v := x.(type) {
	case *ast.BasicLit:
		if v.Kind == token.INT {
			n, err := strconv.ParseInt(v.Value, 0, 64)
			return n, err == nil
		}
	case *ast.Ident:
		if v.Name == "iota" && e.iota >= 0 {
			return e.iota, true
		}
		n, ok := e.ints[v.Name]
		return n, ok
	case *ast.ParenExpr:
		return e.evalInt(v.X)
	case *ast.BinaryExpr:
		a, ok1 := e.evalInt(v.X)
		b, ok2 := e.evalInt(v.Y)
		if !ok1 || !ok2 {
			return 0, false
		}
		switch v.Op {
		case token.SHL:
			return a << uint(b), true
		case token.ADD:
			return a + b, true
		case token.MUL:
			return a * b, true
		case token.SUB:
			return a - b, true
		case token.OR:
			return a | b, true
		}
	}
	return 0, false
}

func parseFile(path string) *ast.File {
	fset := token.NewFileSet()
	f, err := parser.ParseFile(fset, path, nil, parser.ParseComments)
	if err != nil {
		die("cannot parse %s: %v", path, err)
	}
	return f
}

// collect constants and string-valued vars of a file into env
func collectConsts(f *ast.File, e *env) {
	for _, d := range f.Decls {
		gd, ok := d.(*ast.GenDecl)
		if !ok || (gd.Tok != token.CONST && gd.Tok != token.VAR) {
			continue
		}
		var prev []ast.Expr // a const spec without values repeats the previous expression list with the next iota
		for si, sp := range gd.Specs {
			vs := sp.(*ast.ValueSpec)
			vals := vs.Values
			e.iota = -1
			if gd.Tok == token.CONST {
				e.iota = int64(si)
				if len(vals) == 0 {
					vals = prev
				} else {
					prev = vals
				}
			}
			for i, name := range vs.Names {
				if i >= len(vals) {
					continue
				}
				if s, ok := e.evalStr(vals[i]); ok {
					e.strs[name.Name] = s
				} else if n, ok := e.evalInt(vals[i]); ok {
					e.ints[name.Name] = n
				}
			}
		}
		e.iota = -1
	}
}

type rxDecl struct {
	name, expr string
}

func collectRegex(f *ast.File) []rxDecl {
	var out []rxDecl
	for _, d := range f.Decls {
		gd, ok := d.(*ast.GenDecl)
		if !ok || gd.Tok != token.VAR {
			continue
		}
		for _, sp := range gd.Specs {
			vs := sp.(*ast.ValueSpec)
			for i, name := range vs.Names {
				if i >= len(vs.Values) {
					continue
				}
				call, ok := vs.Values[i].(*ast.CallExpr)
				if !ok || len(call.Args) != 1 {
					continue
				}
				sel, ok := call.Fun.(*ast.SelectorExpr)
				if !ok || sel.Sel.Name != "MustCompile" {
					continue
				}
				lit, ok := call.Args[0].(*ast.BasicLit)
				if !ok || lit.Kind != token.STRING {
					die("regexp %s is not a string literal", name.Name)
				}
				s, err := strconv.Unquote(lit.Value)
				if err != nil {
					die("regexp %s: %v", name.Name, err)
				}
				out = append(out, rxDecl{name.Name, s})
			}
		}
	}
	return out
}

func rxTerm(re *syntax.Regexp) string {
	bin := func(op string, subs []*syntax.Regexp) string {
		if len(subs) == 0 {
			return "XEps"
		}
		t := rxTerm(subs[len(subs)-1])
		for i := len(subs) - 2; i >= 0; i-- {
			t = "(" + op + " " + rxTerm(subs[i]) + " " + t + ")"
		}
		return t
	}
	switch re.Op {
	case syntax.OpNoMatch:
		return "XNoMatch"
	case syntax.OpEmptyMatch:
		return "XEps"
	case syntax.OpLiteral:
		if re.Flags&syntax.FoldCase != 0 {
			die("case-folded literal not supported")
		}
		var parts []string
		for _, r := range re.Rune {
			parts = append(parts, strconv.Itoa(int(r)))
		}
		return "(XLit [" + strings.Join(parts, "; ") + "]%N)"
	case syntax.OpCharClass:
		var parts []string
		for i := 0; i+1 < len(re.Rune); i += 2 {
			parts = append(parts, fmt.Sprintf("(%d, %d)", re.Rune[i], re.Rune[i+1]))
		}
		return "(XCls [" + strings.Join(parts, "; ") + "]%N)"
	case syntax.OpAnyCharNotNL:
		return "XAnyNotNL"
	case syntax.OpAnyChar:
		return "XAny"
	case syntax.OpBeginText:
		return "XBol"
	case syntax.OpEndText:
		return "XEol"
	case syntax.OpCapture:
		return "(XCap " + rxTerm(re.Sub[0]) + ")"
	case syntax.OpStar:
		return "(XStar " + rxTerm(re.Sub[0]) + ")"
	case syntax.OpPlus:
		return "(XPlus " + rxTerm(re.Sub[0]) + ")"
	case syntax.OpQuest:
		return "(XQuest " + rxTerm(re.Sub[0]) + ")"
	case syntax.OpRepeat:
		mx := "None"
		if re.Max >= 0 {
			mx = fmt.Sprintf("(Some %d%%nat)", re.Max)
		}
		return fmt.Sprintf("(XRep %d%%nat %s %s)", re.Min, mx, rxTerm(re.Sub[0]))
	case syntax.OpConcat:
		return bin("XCat", re.Sub)
	case syntax.OpAlternate:
		return bin("XAlt", re.Sub)
	}
	die("unsupported regexp operator %v", re.Op)
	return ""
}

func writeIfChanged(path string, content []byte) {
	old, err := os.ReadFile(path)
	if err == nil && bytes.Equal(old, content) {
		return
	}
	if err := os.MkdirAll(filepath.Dir(path), 0o755); err != nil {
		die("%v", err)
	}
	tmp := path + ".tmp"
	if err := os.WriteFile(tmp, content, 0o644); err != nil {
		die("%v", err)
	}
	if err := os.Rename(tmp, path); err != nil {
		die("%v", err)
	}
}

func ident(s string) string {
	// Gallina-safe identifier
	var b strings.Builder
	for _, c := range s {
		if c == '_' || (c >= '0' && c <= '9') || (c >= 'a' && c <= 'z') || (c >= 'A' && c <= 'Z') {
			b.WriteRune(c)
		} else {
			b.WriteString("_")
		}
	}
	return b.String()
}

func main() {
	outDir := "/verif/coq/Extracted"
	for i := 1; i < len(os.Args); i++ {
		switch os.Args[i] {
		case "-repo":
			i++
			repo = os.Args[i]
		case "-out":
			i++
			outDir = os.Args[i]
		}
	}
	e := &env{strs: map[string]string{}, ints: map[string]int64{}, iota: -1}
	initF := parseFile(filepath.Join(repo, "valid/init.go"))
	cacheF := parseFile(filepath.Join(repo, "valid/cache.go"))
	varF := parseFile(filepath.Join(repo, "valid/validvar.go"))
	parseF := parseFile(filepath.Join(repo, "file/parse.go"))
	// two passes so that later declarations may use earlier ones in any order
	for pass := 0; pass < 2; pass++ {
		collectConsts(initF, e)
		collectConsts(cacheF, e)
		collectConsts(varF, e)
		collectConsts(parseF, e)
	}

	// ---- SourceConst.v
	var b bytes.Buffer
	b.WriteString("(* GENERATED by /verif/harness/cmd/extract from /repo — do not edit *)\n")
	b.WriteString("From PGV Require Import Base.Bytes.\n\n")
	needStr := []string{"ExplainEn", "ExplainZh", "ErrEndFlag", "strUnitStr", "numUnitStr", "sliceLenUnitStr",
		"defaultTargetTag", "InjectTagFlag", "validVarFieldName"}
	ruleConsts := []string{"Required", "Exist", "Either", "BothEq", "VTo", "VGe", "VLe", "VOTo", "VGt", "VLt", "VEq", "VNoEq",
		"VIn", "VInclude", "VPhone", "VEmail", "VIDCard", "VYear", "VYear2Month", "VDate", "VDatetime", "VInt", "VInts",
		"VFloat", "VRe", "VIp", "VIpv4", "VIpv6", "VUnique", "VJson", "VPrefix", "VSuffix", "VFile", "VDir"}
	for _, n := range append(append([]string{}, needStr...), ruleConsts...) {
		s, ok := e.strs[n]
		if !ok {
			die("constant %s not found (or not a constant string expression)", n)
		}
		fmt.Fprintf(&b, "Definition %s : str := %s. (* %q *)\n", ident(n), gstr(s), s)
	}
	lru, ok := e.ints["lruSize"]
	if !ok {
		die("constant lruSize not found")
	}
	fmt.Fprintf(&b, "Definition lruSize : Z := %d%%Z.\n", lru)
	for _, n := range []string{"YearFmt", "MonthFmt", "DayFmt", "HourFmt", "MinFmt", "SecFmt", "DateFmt", "DateTimeFmt"} {
		v, ok := e.ints[n]
		if !ok {
			die("constant %s not found (iota block of valid/init.go)", n)
		}
		fmt.Fprintf(&b, "Definition %s : Z := %d%%Z.\n", n, v)
	}
	writeIfChanged(filepath.Join(outDir, "SourceConst.v"), b.Bytes())

	// ---- SourceRegex.v
	b.Reset()
	b.WriteString("(* GENERATED by /verif/harness/cmd/extract from /repo — do not edit *)\n")
	b.WriteString("From PGV Require Import Base.Bytes Regex.Re Regex.Rx.\n\n")
	decls := append(collectRegex(initF), collectRegex(parseF)...)
	seen := map[string]bool{}
	for _, d := range decls {
		re, err := syntax.Parse(d.expr, syntax.Perl)
		if err != nil {
			die("regexp %s does not parse: %v", d.name, err)
		}
		seen[d.name] = true
		fmt.Fprintf(&b, "(* %s = %s *)\nDefinition %s : rx :=\n  %s.\n\n", d.name, strings.ReplaceAll(strings.ReplaceAll(strings.ReplaceAll(d.expr, "(*", "( *"), "*)", "* )"), "\"", "''"), ident(d.name), rxTerm(re))
	}
	for _, n := range []string{"IncludeZhRe", "PhoneRe", "EmailRe", "IdCardRe", "IntRe", "FloatRe", "rComment", "rInject", "rTags"} {
		if !seen[n] {
			die("regexp %s not found", n)
		}
	}
	writeIfChanged(filepath.Join(outDir, "SourceRegex.v"), b.Bytes())

	// ---- SourceTable.v
	b.Reset()
	b.WriteString("(* GENERATED by /verif/harness/cmd/extract from /repo — do not edit *)\n")
	b.WriteString("From PGV Require Import Base.Bytes.\n\n")
	b.WriteString("(* validName2FnMap: rule name -> name of the Go function (None = built into the walkers) *)\n")
	b.WriteString("Definition rule_table : list (str * option str) := [\n")
	type kv struct{ k, fn string }
	var rows []kv
	found := false
	ast.Inspect(initF, func(n ast.Node) bool {
		vs, ok := n.(*ast.ValueSpec)
		if !ok || len(vs.Names) != 1 || vs.Names[0].Name != "validName2FnMap" || len(vs.Values) != 1 {
			return true
		}
		cl, ok := vs.Values[0].(*ast.CompositeLit)
		if !ok {
			die("validName2FnMap is not a composite literal")
		}
		found = true
		for _, el := range cl.Elts {
			kve := el.(*ast.KeyValueExpr)
			k, ok := e.evalStr(kve.Key)
			if !ok {
				die("validName2FnMap: key is not a constant string")
			}
			fn := ""
			if id, ok := kve.Value.(*ast.Ident); ok {
				fn = id.Name
			} else {
				die("validName2FnMap: value for %q is not an identifier", k)
			}
			rows = append(rows, kv{k, fn})
		}
		return false
	})
	if !found {
		die("validName2FnMap not found")
	}
	sort.SliceStable(rows, func(i, j int) bool { return rows[i].k < rows[j].k })
	for i, r := range rows {
		fn := "None"
		if r.fn != "nil" {
			fn = "(Some " + gstr(r.fn) + ")"
		}
		sep := ";"
		if i == len(rows)-1 {
			sep = ""
		}
		fmt.Fprintf(&b, "  (%s, %s)%s (* %s -> %s *)\n", gstr(r.k), fn, sep, r.k, r.fn)
	}
	b.WriteString("].\n")
	writeIfChanged(filepath.Join(outDir, "SourceTable.v"), b.Bytes())

	// ---- SourceLRU.v
	writeIfChanged(filepath.Join(outDir, "SourceLRU.v"), lruSummary(cacheF))

	// ---- SourceFns*.v: selected functions as MiniGo syntax trees (one file per family, so that a change to one
	// function recompiles only the proofs about that family)
	commonF := parseFile(filepath.Join(repo, "valid/common.go"))
	fnF := parseFile(filepath.Join(repo, "valid/validfn.go"))
	ruleF := parseFile(filepath.Join(repo, "valid/rule.go"))
	mapF := parseFile(filepath.Join(repo, "valid/validmap.go"))
	urlF := parseFile(filepath.Join(repo, "valid/validurl.go"))
	absF := parseFile(filepath.Join(repo, "valid/abstract.go"))
	fnFiles := map[string]*ast.File{"valid/validvar.go": varF, "valid/validmap.go": mapF, "valid/validurl.go": urlF, "valid/abstract.go": absF, "valid/common.go": commonF, "valid/cache.go": cacheF, "valid/validfn.go": fnF, "valid/rule.go": ruleF, "valid/init.go": initF}
	writeIfChanged(filepath.Join(outDir, "SourceFnsSize.v"), miniGo(fnFiles, [][2]string{{"valid/common.go", "validInputSize"}, {"valid/validfn.go", "eq"}}))
	writeIfChanged(filepath.Join(outDir, "SourceFnsParse.v"), miniGo(fnFiles, [][2]string{{"valid/common.go", "ParseValidNameKV"}, {"valid/common.go", "IsExported"}}))
	writeIfChanged(filepath.Join(outDir, "SourceFnsGen.v"), miniGo(fnFiles, [][2]string{{"valid/rule.go", "GenValidKV"}, {"valid/rule.go", "RM_Set"}, {"valid/rule.go", "RM_Get"}}))
	writeIfChanged(filepath.Join(outDir, "SourceFnsMsg.v"), miniGo(fnFiles, [][2]string{{"valid/common.go", "GetJoinValidErrStr"}, {"valid/common.go", "GetJoinFieldErr"}, {"valid/init.go", "GetOnlyExplainErr"}}))
	writeIfChanged(filepath.Join(outDir, "SourceFnsRule.v"), miniGo(fnFiles, [][2]string{{"valid/validfn.go", "To"}, {"valid/validfn.go", "OTo"},
		{"valid/validfn.go", "Ge"}, {"valid/validfn.go", "Gt"}, {"valid/validfn.go", "Le"}, {"valid/validfn.go", "Lt"},
		{"valid/validfn.go", "Eq"}, {"valid/validfn.go", "NoEq"}, {"valid/common.go", "parseTagTo"}, {"valid/common.go", "ReflectKindIsNum"}}))
	writeIfChanged(filepath.Join(outDir, "SourceFnsFmt.v"), miniGo(fnFiles, [][2]string{{"valid/validfn.go", "Phone"}, {"valid/validfn.go", "Email"},
		{"valid/validfn.go", "IDCard"}, {"valid/validfn.go", "Ip"}, {"valid/validfn.go", "Ipv4"}, {"valid/validfn.go", "Ipv6"},
		{"valid/validfn.go", "Year"}, {"valid/validfn.go", "Year2Month"}, {"valid/validfn.go", "Date"},
		{"valid/validfn.go", "Prefix"}, {"valid/validfn.go", "Suffix"}, {"valid/common.go", "CheckFieldIsStr"},
		{"valid/validfn.go", "Int"}, {"valid/validfn.go", "Float"}, {"valid/validfn.go", "Json"}, {"valid/validfn.go", "File"},
		{"valid/validfn.go", "Dir"}}))
	writeIfChanged(filepath.Join(outDir, "SourceFnsIn.v"), miniGo(fnFiles, [][2]string{{"valid/validfn.go", "In"}, {"valid/validfn.go", "Include"},
		{"valid/validfn.go", "in"}}))
	writeIfChanged(filepath.Join(outDir, "SourceFnsInts.v"), miniGo(fnFiles, [][2]string{{"valid/validfn.go", "Ints"}, {"valid/validfn.go", "Unique"}, {"valid/validfn.go", "Datetime"}, {"valid/validfn.go", "Re"}}))
	tagF := parseFile(filepath.Join(repo, "file/handletag.go"))
	fnFiles["file/handletag.go"] = tagF
	writeIfChanged(filepath.Join(outDir, "SourceFnsTags.v"), miniGo(fnFiles, [][2]string{{"file/handletag.go", "tagItems_override"}, {"file/handletag.go", "tagItems_format"}}))
	writeIfChanged(filepath.Join(outDir, "SourceFnsTimeFmt.v"), miniGo(fnFiles, [][2]string{{"valid/init.go", "GetTimeFmt"}}))
	writeIfChanged(filepath.Join(outDir, "SourceFnsPtr.v"), miniGo(fnFiles, [][2]string{{"valid/common.go", "RemoveValuePtr"}}))
	writeIfChanged(filepath.Join(outDir, "SourceFnsToStr.v"), miniGo(fnFiles, [][2]string{{"valid/common.go", "ToStr"}}))
	writeIfChanged(filepath.Join(outDir, "SourceFnsSplit.v"), miniGo(fnFiles, [][2]string{{"valid/common.go", "ValidNamesSplit"}}))
	writeIfChanged(filepath.Join(outDir, "SourceFnsLRU.v"), miniGo(fnFiles, [][2]string{{"valid/cache.go", "LRUCache_Store"}, {"valid/cache.go", "LRUCache_Load"},
		{"valid/cache.go", "LRUCache_Delete"}, {"valid/cache.go", "LRUCache_delete"}, {"valid/cache.go", "LRUCache_Len"}}))
	writeIfChanged(filepath.Join(outDir, "SourceFnsWalk.v"), miniGo(fnFiles, [][2]string{{"valid/abstract.go", "validCommon_getValidFn"},
		{"valid/validvar.go", "VVar_getValidFn"}, {"valid/validmap.go", "VMap_getValidFn"}, {"valid/validurl.go", "VUrl_getValidFn"},
		{"valid/validvar.go", "VVar_validate"}, {"valid/validmap.go", "VMap_validate"}, {"valid/validmap.go", "VMap_getKey"},
		{"valid/validurl.go", "VUrl_validate"}}))
	_ = os.Remove(filepath.Join(outDir, "SourceFns.v"))
}
