package main

import (
	"bytes"
	"fmt"
	"go/ast"
	"go/token"
	"strconv"
	"strings"
)

// minigo: prints selected function declarations of /repo as terms of Base/MiniGo.v (expr, stmt, fn).
// The translation is one constructor per go/ast node kind, nothing is simplified or reordered;
// a node kind without a constructor becomes EOther / SOther carrying the node's Go type name.

func mgCoqString(s string) string {
	// Coq string literals: only the double quote is escaped (by doubling); identifiers and operators are ASCII
	return "\"" + strings.ReplaceAll(s, "\"", "\"\"") + "\"%string"
}

func mgList(xs []string) string { return "[" + strings.Join(xs, "; ") + "]" }

func typeText(e ast.Expr) string {
	switch v := e.(type) {
	case nil:
		return ""
	case *ast.Ident:
		return v.Name
	case *ast.SelectorExpr:
		return typeText(v.X) + "." + v.Sel.Name
	case *ast.StarExpr:
		return "*" + typeText(v.X)
	case *ast.ArrayType:
		if v.Len == nil {
			return "[]" + typeText(v.Elt)
		}
		return "[n]" + typeText(v.Elt)
	case *ast.MapType:
		return "map[" + typeText(v.Key) + "]" + typeText(v.Value)
	case *ast.InterfaceType:
		return "interface{}"
	case *ast.Ellipsis:
		return "..." + typeText(v.Elt)
	case *ast.FuncType:
		return "func"
	case *ast.StructType:
		if v.Fields == nil || len(v.Fields.List) == 0 {
			return "struct{}"
		}
		return "struct{...}"
	}
	return fmt.Sprintf("%T", e)
}

func mgExpr(e ast.Expr) string {
	switch v := e.(type) {
	case *ast.Ident:
		return "(EId " + mgCoqString(v.Name) + ")"
	case *ast.BasicLit:
		switch v.Kind {
		case token.INT:
			n, err := strconv.ParseInt(v.Value, 0, 64)
			if err == nil {
				return fmt.Sprintf("(ELit (%d)%%Z)", n)
			}
		case token.CHAR:
			r, _, _, err := strconv.UnquoteChar(v.Value[1:len(v.Value)-1], '\'')
			if err == nil {
				return fmt.Sprintf("(ELit (%d)%%Z)", r)
			}
		case token.STRING:
			s, err := strconv.Unquote(v.Value)
			if err == nil {
				return "(EStr " + gstr(s) + ")"
			}
		}
		return "(EOther " + mgCoqString("literal "+v.Kind.String()) + ")"
	case *ast.ParenExpr:
		return mgExpr(v.X)
	case *ast.CallExpr:
		args := make([]string, len(v.Args))
		for i, a := range v.Args {
			args[i] = mgExpr(a)
		}
		if v.Ellipsis.IsValid() && len(args) > 0 { // f(a, b...): the last argument is spread
			args[len(args)-1] = "(EUn " + mgCoqString("...") + " " + args[len(args)-1] + ")"
		}
		var f string
		switch ft := v.Fun.(type) {
		case *ast.ArrayType, *ast.MapType, *ast.InterfaceType, *ast.StarExpr:
			f = "(EId " + mgCoqString(typeText(ft)) + ")" // a conversion to a composite type: []rune(x)
		default:
			f = mgExpr(v.Fun)
		}
		return "(ECall " + f + " " + mgList(args) + ")"
	case *ast.SelectorExpr:
		return "(ESel " + mgExpr(v.X) + " " + mgCoqString(v.Sel.Name) + ")"
	case *ast.IndexExpr:
		return "(EIndex " + mgExpr(v.X) + " " + mgExpr(v.Index) + ")"
	case *ast.SliceExpr:
		if !v.Slice3 {
			opt := func(e ast.Expr) string {
				if e == nil {
					return "None"
				}
				return "(Some " + mgExpr(e) + ")"
			}
			return "(ESlice " + mgExpr(v.X) + " " + opt(v.Low) + " " + opt(v.High) + ")"
		}
	case *ast.BinaryExpr:
		return "(EBin " + mgCoqString(v.Op.String()) + " " + mgExpr(v.X) + " " + mgExpr(v.Y) + ")"
	case *ast.UnaryExpr:
		return "(EUn " + mgCoqString(v.Op.String()) + " " + mgExpr(v.X) + ")"
	case *ast.StarExpr:
		return "(EUn " + mgCoqString("*") + " " + mgExpr(v.X) + ")"
	case *ast.CompositeLit: // the empty literal of a slice / map type: []T{} ; a slice literal of plain elements: []T{a, b}
		if len(v.Elts) == 0 && v.Type != nil {
			return "(EId " + mgCoqString(typeText(v.Type)+"{}") + ")"
		}
		// a struct literal with every field named: T{f: x, g: y}  ->  ECall (EId "T{:}") [EBin ":" (EId "f") x; ...]
		if id, ok := v.Type.(*ast.Ident); ok && len(v.Elts) > 0 {
			elts := make([]string, len(v.Elts))
			keyed := true
			for i, x := range v.Elts {
				kv, isKV := x.(*ast.KeyValueExpr)
				if !isKV {
					keyed = false
					break
				}
				elts[i] = "(EBin " + mgCoqString(":") + " " + mgExpr(kv.Key) + " " + mgExpr(kv.Value) + ")"
			}
			if keyed {
				return "(ECall (EId " + mgCoqString(id.Name+"{:}") + ") " + mgList(elts) + ")"
			}
		}
		if at, ok := v.Type.(*ast.ArrayType); ok && at.Len == nil {
			elts := make([]string, len(v.Elts))
			plain := true
			for i, x := range v.Elts {
				if _, kv := x.(*ast.KeyValueExpr); kv {
					plain = false
				}
				elts[i] = mgExpr(x)
			}
			if plain {
				return "(ECall (EId " + mgCoqString(typeText(v.Type)+"{...}") + ") " + mgList(elts) + ")"
			}
		}
	case *ast.FuncLit: // only the function literal whose body is one "return e": func(a, b T) R { return e }
		if v.Body != nil && len(v.Body.List) == 1 {
			if rs, ok := v.Body.List[0].(*ast.ReturnStmt); ok && len(rs.Results) == 1 {
				var ps []string
				for _, f := range v.Type.Params.List {
					for _, n := range f.Names {
						ps = append(ps, mgCoqString(n.Name))
					}
				}
				return "(EFuncRet " + mgList(ps) + " " + mgExpr(rs.Results[0]) + ")"
			}
		}
	case *ast.ArrayType, *ast.MapType: // a type in expression position: make([]byte, 0, 5)
		return "(EId " + mgCoqString(typeText(v)) + ")"
	}
	return "(EOther " + mgCoqString(fmt.Sprintf("%T", e)) + ")"
}

func mgExprs(es []ast.Expr) string {
	xs := make([]string, len(es))
	for i, e := range es {
		xs[i] = mgExpr(e)
	}
	return mgList(xs)
}

func mgStmts(ss []ast.Stmt, ind string) string {
	if len(ss) == 0 {
		return "[]"
	}
	xs := make([]string, len(ss))
	for i, s := range ss {
		xs[i] = mgStmt(s, ind+"  ")
	}
	return "[\n" + ind + "  " + strings.Join(xs, ";\n"+ind+"  ") + "]"
}

func mgOptStmt(s ast.Stmt, ind string) string {
	if s == nil {
		return "[]"
	}
	return "[" + mgStmt(s, ind) + "]"
}

func mgOptName(e ast.Expr) string {
	if e == nil {
		return "None"
	}
	if id, ok := e.(*ast.Ident); ok {
		return "(Some " + mgCoqString(id.Name) + ")"
	}
	return "(Some " + mgCoqString("?"+fmt.Sprintf("%T", e)) + ")"
}

func mgStmt(s ast.Stmt, ind string) string {
	switch v := s.(type) {
	case *ast.AssignStmt:
		switch v.Tok {
		case token.DEFINE:
			// f := func(a, b T) R { ... }: a local function; its body is a statement list (SFuncDef)
			if len(v.Lhs) == 1 && len(v.Rhs) == 1 {
				if fl, ok := v.Rhs[0].(*ast.FuncLit); ok {
					if id, ok := v.Lhs[0].(*ast.Ident); ok && fl.Body != nil && len(fl.Body.List) > 1 {
						var ps []string
						for _, f := range fl.Type.Params.List {
							for _, n := range f.Names {
								ps = append(ps, mgCoqString(n.Name))
							}
						}
						return "SFuncDef " + mgCoqString(id.Name) + " " + mgList(ps) + " " + mgStmts(fl.Body.List, ind)
					}
				}
			}
			return "SAssign true " + mgExprs(v.Lhs) + " " + mgExprs(v.Rhs)
		case token.ASSIGN:
			return "SAssign false " + mgExprs(v.Lhs) + " " + mgExprs(v.Rhs)
		default:
			if len(v.Lhs) == 1 && len(v.Rhs) == 1 {
				return "SOpAssign " + mgCoqString(strings.TrimSuffix(v.Tok.String(), "=")) + " " + mgExpr(v.Lhs[0]) + " " + mgExpr(v.Rhs[0])
			}
		}
	case *ast.IncDecStmt:
		return "SIncDec " + map[bool]string{true: "true", false: "false"}[v.Tok == token.INC] + " " + mgExpr(v.X)
	case *ast.IfStmt:
		el := "[]"
		switch e := v.Else.(type) {
		case nil:
		case *ast.BlockStmt:
			el = mgStmts(e.List, ind)
		default: // else if
			el = "[" + mgStmt(e, ind) + "]"
		}
		return "SIf " + mgOptStmt(v.Init, ind) + " " + mgExpr(v.Cond) + " " + mgStmts(v.Body.List, ind) + " " + el
	case *ast.SwitchStmt:
		tag := "None"
		if v.Tag != nil {
			tag = "(Some " + mgExpr(v.Tag) + ")"
		}
		var cases []string
		for _, c := range v.Body.List {
			cc := c.(*ast.CaseClause)
			cases = append(cases, "("+mgExprs(cc.List)+", "+mgStmts(cc.Body, ind+"  ")+")")
		}
		return "SSwitch " + mgOptStmt(v.Init, ind) + " " + tag + " [\n" + ind + "  " + strings.Join(cases, ";\n"+ind+"  ") + "]"
	case *ast.TypeSwitchStmt:
		// switch x := e.(type) { case T1, T2: ... }   (also without the binding)
		if v.Init == nil {
			bind := "None"
			var subject ast.Expr
			switch a := v.Assign.(type) {
			case *ast.AssignStmt:
				if len(a.Lhs) == 1 && len(a.Rhs) == 1 {
					if id, ok := a.Lhs[0].(*ast.Ident); ok {
						bind = "(Some " + mgCoqString(id.Name) + ")"
					}
					if ta, ok := a.Rhs[0].(*ast.TypeAssertExpr); ok && ta.Type == nil {
						subject = ta.X
					}
				}
			case *ast.ExprStmt:
				if ta, ok := a.X.(*ast.TypeAssertExpr); ok && ta.Type == nil {
					subject = ta.X
				}
			}
			if subject != nil {
				var cases []string
				for _, c := range v.Body.List {
					cc := c.(*ast.CaseClause)
					tys := make([]string, len(cc.List))
					for i, t := range cc.List {
						tys[i] = mgCoqString(typeText(t))
					}
					cases = append(cases, "("+mgList(tys)+", "+mgStmts(cc.Body, ind+"  ")+")")
				}
				return "STypeSwitch " + bind + " " + mgExpr(subject) + " [\n" + ind + "  " + strings.Join(cases, ";\n"+ind+"  ") + "]"
			}
		}
	case *ast.ReturnStmt:
		return "SReturn " + mgExprs(v.Results)
	case *ast.ExprStmt:
		return "SExpr " + mgExpr(v.X)
	case *ast.ForStmt:
		cond := "None"
		if v.Cond != nil {
			cond = "(Some " + mgExpr(v.Cond) + ")"
		}
		return "SFor " + mgOptStmt(v.Init, ind) + " " + cond + " " + mgOptStmt(v.Post, ind) + " " + mgStmts(v.Body.List, ind)
	case *ast.RangeStmt:
		return "SRange " + mgOptName(v.Key) + " " + mgOptName(v.Value) + " " + map[bool]string{true: "true", false: "false"}[v.Tok == token.DEFINE] + " " + mgExpr(v.X) + " " + mgStmts(v.Body.List, ind)
	case *ast.BranchStmt:
		if v.Label == nil {
			switch v.Tok {
			case token.BREAK:
				return "SBreak"
			case token.CONTINUE:
				return "SContinue"
			}
		}
	case *ast.DeferStmt:
		return "SDefer " + mgExpr(v.Call)
	case *ast.DeclStmt:
		if gd, ok := v.Decl.(*ast.GenDecl); ok && gd.Tok == token.VAR {
			var parts []string
			for _, sp := range gd.Specs {
				vs := sp.(*ast.ValueSpec)
				names := make([]string, len(vs.Names))
				for i, n := range vs.Names {
					names[i] = mgCoqString(n.Name)
				}
				parts = append(parts, "SVar "+mgList(names)+" "+mgCoqString(typeText(vs.Type))+" "+mgExprs(vs.Values))
			}
			if len(parts) == 1 {
				return parts[0]
			}
			return "SBlock [" + strings.Join(parts, "; ") + "]"
		}
	case *ast.BlockStmt:
		return "SBlock " + mgStmts(v.List, ind)
	}
	return "SOther " + mgCoqString(fmt.Sprintf("%T", s))
}

func mgFields(fl *ast.FieldList) string {
	if fl == nil {
		return "[]"
	}
	var xs []string
	for _, f := range fl.List {
		t := typeText(f.Type)
		if len(f.Names) == 0 {
			xs = append(xs, "("+mgCoqString("")+", "+mgCoqString(t)+")")
		}
		for _, n := range f.Names {
			xs = append(xs, "("+mgCoqString(n.Name)+", "+mgCoqString(t)+")")
		}
	}
	return mgList(xs)
}

// miniGo emits SourceFns.v: one fn per requested (file, name); methods are named Recv_Method
func miniGo(files map[string]*ast.File, want [][2]string) []byte {
	var b bytes.Buffer
	b.WriteString("(* GENERATED by /verif/harness/cmd/extract (minigo.go) from /repo — do not edit *)\n")
	b.WriteString("From Coq Require Import String.\nFrom PGV Require Import Base.Bytes Base.MiniGo.\n\n")
	for _, w := range want {
		f := files[w[0]]
		found := false
		for _, d := range f.Decls {
			fd, ok := d.(*ast.FuncDecl)
			if !ok || fd.Body == nil {
				continue
			}
			name := fd.Name.Name
			recv := "None"
			if fd.Recv != nil && len(fd.Recv.List) == 1 {
				rt := strings.TrimPrefix(typeText(fd.Recv.List[0].Type), "*")
				name = rt + "_" + name
				if len(fd.Recv.List[0].Names) == 1 {
					recv = "(Some " + mgCoqString(fd.Recv.List[0].Names[0].Name) + ")"
				}
			}
			if name != w[1] {
				continue
			}
			found = true
			fmt.Fprintf(&b, "(* %s: %s *)\nDefinition fn_%s : fn := {|\n  fn_name := %s;\n  fn_recv := %s;\n  fn_params := %s;\n  fn_results := %s;\n  fn_body := %s\n|}.\n\n",
				w[0], w[1], w[1], mgCoqString(w[1]), recv, mgFields(fd.Type.Params), mgFields(fd.Type.Results), mgStmts(fd.Body.List, "  "))
		}
		if !found {
			die("function %s not found in %s", w[1], w[0])
		}
	}
	return b.Bytes()
}
