package main

import (
	"encoding/json"
	"fmt"
	"net"
	"os"
	"path/filepath"
	"reflect"
	"regexp"
	"strconv"
	"strings"
	"time"

	"gitee.com/xuesongtao/protoc-go-valid/valid"
	"verif/harness/internal/gal"
)

var decimalOpts = []string{"0.1", "0.7", "2.5", "1.25", "0.3", "3.14"}

func init() { drivers["C05"] = runC05 }

var editAlphabet = []string{"0", "1", "5", "9", "a", "z", "A", "X", "x", "_", "中", "、", ",", ".", "-", "+", "@", ":", "/", " ", "'", "\"", "\x00", "\n", "\t", "\xff", "é", "|", "=", "(", ")"}

// one single-character edit of s (on runes): insert, delete or substitute
func editString(r *gal.Rng, s string) string {
	rs := []rune(s)
	c := []rune(editAlphabet[r.Intn(len(editAlphabet))])
	switch op := r.Intn(3); {
	case op == 0 || len(rs) == 0: // insert
		i := r.Intn(len(rs) + 1)
		out := append(append(append([]rune{}, rs[:i]...), c...), rs[i:]...)
		return string(out)
	case op == 1: // delete
		i := r.Intn(len(rs))
		return string(append(append([]rune{}, rs[:i]...), rs[i+1:]...))
	default:
		i := r.Intn(len(rs))
		out := append(append(append([]rune{}, rs[:i]...), c...), rs[i+1:]...)
		return string(out)
	}
}

func digitsN(r *gal.Rng, n int) string {
	b := make([]byte, n)
	for i := range b {
		b[i] = byte('0' + r.Intn(10))
	}
	return string(b)
}

func wordN(r *gal.Rng, lo, hi int) string {
	return randWord(r, [][]string{{"a", "b", "x", "Z", "0", "7", "_"}}, lo, hi)
}

// variants: a member, near-misses by one edit (dense), and random strings
func variants(r *gal.Rng, member func() string) string {
	switch x := r.Intn(10); {
	case x < 3:
		return member()
	case x < 8:
		return editString(r, member())
	case x < 9:
		return editString(r, editString(r, member()))
	default:
		return randWord(r, [][]string{asciiLetters, cjk, punct, ctrl, badUtf8}, 1, 12)
	}
}

func quoteIfNeeded(s string, must bool) string {
	if must || strings.ContainsAny(s, ",/") {
		return "'" + s + "'"
	}
	return s
}

func runC05(c *Ctx) error {
	w := gal.NewWriter("C05", c.Out, "Run.Run_C05", 200)
	r := c.Rng
	n := 90
	if c.Thorough {
		n = 1100
	}
	marker := 0
	tmp, err := os.MkdirTemp("", "verif-c05-")
	if err != nil {
		return err
	}
	defer os.RemoveAll(tmp)
	filePath := filepath.Join(tmp, "f.txt")
	dirPath := filepath.Join(tmp, "d")
	_ = os.WriteFile(filePath, []byte("x"), 0o644)
	_ = os.Mkdir(dirPath, 0o755)
	// links: the rules follow them (os.Stat); a dangling link is a missing path
	linkToDir, linkToFile, dangling, missing := filepath.Join(tmp, "ld"), filepath.Join(tmp, "lf"), filepath.Join(tmp, "lx"), filepath.Join(tmp, "nope")
	_ = os.Symlink(dirPath, linkToDir)
	_ = os.Symlink(filePath, linkToFile)
	_ = os.Symlink(filepath.Join(tmp, "gone"), dangling)
	statPaths := []string{filePath, dirPath, linkToDir, linkToFile, dangling, missing, filePath + "/", dirPath + "/"}

	emit := func(rule, text string, v interface{}, fspec string, orc *oracleSet, cell string) {
		if reflect.ValueOf(v).IsZero() { // zero values are skipped by every rule: outside C05's domain
			return
		}
		marker++
		mk := fmt.Sprintf("M%d", marker)
		call := &walkCall{Orc: orc}
		full := text + "|" + mk
		extra := ""
		if sv, ok := v.(string); ok && strings.Contains(text, "'") && strings.Count(text, "'")%2 == 0 && len(sv) < 90 && r.Chance(60) {
			// a quoted rule followed by a second rule on the same value: the second one (violated by construction:
			// no string here has 100 characters) must still be reported, whatever the first one did to get its verdict
			marker++
			mk2 := fmt.Sprintf("M%d", marker)
			full += ",to=100~200|" + mk2
			extra = fmt.Sprintf("SVerdict true %s", gal.Str(mk2))
		}
		if extra != "" || r.Chance(30) {
			rv := reflect.ValueOf(v)
			st := reflect.StructOf([]reflect.StructField{{Name: "F", Type: rv.Type(), Tag: reflect.StructTag(`valid:"` + strings.ReplaceAll(strings.ReplaceAll(full, `\`, `\\`), `"`, `\"`) + `"`)}})
			sv := reflect.New(st).Elem()
			sv.Field(0).Set(rv)
			call.Entry, call.Src = "struct", sv.Addr().Interface()
		} else {
			call.Entry, call.VarRules, call.Src = "var", []string{full}, v
		}
		spec := fmt.Sprintf("SFmt %s %s %s", fspec, galVal(reflect.ValueOf(v), nil), gal.Str(mk))
		specs := []string{spec}
		if extra != "" {
			specs = append(specs, extra)
		}
		term, desc := call.caseTerm(specs)
		desc["rule"] = full
		w.Add("CW ("+term+")", desc, cell)
		w.Count("rule." + rule)
	}
	verdictCell := func(rule string, v interface{}, text string) string {
		err := valid.Var(v, text)
		return fmt.Sprintf("%s:%T:%v", rule, v, err == nil)
	}

	// ---- directed catalogue: strings that other accept-functions of the standard library would judge differently
	// (signs, exponents, blanks, radix prefixes, full-width digits, very long digit runs, separators at the ends)
	numish := []string{"12", "+12", "-12", "012", "1_000", "0x10", "1e5", "1E5", " 12", "12 ", "12\n", "１２", "٣", "1.5", "+1.5", "-1.5", ".5", "5.", "1.5.2", "1..5",
		"NaN", "Inf", "-0", "+0", "00", "9223372036854775807", "9223372036854775808", "18446744073709551616", "12345678901234567890123", strings.Repeat("9", 40),
		"1,2", "1,-2", "+1,2", ",1", "1,", "1,,2", "1, 2", "1.0", "0.0", "1,2.5"}
	for _, s := range numish {
		emit("int", "int", s, "FInt", nil, "directed:int:"+verdictCell("int", s, "int"))
		emit("float", "float", s, "FFloat", nil, "directed:float:"+verdictCell("float", s, "float"))
		emit("ints", "ints", s, "(FInts "+gal.Str(",")+")", nil, "directed:ints:"+verdictCell("ints", s, "ints"))
		emit("phone", "phone", s, "FPhone", nil, "directed:phone:"+verdictCell("phone", s, "phone"))
	}
	for _, s := range []string{"13812345678", "+13812345678", "13812345678 ", " 13812345678", "1381234567", "138123456789", "12812345678", "23812345678", "1３812345678", "13812345678\n",
		"a,b@c.com", "a@b,c.com", "a@b.c,om", "a*b@c.com", "a)b@c.com", "a@b(c.com", "a/b@c.com", "a'b@c.com",
		"a@b.cn", "a@b", "a@b.", "@b.cn", "a@.cn", "a@b.cn ", " a@b.cn", "a@b.cn\n", "a b@c.cn", "a@b@c.cn", "a@b.c-n", "a.b-c+d@e-f.gh.ij", "中@b.cn", "a@中.cn", "A@B.CN",
		"11010519491231002X", "11010519491231002x", "110105194912310021", "11010519491231002", "1101051949123100211", "11010519491231002Y", " 11010519491231002X", "11010519491231002X\n"} {
		emit("phone", "phone", s, "FPhone", nil, "directed:phone:"+verdictCell("phone", s, "phone"))
		emit("email", "email", s, "FEmail", nil, "directed:email:"+verdictCell("email", s, "email"))
		emit("idcard", "idcard", s, "FIdCard", nil, "directed:idcard:"+verdictCell("idcard", s, "idcard"))
	}
	for _, d := range []string{"0.00001", "1e-05", "0.0000001", "1e-07", "1000000000000000000000", "1e+21", "123456789012345680000000", "0.000012345"} {
		f64, _ := strconv.ParseFloat(d, 64)
		f32v, _ := strconv.ParseFloat(d, 32)
		for _, v := range []interface{}{f64, float32(f32v)} {
			text := valid.GenValidKV("in", d+"/7")
			emit("in", text, v, "(FIn "+gal.StrList([]string{d, "7"})+")", nil, "directed:in-magnitude:"+verdictCell("in", v, text))
		}
	}
	for _, u := range []uint64{1 << 63, 1<<63 + 7, ^uint64(0), ^uint64(0) - 1, 1<<63 - 1} {
		d := strconv.FormatUint(u, 10)
		for _, v := range []interface{}{u, uint(u), d} {
			text := valid.GenValidKV("in", d+"/7")
			emit("in", text, v, "(FIn "+gal.StrList([]string{d, "7"})+")", nil, "directed:in-big-unsigned:"+verdictCell("in", v, text))
		}
		emit("unique", "unique", []uint64{u, 3, u}, "FUnique", nil, "directed:unique-big-unsigned")
	}
	for _, d := range decimalOpts {
		f64, _ := strconv.ParseFloat(d, 64)
		f32v, _ := strconv.ParseFloat(d, 32)
		for _, v := range []interface{}{float32(f32v), f64, float32(f32v) * 3, d} {
			text := valid.GenValidKV("in", d+"/7")
			emit("in", text, v, "(FIn "+gal.StrList([]string{d, "7"})+")", nil, "directed:in:"+verdictCell("in", v, text))
		}
	}
	for i := 0; i < n; i++ {
		// ---- phone / email / idcard
		{
			s := variants(r, func() string { return "1" + string(byte('3'+r.Intn(7))) + digitsN(r, 9) })
			emit("phone", "phone", s, "FPhone", nil, verdictCell("phone", s, "phone")+fmt.Sprint(len(s) == 11))
		}
		{
			s := variants(r, func() string {
				local := wordN(r, 1, 3)
				for k := r.Intn(3); k > 0; k-- {
					local += r.Pick([]string{"-", "+", "."}) + wordN(r, 1, 2)
				}
				dom := wordN(r, 1, 3)
				for k := r.Intn(2); k > 0; k-- {
					dom += r.Pick([]string{"-", "."}) + wordN(r, 1, 2)
				}
				dom += "." + wordN(r, 2, 3)
				for k := r.Intn(2); k > 0; k-- {
					dom += r.Pick([]string{"-", "."}) + wordN(r, 1, 2)
				}
				return local + "@" + dom
			})
			emit("email", "email", s, "FEmail", nil, verdictCell("email", s, "email")+fmt.Sprint(strings.Count(s, "@"), strings.Count(s, ".") > 0))
		}
		{
			s := variants(r, func() string {
				switch r.Intn(3) {
				case 0:
					return digitsN(r, 15)
				case 1:
					return digitsN(r, 18)
				}
				return digitsN(r, 17) + r.Pick([]string{"X", "x", "3"})
			})
			emit("idcard", "idcard", s, "FIdCard", nil, verdictCell("idcard", s, "idcard")+fmt.Sprint(len(s)))
		}
		// ---- int / float: strings and numbers
		{
			var v interface{}
			switch r.Intn(6) {
			case 0:
				v = int32(r.Range(1, 99))
			case 1:
				v = uint16(r.Range(1, 99))
			case 2:
				v = float64(r.Range(1, 9)) + 0.5
			case 3:
				v = float32(r.Range(1, 9))
			default:
				v = variants(r, func() string { return digitsN(r, r.Range(1, 6)) })
			}
			emit("int", "int", v, "FInt", nil, verdictCell("int", v, "int"))
		}
		{
			var v interface{}
			switch r.Intn(6) {
			case 0:
				v = int64(r.Range(1, 99))
			case 1:
				v = float64(r.Range(1, 9)) + 0.25
			case 2:
				v = float32(2.5)
			default:
				v = variants(r, func() string { return digitsN(r, r.Range(1, 3)) + "." + digitsN(r, r.Range(1, 3)) })
			}
			emit("float", "float", v, "FFloat", nil, verdictCell("float", v, "float"))
		}
		// ---- in / include
		{
			nopt := r.Range(1, 4)
			opts := make([]string, nopt)
			quoted := make([]string, nopt)
			for j := range opts {
				switch r.Intn(6) {
				case 0:
					opts[j] = fmt.Sprint(r.Range(1, 9))
				case 5:
					opts[j] = r.Pick(decimalOpts) // decimal options: met by float32 / float64 values below
				case 1:
					opts[j] = wordN(r, 1, 2) + "/" + wordN(r, 1, 2) // must be quoted
				case 2:
					opts[j] = r.Pick(cjk) + wordN(r, 0, 2)
				default:
					opts[j] = wordN(r, 1, 3)
				}
				quoted[j] = quoteIfNeeded(opts[j], r.Chance(20))
			}
			text := valid.GenValidKV("in", strings.Join(quoted, "/"))
			var v interface{}
			switch r.Intn(8) {
			case 0:
				v = r.Range(1, 9)
			case 1:
				v = float64(r.Range(1, 9)) // 1.0 renders as "1"
			case 2:
				v = uint8(r.Range(1, 9))
			case 6: // a float32 that is not a dyadic fraction: its text is the SHORTEST decimal of the 32-bit value
				f, _ := strconv.ParseFloat(r.Pick(append([]string{opts[r.Intn(nopt)]}, decimalOpts...)), 32)
				if f == 0 {
					f = 0.1
				}
				v = float32(f)
			case 7:
				f, _ := strconv.ParseFloat(r.Pick(append([]string{opts[r.Intn(nopt)]}, decimalOpts...)), 64)
				if f == 0 {
					f = 0.7
				}
				v = f
			case 3:
				v = editString(r, opts[r.Intn(nopt)])
			default:
				v = opts[r.Intn(nopt)]
			}
			emit("in", text, v, "(FIn "+gal.StrList(opts)+")", nil, verdictCell("in", v, text))
			text2 := valid.GenValidKV("include", strings.Join(quoted, "/"))
			s := r.Pick([]string{"", wordN(r, 0, 2)}) + opts[r.Intn(nopt)] + wordN(r, 0, 2)
			if r.Chance(40) {
				s = editString(r, s)
			}
			emit("include", text2, s, "(FInclude "+gal.StrList(opts)+")", nil, verdictCell("include", s, text2))
		}
		// ---- ints
		{
			seps := []string{"", "-", "、", ";", ",", "ab"}
			sep := seps[r.Intn(len(seps))]
			text := "ints"
			eff := ","
			if sep != "" {
				eff = sep
				text = "ints=" + quoteIfNeeded(sep, r.Chance(30))
			}
			var v interface{}
			switch r.Intn(6) {
			case 0:
				v = []int{r.Range(0, 9), r.Range(-2, 9)}
			case 1:
				v = []string{digitsN(r, 2), r.Pick([]string{"7", "x", "1.5", ""})}
			case 2:
				v = [2]uint8{uint8(r.Intn(9)), 3}
			default:
				k := r.Range(1, 4)
				ps := make([]string, k)
				for j := range ps {
					ps[j] = digitsN(r, r.Range(1, 3))
				}
				s := strings.Join(ps, eff)
				if r.Chance(50) {
					s = editString(r, s)
				}
				v = s
			}
			emit("ints", text, v, "(FInts "+gal.Str(eff)+")", nil, verdictCell("ints", v, text)+sep)
		}
		// ---- unique
		{
			var v interface{}
			switch r.Intn(6) {
			case 0:
				v = []int{r.Range(1, 3), r.Range(1, 3), r.Range(1, 3)}
			case 1:
				v = []float64{1, float64(r.Range(1, 2)), 2.5}
			case 5:
				v = []float32{0.1, float32(r.Range(1, 3)) / 10, 0.3}
			case 2:
				v = []string{wordN(r, 1, 1), wordN(r, 1, 1)}
			default:
				k := r.Range(1, 4)
				ps := make([]string, k)
				for j := range ps {
					ps[j] = r.Pick([]string{"a", "b", "c", "", "中"})
				}
				v = strings.Join(ps, ",")
			}
			emit("unique", "unique", v, "FUnique", nil, verdictCell("unique", v, "unique"))
		}
		// ---- prefix / suffix
		{
			p := r.Pick([]string{"ab", "a,b", "中", "x/y", "http://"})
			s := p + wordN(r, 0, 3)
			if r.Chance(40) {
				s = editString(r, s)
			}
			text := "prefix=" + quoteIfNeeded(p, r.Chance(30))
			emit("prefix", text, s, "(FPrefix "+gal.Str(p)+")", nil, verdictCell("prefix", s, text))
			s2 := wordN(r, 0, 3) + p
			if r.Chance(40) {
				s2 = editString(r, s2)
			}
			text2 := "suffix=" + quoteIfNeeded(p, r.Chance(30))
			emit("suffix", text2, s2, "(FSuffix "+gal.Str(p)+")", nil, verdictCell("suffix", s2, text2))
		}
		// ---- dates: every separator triple from punctuation incl. empty
		{
			punctS := []string{"-", "/", ".", "", " ", ":", "_", "年"}
			s0, s1, s2 := r.Pick(punctS), r.Pick(punctS), r.Pick(punctS)
			t := time.Date(r.Range(1990, 2030), time.Month(r.Range(1, 12)), r.Range(1, 28), r.Range(0, 23), r.Range(0, 59), r.Range(0, 59), 0, time.UTC)
			type dr struct {
				rule, text, layout string
			}
			sepArg := func(s string) string {
				if s == "-" && r.Bool() {
					return ""
				}
				return "=" + quoteIfNeeded(s, s == "" || r.Chance(30))
			}
			a0 := sepArg(s0)
			eff0 := s0
			if a0 == "" {
				eff0 = "-"
			}
			rules := []dr{
				{"year", "year", "2006"},
				{"year2month", "year2month" + a0, "2006" + eff0 + "01"},
				{"date", "date" + a0, "2006" + eff0 + "01" + eff0 + "02"},
			}
			if !strings.Contains(s0+s1+s2, ",") && s0 != "" {
				rules = append(rules, dr{"datetime", "datetime='" + s0 + "," + s1 + "," + s2 + "'", "2006" + s0 + "01" + s0 + "02" + s1 + "15" + s2 + "04" + s2 + "05"})
			}
			rules = append(rules, dr{"datetime", "datetime", "2006-01-02 15:04:05"})
			d := rules[r.Intn(len(rules))]
			s := variants(r, func() string { return t.Format(d.layout) })
			_, perr := time.Parse(d.layout, s)
			orc := newOracles()
			orc.tm[[2]string{d.layout, s}] = perr == nil
			emit(d.rule, d.text, s, "(FOracle "+gal.Bool(perr == nil)+")", orc, verdictCell(d.rule, s, d.text))
		}
		// ---- re: patterns with escaped quotes, alternation, commas
		{
			pats := []string{`^\d+$`, `^(a|b)+$`, `a,b`, `^x\'y$`, `[`, `^中+$`, `^\w{2,3}$`, `a|b,c`}
			pat := pats[r.Intn(len(pats))]
			text := valid.GenValidKV("re", "'"+pat+"'")
			s := variants(r, func() string { return r.Pick([]string{"123", "ab", "a,b", "x'y", "中中", "abc", "b,c"}) })
			matched, _ := regexp.MatchString(pat, s)
			orc := newOracles()
			orc.re[[2]string{pat, s}] = matched
			emit("re", text, s, "(FOracle "+gal.Bool(matched)+")", orc, verdictCell("re", s, text)+pat)
		}
		// ---- ip / ipv4 / ipv6
		{
			rule := r.Pick([]string{"ip", "ipv4", "ipv6"})
			s := variants(r, func() string {
				if r.Bool() {
					return fmt.Sprintf("%d.%d.%d.%d", r.Intn(256), r.Intn(256), r.Intn(300), r.Intn(256))
				}
				return r.Pick([]string{"::1", "fe80::1", "2001:db8::ff00:42:8329", "1:2:3:4:5:6:7:8", "::"})
			})
			ip := net.ParseIP(s)
			if ip != nil && ip.To4() != nil && strings.Contains(s, ":") {
				continue // IPv4-mapped IPv6 text: known finding C05-ipv4-mapped
			}
			orc := newOracles()
			orc.ip[s] = [2]bool{ip != nil, ip != nil && ip.To4() != nil}
			ok := ip != nil
			if rule == "ipv4" {
				ok = ip != nil && !strings.Contains(s, ":")
			} else if rule == "ipv6" {
				ok = ip != nil && strings.Contains(s, ":")
			}
			emit(rule, rule, s, "(FOracle "+gal.Bool(ok)+")", orc, verdictCell(rule, s, rule))
		}
		// ---- json
		{
			s := variants(r, func() string {
				return r.Pick([]string{`{"a":1}`, `[1,2,"x"]`, `"s"`, `12.5e3`, `null`, `{"a":{"b":[true,false]}}`})
			})
			ok := json.Valid([]byte(s))
			orc := newOracles()
			orc.json[s] = ok
			emit("json", "json", s, "(FOracle "+gal.Bool(ok)+")", orc, verdictCell("json", s, "json"))
		}
		// ---- file / dir
		{
			rule := r.Pick([]string{"file", "dir"})
			p := statPaths[i%len(statPaths)]
			orc := newOracles()
			fi, serr := os.Stat(p) // the harness's own direct call of the standard library
			ok := false
			kindOf := "missing"
			if serr == nil {
				isDir := fi.IsDir()
				orc.stat[p] = &isDir
				ok = (rule == "dir") == isDir
				kindOf = fmt.Sprint(isDir)
			} else {
				orc.stat[p] = nil
			}
			emit(rule, rule, p, "(FOracle "+gal.Bool(ok)+")", orc, fmt.Sprintf("%s:%s:%d", rule, kindOf, i%len(statPaths)))
		}
	}

	// ---- several rules on one field, with arguments protected by quotes (by-construction expectations)
	for i := 0; i < n; i++ {
		g := newWgen(r.Fork())
		g.marker = 100000 + i*100
		b := g.buildStruct(0, "")
		call := &walkCall{Entry: "struct", Src: b.val.Addr().Interface()}
		spec := "SNil"
		if len(b.exps) > 0 {
			spec = "SExpect true " + galExps(b.exps)
		}
		term, desc := call.caseTerm([]string{spec, "SNoPanic"})
		w.Add("CW ("+term+")", desc, "multi:"+g.featureCell())
		w.Count("multi-rule-fields")
	}

	// ---- separator triples that read the same when written one after the other but split differently
	tt := time.Date(2021, 3, 4, 5, 6, 7, 0, time.UTC)
	for _, tri := range [][3]string{{"ab", "c", ":"}, {"a", "bc", ":"}, {"a", "b", "c:"}, {"ab", "c", ":"}, {"-", "x", "y"}, {"-x", "", "y"}, {"-", "xy", ""}, {"-", "x", "y"}} {
		layout := "2006" + tri[0] + "01" + tri[0] + "02" + tri[1] + "15" + tri[2] + "04" + tri[2] + "05"
		text := "datetime='" + tri[0] + "," + tri[1] + "," + tri[2] + "'"
		for _, sv := range []string{tt.Format(layout), tt.Format("2006-01-02 15:04:05")} {
			_, perr := time.Parse(layout, sv)
			orc := newOracles()
			orc.tm[[2]string{layout, sv}] = perr == nil
			emit("datetime", text, sv, "(FOracle "+gal.Bool(perr == nil)+")", orc, "directed:datetime-split:"+strings.Join(tri[:], "|")+fmt.Sprint(perr == nil))
		}
		for _, mask := range []int{63, 7, 3, 56} {
			out := valid.GetTimeFmt(int8(mask), tri[0], tri[1], tri[2])
			w.Add(fmt.Sprintf("CTimeFmt %d %s %s", mask, gal.StrList(tri[:]), gal.Str(out)),
				map[string]interface{}{"fn": "GetTimeFmt", "mask": mask, "splits": tri, "out": out}, fmt.Sprintf("timefmt-split:%d:%s", mask, strings.Join(tri[:], "|")))
			w.Count("timefmt")
		}
	}
	// ---- GetTimeFmt itself: all 64 masks x separator lists of length 0..3
	for mask := 0; mask < 64; mask++ {
		for k := 0; k <= 3; k++ {
			seps := make([]string, k)
			for j := range seps {
				seps[j] = r.Pick([]string{"-", "/", "", " ", ":", "年", "T"})
			}
			out := valid.GetTimeFmt(int8(mask), seps...)
			w.Add(fmt.Sprintf("CTimeFmt %d %s %s", mask, gal.StrList(seps), gal.Str(out)),
				map[string]interface{}{"fn": "GetTimeFmt", "mask": mask, "splits": seps, "out": out}, fmt.Sprintf("timefmt:%d:%d", mask, k))
			w.Count("timefmt")
		}
	}

	// known findings replayed on the implementation
	f1 := valid.Var("2021-01-11 23:22:01.5", "datetime") == nil
	f2 := valid.Var("::ffff:1.2.3.4", "ipv4") == nil
	w.Extra["findings"] = []map[string]interface{}{
		{"id": "C05-datetime-fraction", "reproduces": f1, "input": `Var("2021-01-11 23:22:01.5","datetime")`},
		{"id": "C05-ipv4-mapped", "reproduces": f2, "input": `Var("::ffff:1.2.3.4","ipv4")`},
	}
	return w.Flush()
}
