package main

import (
	"fmt"
	"net/url"
	"reflect"
	"strings"

	"gitee.com/xuesongtao/protoc-go-valid/valid"
	"verif/harness/internal/gal"
)

func init() { drivers["C18"] = runC18 }

// the same scalar and the same rule list presented through every entry point; the marker sets must
// be identical (SSame against the Var presentation) and equal to the by-construction expectation
func runC18(c *Ctx) error {
	w := gal.NewWriter("C18", c.Out, "Run.Run_Walk", 120)
	r := c.Rng
	n := 130
	if c.Thorough {
		n = 1800
	}
	marker := 0
	for i := 0; i < n; i++ {
		sp := specimens[r.Intn(len(specimens))]
		rv := reflect.ValueOf(sp.val)
		if rv.Kind() == reflect.Slice { // scalars only
			continue
		}
		k := r.Range(1, 4)
		var rules []string
		var markers []string // markers expected (violated instances), in rule order
		for j := 0; j < k; j++ {
			x := sp.rules[r.Intn(len(sp.rules))]
			marker++
			m := fmt.Sprintf("M%d", marker)
			rules = append(rules, x.text+"|"+m)
			if x.viol {
				markers = append(markers, m)
			}
		}
		tag := strings.Join(rules, ",")
		exps := func(path string) string {
			if len(markers) == 0 {
				return "SNil"
			}
			es := make([]expE, len(markers))
			for j, m := range markers {
				es[j] = expE{"C", path, m}
			}
			return "SExpect true " + galExps(es)
		}
		// reference presentation: Var
		ref := &walkCall{Entry: "var", VarRules: rules, Src: sp.val}
		rerr, rpan, _ := ref.run()
		refObs, _ := galObs(rerr, rpan, false)
		add := func(call *walkCall, path, pres string) {
			term, desc := call.caseTerm([]string{exps(path), "SSame " + refObs, "SNoPanic"})
			desc["presentation"] = pres
			desc["rules"] = tag
			w.Add(term, desc, fmt.Sprintf("%s:%s:viol%d", pres, sp.name, len(markers)))
			w.Count("presentation." + pres)
		}
		add(ref, "", "var")
		// struct field
		st := reflect.StructOf([]reflect.StructField{{Name: "F", Type: rv.Type(), Tag: tagOf(tag)}})
		sv := reflect.New(st).Elem()
		sv.Field(0).Set(rv)
		if r.Chance(40) { // the same type validated a moment ago under another rule for F (this call is judged by its own rule)
			prime := &walkCall{Entry: "struct", Src: sv.Addr().Interface(), HasUnsc: true, Unscoped: map[string]string{"F": "eq=987654|PRIME"}}
			prime.run()
		}
		add(&walkCall{Entry: "struct", Src: sv.Addr().Interface()}, "F", "struct")
		// map[string]T
		mv := reflect.MakeMap(reflect.MapOf(reflect.TypeOf(""), rv.Type()))
		mv.SetMapIndex(reflect.ValueOf("k"), rv)
		add(&walkCall{Entry: "map", Rules: map[string]string{"k": tag}, Src: mv.Interface()}, "map[k]", "map")
		// []map[string]T
		sl := reflect.MakeSlice(reflect.SliceOf(mv.Type()), 2, 2)
		sl.Index(1).Set(mv)
		sl.Index(0).Set(reflect.MakeMap(mv.Type()))
		add(&walkCall{Entry: "map", Rules: map[string]string{"k": tag}, Src: sl.Interface()}, "[1]map[k]", "slicemap")
		// URL (strings only): one or many parameters, any order, raw or percent-encoded
		if s, ok := sp.val.(string); ok {
			params := []string{"k=" + s}
			enc := "raw"
			pick := r.Intn(3)
			if strings.ContainsAny(s, "+%#") { // these bytes have a meaning in a query: only the escaped spelling carries them
				pick = 0
			}
			switch pick {
			case 0:
				params[0] = "k=" + url.QueryEscape(s)
				enc = "encoded"
			case 1: // blanks as %20, everything else raw
				params[0] = "k=" + strings.ReplaceAll(s, " ", "%20")
				enc = "pct20"
			}
			for j := r.Intn(3); j > 0; j-- {
				params = append(params, fmt.Sprintf("p%d=%d", j, j))
			}
			for j := len(params) - 1; j > 0; j-- {
				x := r.Intn(j + 1)
				params[j], params[x] = params[x], params[j]
			}
			add(&walkCall{Entry: "url", Rules: map[string]string{"k": tag}, Src: "http://h.example/a/b?" + strings.Join(params, "&")}, "k", "url-"+enc)
			// a bare key (no '=') after a parameter that has a value: the value is empty, every rule is skipped
			bare := &walkCall{Entry: "url", Rules: map[string]string{"k": tag}, Src: "http://h.example/a/b?z=" + url.QueryEscape(s) + "&k&y=1"}
			term, desc := bare.caseTerm([]string{"SNil", "SNoPanic"})
			desc["presentation"] = "url-bare-key"
			w.Add(term, desc, "url-bare:"+sp.name)
			w.Count("presentation.url-bare")
		}
	}
	// ---- a scalar carried by an embedded field of a named type: the same verdict as the scalar alone
	emitDirectedShapes(w)
	for _, x := range []struct {
		v    interface{}
		rule string
		viol bool
	}{{WAge(200), "to=1~150|T81", true}, {WAge(20), "to=1~150|T81", false}, {WNick("abc"), "to=5~9|T82", true}} {
		spec := "SNil"
		if x.viol {
			spec = "SExpect true " + galExps([]expE{{"C", "", strings.SplitN(x.rule, "|", 2)[1]}})
		}
		call := &walkCall{Entry: "var", VarRules: []string{x.rule}, Src: x.v}
		term, desc := call.caseTerm([]string{spec, "SNoPanic"})
		desc["presentation"] = "var-named-scalar"
		w.Add(term, desc, fmt.Sprintf("named-scalar:%T:%v", x.v, x.viol))
	}
	// ---- directed: every string specimen x every one of its rules x every spelling of the value in a query
	// (QueryEscape: blanks as '+'; blanks as %20; raw when no byte has a meaning in a query)
	for _, sp := range specimens {
		s, ok := sp.val.(string)
		if !ok || s == "" {
			continue
		}
		for ri, x := range sp.rules {
			if strings.ContainsAny(x.text, ",") {
				continue
			}
			m := fmt.Sprintf("M%dq", ri)
			spec := "SNil"
			if x.viol {
				spec = "SExpect true " + galExps([]expE{{"C", "k", m}})
			}
			spellings := map[string]string{"encoded": url.QueryEscape(s)}
			if strings.Contains(s, " ") {
				spellings["pct20"] = strings.ReplaceAll(url.QueryEscape(s), "+", "%20")
			}
			if !strings.ContainsAny(s, "+%#&= ") {
				spellings["raw"] = s
			}
			for _, enc := range []string{"encoded", "pct20", "raw"} {
				v, ok := spellings[enc]
				if !ok {
					continue
				}
				call := &walkCall{Entry: "url", Rules: map[string]string{"k": x.text + "|" + m}, Src: "http://h.example/a?k=" + v}
				term, desc := call.caseTerm([]string{spec, "SNoPanic"})
				desc["presentation"] = "url-" + enc
				desc["rules"] = x.text
				w.Add(term, desc, fmt.Sprintf("directed-url:%s:%s:%s", enc, sp.name, strings.SplitN(x.text, "=", 2)[0]))
				w.Count("presentation.url-directed")
			}
		}
	}
	// ---- rule texts of which one is contained in another, given without messages (Var takes them as separate
	// arguments, the others as one comma-separated text): every one is evaluated
	for _, x := range []struct {
		val   interface{}
		rules []string
	}{
		{"abc", []string{"ints", "int"}}, {"abc", []string{"int", "ints"}}, {40, []string{"le=30", "le=3"}}, {40, []string{"le=3", "le=30"}},
		{"abc", []string{"to=15~20", "to=5~20", "oto=15~20"}}, {7, []string{"ge=90", "ge=9", "ge=90"}}, {"abcd", []string{"noeq=4", "eq=5", "eq=5"}},
		// a rule argument that ends with a blank, as the last thing in the rule text: the blank belongs to the argument
		{"ab", []string{"suffix= "}}, {"xy", []string{"prefix=x "}}, {"ab", []string{"eq=3", "suffix= "}},
	} {
		rv := reflect.ValueOf(x.val)
		tag := strings.Join(x.rules, ",")
		mk := func(path string) string {
			es := make([]expE, len(x.rules))
			for j := range es {
				es[j] = expE{"D", path, ""}
			}
			return "SExpect true " + galExps(es)
		}
		addr := func(call *walkCall, path, pres string) {
			term, desc := call.caseTerm([]string{mk(path), "SNoPanic"})
			desc["presentation"] = pres
			desc["rules"] = tag
			w.Add(term, desc, fmt.Sprintf("contained-rules:%s:%s", pres, tag))
			w.Count("presentation.contained-" + pres)
		}
		addr(&walkCall{Entry: "var", VarRules: x.rules, Src: x.val}, "", "var")
		addr(&walkCall{Entry: "var", VarRules: []string{tag}, Src: x.val}, "", "var-one-text")
		st := reflect.StructOf([]reflect.StructField{{Name: "F", Type: rv.Type(), Tag: tagOf(tag)}})
		sv := reflect.New(st).Elem()
		sv.Field(0).Set(rv)
		addr(&walkCall{Entry: "struct", Src: sv.Addr().Interface()}, "F", "struct")
		mv := reflect.MakeMap(reflect.MapOf(reflect.TypeOf(""), rv.Type()))
		mv.SetMapIndex(reflect.ValueOf("k"), rv)
		addr(&walkCall{Entry: "map", Rules: map[string]string{"k": tag}, Src: mv.Interface()}, "map[k]", "map")
		if s, ok := x.val.(string); ok {
			addr(&walkCall{Entry: "url", Rules: map[string]string{"k": tag}, Src: "http://h.example/a?k=" + s}, "k", "url")
		}
	}
	// ---- zero values: every rule other than required is skipped, through every presentation
	for _, sp := range specimens {
		rv := reflect.ValueOf(sp.val)
		if rv.Kind() == reflect.Slice {
			continue
		}
		zv := reflect.Zero(rv.Type())
		var rules []string
		for j, x := range sp.rules {
			if j >= 6 {
				break
			}
			marker++
			rules = append(rules, fmt.Sprintf("%s|M%d", x.text, marker))
		}
		tag := strings.Join(rules, ",")
		addz := func(call *walkCall, pres string) {
			term, desc := call.caseTerm([]string{"SNil", "SNoPanic"})
			desc["presentation"] = pres
			desc["rules"] = tag
			w.Add(term, desc, fmt.Sprintf("zero:%s:%s", pres, sp.name))
			w.Count("presentation.zero-" + pres)
		}
		addz(&walkCall{Entry: "var", VarRules: rules, Src: zv.Interface()}, "var")
		st := reflect.StructOf([]reflect.StructField{{Name: "F", Type: rv.Type(), Tag: tagOf(tag)}})
		addz(&walkCall{Entry: "struct", Src: reflect.New(st).Interface()}, "struct")
		mv := reflect.MakeMap(reflect.MapOf(reflect.TypeOf(""), rv.Type()))
		mv.SetMapIndex(reflect.ValueOf("k"), zv)
		addz(&walkCall{Entry: "map", Rules: map[string]string{"k": tag}, Src: mv.Interface()}, "map")
		sl := reflect.MakeSlice(reflect.SliceOf(mv.Type()), 1, 1)
		sl.Index(0).Set(mv)
		addz(&walkCall{Entry: "map", Rules: map[string]string{"k": tag}, Src: sl.Interface()}, "slicemap")
		if _, ok := sp.val.(string); ok {
			addz(&walkCall{Entry: "url", Rules: map[string]string{"k": tag}, Src: "http://h.example/a?k=&z=1"}, "url")
		}
	}
	// known findings replayed on the implementation
	f1 := valid.Map(map[string]interface{}{"age": 101}, valid.RM{"age": "to=1~100"}) == nil &&
		valid.Map(map[string]int{"age": 101}, valid.RM{"age": "to=1~100"}) != nil
	f2err := valid.Url("http://a.b?a=x%26yy", valid.RM{"a": "to=5~9"})
	f2 := f2err != nil && strings.Contains(f2err.Error(), `input "x"`)
	w.Extra["findings"] = []map[string]interface{}{
		{"id": "C18-iface-map-values", "reproduces": f1, "input": `Map(map[string]interface{}{"age":101}, age to=1~100) vs map[string]int`},
		{"id": "C18-url-reserved", "reproduces": f2, "input": `Url("http://a.b?a=x%26yy", a to=5~9)`},
	}
	return w.Flush()
}
