package main

import (
	"encoding/json"
	"fmt"
	"reflect"
	"regexp"
	"sync"
	"time"

	"gitee.com/xuesongtao/protoc-go-valid/valid"
	"verif/harness/internal/gal"
)

// one heterogeneous call with its by-construction expectation
type hcall struct {
	id   int
	call *walkCall
	exps []expE
	kind string
}

// deepCopy: a copy that shares no memory with the original (pointers, slices, arrays, maps, structs with exported
// fields), so that a callee that reorders or overwrites the caller's backing array is seen
func deepCopy(v interface{}) interface{} {
	if v == nil {
		return nil
	}
	return deepCopyValue(reflect.ValueOf(v)).Interface()
}

func deepCopyValue(rv reflect.Value) reflect.Value {
	switch rv.Kind() {
	case reflect.Ptr:
		if rv.IsNil() {
			return rv
		}
		n := reflect.New(rv.Elem().Type())
		n.Elem().Set(deepCopyValue(rv.Elem()))
		return n
	case reflect.Slice:
		if rv.IsNil() {
			return rv
		}
		n := reflect.MakeSlice(rv.Type(), rv.Len(), rv.Len())
		for i := 0; i < rv.Len(); i++ {
			n.Index(i).Set(deepCopyValue(rv.Index(i)))
		}
		return n
	case reflect.Array:
		n := reflect.New(rv.Type()).Elem()
		for i := 0; i < rv.Len(); i++ {
			n.Index(i).Set(deepCopyValue(rv.Index(i)))
		}
		return n
	case reflect.Map:
		if rv.IsNil() {
			return rv
		}
		n := reflect.MakeMap(rv.Type())
		for _, k := range rv.MapKeys() {
			n.SetMapIndex(k, deepCopyValue(rv.MapIndex(k)))
		}
		return n
	case reflect.Struct:
		n := reflect.New(rv.Type()).Elem()
		n.Set(rv) // unexported fields are copied by value
		for i := 0; i < rv.NumField(); i++ {
			if n.Field(i).CanSet() {
				n.Field(i).Set(deepCopyValue(rv.Field(i)))
			}
		}
		return n
	case reflect.Interface:
		if rv.IsNil() {
			return rv
		}
		n := reflect.New(rv.Type()).Elem()
		n.Set(deepCopyValue(rv.Elem()))
		return n
	}
	return rv
}

func mkCalls(r *gal.Rng, types []twoTag, n int) []hcall {
	var out []hcall
	for i := 0; i < n; i++ {
		var h hcall
		h.id = i
		switch x := r.Intn(10); {
		case x < 5:
			tt := types[r.Intn(len(types))]
			h.call, h.exps, h.kind = tt.call(r)
			h.kind = "struct:" + h.kind
		case x < 7 && r.Chance(25): // a date rule whose separator no earlier call used: its layout is built inside the call
			m := fmt.Sprintf("M%dd", i)
			sep := fmt.Sprintf("%c%d", "xyzw"[i%4], i)
			rule := r.Pick([]string{"date", "year2month"})
			layout := "2006" + sep + "01"
			if rule == "date" {
				layout += sep + "02"
			}
			val := time.Date(2021, 3, 4, 0, 0, 0, 0, time.UTC).Format(layout)
			if r.Chance(40) {
				val = "2021-03-04"
			}
			_, perr := time.Parse(layout, val)
			orc := newOracles()
			orc.tm[[2]string{layout, val}] = perr == nil
			h.call = &walkCall{Entry: "var", VarRules: []string{rule + "='" + sep + "'|" + m}, Src: val, Orc: orc}
			if perr != nil {
				h.exps = []expE{{"C", "", m}}
			}
			h.kind = "var-date"
		case x == 9 && i == n/2: // one call whose error text is far larger than 64 KB: the calls after it start from a clean buffer
			big := struct {
				L []WLeaf `valid:"exist"`
			}{L: make([]WLeaf, 1800)}
			for k := range big.L {
				big.L[k] = wleaf()
			}
			h.call = &walkCall{Entry: "struct", Src: &big}
			for k := range big.L {
				h.exps = append(h.exps, expE{"C", fmt.Sprintf(".L[%d].S", k), "T1"})
			}
			h.kind = "struct:huge-error"
		case x < 7 && r.Chance(35): // a re rule with a pattern no earlier call used: compiled (and perhaps cached) inside the call
			m := fmt.Sprintf("M%dr", i)
			pat := fmt.Sprintf("^[a-c]{%d}x*%d?$", r.Range(1, 4), i)
			val := r.Pick([]string{"abc", "ab", "abcx", "zz"})
			matched, _ := regexp.MatchString(pat, val)
			orc := newOracles()
			orc.re[[2]string{pat, val}] = matched
			h.call = &walkCall{Entry: "var", VarRules: []string{"re='" + pat + "'|" + m}, Src: val, Orc: orc}
			if !matched {
				h.exps = []expE{{"C", "", m}}
			}
			h.kind = "var-re"
		case x < 7 && r.Chance(30): // slices out of order under the rules that read every element
			m := fmt.Sprintf("M%ds", i)
			type sl struct {
				v    interface{}
				dupe bool
			}
			pick := []sl{{[]string{"b", "a", "b"}, true}, {[]string{"c", "b", "a"}, false}, {[]int{3, 1, 2}, false}, {[]int{2, 1, 2}, true},
				{[]float64{2.5, 1.5}, false}, {[]string{"zz", "y", "zz", "x"}, true}}[r.Intn(6)]
			if r.Bool() {
				h.call = &walkCall{Entry: "var", VarRules: []string{"unique|" + m}, Src: pick.v}
				if pick.dupe {
					h.exps = []expE{{"C", "", m}}
				}
			} else {
				st := reflect.StructOf([]reflect.StructField{{Name: "F", Type: reflect.TypeOf(pick.v), Tag: reflect.StructTag(`valid:"unique|` + m + `"`)}})
				sv := reflect.New(st).Elem()
				sv.Field(0).Set(reflect.ValueOf(pick.v))
				h.call = &walkCall{Entry: "struct", Src: sv.Addr().Interface()}
				if pick.dupe {
					h.exps = []expE{{"C", "F", m}}
				}
			}
			h.kind = "slice-out-of-order"
		case x < 7:
			sp := specimens[r.Intn(len(specimens))]
			rv := sp.rules[r.Intn(len(sp.rules))]
			m := fmt.Sprintf("M%dv", i)
			h.call = &walkCall{Entry: "var", VarRules: []string{rv.text + "|" + m}, Src: sp.val}
			if rv.viol {
				h.exps = []expE{{"C", "", m}}
			}
			h.kind = "var"
		case x < 9:
			m := fmt.Sprintf("M%dm", i)
			val := r.Pick([]string{"", "abc"})
			h.call = &walkCall{Entry: "map", Rules: map[string]string{"k": "required|" + m + ",eq=4|" + m + "e"}, Src: map[string]string{"k": val}}
			if val == "" {
				h.exps = []expE{{"C", "map[k]", m}}
			} else {
				h.exps = []expE{{"C", "map[k]", m + "e"}}
			}
			h.kind = "map"
		case x == 9 && r.Bool(): // a rejected call (typed nil input) that carried a rule set: nothing of it may reach a later call
			var nilSrc interface{} = (*WLeaf)(nil) // a named type: its name has no clause separator inside
			h.call = &walkCall{Entry: "struct", Src: nilSrc, HasUnsc: true, Unscoped: map[string]string{"A": fmt.Sprintf("eq=4|M%dstale", i), "B": fmt.Sprintf("ge=99|M%dstaleB", i)}}
			if r.Bool() {
				h.call.Src = nil
				h.exps = []expE{{"F", "", "F:src is nil"}}
			} else {
				h.exps = []expE{{"F", "", "F:src \"" + reflect.TypeOf(nilSrc).String() + "\" is nil"}}
			}
			h.kind = "struct:nil-src-with-rules"
		default:
			m := fmt.Sprintf("M%du", i)
			val := r.Pick([]string{"", "abc", "13812345678"})
			h.call = &walkCall{Entry: "url", Rules: map[string]string{"k": "required|" + m + ",phone|" + m + "p"}, Src: "http://h.example/p?k=" + val + "&z=1"}
			switch val {
			case "":
				h.exps = []expE{{"C", "k", m}}
			case "abc":
				h.exps = []expE{{"C", "k", m + "p"}}
			}
			h.kind = "url"
		}
		out = append(out, h)
	}
	return out
}

// c12Sequence: a history of heterogeneous calls, then the same calls in a permuted order; every
// result must equal the first one; inputs and rule maps must be left unmodified; earlier error
// strings and tokens must still read the same at the end
func c12Sequence(r *gal.Rng, enc *json.Encoder, types []twoTag, n int, cfg string) {
	calls := mkCalls(r, types, n)
	first := map[int]string{}
	type kept struct {
		id   int
		s    string
		copy []byte
	}
	var keptErrs []kept
	var viol []interface{}
	toks := valid.ValidNamesSplit("required|必填,phone|'手机号码必填,同时正确',re='\\d+{1,2}'")
	toksCopy := make([]string, len(toks))
	for i, t := range toks {
		toksCopy[i] = string([]byte(t))
	}
	run := func(h hcall, round string) {
		src0 := deepCopy(h.call.Src)
		var rules0 map[string]string
		if h.call.Rules != nil {
			rules0 = map[string]string{}
			for k, v := range h.call.Rules {
				rules0[k] = v
			}
		}
		errText, _ := emitCall(enc, h.call, h.exps, fmt.Sprintf("%s:%s:%s", cfg, round, h.kind), map[string]interface{}{"call": h.id, "round": round})
		if !reflect.DeepEqual(src0, h.call.Src) {
			viol = append(viol, map[string]interface{}{"kind": "input-modified", "call": h.id, "entry": h.call.Entry})
		}
		if rules0 != nil && !reflect.DeepEqual(rules0, h.call.Rules) {
			viol = append(viol, map[string]interface{}{"kind": "rule-map-modified", "call": h.id})
		}
		if prev, ok := first[h.id]; ok {
			if prev != errText {
				viol = append(viol, map[string]interface{}{"kind": "result-depends-on-history", "call": h.id, "entry": h.call.Entry, "first": prev, "later": errText, "round": round})
			}
		} else {
			first[h.id] = errText
		}
		// keep the real error string (not the description's copy) to re-read it later
		if err, _, _ := h.call.run(); err != nil && len(keptErrs) < 400 {
			s := err.Error()
			keptErrs = append(keptErrs, kept{h.id, s, []byte(s)})
		}
	}
	for _, h := range calls {
		run(h, "first")
	}
	// permutation
	perm := make([]int, len(calls))
	for i := range perm {
		perm[i] = i
	}
	for i := len(perm) - 1; i > 0; i-- {
		j := r.Intn(i + 1)
		perm[i], perm[j] = perm[j], perm[i]
	}
	for _, i := range perm {
		run(calls[i], "permuted")
	}
	for _, k := range keptErrs {
		if k.s != string(k.copy) {
			viol = append(viol, map[string]interface{}{"kind": "error-text-changed-later", "call": k.id, "now": k.s, "was": string(k.copy)})
		}
	}
	for i := range toks {
		if toks[i] != toksCopy[i] {
			viol = append(viol, map[string]interface{}{"kind": "token-changed-later", "index": i, "now": toks[i], "was": toksCopy[i]})
		}
	}
	_ = enc.Encode(caseLine{Viol: viol})
}

// c11Concurrent: goroutines issue random call streams at the same time; each result is compared
// with the result of the same call run alone afterwards, and a sample is handed to Coq
func c11Concurrent(r *gal.Rng, enc *json.Encoder, types []twoTag, n int, cfg string) {
	var viol []interface{}
	for round := 0; round < 3; round++ {
		g := []int{2, 8, 32}[round]
		per := n / g
		if per < 2 {
			per = 2
		}
		streams := make([][]hcall, g)
		for t := range streams {
			pool := types
			if t%2 == 1 { // private types for odd goroutines, shared ones for even
				pool = types[(t*3)%len(types) : (t*3)%len(types)+1]
			}
			streams[t] = mkCalls(r.Fork(), pool, per)
		}
		results := make([][]string, g)
		panics := make([]string, g)
		var wg sync.WaitGroup
		start := make(chan struct{})
		for t := 0; t < g; t++ {
			wg.Add(1)
			results[t] = make([]string, per)
			go func(t int) {
				defer wg.Done()
				defer func() {
					if p := recover(); p != nil {
						panics[t] = fmt.Sprint(p)
					}
				}()
				<-start
				for i, h := range streams[t] {
					err, pan, pt := h.call.run()
					switch {
					case pan:
						results[t][i] = "PANIC " + pt
					case err != nil:
						results[t][i] = err.Error()
					}
				}
			}(t)
		}
		close(start)
		wg.Wait()
		// alone, afterwards
		for t := 0; t < g; t++ {
			if panics[t] != "" {
				viol = append(viol, map[string]interface{}{"kind": "panic", "goroutine": t, "panic": panics[t]})
			}
			for i, h := range streams[t] {
				err, pan, pt := h.call.run()
				solo := ""
				switch {
				case pan:
					solo = "PANIC " + pt
				case err != nil:
					solo = err.Error()
				}
				if solo != results[t][i] {
					viol = append(viol, map[string]interface{}{"kind": "result-differs-from-solo", "goroutines": g, "entry": h.call.Entry, "concurrent": results[t][i], "solo": solo})
				}
				if i < 3 { // a sample goes to Coq: the (solo) observation against model and expectation
					emitCall(enc, h.call, h.exps, fmt.Sprintf("%s:g%d:%s", cfg, g, h.kind), map[string]interface{}{"goroutines": g, "concurrent_result": results[t][i]})
				}
			}
		}
	}
	_ = enc.Encode(caseLine{Viol: viol})
}

func runC12(c *Ctx) error {
	w := gal.NewWriter("C12", c.Out, "Run.Run_Walk", 200)
	n := 250
	if c.Thorough {
		n = 3000
	}
	v, err := runWorkers(c, w, "c12", []string{"default", "lru1", "miss"}, n)
	if err != nil {
		return err
	}
	w.Extra["violations"] = v
	return w.Flush()
}

func runC11(c *Ctx) error {
	w := gal.NewWriter("C11", c.Out, "Run.Run_Walk", 200)
	n := 600
	if c.Thorough {
		n = 6000
	}
	v, err := runWorkers(c, w, "c11", []string{"default", "lru2", "lru0"}, n)
	if err != nil {
		return err
	}
	if !raceEnabled {
		v = append(v, map[string]interface{}{"kind": "harness-not-race-built", "note": "the driver was built without -race; data races cannot be observed"})
	}
	w.Extra["violations"] = v
	w.Extra["x_race_build"] = raceEnabled
	return w.Flush()
}
