package main

import (
	opb "verif/harness/internal/orders/pb"
	upb "verif/harness/internal/users/pb"

	"fmt"
	"os"
	"os/exec"
	"reflect"
	"strconv"
	"strings"

	"gitee.com/xuesongtao/protoc-go-valid/valid"
	"verif/harness/internal/gal"
)

func init() { drivers["C16"] = runC16 }

// ---- the expectation: the property's text, executed on the fixed object graph wtop() ----

type c16cfg struct {
	typed    map[string]map[string]string // type name -> rule set (nil entry = not registered)
	unscoped map[string]string
	hasUnsc  bool
	local    map[string]string // name -> marker tag
	global   map[string]string
}

var c16Builtin = map[string]bool{"required": true, "exist": true, "either": true, "botheq": true}
var c16Known = map[string]bool{"to": true, "eq": true, "ge": true, "le": true, "phone": true}

// verdict of the few rules this driver uses, on "abc" / 7
func c16Violated(key, arg string, v reflect.Value) bool {
	var m int64
	if v.Kind() == reflect.String {
		m = int64(len([]rune(v.String())))
	} else {
		m = v.Int()
	}
	switch key {
	case "to":
		p := strings.Split(arg, "~")
		lo, _ := strconv.ParseInt(p[0], 10, 64)
		hi, _ := strconv.ParseInt(p[1], 10, 64)
		return m < lo || m > hi
	case "eq":
		n, _ := strconv.ParseInt(arg, 10, 64)
		return m != n
	case "ge":
		n, _ := strconv.ParseInt(arg, 10, 64)
		return m < n
	case "le":
		n, _ := strconv.ParseInt(arg, 10, 64)
		return m > n
	case "phone":
		return true
	}
	return false
}

// the key of a type in cf.typed: its name, qualified by the package path when it is not declared in package main
func c16Key(t reflect.Type) string {
	if t.PkgPath() != "" && t.PkgPath() != "main" {
		return t.PkgPath() + "." + t.Name()
	}
	return t.Name()
}

func (cf *c16cfg) effective(tagRule, typeName, field string, outermost bool) string {
	cus := cf.typed[typeName]
	if outermost && len(cus) == 0 && cf.hasUnsc {
		cus = cf.unscoped
	}
	if r := cus[field]; r != "" {
		return r
	}
	return tagRule
}

func (cf *c16cfg) resolve(name string) (kind string, tag string) { // fn | mark | builtin | unknown
	if t, ok := cf.local[name]; ok {
		if t == "" { // a per-call entry holding a nil function: the rule does nothing (the extension rules keep their built-in meaning)
			if c16Builtin[name] {
				return "builtin", ""
			}
			return "silent", ""
		}
		return "mark", t
	}
	if t, ok := cf.global[name]; ok {
		return "mark", t
	}
	if c16Builtin[name] {
		return "builtin", ""
	}
	if c16Known[name] {
		return "fn", ""
	}
	return "unknown", ""
}

func (cf *c16cfg) expectStruct(v reflect.Value, structName string, outermost bool) []expE {
	t := v.Type()
	var out []expE
	sn := structName
	if outermost {
		sn = t.Name()
	}
	for i := 0; i < t.NumField(); i++ {
		f := t.Field(i)
		if f.PkgPath != "" || f.Type == timeType {
			continue
		}
		rules := cf.effective(f.Tag.Get("valid"), c16Key(t), f.Name, outermost)
		if rules == "" {
			continue
		}
		fv := v.Field(i)
		for _, rule := range strings.Split(rules, ",") {
			if rule == "" {
				continue
			}
			body, marker := rule, ""
			if j := strings.Index(rule, "|"); j >= 0 {
				body, marker = rule[:j], rule[j+1:]
			}
			key, arg := body, ""
			if j := strings.Index(body, "="); j >= 0 {
				key, arg = body[:j], body[j+1:]
			}
			kind, tag := cf.resolve(key)
			path := joinPath(sn, f.Name)
			switch kind {
			case "silent":
				continue
			case "unknown":
				out = append(out, expE{"F", fieldErrPath(sn, f.Name), `F:valid "` + key + `" is not exist, You can call SetValidFn`})
			case "mark":
				if !fv.IsZero() {
					out = append(out, expE{"C", path, "FN" + tag})
				}
			case "fn":
				if key == "phone" && !fv.IsZero() && fv.Kind() != reflect.String {
					out = append(out, expE{"D", path, ""}) // "it must is string": default wording, no custom message
					continue
				}
				if !fv.IsZero() && (fv.Kind() == reflect.String || fv.Kind() == reflect.Int) && c16Violated(key, arg, fv) {
					out = append(out, expE{"C", path, marker})
				}
			case "builtin":
				if key != "required" && key != "exist" {
					continue
				}
				empty := fv.IsZero() || ((fv.Kind() == reflect.Slice || fv.Kind() == reflect.Map) && fv.Len() == 0)
				if empty {
					if key == "required" {
						out = append(out, expE{"C", path, marker})
					}
					continue
				}
				child := sn + "." + f.Name
				switch fv.Kind() {
				case reflect.Struct:
					out = append(out, cf.expectStruct(fv, child, false)...)
				case reflect.Ptr:
					out = append(out, cf.expectStruct(fv.Elem(), child, false)...)
				case reflect.Slice:
					for k := 0; k < fv.Len(); k++ {
						out = append(out, cf.expectStruct(fv.Index(k), fmt.Sprintf("%s[%d]", child, k), false)...)
					}
				default:
					if key == "exist" { // a scalar under exist: "nonsupport" clause (custom message if any)
						if marker != "" {
							out = append(out, expE{"C", path, marker})
						} else {
							out = append(out, expE{"D", path, ""})
						}
					}
				}
			}
		}
	}
	return out
}

func runC16(c *Ctx) error {
	// global registration is process-wide: run in a child process
	if os.Getenv("VERIF_C16_CHILD") == "" {
		self, err := os.Executable()
		if err != nil {
			return err
		}
		cmd := exec.Command(self, "-prop", "C16", "-tier", c.Tier, "-seed", strconv.FormatUint(c.Seed, 10), "-out", c.Out)
		cmd.Env = append(os.Environ(), "VERIF_C16_CHILD=1")
		cmd.Stdout, cmd.Stderr = os.Stdout, os.Stderr
		return cmd.Run()
	}
	globals := map[string]string{"gfn": "G1", "ge": "G2"} // "ge" shadows the built-in
	for name, tag := range globals {
		valid.SetCustomerValidFn(name, markFn(tag))
	}
	w := gal.NewWriter("C16", c.Out, "Run.Run_Walk", 80)
	r := c.Rng
	n := 450
	if c.Thorough {
		n = 6000
	}
	marker := 0
	mark := func() string { marker++; return fmt.Sprintf("M%d", marker) }
	scalarRules := func() string {
		var parts []string
		for k := r.Range(1, 3); k > 0; k-- {
			switch r.Intn(9) {
			case 0:
				parts = append(parts, "eq=4|"+mark()) // violated by "abc" and by 7
			case 1:
				parts = append(parts, "eq=3|"+mark()) // satisfied by "abc"
			case 2:
				parts = append(parts, "to=5~9|"+mark())
			case 3:
				parts = append(parts, "ge=9|"+mark()) // resolves to the GLOBAL function registered under "ge"
			case 4:
				parts = append(parts, "nosuch|"+mark())
			case 5:
				parts = append(parts, "gfn")
			case 6:
				parts = append(parts, "lfn")
			case 7:
				parts = append(parts, "le=9|"+mark())
			default:
				parts = append(parts, "phone|"+mark())
			}
		}
		return strings.Join(parts, ",")
	}
	structRules := func() string {
		return r.Pick([]string{"required|" + mark(), "exist", "exist|" + mark(), "to=1~2|" + mark(), "nosuch"})
	}
	for i := 0; i < n; i++ {
		cf := &c16cfg{typed: map[string]map[string]string{}, global: globals, local: map[string]string{}}
		call := &walkCall{Entry: "struct", Global: globals}
		feat := []string{}
		for _, tn := range []string{"WLeaf", "WMid", "WTop", "WNode", "verif/harness/internal/orders/pb.Item", "verif/harness/internal/users/pb.Item"} {
			switch r.Intn(4) {
			case 0: // not registered
			case 1: // registered, empty
				cf.typed[tn] = map[string]string{}
				feat = append(feat, tn+":empty")
			default:
				rm := map[string]string{}
				if r.Chance(70) {
					rm["S"] = scalarRules()
				}
				switch tn {
				case "WLeaf":
					if r.Chance(40) {
						rm["N"] = scalarRules()
					}
					if r.Chance(15) {
						rm["hidden"] = scalarRules()
					}
				case "WMid":
					if r.Chance(40) {
						rm[r.Pick([]string{"A", "P", "Ls", "D"})] = structRules()
					}
				case "WTop":
					if r.Chance(40) {
						rm[r.Pick([]string{"Mid", "PMid"})] = structRules()
					}
				}
				if r.Chance(15) {
					rm["NoSuchField"] = "required"
				}
				cf.typed[tn] = rm
				feat = append(feat, fmt.Sprintf("%s:%d", tn, len(rm)))
			}
		}
		for tn, rm := range cf.typed {
			var obj interface{}
			switch tn {
			case "WLeaf":
				obj = &WLeaf{}
				if len(rm)%2 == 1 { // a typed nil pointer designates the type just as well
					obj = (*WLeaf)(nil)
				}
			case "WNode":
				obj = &WNode{}
			case "verif/harness/internal/orders/pb.Item":
				obj = &opb.Item{}
			case "verif/harness/internal/users/pb.Item":
				obj = upb.Item{}
			case "WMid":
				obj = WMid{}
				if len(rm)%2 == 0 {
					obj = &WMid{}
				}
			default:
				obj = &WTop{}
			}
			call.Typed = append(call.Typed, typedRule{Obj: obj, Rule: rm})
		}
		if r.Chance(60) {
			cf.hasUnsc = true
			cf.unscoped = map[string]string{}
			if r.Chance(80) {
				cf.unscoped["S"] = scalarRules()
			}
			if r.Chance(30) {
				cf.unscoped["Mid"] = structRules()
			}
			call.HasUnsc, call.Unscoped = true, cf.unscoped
			feat = append(feat, fmt.Sprintf("unscoped:%d", len(cf.unscoped)))
		}
		if r.Chance(50) {
			cf.local["lfn"] = "L1"
		}
		if r.Chance(25) {
			cf.local["ge"] = "L2" // this call's function beats the global one
			feat = append(feat, "local-beats-global")
		}
		if r.Chance(20) {
			cf.local["to"] = "L3" // this call's function beats the built-in
			feat = append(feat, "local-beats-builtin")
		}
		if r.Chance(18) {
			cf.local["required"] = "L4" // a per-call function under the name of an extension rule replaces it for this call
			feat = append(feat, "local-beats-required")
		}
		if r.Chance(12) {
			cf.local["exist"] = "L5"
			feat = append(feat, "local-beats-exist")
		}
		if r.Chance(25) { // a per-call entry whose function is nil, under a built-in, a global, a per-call-only or an unknown name
			name := r.Pick([]string{"to", "ge", "phone", "eq", "lfn", "required", "exist", "nosuch", "in"})
			cf.local[name] = ""
			feat = append(feat, "local-nil:"+name)
		}
		call.Local = cf.local
		// the input: the outermost struct, or a pointer to it, or (no outermost struct) a slice of it
		top := wtop()
		var exps []expE
		shape := r.Intn(9)
		switch shape {
		case 7, 8: // two different types that print the same name: a typed rule set belongs to one of them only
			tw := wtwo()
			call.Src = &tw
			exps = cf.expectStruct(reflect.ValueOf(tw), "", true)
			feat = append(feat, "same-name-types")
		case 5, 6: // a self-referential type: only the outermost object may take the unscoped rule set
			nd := wnode()
			call.Src = &nd
			exps = cf.expectStruct(reflect.ValueOf(nd), "", true)
			feat = append(feat, "top-node")
		case 0:
			call.Src = top
			exps = cf.expectStruct(reflect.ValueOf(top), "", true)
		case 1, 2:
			call.Src = &top
			exps = cf.expectStruct(reflect.ValueOf(top), "", true)
		case 3: // elements of a top-level slice are not "the outermost struct"
			call.Src = []WTop{top, top}
			for k := 0; k < 2; k++ {
				exps = append(exps, cf.expectStruct(reflect.ValueOf(top), fmt.Sprintf("main.WTop[%d]", k), false)...)
			}
			feat = append(feat, "top-slice")
		default:
			m := wmid()
			call.Src = &m
			exps = cf.expectStruct(reflect.ValueOf(m), "", true)
			feat = append(feat, "top-mid")
		}
		spec := "SNil"
		if len(exps) > 0 {
			spec = "SExpect true " + galExps(exps)
		}
		term, desc := call.caseTerm([]string{spec, "SNoPanic"})
		desc["typed"] = cf.typed
		desc["unscoped"] = cf.unscoped
		desc["local"] = cf.local
		desc["global"] = globals
		desc["expected"] = len(exps)
		w.Add(term, desc, strings.Join(feat, "+"))
		w.Count(fmt.Sprintf("shape.%d", shape))
	}
	return w.Flush()
}
