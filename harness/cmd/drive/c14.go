package main

import (
	"fmt"
	"strings"

	"gitee.com/xuesongtao/protoc-go-valid/valid"
	"verif/harness/internal/gal"
)

func init() { drivers["C14"] = runC14 }

var ruleKeys = []string{"required", "exist", "either", "botheq", "to", "ge", "le", "oto", "gt", "lt", "eq", "noeq", "in", "include",
	"phone", "email", "idcard", "year", "year2month", "date", "datetime", "int", "ints", "float", "re", "ip", "ipv4", "ipv6",
	"unique", "json", "prefix", "suffix", "file", "dir"}

type rule3 struct {
	K, V string
	M    *string
}

func triple(k, v, m string) string {
	return "(" + gal.Str(k) + ", " + gal.Str(v) + ", " + gal.Str(m) + ")"
}

// a value in the property's alphabet: ASCII, CJK, '=', '~', '/', '(', ')', quoted segments with commas; never '|'
func c14Value(r *gal.Rng, key string) string {
	if key == "re" {
		body := randWord(r, [][]string{asciiLetters, {"\\d", "+", "[0-9]", "^", "$", "(", ")", ",", ".", "*", "=", "~"}, cjk}, 1, 6)
		return "'" + body + "'"
	}
	n := r.Range(1, 4)
	var b strings.Builder
	for i := 0; i < n; i++ {
		switch r.Intn(6) {
		case 0:
			b.WriteString("'" + randWord(r, [][]string{asciiLetters, {",", ",", "/", " "}, cjk}, 0, 4) + "'")
		case 1:
			b.WriteString(randWord(r, [][]string{cjk}, 1, 2))
		case 2:
			b.WriteString(randWord(r, [][]string{{"~", "/", "(", ")", "=", "-", ":", " "}}, 1, 2))
		default:
			b.WriteString(randWord(r, [][]string{asciiLetters}, 1, 3))
		}
	}
	s := b.String()
	if strings.HasPrefix(s, "=") {
		s = "v" + s
	}
	return s
}

func c14Msg(r *gal.Rng) string {
	n := r.Range(1, 3)
	var b strings.Builder
	for i := 0; i < n; i++ {
		switch r.Intn(7) {
		case 0:
			b.WriteString("'" + randWord(r, [][]string{asciiLetters, {","}, cjk}, 0, 4) + "'")
		case 1, 2:
			b.WriteString(randWord(r, [][]string{cjk}, 1, 3))
		case 3:
			b.WriteString(randWord(r, [][]string{{"=", "|", "~", " ", "(", ")", "/"}}, 1, 2))
		default:
			b.WriteString(randWord(r, [][]string{asciiLetters}, 1, 3))
		}
	}
	s := b.String()
	if r.Chance(10) && s[0] != '\'' {
		s = s[:1] // one-byte messages (may cut a multi-byte rune: still a non-empty byte string)
	}
	return s
}

func runC14(c *Ctx) error {
	w := gal.NewWriter("C14", c.Out, "Run.Run_C14", 800)
	r := c.Rng
	scale := 1
	if c.Thorough {
		scale = 12
	}

	// corpus: witnesses of repaired defects run first (D13) and documented examples
	for _, s := range []string{"required|x", "to=1~2|x", "required|a=b", "required|必填", "to=1~2|大于等于 1 且小于等于 2", "re='a|b'", "required|", "to=|", "=", "|", "a=b=c|d|e", "in=(a|b)"} {
		k, v, m := valid.ParseValidNameKV(s)
		w.Add("CParse "+gal.Str(s)+" "+gal.Str(k)+" "+gal.Str(v)+" "+gal.Str(m), map[string]interface{}{"fn": "ParseValidNameKV", "in": s, "out": []string{k, v, m}}, "parse:corpus:"+s)
		w.Count("parse.corpus")
	}

	// 1. ParseValidNameKV
	for i := 0; i < 400*scale; i++ {
		var s, cls string
		switch r.Intn(3) {
		case 0:
			key := r.Pick(ruleKeys)
			s = key
			cls = "k"
			if r.Bool() {
				s += "=" + c14Value(r, key)
				cls += "v"
			}
			if r.Bool() {
				s += "|" + c14Msg(r)
				cls += "m"
			}
		case 1:
			s = randWord(r, [][]string{asciiLetters, {"=", "|", "|", "="}, cjk, badUtf8}, 0, 8)
			cls = "mixed"
		default:
			s = randBytes(r, 12)
			cls = "bytes"
		}
		k, v, m := valid.ParseValidNameKV(s)
		cell := fmt.Sprintf("parse:%s:eq%d:bar%d:zh%v:msg%v", cls, min(strings.Count(s, "="), 2), min(strings.Count(s, "|"), 2), strings.HasPrefix(m, "说明:"), m != "")
		w.Add("CParse "+gal.Str(s)+" "+gal.Str(k)+" "+gal.Str(v)+" "+gal.Str(m), map[string]interface{}{"fn": "ParseValidNameKV", "in": s, "out": []string{k, v, m}}, cell)
		w.Count("parse." + cls)
	}

	// 2. ValidNamesSplit
	var prevOut, prevCopy []string
	var prevIn string
	var splitViolations []interface{}
	for i := 0; i < 400*scale; i++ {
		var s string
		sep := byte(',')
		cls := "comma"
		switch r.Intn(10) {
		case 0:
			sep = '/'
			cls = "slash"
		case 1:
			sep = byte(r.Intn(256))
			cls = "anysep"
		}
		switch r.Intn(3) {
		case 0:
			s = randWord(r, [][]string{{"a", "b", "c"}, {string([]byte{sep})}, {"'"}, {"中", "|", "="}}, 0, 14)
		case 1:
			s = randWord(r, [][]string{{"a", "b"}, {string([]byte{sep})}}, 0, 10)
		default:
			s = randBytes(r, 14)
		}
		var out []string
		if sep == ',' && r.Bool() {
			out = valid.ValidNamesSplit(s)
		} else {
			out = valid.ValidNamesSplit(s, sep)
		}
		// the pieces handed out by the PREVIOUS call must still read the same after this call
		for j := range prevOut {
			if j < len(prevCopy) && prevOut[j] != prevCopy[j] && len(splitViolations) < 10 {
				splitViolations = append(splitViolations, map[string]interface{}{"kind": "pieces-changed-after-a-later-split",
					"earlier_input": prevIn, "piece": j, "was": prevCopy[j], "now": prevOut[j], "later_input": s})
			}
		}
		prevOut, prevIn = out, s
		prevCopy = make([]string, len(out))
		for j := range out {
			prevCopy[j] = string([]byte(out[j]))
		}
		cell := fmt.Sprintf("split:%s:q%d:sep%d:n%d", cls, min(strings.Count(s, "'"), 3), min(strings.Count(s, string([]byte{sep})), 3), min(len(out), 4))
		w.Add("CSplit "+gal.Str(s)+" "+gal.N(uint64(sep))+" "+gal.StrList(out), map[string]interface{}{"fn": "ValidNamesSplit", "in": s, "sep": int(sep), "out": out}, cell)
		w.Count("split." + cls)
	}

	// 3. GenValidKV
	for i := 0; i < 300*scale; i++ {
		key := r.Pick(ruleKeys)
		if r.Chance(15) {
			key = randWord(r, [][]string{asciiLetters, cjk}, 0, 4)
		}
		nv := r.Intn(4)
		vals := make([]string, nv)
		for j := range vals {
			switch r.Intn(6) {
			case 0:
				vals[j] = ""
			case 1:
				vals[j] = "=" + randWord(r, [][]string{asciiLetters}, 0, 3)
			case 2:
				vals[j] = "'" + randWord(r, [][]string{asciiLetters, {"'"}}, 0, 3)
			case 3:
				vals[j] = randWord(r, [][]string{asciiLetters}, 1, 1) + "'" + randWord(r, [][]string{asciiLetters}, 0, 2)
			default:
				vals[j] = randWord(r, [][]string{asciiLetters, cjk, punct}, 1, 5)
			}
		}
		out := valid.GenValidKV(key, vals...)
		cell := fmt.Sprintf("gen:%s:n%d", key, nv)
		if nv > 0 {
			cell += fmt.Sprintf(":e%v:eq%v:q%v", vals[0] == "", strings.HasPrefix(vals[0], "="), strings.Contains(vals[0], "'"))
		}
		w.Add("CGen "+gal.Str(key)+" "+gal.StrList(vals)+" "+gal.Str(out), map[string]interface{}{"fn": "GenValidKV", "key": key, "values": vals, "out": out}, cell)
		w.Count("gen")
	}

	// 4. RM.Set / Get
	for i := 0; i < 150*scale; i++ {
		rm := valid.NewRule()
		nset := r.Range(0, 5)
		fieldsPool := []string{"A", "B", "C", "名", ""}
		var sets []string
		var setsDesc []interface{}
		for j := 0; j < nset; j++ {
			nf := r.Range(1, 3)
			fs := make([]string, nf)
			for k := range fs {
				fs[k] = r.Pick(fieldsPool)
			}
			fields := strings.Join(fs, ",")
			nr := r.Range(0, 3)
			rules := make([]string, nr)
			for k := range rules {
				rules[k] = r.Pick([]string{"required", "to=1~2", "in=(a/b)|m", "", "re='a,b'", "eq=3"})
			}
			rm.Set(fields, rules...)
			sets = append(sets, "("+gal.Str(fields)+", "+gal.StrList(rules)+")")
			setsDesc = append(setsDesc, map[string]interface{}{"fields": fields, "rules": rules})
		}
		var gets []string
		getsDesc := map[string]string{}
		for _, f := range append(fieldsPool, "Missing") {
			v := rm.Get(f)
			gets = append(gets, "("+gal.Str(f)+", "+gal.Str(v)+")")
			getsDesc[f] = v
		}
		w.Add("CRm "+gal.List(sets)+" "+gal.List(gets), map[string]interface{}{"fn": "RM.Set/Get", "sets": setsDesc, "gets": getsDesc}, fmt.Sprintf("rm:n%d", nset))
		w.Count("rm")
	}

	// 5. structured round trip: builder -> Set -> Get -> split -> parse
	for i := 0; i < 400*scale; i++ {
		n := r.Range(1, 5)
		rules := make([]rule3, n)
		field := r.Pick([]string{"Name", "Age", "名字", "f"})
		rm := valid.NewRule()
		var terms []string
		var descs []interface{}
		cls := ""
		for j := range rules {
			key := r.Pick(ruleKeys)
			rl := rule3{K: key}
			if r.Chance(60) {
				rl.V = c14Value(r, key)
			}
			if r.Chance(55) {
				m := c14Msg(r)
				rl.M = &m
			}
			rules[j] = rl
			var text string
			switch {
			case rl.V == "" && rl.M == nil:
				text = valid.GenValidKV(rl.K)
				cls += "k"
			case rl.M == nil:
				text = valid.GenValidKV(rl.K, rl.V)
				cls += "v"
			default:
				text = valid.GenValidKV(rl.K, rl.V, *rl.M)
				if rl.V == "" {
					cls += "m"
				} else {
					cls += "b"
				}
			}
			rm.Set(field, text)
			terms = append(terms, "("+gal.Str(rl.K)+", "+gal.Str(rl.V)+", "+gal.OptStr(rl.M)+")")
			descs = append(descs, map[string]interface{}{"key": rl.K, "value": rl.V, "msg": rl.M, "built": text})
		}
		var outs []string
		var outDesc [][]string
		for _, piece := range valid.ValidNamesSplit(rm.Get(field)) {
			k, v, m := valid.ParseValidNameKV(piece)
			outs = append(outs, triple(k, v, m))
			outDesc = append(outDesc, []string{k, v, m})
		}
		w.Add("CRound "+gal.Str(field)+" "+gal.List(terms)+" "+gal.List(outs), map[string]interface{}{"fn": "round-trip", "field": field, "rules": descs, "out": outDesc}, "round:"+cls)
		w.Count("round")
	}
	// known finding D14: a '|' inside a value (GenValidKV("in","a|b")) does not round-trip
	{
		k, v, m := valid.ParseValidNameKV(valid.GenValidKV("in", "a|b"))
		w.Extra["findings"] = []map[string]interface{}{{
			"id": "C14-bar-in-value", "reproduces": !(k == "in" && v == "(a|b)" && m == ""),
			"input": `ParseValidNameKV(GenValidKV("in","a|b"))`, "observed": []string{k, v, m},
		}}
	}
	if len(splitViolations) > 0 {
		w.Extra["violations"] = splitViolations
	}
	return w.Flush()
}
