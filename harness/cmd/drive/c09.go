package main

import (
	"fmt"
	"strconv"
	"strings"

	"gitee.com/xuesongtao/protoc-go-valid/valid"
	"verif/harness/internal/gal"
)

func init() { drivers["C09"] = runC09 }

type lruOp struct {
	kind int // 0 store 1 load 2 delete 3 len
	k, v int
}

// the same alphabet, in the same order, as Run_C09.alphabet
var lruAlphabet = []lruOp{
	{0, 0, 1}, {0, 0, 2}, {0, 1, 1}, {0, 1, 2}, {0, 2, 1}, {0, 2, 2},
	{1, 0, 0}, {1, 1, 0}, {1, 2, 0}, {2, 0, 0}, {2, 1, 0}, {2, 2, 0}, {3, 0, 0},
}

func (o lruOp) String() string {
	switch o.kind {
	case 0:
		return fmt.Sprintf("Store(%d,%d)", o.k, o.v)
	case 1:
		return fmt.Sprintf("Load(%d)", o.k)
	case 2:
		return fmt.Sprintf("Delete(%d)", o.k)
	}
	return "Len()"
}

// how the abstract keys / values (small numbers) are presented to the cache, which takes interface{}:
//
//	rep 0: ints                                   rep 1: string keys, []int values (not comparable with ==)
//	rep 2: key 0 is the nil interface, the others are *int; value 2 is the nil interface, the others are structs holding a slice
type lruVal struct{ S []int }

var lruPtrKeys = func() []*int {
	ps := make([]*int, 2000)
	for i := range ps {
		x := i
		ps[i] = &x
	}
	return ps
}()

func lruKey(k, rep int) interface{} {
	switch rep {
	case 1:
		return "k" + strconv.Itoa(k)
	case 2:
		if k == 0 {
			return nil
		}
		return lruPtrKeys[k]
	}
	return k
}
func lruValue(v, rep int) interface{} {
	switch rep {
	case 1:
		return []int{v}
	case 2:
		if v == 2 {
			return nil // a stored nil is a value like any other: the entry is live
		}
		return lruVal{[]int{v}}
	}
	return v
}
func lruUnKey(key interface{}, rep int) int {
	switch x := key.(type) {
	case int:
		return x
	case string:
		n, _ := strconv.Atoi(x[1:])
		return n
	case *int:
		return *x
	case nil:
		if rep == 2 {
			return 0
		}
	}
	return 9 // a nil key in the other presentations: cannot happen on a consistent cache; shows up as a mismatch
}
func lruUnValue(v interface{}) int {
	switch x := v.(type) {
	case int:
		return x
	case []int:
		return x[0]
	case lruVal:
		return x.S[0]
	case nil:
		return 2 // presentation 2 stores the nil interface for the abstract value 2
	}
	return 0
}

var lruPanics []string

// runLRU executes ops on a fresh cache; returns step outputs, callback log, dump — as base-100 digits
func runLRU(c *valid.LRUCache, ops []lruOp) (outs, lg, dmp []int64) { return runLRURep(c, ops, 0) }

func runLRURep(c *valid.LRUCache, ops []lruOp, rep int) (outs, lg, dmp []int64) {
	defer func() {
		if p := recover(); p != nil { // a panic inside the cache: recorded as an output no model run produces
			outs = append(outs, 97)
			lruPanics = append(lruPanics, fmt.Sprintf("presentation %d, ops %v: %v", rep, ops[:min(len(ops), 8)], p))
		}
	}()
	c.SetDelCallBackFn(func(key, value interface{}) {
		lg = append(lg, int64(lruUnKey(key, rep)*10+lruUnValue(value)))
	})
	for _, o := range ops {
		switch o.kind {
		case 0:
			c.Store(lruKey(o.k, rep), lruValue(o.v, rep))
		case 1:
			v, ok := c.Load(lruKey(o.k, rep))
			if !ok {
				outs = append(outs, 0)
			} else {
				outs = append(outs, int64(1+lruUnValue(v)))
			}
		case 2:
			c.Delete(lruKey(o.k, rep))
		case 3:
			n := c.Len()
			if n < 0 {
				outs = append(outs, 98)
			} else {
				outs = append(outs, int64(50+n))
			}
		}
	}
	d := c.Dump()
	if d != "" || (rep == 2 && c.Len() > 0) { // presentation 2 stores the nil interface, which Dump prints as an empty line
		for _, line := range strings.Split(d, "\n") {
			n, _ := strconv.Atoi(strings.Trim(line, "[]{} ")) // a slice value prints as [7], the struct as {[7]}
			if rep == 2 && (line == "<nil>" || line == "") {  // the nil interface of presentation 2
				n = 2
			}
			dmp = append(dmp, int64(n))
		}
	}
	return
}

func packDigits(outs, lg, dmp []int64) string {
	ds := append(append(append(append([]int64{}, outs...), 99), lg...), 99)
	ds = append(ds, dmp...)
	// big decimal from base-100 digits, least significant first
	var b strings.Builder
	for i := len(ds) - 1; i >= 0; i-- {
		fmt.Fprintf(&b, "%02d", ds[i])
	}
	s := strings.TrimLeft(b.String(), "0")
	if s == "" {
		s = "0"
	}
	return s
}

func zlist(xs []int64) string {
	parts := make([]string, len(xs))
	for i, x := range xs {
		parts[i] = strconv.FormatInt(x, 10)
	}
	return "[" + strings.Join(parts, ";") + "]%Z"
}

func runC09(c *Ctx) error {
	w := gal.NewWriter("C09", c.Out, "Run.Run_C09", 1)
	r := c.Rng
	L := 4
	if c.Thorough {
		L = 5
	}
	alphaDesc := make([]string, len(lruAlphabet))
	for i, o := range lruAlphabet {
		alphaDesc[i] = o.String()
	}
	total := 0
	// bounded-exhaustive: every sequence of length L (hence every shorter one as a prefix, compared step by step)
	for cp := 0; cp <= 4; cp++ {
		for first := 0; first < len(lruAlphabet); first++ {
			n := 1
			for i := 1; i < L; i++ {
				n *= len(lruAlphabet)
			}
			obs := make([]string, 0, n)
			idx := make([]int, L)
			idx[0] = first
			for s := 0; s < n; s++ {
				// decode s into idx[1..]
				x := s
				for p := L - 1; p >= 1; p-- {
					idx[p] = x % len(lruAlphabet)
					x /= len(lruAlphabet)
				}
				ops := make([]lruOp, L)
				for p := range ops {
					ops[p] = lruAlphabet[idx[p]]
				}
				o, lg, d := runLRU(valid.NewLRU(cp), ops)
				obs = append(obs, packDigits(o, lg, d))
			}
			total += n
			term := fmt.Sprintf("CExh %d %d%%nat (Some %d%%nat) [%s]%%Z", cp, L, first, strings.Join(obs, ";"))
			w.Add(term, map[string]interface{}{"kind": "exhaustive", "cap": cp, "len": L, "first": first, "alphabet": alphaDesc,
				"note": "mismatch index j (mod 10^7) is the sequence number: digits of j in base 13 select alphabet entries after the first"},
				fmt.Sprintf("exh:cap%d:first%d", cp, first))
		}
	}
	// the same, with keys and values of other dynamic types (strings / slices; the nil key / pointers / structs), length 3
	for rep := 1; rep <= 2; rep++ {
		for cp := 0; cp <= 2; cp++ {
			for first := 0; first < len(lruAlphabet); first++ {
				L3 := 3
				n := len(lruAlphabet) * len(lruAlphabet)
				obs := make([]string, 0, n)
				for s := 0; s < n; s++ {
					ops := []lruOp{lruAlphabet[first], lruAlphabet[s/len(lruAlphabet)], lruAlphabet[s%len(lruAlphabet)]}
					o, lg, d := runLRURep(valid.NewLRU(cp), ops, rep)
					obs = append(obs, packDigits(o, lg, d))
				}
				total += n
				term := fmt.Sprintf("CExh %d %d%%nat (Some %d%%nat) [%s]%%Z", cp, L3, first, strings.Join(obs, ";"))
				w.Add(term, map[string]interface{}{"kind": "exhaustive", "cap": cp, "len": L3, "first": first, "alphabet": alphaDesc, "presentation": rep},
					fmt.Sprintf("exh:rep%d:cap%d:first%d", rep, cp, first))
			}
		}
	}
	w.Dist["exhaustive.sequences"] = total
	w.Extra["exhaustive"] = true
	w.Extra["evaluations"] = total
	w.Extra["x_exhaustive_bound"] = fmt.Sprintf("every operation sequence of length %d (and, as prefixes, below) over 3 keys x 2 values x {Store,Load,Delete,Len}, capacities 0..4", L)

	// random long sequences crossing the map-rebuild threshold (delMapCount > 2*maxSize) many times
	nrand, length := 6, 4000
	if c.Thorough {
		nrand, length = 40, 10000
	}
	for i := 0; i < nrand; i++ {
		cp := r.Intn(9)
		nkeys := r.Range(2, 12)
		ops := make([]lruOp, length)
		codes := make([]int64, length)
		for j := range ops {
			k := r.Intn(nkeys)
			switch x := r.Intn(10); {
			case x < 4:
				ops[j] = lruOp{0, k, r.Range(1, 9)}
			case x < 7:
				ops[j] = lruOp{1, k, 0}
			case x < 9:
				ops[j] = lruOp{2, k, 0}
			default:
				ops[j] = lruOp{3, 0, 0}
			}
			codes[j] = int64(ops[j].kind*1000000 + ops[j].k*100 + ops[j].v)
		}
		o, lg, d := runLRURep(valid.NewLRU(cp), ops, i%3)
		w.Add(fmt.Sprintf("CRun (Some %d%%Z) %s %s %s %s", cp, zlist(codes), zlist(o), zlist(lg), zlist(d)),
			map[string]interface{}{"kind": "random", "cap": cp, "keys": nkeys, "ops": length, "first_ops": fmt.Sprint(ops[:8]), "presentation": i % 3},
			fmt.Sprintf("rand:cap%d:keys%d:rep%d", cp, nkeys, i%3))
		w.Count("random.sequences")
	}
	// default capacity (NewLRU() = lruSize from the source), many keys: continuous eviction
	{
		n := 3000
		if c.Thorough {
			n = 6000
		}
		ops := make([]lruOp, 0, 2*n)
		for k := 0; k < n; k++ {
			ops = append(ops, lruOp{0, (k * 7) % 1500, k%9 + 1})
			if k%5 == 0 {
				ops = append(ops, lruOp{1, (k * 3) % 1500, 0})
			}
		}
		codes := make([]int64, len(ops))
		for j, o := range ops {
			codes[j] = int64(o.kind*1000000 + o.k*100 + o.v)
		}
		ops = append(ops, lruOp{3, 0, 0})
		codes = append(codes, 3000000)
		o, lg, d := runLRU(valid.NewLRU(), ops)
		w.Add(fmt.Sprintf("CRun None %s %s %s %s", zlist(codes), zlist(o), zlist(lg), zlist(d)),
			map[string]interface{}{"kind": "default-capacity", "ops": len(ops)}, "default-cap")
		w.Count("default.capacity")
	}
	// a requested capacity above the default one is honoured too: more live keys than lruSize, then continuous eviction
	for _, cp := range []int{513, 700} {
		n := 2 * cp
		ops := make([]lruOp, 0, 2*n)
		for k := 0; k < n; k++ {
			ops = append(ops, lruOp{0, (k * 7) % (cp + 90), k%9 + 1})
			if k%4 == 0 {
				ops = append(ops, lruOp{1, (k * 3) % (cp + 90), 0})
			}
			if k%97 == 0 {
				ops = append(ops, lruOp{3, 0, 0})
			}
		}
		ops = append(ops, lruOp{3, 0, 0})
		codes := make([]int64, len(ops))
		for j, o := range ops {
			codes[j] = int64(o.kind*1000000 + o.k*100 + o.v)
		}
		o, lg, d := runLRU(valid.NewLRU(cp), ops)
		w.Add(fmt.Sprintf("CRun (Some %d%%Z) %s %s %s %s", cp, zlist(codes), zlist(o), zlist(lg), zlist(d)),
			map[string]interface{}{"kind": "large-capacity", "cap": cp, "ops": len(ops)}, fmt.Sprintf("large-cap:%d", cp))
		w.Count("large.capacity")
	}
	if len(lruPanics) > 0 {
		var vs []interface{}
		for i, p := range lruPanics {
			if i >= 20 {
				break
			}
			vs = append(vs, map[string]interface{}{"kind": "panic", "where": p})
		}
		w.Extra["violations"] = vs
	}
	return w.Flush()
}
