package main

import (
	"fmt"
	"strconv"
	"strings"

	"gitee.com/xuesongtao/protoc-go-valid/valid"
	"verif/harness/internal/gal"
)

func init() { drivers["C09"] = runC09 }

type lruOp struct {
	kind int // 0 store 1 load 2 delete 3 len
	k, v int
}

// the same alphabet, in the same order, as Run_C09.alphabet
var lruAlphabet = []lruOp{
	{0, 0, 1}, {0, 0, 2}, {0, 1, 1}, {0, 1, 2}, {0, 2, 1}, {0, 2, 2},
	{1, 0, 0}, {1, 1, 0}, {1, 2, 0}, {2, 0, 0}, {2, 1, 0}, {2, 2, 0}, {3, 0, 0},
}

func (o lruOp) String() string {
	switch o.kind {
	case 0:
		return fmt.Sprintf("Store(%d,%d)", o.k, o.v)
	case 1:
		return fmt.Sprintf("Load(%d)", o.k)
	case 2:
		return fmt.Sprintf("Delete(%d)", o.k)
	}
	return "Len()"
}

// runLRU executes ops on a fresh cache; returns step outputs, callback log, dump — as base-100 digits
func runLRU(c *valid.LRUCache, ops []lruOp) (outs, lg, dmp []int64) {
	c.SetDelCallBackFn(func(key, value interface{}) {
		k, _ := key.(int)
		v, _ := value.(int)
		if key == nil {
			k = 9 // nil key: cannot happen on a consistent cache; shows up as a mismatch
		}
		lg = append(lg, int64(k*10+v))
	})
	for _, o := range ops {
		switch o.kind {
		case 0:
			c.Store(o.k, o.v)
		case 1:
			v, ok := c.Load(o.k)
			if !ok {
				outs = append(outs, 0)
			} else {
				outs = append(outs, int64(1+v.(int)))
			}
		case 2:
			c.Delete(o.k)
		case 3:
			n := c.Len()
			if n < 0 {
				outs = append(outs, 98)
			} else {
				outs = append(outs, int64(50+n))
			}
		}
	}
	d := c.Dump()
	if d != "" {
		for _, line := range strings.Split(d, "\n") {
			n, _ := strconv.Atoi(line)
			dmp = append(dmp, int64(n))
		}
	}
	return
}

func packDigits(outs, lg, dmp []int64) string {
	ds := append(append(append(append([]int64{}, outs...), 99), lg...), 99)
	ds = append(ds, dmp...)
	// big decimal from base-100 digits, least significant first
	var b strings.Builder
	for i := len(ds) - 1; i >= 0; i-- {
		fmt.Fprintf(&b, "%02d", ds[i])
	}
	s := strings.TrimLeft(b.String(), "0")
	if s == "" {
		s = "0"
	}
	return s
}

func zlist(xs []int64) string {
	parts := make([]string, len(xs))
	for i, x := range xs {
		parts[i] = strconv.FormatInt(x, 10)
	}
	return "[" + strings.Join(parts, ";") + "]%Z"
}

func runC09(c *Ctx) error {
	w := gal.NewWriter("C09", c.Out, "Run.Run_C09", 1)
	r := c.Rng
	L := 4
	if c.Thorough {
		L = 5
	}
	alphaDesc := make([]string, len(lruAlphabet))
	for i, o := range lruAlphabet {
		alphaDesc[i] = o.String()
	}
	total := 0
	// bounded-exhaustive: every sequence of length L (hence every shorter one as a prefix, compared step by step)
	for cp := 0; cp <= 4; cp++ {
		for first := 0; first < len(lruAlphabet); first++ {
			n := 1
			for i := 1; i < L; i++ {
				n *= len(lruAlphabet)
			}
			obs := make([]string, 0, n)
			idx := make([]int, L)
			idx[0] = first
			for s := 0; s < n; s++ {
				// decode s into idx[1..]
				x := s
				for p := L - 1; p >= 1; p-- {
					idx[p] = x % len(lruAlphabet)
					x /= len(lruAlphabet)
				}
				ops := make([]lruOp, L)
				for p := range ops {
					ops[p] = lruAlphabet[idx[p]]
				}
				o, lg, d := runLRU(valid.NewLRU(cp), ops)
				obs = append(obs, packDigits(o, lg, d))
			}
			total += n
			term := fmt.Sprintf("CExh %d %d%%nat (Some %d%%nat) [%s]%%Z", cp, L, first, strings.Join(obs, ";"))
			w.Add(term, map[string]interface{}{"kind": "exhaustive", "cap": cp, "len": L, "first": first, "alphabet": alphaDesc,
				"note": "mismatch index j (mod 10^7) is the sequence number: digits of j in base 13 select alphabet entries after the first"},
				fmt.Sprintf("exh:cap%d:first%d", cp, first))
		}
	}
	w.Dist["exhaustive.sequences"] = total
	w.Extra["exhaustive"] = true
	w.Extra["evaluations"] = total
	w.Extra["x_exhaustive_bound"] = fmt.Sprintf("every operation sequence of length %d (and, as prefixes, below) over 3 keys x 2 values x {Store,Load,Delete,Len}, capacities 0..4", L)

	// random long sequences crossing the map-rebuild threshold (delMapCount > 2*maxSize) many times
	nrand, length := 6, 4000
	if c.Thorough {
		nrand, length = 40, 10000
	}
	for i := 0; i < nrand; i++ {
		cp := r.Intn(9)
		nkeys := r.Range(2, 12)
		ops := make([]lruOp, length)
		codes := make([]int64, length)
		for j := range ops {
			k := r.Intn(nkeys)
			switch x := r.Intn(10); {
			case x < 4:
				ops[j] = lruOp{0, k, r.Range(1, 9)}
			case x < 7:
				ops[j] = lruOp{1, k, 0}
			case x < 9:
				ops[j] = lruOp{2, k, 0}
			default:
				ops[j] = lruOp{3, 0, 0}
			}
			codes[j] = int64(ops[j].kind*1000000 + ops[j].k*100 + ops[j].v)
		}
		o, lg, d := runLRU(valid.NewLRU(cp), ops)
		w.Add(fmt.Sprintf("CRun (Some %d%%Z) %s %s %s %s", cp, zlist(codes), zlist(o), zlist(lg), zlist(d)),
			map[string]interface{}{"kind": "random", "cap": cp, "keys": nkeys, "ops": length, "first_ops": fmt.Sprint(ops[:8])},
			fmt.Sprintf("rand:cap%d:keys%d", cp, nkeys))
		w.Count("random.sequences")
	}
	// default capacity (NewLRU() = lruSize from the source), many keys: continuous eviction
	{
		n := 3000
		if c.Thorough {
			n = 6000
		}
		ops := make([]lruOp, 0, 2*n)
		for k := 0; k < n; k++ {
			ops = append(ops, lruOp{0, (k * 7) % 1500, k%9 + 1})
			if k%5 == 0 {
				ops = append(ops, lruOp{1, (k * 3) % 1500, 0})
			}
		}
		codes := make([]int64, len(ops))
		for j, o := range ops {
			codes[j] = int64(o.kind*1000000 + o.k*100 + o.v)
		}
		ops = append(ops, lruOp{3, 0, 0})
		codes = append(codes, 3000000)
		o, lg, d := runLRU(valid.NewLRU(), ops)
		w.Add(fmt.Sprintf("CRun None %s %s %s %s", zlist(codes), zlist(o), zlist(lg), zlist(d)),
			map[string]interface{}{"kind": "default-capacity", "ops": len(ops)}, "default-cap")
		w.Count("default.capacity")
	}
	return w.Flush()
}
