package main

import (
	"fmt"
	"reflect"
	"strings"

	"verif/harness/internal/gal"
)

func init() { drivers["C17"] = runC17 }

// value patterns for one WG object: (X, Y either=1) (A, B botheq=2)
type wgPattern struct {
	x, y string
	a, b int
}

func (p wgPattern) eitherViolated() bool { return p.x == "" && p.y == "" }
func (p wgPattern) bothViolated() bool   { return p.a != p.b }

func randWG(r *gal.Rng) wgPattern {
	var p wgPattern
	switch r.Intn(4) {
	case 0: // all empty
	case 1:
		p.x = "v"
	case 2:
		p.y = "w"
	default:
		p.x, p.y = "v", "v"
	}
	switch r.Intn(4) {
	case 0: // all equal (zero)
	case 1:
		p.a, p.b = 3, 3
	case 2:
		p.a, p.b = 3, 4
	default:
		p.a, p.b = 0, 5
	}
	return p
}

func (p wgPattern) wg() WG { return WG{X: p.x, Y: p.y, A: p.a, B: p.b} }

func groupExps(p wgPattern, obj string) []expE {
	var es []expE
	member := func(f string) string {
		if obj == "" {
			return `"` + f + `"`
		}
		return `"` + obj + "." + f + `"`
	}
	if p.eitherViolated() {
		es = append(es, expE{"G", "", "either:" + member("X") + ", " + member("Y")})
	}
	if p.bothViolated() {
		es = append(es, expE{"G", "", "botheq:" + member("A") + ", " + member("B")})
	}
	return es
}

func runC17(c *Ctx) error {
	w := gal.NewWriter("C17", c.Out, "Run.Run_Walk", 120)
	r := c.Rng
	n := 260
	if c.Thorough {
		n = 3500
	}
	emit := func(call *walkCall, exps []expE, cell string) {
		spec := "SNil"
		if len(exps) > 0 {
			spec = "SExpect false " + galExps(exps)
		}
		term, desc := call.caseTerm([]string{spec, "SNoPanic"})
		desc["expected_groups"] = len(exps)
		w.Add(term, desc, cell)
	}
	for i := 0; i < n; i++ {
		// ---- struct input: objects repeated in a slice, a map, nested by value and by pointer, plus the outer object's own group
		{
			src, exps, cell := wgsCase(r)
			emit(&walkCall{Entry: "struct", Src: src}, exps, cell)
			w.Count("entry.struct")
		}
		// ---- int-keyed map of objects, four-member botheq, botheq over slices / maps / structs
		if i%2 == 0 {
			src, exps, cell := wgs2Case(r)
			emit(&walkCall{Entry: "struct", Src: src}, exps, cell)
			w.Count("entry.wgs2")
		}
		// ---- a top-level slice of objects: each element is its own object
		if i%3 == 0 {
			k := r.Range(1, 3)
			var src []WG
			var exps []expE
			for j := 0; j < k; j++ {
				p := randWG(r)
				src = append(src, p.wg())
				exps = append(exps, groupExps(p, fmt.Sprintf("main.WG[%d]", j))...)
			}
			emit(&walkCall{Entry: "struct", Src: src}, exps, fmt.Sprintf("topslice:%d:viol%d", k, len(exps)))
			w.Count("entry.topslice")
		}
		// ---- a single-member group is a rule-writing error
		if i%7 == 0 {
			v := WG1{X: r.Pick([]string{"", "x"}), A: r.Intn(2)}
			exps := []expE{{"F", "WG1.X", "W:either"}, {"F", "WG1.A", "W:botheq"}}
			spec := "SExpect false " + galExps(exps)
			call := &walkCall{Entry: "struct", Src: v}
			term, desc := call.caseTerm([]string{spec, "SNoPanic"})
			w.Add(term, desc, "single-member")
			w.Count("entry.single")
		}
		// ---- map input, []map input
		{
			p := randWG(r)
			rules := map[string]string{"x": "either=1", "y": "either=1", "a": "botheq=1", "b": "botheq=1"}
			mk := func(p wgPattern) map[string]interface{} { return nil }
			_ = mk
			// string-valued either group and int-valued botheq group live in two maps of concrete element type
			ms := map[string]string{"x": p.x, "y": p.y}
			var exps []expE
			if p.eitherViolated() {
				exps = append(exps, expE{"G", "", `either:"x", "y"`})
			}
			emit(&walkCall{Entry: "map", Rules: rules, Src: ms}, exps, fmt.Sprintf("map:str:%v", p.eitherViolated()))
			mi := map[string]int{"a": p.a, "b": p.b}
			exps = nil
			if p.bothViolated() {
				exps = append(exps, expE{"G", "", `botheq:"a", "b"`})
			}
			emit(&walkCall{Entry: "map", Rules: rules, Src: mi}, exps, fmt.Sprintf("map:int:%v", p.bothViolated()))
			// []map: every element is its own object
			k := r.Range(1, 3)
			var src []map[string]string
			exps = nil
			for j := 0; j < k; j++ {
				q := randWG(r)
				src = append(src, map[string]string{"x": q.x, "y": q.y})
				if q.eitherViolated() {
					exps = append(exps, expE{"G", "", `either:"x", "y"`})
				}
			}
			emit(&walkCall{Entry: "map", Rules: rules, Src: src}, exps, fmt.Sprintf("slicemap:%d:viol%d", k, len(exps)))
			w.Count("entry.map")
		}
		// ---- URL input
		{
			p := randWG(r)
			rules := map[string]string{"x": "either=1", "y": "either=1", "a": "botheq=1", "b": "botheq=1"}
			q := []string{"x=" + p.x, "y=" + p.y, fmt.Sprintf("a=%d", p.a), fmt.Sprintf("b=%d", p.b)}
			blank := ""
			switch r.Intn(6) {
			case 0: // a value of blanks only is a supplied value: the either group is satisfied
				if p.x == "" {
					q[0], p.x, blank = "x=+", " ", ":blank-member"
				}
			case 1: // values that differ only by a trailing blank are different
				if p.a == p.b {
					q[2], q[3], blank = fmt.Sprintf("a=%d", p.a), fmt.Sprintf("b=%d%%20", p.b), ":trailing-blank"
					p.b = p.a + 1000 // "differ": expectation below
				}
			case 2, 3: // an empty member written as a bare key (no '='): still an empty value of its own
				if p.x == "" {
					q[0], blank = "x", ":bare-member"
				}
				if p.y == "" {
					q[1], blank = "y", ":bare-member"
				}
			}
			// any order
			for j := len(q) - 1; j > 0; j-- {
				k := r.Intn(j + 1)
				q[j], q[k] = q[k], q[j]
			}
			var exps []expE
			order := func(f1, f2 string) string { // members are listed in the order the parameters appear
				pos := func(f string) int {
					for i, kv := range q {
						if kv == f || strings.HasPrefix(kv, f+"=") {
							return i
						}
					}
					return -1
				}
				i1, i2 := pos(f1), pos(f2)
				if i1 < i2 {
					return `"` + f1 + `", "` + f2 + `"`
				}
				return `"` + f2 + `", "` + f1 + `"`
			}
			if p.eitherViolated() {
				exps = append(exps, expE{"G", "", "either:" + order("x", "y")})
			}
			if p.bothViolated() {
				exps = append(exps, expE{"G", "", "botheq:" + order("a", "b")})
			}
			emit(&walkCall{Entry: "url", Rules: rules, Src: "http://h.example/p?" + strings.Join(q, "&")}, exps, fmt.Sprintf("url:%v:%v%s", p.eitherViolated(), p.bothViolated(), blank))
			w.Count("entry.url")
		}
	}
	// ---- one field in an either group AND a botheq group (first member of both); group ids that contain the name of
	// the other kind
	for i, c := range []struct {
		v    WG2
		exps []expE
	}{
		{WG2{P: "x", Q: "x", X: "v"}, []expE{{"G", "", `either:"WG2.A", "WG2.B"`}}},
		{WG2{A: "a", C: "c", P: "p", Q: "q"}, []expE{{"G", "", `botheq:"WG2.A", "WG2.C"`}, {"G", "", `botheq:"WG2.P", "WG2.Q"`}, {"G", "", `either:"WG2.X", "WG2.Y"`}}},
		{WG2{A: "a", B: "b", C: "a", P: "p", Q: "p", Y: "y"}, nil},
		{WG2{B: "b", C: "c", P: "p", Q: "p", X: "x", Y: "y"}, []expE{{"G", "", `botheq:"WG2.A", "WG2.C"`}}},
		{WG2{A: "a", C: "a", P: "p", Q: ""}, []expE{{"G", "", `botheq:"WG2.P", "WG2.Q"`}, {"G", "", `either:"WG2.X", "WG2.Y"`}}},
	} {
		v := c.v
		spec := "SNil"
		if len(c.exps) > 0 {
			spec = "SExpect false " + galExps(c.exps)
		}
		call := &walkCall{Entry: "struct", Src: &v}
		term, desc := call.caseTerm([]string{spec, "SNoPanic"})
		w.Add(term, desc, fmt.Sprintf("two-kinds-one-field:%d", i))
		w.Count("directed.two-kinds")
	}
	return w.Flush()
}

// wgs2Case: one WGS2 object (int-keyed map of objects, a four-member botheq group, botheq over slices / maps / structs)
// with the group clauses it must produce
func wgs2Case(r *gal.Rng) (interface{}, []expE, string) {
	var s WGS2
	var exps []expE
	cell := "wgs2"
	nk := r.Range(0, 2)
	if nk > 0 {
		s.MI = map[int]WG{}
	}
	for k := 0; k < nk; k++ {
		p := randWG(r)
		s.MI[k+3] = p.wg()
		exps = append(exps, groupExps(p, fmt.Sprintf("WGS2.MI[%d]", k+3))...)
	}
	cell += fmt.Sprintf(":mi%d", nk)
	four := [][4]int{{0, 0, 0, 0}, {2, 2, 2, 2}, {2, 9, 2, 2}, {2, 2, 9, 2}, {2, 2, 2, 9}, {2, 9, 2, 9}, {0, 2, 0, 0}, {9, 2, 2, 2}}[r.Intn(8)]
	s.A, s.B, s.C, s.D = four[0], four[1], four[2], four[3]
	if !(four[0] == four[1] && four[1] == four[2] && four[2] == four[3]) {
		exps = append(exps, expE{"G", "", `botheq:"WGS2.A", "WGS2.B", "WGS2.C", "WGS2.D"`})
		cell += ":four-differ"
	}
	sl := [][2][]string{{nil, nil}, {{"a", "b"}, {"a", "b"}}, {{"a", "b"}, {"a", "c"}}, {{"a"}, {"a", "a"}}, {nil, {}}, {{}, {}}}[r.Intn(6)]
	s.S1, s.S2 = sl[0], sl[1]
	if !reflect.DeepEqual(sl[0], sl[1]) {
		exps = append(exps, expE{"G", "", `botheq:"WGS2.S1", "WGS2.S2"`})
		cell += ":slices-differ"
	}
	mp := [][2]map[string]int{{nil, nil}, {{"a": 1}, {"a": 1}}, {{"a": 1}, {"a": 2}}, {{"a": 1}, {"b": 1}}, {nil, {}}}[r.Intn(5)]
	s.M1, s.M2 = mp[0], mp[1]
	if !reflect.DeepEqual(mp[0], mp[1]) {
		exps = append(exps, expE{"G", "", `botheq:"WGS2.M1", "WGS2.M2"`})
		cell += ":maps-differ"
	}
	st := [][2]WG1{{{}, {}}, {{X: "a", A: 1}, {X: "a", A: 1}}, {{X: "a", A: 1}, {X: "a", A: 2}}}[r.Intn(3)]
	s.E1, s.E2 = st[0], st[1]
	if st[0] != st[1] {
		exps = append(exps, expE{"G", "", `botheq:"WGS2.E1", "WGS2.E2"`})
		cell += ":structs-differ"
	}
	pa, pb2, pc := "same", "same", "other"
	pt := [][2]*string{{nil, nil}, {&pa, &pb2}, {&pa, &pa}, {&pa, &pc}, {&pa, nil}}[r.Intn(5)]
	s.P1, s.P2 = pt[0], pt[1]
	if !reflect.DeepEqual(pt[0], pt[1]) {
		exps = append(exps, expE{"G", "", `botheq:"WGS2.P1", "WGS2.P2"`})
		cell += ":pointers-differ"
	}
	return &s, exps, cell
}

// wgoCase: one WGO object: group objects (nested by value, in a slice) followed by fields with ordinary rules; the
// ordinary clauses come first, in field order, the group clauses last
func wgoCase(r *gal.Rng) (interface{}, []expE, string) {
	var s WGO
	var groups, exps []expE
	pn := randWG(r)
	s.N = pn.wg()
	if pn != (wgPattern{}) {
		groups = append(groups, groupExps(pn, "WGO.N")...)
	}
	nl := r.Range(0, 3)
	for k := 0; k < nl; k++ {
		p := randWG(r)
		s.L = append(s.L, p.wg())
		groups = append(groups, groupExps(p, fmt.Sprintf("WGO.L[%d]", k))...)
	}
	s.S = r.Pick([]string{"", "ab", "abc", "abcd"})
	if len(s.S) > 2 {
		exps = append(exps, expE{"C", "WGO.S", "M7"})
	}
	s.I = r.Range(0, 6)
	if s.I > 3 {
		exps = append(exps, expE{"C", "WGO.I", "M8"})
	}
	cell := fmt.Sprintf("then-ordinary:l%d:ord%d:grp%d", nl, len(exps), len(groups))
	return &s, append(exps, groups...), cell
}

// wgsCase: one WGS object (WG objects in a slice, a map, nested by value and by pointer, and its own either group)
func wgsCase(r *gal.Rng) (interface{}, []expE, string) {
	var s WGS
	var exps []expE
	nl := r.Range(0, 3)
	cell := fmt.Sprintf("struct:l%d", nl)
	for k := 0; k < nl; k++ {
		p := randWG(r)
		s.L = append(s.L, p.wg())
		exps = append(exps, groupExps(p, fmt.Sprintf("WGS.L[%d]", k))...)
	}
	if r.Bool() {
		p := randWG(r)
		s.M = map[string]WG{"k": p.wg()}
		if !(p == wgPattern{}) { // a zero struct value is still validated inside a map
		}
		exps = append(exps, groupExps(p, "WGS.M[k]")...)
		cell += ":map"
	}
	pn := randWG(r)
	s.N = pn.wg()
	if pn != (wgPattern{}) { // a zero struct under exist is skipped silently
		exps = append(exps, groupExps(pn, "WGS.N")...)
		cell += ":nested"
	}
	if r.Bool() {
		pp := randWG(r)
		v := pp.wg()
		s.P = &v
		exps = append(exps, groupExps(pp, "WGS.P")...)
		cell += ":ptr"
	}
	// the outer object's own either group (no botheq members there)
	po := randWG(r)
	s.X, s.Y = po.x, po.y
	if po.eitherViolated() {
		exps = append(exps, expE{"G", "", `either:"WGS.X", "WGS.Y"`})
	}
	cell += fmt.Sprintf(":viol%d", len(exps))
	return &s, exps, cell
}
