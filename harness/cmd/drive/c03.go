package main

import (
	"fmt"
	"net/url"
	"reflect"
	"strings"

	"gitee.com/xuesongtao/protoc-go-valid/valid"
	"verif/harness/internal/gal"
)

func init() { drivers["C03"] = runC03 }

type c03Type struct {
	name    string
	zero    interface{} // zero value (for slices: nil)
	nonzero interface{}
	rules   []string // non-builtin rules that are VIOLATED by the non-zero value (must be silent on zero)
	varOK   bool     // admitted by valid.Var
	mapOK   bool
}

type c03Inner struct{ A string }

func c03Types() []c03Type {
	s := "abc"
	in := c03Inner{A: "x"}
	return []c03Type{
		{"string", "", "abc", []string{"to=5~9", "eq=9", "phone", "int", "in=(x/y)", "email", "prefix=zz", "ints", "prefix='C:\\'", "suffix='\\'", "in=('x\\'/y)"}, true, true},
		{"int", 0, 7, []string{"ge=9", "le=5", "eq=8", "in=(1/2)", "float", "lt=7"}, true, true},
		{"int8", int8(0), int8(7), []string{"ge=9", "eq=8"}, true, true},
		{"int16", int16(0), int16(7), []string{"gt=7"}, true, true},
		{"int32", int32(0), int32(7), []string{"le=6"}, true, true},
		{"int64", int64(0), int64(-4), []string{"ge=0", "eq=4"}, true, true},
		{"uint", uint(0), uint(5), []string{"gt=5", "le=-1", "eq=6"}, true, true},
		{"uint8", uint8(0), uint8(5), []string{"lt=5"}, true, true},
		{"uint16", uint16(0), uint16(5), []string{"to=1~4"}, true, true},
		{"uint32", uint32(0), uint32(5), []string{"ge=6"}, true, true},
		{"uint64", uint64(0), uint64(5), []string{"noeq=5"}, true, true},
		{"float32", float32(0), float32(2), []string{"le=1", "int"}, true, true},
		{"float64", 0.0, 2.5, []string{"ge=3", "eq=2", "int"}, true, true},
		{"bool", false, true, nil, false, true},
		{"[]int", []int(nil), []int{1, 2}, []string{"ge=3", "noeq=2", "gt=2"}, true, false},
		{"[]string", []string(nil), []string{"a", "a"}, []string{"unique", "ints"}, true, false},
		{"[2]int", [2]int{}, [2]int{1, 0}, nil, false, false},
		{"map", map[string]int(nil), map[string]int{"k": 1}, nil, false, false},
		{"struct", c03Inner{}, c03Inner{A: "x"}, nil, false, false},
		{"*struct", (*c03Inner)(nil), &in, nil, false, false},
		{"*string", (*string)(nil), &s, nil, false, false},
		{"**struct", (**c03Inner)(nil), func() **c03Inner { p := &in; return &p }(), nil, false, false},
		{"interface", nil, "x", nil, false, false},
	}
}

func runC03(c *Ctx) error {
	w := gal.NewWriter("C03", c.Out, "Run.Run_Walk", 150)
	// required / exist on arrays of structs, maps of structs keyed by other kinds, pointers to pointers: "a supplied
	// non-empty value never violates it" and the walk descends into it
	emitDirectedShapes(w)
	r := c.Rng
	types := c03Types()
	rounds := 4
	if c.Thorough {
		rounds = 40
	}
	marker := 0
	mark := func() string { marker++; return fmt.Sprintf("M%d", marker) }
	ifaceT := reflect.TypeOf((*interface{})(nil)).Elem()
	for round := 0; round < rounds; round++ {
		for _, ty := range types {
			for _, isZero := range []bool{true, false} {
				v := ty.nonzero
				if isZero {
					v = ty.zero
				}
				// the rule list: required at a random position among 0..3 other (violated) rules, or absent
				withReq := r.Chance(65)
				var rules []string
				var reqMarker string
				var otherMarkers []string
				nOther := 0
				if len(ty.rules) > 0 {
					nOther = r.Range(0, 3)
				}
				reqPos := r.Intn(nOther + 1)
				for i := 0; i <= nOther; i++ {
					if i == reqPos && withReq {
						reqMarker = mark()
						rules = append(rules, "required|"+reqMarker)
					}
					if i < nOther {
						m := mark()
						otherMarkers = append(otherMarkers, m)
						rules = append(rules, ty.rules[r.Intn(len(ty.rules))]+"|"+m)
					}
				}
				if len(rules) == 0 {
					continue
				}
				expect := func(path string) []expE {
					var es []expE
					oi := 0
					for i := 0; i <= nOther; i++ {
						if i == reqPos && withReq && isZero {
							es = append(es, expE{"C", path, reqMarker})
						}
						if i < nOther {
							if !isZero {
								es = append(es, expE{"C", path, otherMarkers[oi]})
							}
							oi++
						}
					}
					return es
				}
				emit := func(call *walkCall, path string, entry string) {
					es := expect(path)
					spec := "SNil"
					if len(es) > 0 {
						spec = "SExpect true " + galExps(es)
					}
					term, desc := call.caseTerm([]string{spec, "SNoPanic"})
					desc["field_type"] = ty.name
					desc["zero"] = isZero
					desc["rules"] = rules
					w.Add(term, desc, fmt.Sprintf("%s:%s:zero%v:req%v:other%d", entry, ty.name, isZero, withReq, nOther))
					w.Count("entry." + entry)
				}
				// struct field
				{
					ft := ifaceT
					if ty.name != "interface" {
						ft = reflect.TypeOf(ty.nonzero)
					}
					tag := ""
					for i, ru := range rules {
						if i > 0 {
							tag += ","
						}
						tag += ru
					}
					st := reflect.StructOf([]reflect.StructField{{Name: "F", Type: ft, Tag: reflect.StructTag(`valid:"` + strings.ReplaceAll(tag, `\`, `\\`) + `"`)}})
					sv := reflect.New(st).Elem()
					if v != nil {
						sv.Field(0).Set(reflect.ValueOf(v))
					}
					emit(&walkCall{Entry: "struct", Src: sv.Addr().Interface()}, "F", "struct")
				}
				if ty.varOK && !(isZero && reflect.ValueOf(v).Kind() == reflect.Slice) {
					emit(&walkCall{Entry: "var", VarRules: rules, Src: v}, "", "var")
				}
				if ty.mapOK {
					mt := reflect.MapOf(reflect.TypeOf(""), reflect.TypeOf(ty.nonzero))
					mv := reflect.MakeMap(mt)
					mv.SetMapIndex(reflect.ValueOf("k"), reflect.ValueOf(v))
					tag := ""
					for i, ru := range rules {
						if i > 0 {
							tag += ","
						}
						tag += ru
					}
					emit(&walkCall{Entry: "map", Rules: map[string]string{"k": tag}, Src: mv.Interface()}, "map[k]", "map")
				}
				if ty.name == "string" {
					tag := ""
					for i, ru := range rules {
						if i > 0 {
							tag += ","
						}
						tag += ru
					}
					u := "http://h.example/p?a=1&k=" + url.QueryEscape(v.(string))
					emit(&walkCall{Entry: "url", Rules: map[string]string{"k": tag}, Src: u}, "k", "url")
					if isZero { // the same empty value written as a bare key after a parameter that has a value
						emit(&walkCall{Entry: "url", Rules: map[string]string{"k": tag}, Src: "http://h.example/p?a=13812345678&k&b=2"}, "k", "url-bare")
					}
				}
			}
		}
		// empty but non-nil collections: required is violated (other rules are not attached: an empty
		// non-nil slice is not the zero value)
		for _, v := range []interface{}{[]int{}, map[string]int{}, []string{}} {
			m := mark()
			st := reflect.StructOf([]reflect.StructField{{Name: "F", Type: reflect.TypeOf(v), Tag: reflect.StructTag(`valid:"required|` + m + `"`)}})
			sv := reflect.New(st).Elem()
			sv.Field(0).Set(reflect.ValueOf(v))
			call := &walkCall{Entry: "struct", Src: sv.Addr().Interface()}
			term, desc := call.caseTerm([]string{"SExpect true " + galExps([]expE{{"C", "F", m}}), "SNoPanic"})
			w.Add(term, desc, fmt.Sprintf("struct:empty-nonnil:%T", v))
			w.Count("entry.struct")
		}
		// ... and because it is not the zero value, every OTHER rule is evaluated on it: a size rule an empty slice
		// violates fires (struct field and single variable); a nil slice of the same type is skipped
		for _, v := range []interface{}{[]int{}, []string{}, []float64{}} {
			for _, rule := range []string{"ge=1", "eq=2", "to=1~3", "gt=0"} {
				m := mark()
				st := reflect.StructOf([]reflect.StructField{{Name: "F", Type: reflect.TypeOf(v), Tag: reflect.StructTag(`valid:"` + rule + `|` + m + `"`)}})
				sv := reflect.New(st).Elem()
				sv.Field(0).Set(reflect.ValueOf(v))
				call := &walkCall{Entry: "struct", Src: sv.Addr().Interface()}
				term, desc := call.caseTerm([]string{"SExpect true " + galExps([]expE{{"C", "F", m}}), "SNoPanic"})
				w.Add(term, desc, fmt.Sprintf("struct:empty-nonnil-rule:%T:%s", v, rule))
				call2 := &walkCall{Entry: "var", VarRules: []string{rule + "|" + m}, Src: v}
				term2, desc2 := call2.caseTerm([]string{"SExpect true " + galExps([]expE{{"C", "", m}}), "SNoPanic"})
				w.Add(term2, desc2, fmt.Sprintf("var:empty-nonnil-rule:%T:%s", v, rule))
				nilv := reflect.New(st).Elem() // the zero value: a nil slice
				call3 := &walkCall{Entry: "struct", Src: nilv.Addr().Interface()}
				term3, desc3 := call3.caseTerm([]string{"SNil", "SNoPanic"})
				w.Add(term3, desc3, fmt.Sprintf("struct:nil-slice-rule:%T:%s", v, rule))
			}
		}
	}
	// a per-call rule set adds required to a field whose tag carries value rules only: the field is zero, required fires
	for _, ty := range types {
		if len(ty.rules) == 0 || ty.name == "interface" {
			continue
		}
		mTag, mReq, mOther := mark(), mark(), mark()
		st := reflect.StructOf([]reflect.StructField{{Name: "F", Type: reflect.TypeOf(ty.nonzero), Tag: reflect.StructTag(`valid:"` + strings.ReplaceAll(ty.rules[0], `\`, `\\`) + `|` + mTag + `"`)}})
		for _, isZero := range []bool{true, false} {
			sv := reflect.New(st).Elem()
			if !isZero {
				sv.Field(0).Set(reflect.ValueOf(ty.nonzero))
			}
			over := "required|" + mReq + "," + ty.rules[len(ty.rules)-1] + "|" + mOther
			call := &walkCall{Entry: "struct", Src: sv.Addr().Interface(), HasUnsc: true, Unscoped: map[string]string{"F": over}}
			exps := []expE{{"C", "F", mReq}}
			if !isZero {
				exps = []expE{{"C", "F", mOther}}
			}
			term, desc := call.caseTerm([]string{"SExpect true " + galExps(exps), "SNoPanic"})
			desc["field_type"] = ty.name
			w.Add(term, desc, fmt.Sprintf("struct:override-adds-required:%s:zero%v", ty.name, isZero))
			w.Count("entry.struct-override")
		}
	}
	// a non-nil pointer is a supplied value even when it points at a zero scalar: required is satisfied
	{
		z32, zs, zb, zf := int32(0), "", false, 0.0
		var zsl []int
		for _, v := range []interface{}{&z32, &zs, &zb, &zf, &zsl} {
			m := mark()
			st := reflect.StructOf([]reflect.StructField{{Name: "F", Type: reflect.TypeOf(v), Tag: reflect.StructTag(`valid:"required|` + m + `"`)}})
			sv := reflect.New(st).Elem()
			sv.Field(0).Set(reflect.ValueOf(v))
			call := &walkCall{Entry: "struct", Src: sv.Addr().Interface()}
			term, desc := call.caseTerm([]string{"SNil", "SNoPanic"})
			w.Add(term, desc, fmt.Sprintf("struct:ptr-to-zero:%T", v))
			w.Count("entry.struct")
		}
	}
	// a query key that occurs several times: every occurrence is a presented entry of its own
	for _, q := range []struct {
		query string
		exps  func(m1, m2 string) []expE
	}{
		{"k=abc&p=1&k=", func(m1, m2 string) []expE { return []expE{{"C", "k", m2}, {"C", "k", m1}} }}, // abc violates eq=9, then the empty one is required
		{"k=&p=1&k=abc", func(m1, m2 string) []expE { return []expE{{"C", "k", m1}, {"C", "k", m2}} }},
		{"k=abc&k=abc", func(m1, m2 string) []expE { return []expE{{"C", "k", m2}, {"C", "k", m2}} }},
		{"k=&k=", func(m1, m2 string) []expE { return []expE{{"C", "k", m1}, {"C", "k", m1}} }},
		{"k=abcdefghi&p=2&k=", func(m1, m2 string) []expE { return []expE{{"C", "k", m1}} }}, // first satisfies both
		// an escaped '#' is a character of the value like any other
		{"k=%23abcdefgh", func(m1, m2 string) []expE { return nil }},
		{"a=%23x&k=", func(m1, m2 string) []expE { return []expE{{"C", "k", m1}} }},
		{"k=%23", func(m1, m2 string) []expE { return []expE{{"C", "k", m2}} }},
		{"a=x%23y&k=abc&b=%23", func(m1, m2 string) []expE { return []expE{{"C", "k", m2}} }},
	} {
		m1, m2 := mark(), mark()
		call := &walkCall{Entry: "url", Rules: map[string]string{"k": "required|" + m1 + ",eq=9|" + m2}, Src: "http://h.example/p?" + q.query}
		term, desc := call.caseTerm([]string{"SExpect true " + galExps(q.exps(m1, m2)), "SNoPanic"})
		w.Add(term, desc, "url:repeated-key:"+q.query)
		w.Count("entry.url-repeated")
	}
	// known finding C03-missing-entry replayed on the implementation
	f1 := valid.Map(map[string]string{"b": "x"}, valid.RM{"a": "required"}) == nil
	f2 := valid.Url("http://a.b?b=1", valid.RM{"a": "required"}) == nil
	w.Extra["findings"] = []map[string]interface{}{{"id": "C03-missing-entry", "reproduces": f1 && f2,
		"input": `Map(map[string]string{"b":"x"}, {"a":"required"}) ; Url("http://a.b?b=1", {"a":"required"})`}}
	return w.Flush()
}
