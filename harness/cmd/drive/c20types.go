package main

import "time"

// Hand-written named struct types for C20 (reflect.StructOf cannot build unexported fields).
// Types c20* up to c20Rec are inside the property's domain; the c20Q* types are quirk shapes
// outside it (they tie the model only, the specification is not applied to them).

type c20Empty struct{}

type c20FirstUnexp struct {
	a int
	B string
	C bool
}

type c20AllUnexp struct {
	a int
	b string
	c []int
}

type c20MidUnexp struct {
	A int
	b string
	C float64
	d bool
	E uint8
	f func()
}

type c20LastUnexp struct {
	A string
	b int
}

type c20TwoFirstUnexp struct {
	a, b int
	C    string
	d    bool
	E    *c20Empty
}

type c20Leaf struct {
	N int
	S string
}

type c20Deep struct {
	L1 struct {
		L2 struct {
			L3 struct {
				L4 c20Leaf
				E  c20Empty
			}
			P *c20Leaf
		}
		h c20Empty
	}
	Z c20AllUnexp
}

type c20Ptrs struct {
	P *c20Leaf
	Q *c20Empty
	R *c20Deep
	s *c20Leaf
	T *c20FirstUnexp
}

type c20Slices struct {
	SS []c20Leaf
	SP []*c20Leaf
	SI []int
	ST []string
	SB []bool
	SF []float64
	SE []c20Empty
	S2 [][]uint16
	SM []map[string]int
	SU []c20AllUnexp
}

type c20Maps struct {
	MI map[int]string
	MS map[string]int
	MU map[uint8]c20Leaf
	MP map[string]*c20Leaf
	ML map[int64][]int
	MM map[string]map[int]bool
	ME map[string]c20Empty
	MN map[int8]c20FirstUnexp
}

type c20Arrays struct {
	A0 [0]int
	A3 [3]int8
	AS [2]c20Leaf
	AB [2]uint8
	AP [2]*c20Empty
	AA [2][2]uint32
}

type c20Nums struct {
	I   int
	I8  int8
	I16 int16
	I32 int32
	I64 int64
	U   uint
	U8  uint8
	U16 uint16
	U32 uint32
	U64 uint64
	UP  uintptr
	F32 float32
	F64 float64
}

type c20Bools struct {
	T  bool
	u  bool
	F  bool
	PB []bool
	MB map[string]bool
	AB [2]bool
}

// a field called Time that is not a time.Time: the name test alone must not trigger the time branch
type c20TimeName struct {
	Time int
	X    string
}

type c20Rec struct {
	V    int
	Next *c20Rec
	Kids []c20Rec
	M    map[string]*c20Rec
}

var c20DomainTypes = []interface{}{
	c20Empty{}, c20FirstUnexp{}, c20AllUnexp{}, c20MidUnexp{}, c20LastUnexp{}, c20TwoFirstUnexp{}, c20Leaf{}, c20Deep{},
	c20Ptrs{}, c20Slices{}, c20Maps{}, c20Arrays{}, c20Nums{}, c20Bools{}, c20TimeName{}, c20Rec{},
}

// ---- quirk shapes, outside the property's domain ----
type c20QEmbedded struct {
	c20Leaf
	X int
}
type c20QIface struct {
	A int
	I interface{}
	J interface{}
	Z int
}
type c20QPtrScalar struct {
	P *int
	Q *string
	Z int
}
type c20QPtrPtr struct {
	PP **c20Leaf
	Z  int
}
type c20QTime struct {
	Time time.Time
	When time.Time
	Z    int
}
type c20QFunc struct {
	F func()
	C chan int
	X complex128
	Z int
}
type c20QBytes struct {
	B []byte
	N []byte
	E []byte
	Z int
}
type c20QIfaceSlice struct {
	L []interface{}
	M map[string]interface{}
}
type c20QBoolKey struct {
	M map[bool]int
	S map[c20Leaf]int
}
type c20QPtrSlice struct {
	PS *[]int
	PM *map[string]int
	SP []*int
}
type c20QNonASCII struct {
	Äb int
	Z  int
}
type c20QEscapes struct {
	S string
	M map[string]string
}

func c20QuirkValues() []interface{} {
	one, s := 1, "x"
	leaf := &c20Leaf{N: 1, S: "a"}
	sl := []int{1, 2}
	mp := map[string]int{"k": 1}
	return []interface{}{
		c20QEmbedded{c20Leaf{2, "e"}, 3},
		&c20QEmbedded{},
		c20QIface{A: 1, I: nil, J: 5, Z: 2},
		c20QIface{A: 1, I: c20Leaf{1, "x"}, J: &c20Leaf{2, "y"}, Z: 2},
		c20QPtrScalar{},
		c20QPtrScalar{P: &one, Q: &s, Z: 4},
		c20QPtrPtr{},
		c20QPtrPtr{PP: &leaf, Z: 1},
		c20QTime{},
		c20QTime{Time: time.Unix(1700000000, 5).UTC(), When: time.Unix(1, 0).UTC(), Z: 9},
		c20QFunc{},
		c20QFunc{F: func() {}, C: make(chan int), X: complex(1, 2), Z: 1},
		c20QBytes{B: []byte{1, 2}, N: nil, E: []byte{}, Z: 1},
		c20QBytes{B: []byte("hello, world"), Z: 2},
		c20QIfaceSlice{},
		c20QIfaceSlice{L: []interface{}{1, "a", nil}, M: map[string]interface{}{"k": 1}},
		c20QBoolKey{M: map[bool]int{true: 1}, S: map[c20Leaf]int{{1, "a"}: 2}},
		c20QPtrSlice{},
		c20QPtrSlice{PS: &sl, PM: &mp, SP: []*int{&one, nil}},
		c20QNonASCII{Äb: 3, Z: 4},
		c20QEscapes{S: "a\"b\\c\n", M: map[string]string{"k\"": "v\t"}},
		// top-level values that are not structs
		3, "s", []int{1}, map[string]int{"a": 1}, &leaf, &one, nil, []c20Leaf{{1, "a"}}, true, 1.5,
	}
}

// fixed instances inside the domain with non-zero unexported fields (reflect cannot set those)
// named numeric types with String() / Error() methods (protobuf enums, time.Duration): dumped as numbers
type c20Enum int32

func (e c20Enum) String() string { return "ACTIVE" }

type c20Ratio float64

func (r c20Ratio) String() string { return "high" }

type c20Code uint16

func (c c20Code) Error() string { return "E42" }

type c20Named struct {
	E  c20Enum
	D  time.Duration
	R  c20Ratio
	C  c20Code
	ES []c20Enum
	EM map[c20Enum]int
	DM map[string]time.Duration
}

// unexported fields whose names start with a lower-case letter outside ASCII: hidden, as for the standard encoder
type c20LowerNonASCII struct {
	élan int
	A    int
	αβ   string
	дом  bool
	Z    string
}

// unexported fields whose names start with a character that has no case (underscore, a CJK ideograph) and the blank
// field: hidden, as for the standard encoder ("not lower case" is not "exported")
type c20Caseless struct {
	_    int
	_pad int
	数量   int
	A    int
	_x   string
	Z    string
}

func c20FixedValues() []interface{} {
	return []interface{}{
		c20Caseless{_pad: 1, 数量: 2, A: 3, _x: "x", Z: "z"},
		&c20Caseless{A: 1},
		c20LowerNonASCII{élan: 1, A: 2, αβ: "x", дом: true, Z: "z"},
		c20Named{E: 1, D: 1500 * time.Millisecond, R: 0.5, C: 42, ES: []c20Enum{0, 2}, EM: map[c20Enum]int{3: 4}, DM: map[string]time.Duration{"t": time.Second}},
		&c20Named{E: -1, D: -1},
		c20Empty{}, &c20Empty{}, (*c20Empty)(nil), (*c20Deep)(nil),
		c20FirstUnexp{a: 5, B: "b", C: true},
		c20AllUnexp{a: 1, b: "x", c: []int{1, 2}},
		&c20AllUnexp{},
		c20MidUnexp{A: 1, b: "\"quoted\\", C: 2.5, d: true, E: 255, f: func() {}},
		c20LastUnexp{A: "a", b: 9},
		c20TwoFirstUnexp{a: 1, b: 2, C: "c", d: true, E: &c20Empty{}},
		c20Ptrs{s: &c20Leaf{N: 1}},
		c20Ptrs{P: &c20Leaf{N: -1, S: "p"}, Q: &c20Empty{}, R: &c20Deep{}, T: &c20FirstUnexp{a: 1, B: "t"}},
		c20Bools{T: true, u: true, F: false, PB: []bool{true, false}, MB: map[string]bool{"k": true}, AB: [2]bool{false, true}},
		c20TimeName{Time: 3, X: "x"},
		c20Slices{SS: []c20Leaf{}, SP: []*c20Leaf{nil, {N: 1, S: "s"}, nil}, SI: []int{}, SE: []c20Empty{{}, {}}, S2: [][]uint16{nil, {}, {1, 2}}, SM: []map[string]int{nil, {}, {"a": 1}}, SU: []c20AllUnexp{{a: 1}, {}}},
		c20Maps{MI: map[int]string{-7: ""}, MS: map[string]int{"": 0}, MU: map[uint8]c20Leaf{255: {}}, MP: map[string]*c20Leaf{"nil": nil}, ML: map[int64][]int{-9223372036854775808: nil}, MM: map[string]map[int]bool{"o": {1: true}}, ME: map[string]c20Empty{"e": {}}, MN: map[int8]c20FirstUnexp{-128: {a: 1, B: "b"}}},
		c20Nums{I: -9223372036854775808, I8: -128, I16: 32767, I32: -2147483648, I64: 9223372036854775807, U: 18446744073709551615, U8: 255, U16: 65535, U32: 4294967295, U64: 18446744073709551615, UP: 1, F32: 0.1, F64: 0.1},
		c20Nums{F32: 3.4028235e38, F64: 1e21},
		c20Nums{F32: 1e-7, F64: 1.5e-9},
		c20Rec{V: 1, Next: &c20Rec{V: 2, Kids: []c20Rec{{V: 3}, {V: 4, Next: &c20Rec{}}}}, M: map[string]*c20Rec{"r": {V: 5}}},
	}
}
