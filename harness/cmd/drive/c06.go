package main

// Drivers of C06 (merge + frame), C07 (idempotence) and C19 (robustness of the CLI over directory
// trees).  The implementation is exercised through file.ParseFile / file.WriteFile and through the
// CLI built from /repo's working tree (-f, -d, -p).  Cases carry the abstract file, the areas the
// real parser reported and the bytes found on disk afterwards; Coq recomputes areas and bytes from
// the model (Model/Inject.v) and from the specification (Spec/InjectSpec.v).

import (
	"fmt"
	"go/ast"
	"go/parser"
	"go/token"
	"os"
	"os/exec"
	"path/filepath"
	"reflect"
	"strconv"
	"strings"

	"gitee.com/xuesongtao/protoc-go-valid/file"
	"verif/harness/internal/gal"
)

func init() {
	drivers["C06"] = runC06
	drivers["C07"] = runC07
	drivers["C19"] = runC19
}

func injRepo() string {
	if r := os.Getenv("VERIF_REPO"); r != "" {
		return r
	}
	return "/repo"
}

// buildCLI builds the tool once per run from the working tree of the repository.
func buildCLI(tmp string) (string, error) {
	cli := filepath.Join(tmp, "cli")
	cmd := exec.Command("go", "build", "-o", cli, ".")
	cmd.Dir = injRepo()
	cmd.Env = append(os.Environ(), "GOFLAGS=-mod=mod", "GOPROXY=off", "GOSUMDB=off", "GOTOOLCHAIN=local")
	out, err := cmd.CombinedOutput()
	if err != nil {
		return "", fmt.Errorf("building the CLI from %s: %v\n%s", injRepo(), err, out)
	}
	return cli, nil
}

type cliResult struct {
	Exit  int
	Panic bool
	Out   string
}

func runCLI(cli, cwd string, args ...string) cliResult {
	cmd := exec.Command(cli, args...)
	cmd.Dir = cwd
	cmd.Env = append(os.Environ(), "GOPATH=")
	out, err := cmd.CombinedOutput()
	res := cliResult{Out: string(out)}
	if err != nil {
		if ee, ok := err.(*exec.ExitError); ok {
			res.Exit = ee.ExitCode()
		} else {
			res.Exit = -1
		}
	}
	res.Panic = strings.Contains(res.Out, "panic:") || strings.Contains(res.Out, "goroutine 1 [")
	return res
}

func tail(s string, n int) string {
	if len(s) > n {
		return s[len(s)-n:]
	}
	return s
}

// ---- areas of the real parser, read through reflection (textArea is unexported, its fields are not) ----
type areaT struct {
	Start, End int
	Cur, Inj   string
}

func reflectAreas(v interface{}) []areaT {
	rv := reflect.ValueOf(v)
	out := make([]areaT, rv.Len())
	for i := range out {
		e := rv.Index(i)
		out[i] = areaT{int(e.FieldByName("Start").Int()), int(e.FieldByName("End").Int()),
			e.FieldByName("CurrentTag").String(), e.FieldByName("InjectTag").String()}
	}
	return out
}

func galAreas(as []areaT) string {
	parts := make([]string, len(as))
	for i, a := range as {
		parts[i] = "mkArea " + gal.Z(int64(a.Start)) + " " + gal.Z(int64(a.End)) + " " + gal.Str(a.Cur) + " " + gal.Str(a.Inj)
	}
	return gal.List(parts)
}

func galOptAreas(as []areaT, ok bool) string {
	if !ok {
		return "None"
	}
	return "(Some " + galAreas(as) + ")"
}

// panics of the library entry points (ParseFile / WriteFile) observed in-process: each is a violation
var libPanics []map[string]interface{}

func notePanic(fn, path string, p interface{}) {
	content, _ := os.ReadFile(path)
	c := string(content)
	if len(c) > 1500 {
		c = c[:1500]
	}
	libPanics = append(libPanics, map[string]interface{}{"kind": "panic", "fn": fn, "file": filepath.Base(path), "panic": fmt.Sprint(p), "content": c})
}

// library path: file.ParseFile + file.WriteFile, exactly what handleFile does
func libRun(path string) (areas []areaT, parseErr, writeErr error) {
	defer func() {
		if p := recover(); p != nil {
			notePanic("file.ParseFile/WriteFile", path, p)
			parseErr = fmt.Errorf("panic: %v", p)
		}
	}()
	a, err := file.ParseFile(path)
	if err != nil {
		return nil, err, nil
	}
	areas = reflectAreas(a)
	return areas, nil, file.WriteFile(path, a)
}

func isPanicErr(err error) bool { return err != nil && strings.HasPrefix(err.Error(), "panic:") }

func parseOnly(path string) (as []areaT, perr error) {
	defer func() {
		if p := recover(); p != nil {
			notePanic("file.ParseFile", path, p)
			perr = fmt.Errorf("panic: %v", p)
		}
	}()
	a, err := file.ParseFile(path)
	if err != nil {
		return nil, err
	}
	return reflectAreas(a), nil
}

func mustWrite(path, content string) error {
	if err := os.MkdirAll(filepath.Dir(path), 0o755); err != nil {
		return err
	}
	return os.WriteFile(path, []byte(content), 0o644)
}

func readStr(path string) string {
	b, err := os.ReadFile(path)
	if err != nil {
		return "<unreadable: " + err.Error() + ">"
	}
	return string(b)
}

// ---- supporting evidence (c): the output still parses to the same declarations, and every key is
// found by reflect.StructTag with the expected value ----
type fieldShape struct{ Names, Type string }

func fieldShapes(src string) ([]fieldShape, int, error) {
	fset := token.NewFileSet()
	f, err := parser.ParseFile(fset, "x.go", src, parser.ParseComments)
	if err != nil {
		return nil, 0, err
	}
	var out []fieldShape
	ast.Inspect(f, func(n ast.Node) bool {
		st, ok := n.(*ast.StructType)
		if !ok || st.Fields == nil {
			return true
		}
		for _, fd := range st.Fields.List {
			var names []string
			for _, nm := range fd.Names {
				names = append(names, nm.Name)
			}
			out = append(out, fieldShape{strings.Join(names, ","), src[fd.Type.Pos()-1 : fd.Type.End()-1]})
		}
		return true
	})
	return out, len(f.Decls), nil
}

// the literals of the fields the tool visits, in order (same selection as file/parse.go)
func visitedLiterals(src string) ([]*string, error) {
	fset := token.NewFileSet()
	f, err := parser.ParseFile(fset, "x.go", src, parser.ParseComments)
	if err != nil {
		return nil, err
	}
	var out []*string
	for _, d := range f.Decls {
		gd, ok := d.(*ast.GenDecl)
		if !ok {
			continue
		}
		var ts *ast.TypeSpec
		for _, s := range gd.Specs {
			if t, ok := s.(*ast.TypeSpec); ok {
				ts = t
				break
			}
		}
		if ts == nil {
			continue
		}
		st, ok := ts.Type.(*ast.StructType)
		if !ok {
			continue
		}
		for _, fd := range st.Fields.List {
			if fd.Tag == nil {
				out = append(out, nil)
			} else {
				v := fd.Tag.Value
				out = append(out, &v)
			}
		}
	}
	return out, nil
}

func supportCheck(tf *tFile, in, out string) []string {
	var probs []string
	s1, d1, e1 := fieldShapes(in)
	s2, d2, e2 := fieldShapes(out)
	if e1 != nil {
		return []string{"generator produced a file go/parser rejects: " + e1.Error()}
	}
	if e2 != nil {
		return []string{"output no longer parses: " + e2.Error()}
	}
	if d1 != d2 || !reflect.DeepEqual(s1, s2) {
		probs = append(probs, "declarations / field names / field types differ between input and output")
	}
	lits, err := visitedLiterals(out)
	if err != nil {
		return append(probs, err.Error())
	}
	var fields []tElem
	for _, e := range tf.Elems {
		if e.IsField {
			fields = append(fields, e)
		}
	}
	if len(lits) != len(fields) {
		return append(probs, fmt.Sprintf("visited fields: model %d, go/parser %d", len(fields), len(lits)))
	}
	for i, e := range fields {
		if !e.HasTag {
			if lits[i] != nil {
				probs = append(probs, fmt.Sprintf("field %d gained a tag literal", i))
			}
			continue
		}
		if lits[i] == nil {
			probs = append(probs, fmt.Sprintf("field %d lost its tag literal", i))
			continue
		}
		want := e.Tag
		if e.Cmt.Kind == cmtTag {
			want = mergeItems(e.Tag, e.Cmt.Inj)
		}
		lit := *lits[i]
		st := reflect.StructTag(lit[1 : len(lit)-1])
		allOK := true
		for _, it := range want {
			if _, err := strconv.Unquote(`"` + it.V + `"`); err != nil {
				allOK = false
			}
		}
		if !allOK {
			continue // a value reflect.StructTag cannot unquote (e.g. \d): Lookup stops there by design
		}
		seen := map[string]int{}
		for _, it := range want {
			seen[it.K]++
			v, ok := st.Lookup(it.K)
			w, _ := strconv.Unquote(`"` + it.V + `"`)
			if !ok || v != w {
				probs = append(probs, fmt.Sprintf("field %d key %s: StructTag.Lookup = %q,%v want %q", i, it.K, v, ok, w))
			}
		}
		for k, n := range seen {
			if n > 1 {
				probs = append(probs, fmt.Sprintf("field %d key %s duplicated", i, k))
			}
		}
	}
	return probs
}

// ---- files outside the abstract shape: only the byte-level model is compared (CBytes) ----
var exoticSources = []string{
	// irregular blanks inside the literal are normalised
	"package p\n\ntype A struct {\n\tX int `json:\"x\"   xml:\"y\"` // @tag json:\"z\"\n}\n",
	// a literal with an unconventional piece
	"package p\n\ntype A struct {\n\tX int `json:\"x\" - novalue: k:\"\"` // @tag k:\"v\"\n}\n",
	// duplicate keys on either side
	"package p\n\ntype A struct {\n\tX int `json:\"x\" json:\"y\"` // @tag json:\"z\"\n\tY int `a:\"1\"` // @tag b:\"1\" b:\"2\" a:\"3\" a:\"4\"\n}\n",
	// two comments on one field (outside the property's domain: one trailing comment per field)
	"package p\n\ntype A struct {\n\tX int `json:\"x\"` /* @tag a:\"1\" */ // @tag b:\"2\"\n}\n",
	// malformed @tag text
	"package p\n\ntype A struct {\n\tX int `json:\"x\"` // @tag valid:\"required\n\tY int `json:\"y\"` // @tag \"\" :\"a\" b:c\"d\"\n}\n",
	// recorded finding regions: the model is faithful there as well
	"package p\n\ntype A struct {\n\tE int `` // @tag a:\"b\"\n}\n",
	"package p\n\ntype A struct {\n\tE int \"json:\\\"x\\\"\" // @tag a:\"b\"\n}\n",
	"package p\n\ntype A struct {\n\tE int `json:\"x\"\n\t\txml:\"y\"` // @tag a:\"b\"\n}\n",
	"package p\n\ntype A struct {\n\tE struct{ X int `json:\"x\"` } `json:\"e\"` // @tag a:\"b\"\n}\n",
	"package p\n\ntype A struct {\n\tE int `json:\"x\"` // @tag re:\"a`b\"\n}\n",
	// semicolon-separated fields on one line
	"package p\n\ntype A struct { X int `a:\"1\"`; Y int `b:\"2\"` /* @tag c:\"3\" */ }\n",
	// no struct at all / empty file body
	"package p\n",
	"package p\n\n// @tag a:\"b\"\nfunc f() {}\n",
}

func genExotic(r *gal.Rng) string {
	// random literal text (any printable soup without back quote) and random comment soup
	soup := func(n int) string {
		return randWord(r, [][]string{asciiLetters, {"\"", "\"", ":", " ", ":\"", "\" "}, {"$", "\\", "|", "'", ";", "中", "-", ","}}, 0, n)
	}
	var b strings.Builder
	b.WriteString("package p\n\ntype A struct {\n")
	for i, n := 0, r.Range(1, 4); i < n; i++ {
		lit := soup(12)
		cm := "// " + r.Pick([]string{"@tag ", "@tag ", "x @tag ", "@tag  "}) + soup(14)
		if r.Chance(20) {
			cm = "/* @tag " + soup(8) + " */ // @tag " + soup(8)
		}
		fmt.Fprintf(&b, "\tF%d int `%s` %s\n", i, lit, cm)
	}
	b.WriteString("}\n")
	return b.String()
}

// ---- C06 ----
type c06File struct {
	tf   *tFile
	name string
	in   string
}

func genC06Name(r *gal.Rng, i int) string {
	base := r.Pick([]string{"g", "msg", "消息", "a b", "x[1]", "UP"})
	return fmt.Sprintf("%s%03d%s", base, i, r.Pick([]string{".pb.go", ".go", ".pb.go"}))
}

func runC06(c *Ctx) error {
	w := gal.NewWriter("C06", c.Out, "Run.Run_C06", 70)
	r := c.Rng
	nFiles, nExotic := 260, 60
	if c.Thorough {
		nFiles, nExotic = 2600, 600
	}
	tmp, err := os.MkdirTemp("", "verif-c06-")
	if err != nil {
		return err
	}
	defer os.RemoveAll(tmp)
	cli, err := buildCLI(tmp)
	if err != nil {
		return err
	}
	violations := []map[string]interface{}{}
	addV := func(kind string, kv map[string]interface{}) {
		if len(violations) < 20 {
			kv["kind"] = kind
			violations = append(violations, kv)
		}
	}

	const batch = 130
	idx := 0
	for start := 0; start < nFiles; start += batch {
		n := batch
		if start+n > nFiles {
			n = nFiles - start
		}
		files := make([]c06File, n)
		root := filepath.Join(tmp, fmt.Sprintf("b%d", start))
		// the directory handed to -d is a name, not a pattern: it may hold characters a glob would interpret
		dDir := []string{"d", "d[v1]", "d*x", "d?"}[(start/batch+1)%4]
		modes := []string{"lib", "f", dDir, "p"}
		for i := range files {
			var tf *tFile
			if r.Chance(15) {
				tf = genProtocFile(r)
			} else {
				tf = genFile(r, false)
			}
			files[i] = c06File{tf: tf, name: genC06Name(r, idx), in: tf.render()}
			idx++
			for _, m := range modes {
				if err := mustWrite(filepath.Join(root, m, files[i].name), files[i].in); err != nil {
					return err
				}
			}
		}
		// library path
		areas := make([][]areaT, n)
		for i, f := range files {
			a, perr, werr := libRun(filepath.Join(root, "lib", f.name))
			if perr != nil {
				if isPanicErr(perr) { // recorded as a violation by libRun
					continue
				}
				return fmt.Errorf("generator bug: go/parser rejects a generated file: %v\n%s", perr, f.in)
			}
			if werr != nil {
				addV("library-write-error", map[string]interface{}{"file": f.name, "error": werr.Error(), "input": f.in})
			}
			areas[i] = a
		}
		// CLI: -f once per file, -d and -p once per directory
		for _, f := range files {
			res := runCLI(cli, root, "-f", filepath.Join("f", f.name))
			if res.Exit != 0 || res.Panic {
				addV("cli-failure", map[string]interface{}{"args": "-f", "exit": res.Exit, "output": tail(res.Out, 1500), "input": f.in})
			}
		}
		if res := runCLI(cli, root, "-d", dDir); res.Exit != 0 || res.Panic {
			addV("cli-failure", map[string]interface{}{"args": "-d " + dDir, "exit": res.Exit, "output": tail(res.Out, 1500)})
		}
		if res := runCLI(cli, root, "-p", "p/*.go"); res.Exit != 0 || res.Panic {
			addV("cli-failure", map[string]interface{}{"args": "-p p/*.go", "exit": res.Exit, "output": tail(res.Out, 1500)})
		}
		for i, f := range files {
			var outs []string
			byMode := map[string]string{}
			for _, m := range modes {
				o := readStr(filepath.Join(root, m, f.name))
				byMode[m] = o
				dup := false
				for _, x := range outs {
					if x == o {
						dup = true
					}
				}
				if !dup {
					outs = append(outs, o)
				}
			}
			if len(outs) > 1 {
				w.Count("entry-points-disagree")
			}
			for _, o := range outs {
				for _, p := range supportCheck(f.tf, f.in, o) {
					addV("output-check", map[string]interface{}{"file": f.name, "problem": p, "input": f.in, "output": o})
				}
			}
			term := "CFile " + f.tf.gal() + " " + galAreas(areas[i]) + " " + gal.StrList(outs)
			desc := map[string]interface{}{"kind": "one run through lib,-f,-d,-p", "file": f.name, "input": f.in, "areas": areas[i], "outputs": byMode}
			w.Add(term, desc, "file:"+f.tf.cell())
			w.Count("files")
			w.Count(fmt.Sprintf("annotated_fields.%d", min(f.tf.Annotated, 5)))
			if f.tf.CJK {
				w.Count("files.cjk")
			}
			if f.tf.CRLF {
				w.Count("files.crlf")
			}
		}
	}

	// files outside the abstract shape: byte-level model only
	exDir := filepath.Join(tmp, "exotic")
	for i := 0; i < len(exoticSources)+nExotic; i++ {
		var src string
		if i < len(exoticSources) {
			src = exoticSources[i]
		} else {
			src = genExotic(r)
		}
		p := filepath.Join(exDir, fmt.Sprintf("e%d.go", i))
		if err := mustWrite(p, src); err != nil {
			return err
		}
		a, perr, werr := libRun(p)
		if perr != nil {
			w.Count("exotic.unparsable")
			continue
		}
		if werr != nil {
			addV("library-write-error", map[string]interface{}{"error": werr.Error(), "input": src})
		}
		out := readStr(p)
		w.Add("CBytes "+gal.Str(src)+" "+galAreas(a)+" "+gal.Str(out), map[string]interface{}{"kind": "byte-level", "input": src, "areas": a, "output": out},
			fmt.Sprintf("bytes:a%d:chg%v", min(len(a), 4), out != src))
		w.Count("exotic")
	}

	violations = append(violations, libPanics...)
	w.Extra["violations"] = violations
	w.Extra["findings"] = c06Findings(tmp)
	return w.Flush()
}

// replays of the recorded findings on the implementation
func c06Findings(tmp string) []map[string]interface{} {
	run := func(name, src string) string {
		p := filepath.Join(tmp, "findings", name+".go")
		_ = mustWrite(p, src)
		_, _, _ = libRun(p)
		return readStr(p)
	}
	hasKey := func(out, key string) bool {
		return strings.Contains(out, " "+key+":\"b\"`") || strings.Contains(out, "`"+key+":\"b\"`")
	}
	var fs []map[string]interface{}
	{
		in1 := "package p\n\ntype A struct {\n\tE int `` // @tag a:\"b\"\n}\n"
		in2 := "package p\n\ntype A struct {\n\tE int \"json:\\\"x\\\"\" // @tag a:\"b\"\n}\n"
		in3 := "package p\n\ntype A struct {\n\tE int `json:\"x\"\n\t\txml:\"y\"` // @tag a:\"b\"\n}\n"
		o1, o2, o3 := run("empty", in1), run("quoted", in2), run("multiline", in3)
		fs = append(fs, map[string]interface{}{"id": "C06-literal-not-rewritten",
			"reproduces": !hasKey(o1, "a") || !hasKey(o2, "a") || !hasKey(o3, "a"),
			"input":      []string{in1, in2, in3}, "observed": []string{o1, o2, o3}})
	}
	{
		in := "package p\n\ntype A struct {\n\tE struct{ X int `json:\"x\"` } `json:\"e\"` // @tag a:\"b\"\n}\n"
		o := run("inline", in)
		fs = append(fs, map[string]interface{}{"id": "C06-backquote-in-field-type", "reproduces": !strings.Contains(o, "X int `json:\"x\"` }"), "input": in, "observed": o})
	}
	{
		in := "package p\n\ntype A struct {\n\tE int `json:\"x\"` // @tag re:\"a`b\"\n}\n"
		o := run("bqvalue", in)
		_, _, err := fieldShapes(o)
		fs = append(fs, map[string]interface{}{"id": "C06-backquote-in-value", "reproduces": err != nil, "input": in, "observed": o})
	}
	return fs
}

// ---- C07 ----
func runC07(c *Ctx) error {
	w := gal.NewWriter("C07", c.Out, "Run.Run_C06", 40)
	r := c.Rng
	nFiles := 150
	if c.Thorough {
		nFiles = 1500
	}
	tmp, err := os.MkdirTemp("", "verif-c07-")
	if err != nil {
		return err
	}
	defer os.RemoveAll(tmp)
	cli, err := buildCLI(tmp)
	if err != nil {
		return err
	}
	violations := []map[string]interface{}{}
	for i := 0; i < nFiles; i++ {
		var tf *tFile
		switch {
		case r.Chance(15):
			tf = genProtocFile(r)
		default:
			tf = genFile(r, false)
		}
		dir := filepath.Join(tmp, fmt.Sprintf("r%d", i))
		name := genC06Name(r, i)
		in := tf.render()
		if err := mustWrite(filepath.Join(dir, name), in); err != nil {
			return err
		}
		// a sibling that is processed along in -d / -p runs
		if r.Bool() {
			if err := mustWrite(filepath.Join(dir, "sibling.go"), genFile(r, false).render()); err != nil {
				return err
			}
		}
		k := r.Range(2, 5)
		var steps []string
		var stepDesc []interface{}
		prev := in
		seq := ""
		changedAfterFirst := false
		for n := 0; n < k; n++ {
			a, perr := parseOnly(filepath.Join(dir, name))
			if perr != nil {
				if n == 0 && isPanicErr(perr) { // recorded as a violation by parseOnly
					break
				}
				if n == 0 {
					return fmt.Errorf("generator bug: go/parser rejects a generated file: %v\n%s", perr, in)
				}
				violations = append(violations, map[string]interface{}{"kind": "output-no-longer-parses", "run": n, "error": perr.Error(), "input": in, "bytes": prev})
				break
			}
			mode := r.Pick([]string{"lib", "-f", "-d", "-p"})
			seq += mode + " "
			var res cliResult
			switch mode {
			case "lib":
				if _, _, werr := libRun(filepath.Join(dir, name)); werr != nil {
					violations = append(violations, map[string]interface{}{"kind": "library-write-error", "error": werr.Error(), "input": in})
				}
			case "-f":
				res = runCLI(cli, dir, "-f", name)
			case "-d":
				res = runCLI(cli, tmp, "-d", filepath.Base(dir)+r.Pick([]string{"", "/"}))
			case "-p":
				res = runCLI(cli, dir, "-p", r.Pick([]string{"*.go", "*", "./*.go"}))
			}
			if res.Exit != 0 || res.Panic {
				violations = append(violations, map[string]interface{}{"kind": "cli-failure", "args": mode, "exit": res.Exit, "output": tail(res.Out, 1500), "input": in})
			}
			out := readStr(filepath.Join(dir, name))
			if n >= 1 && out != prev {
				changedAfterFirst = true
			}
			steps = append(steps, "("+galAreas(a)+", "+gal.Str(out)+")")
			stepDesc = append(stepDesc, map[string]interface{}{"run": n + 1, "via": mode, "areas": a, "bytes_after": out})
			prev = out
		}
		if changedAfterFirst {
			w.Count("changed-after-first-run")
		}
		w.Add("CRepeat "+tf.gal()+" "+gal.List(steps), map[string]interface{}{"kind": "repeated runs", "input": in, "sequence": strings.TrimSpace(seq), "steps": stepDesc},
			fmt.Sprintf("rep:k%d:%s:%s", k, strings.ReplaceAll(strings.TrimSpace(seq), " ", ""), tf.cell()))
		w.Count("files")
		w.Count(fmt.Sprintf("runs.%d", k))
		if tf.Annotated == 0 {
			w.Count("files.without-annotation")
		}
	}
	// ---- outside the abstract shape: a comment that repeats a key.  Each run is compared with the byte-level model;
	// a second and third run must leave the bytes of the first run alone (observed directly).
	dupFiles := []string{
		"package p\n\ntype T struct {\n\tA int `json:\"a\"` // @tag valid:\"a\" valid:\"b\"\n}\n",
		"package p\n\ntype T struct {\n\tB int `json:\"b\" valid:\"x\"` // @tag valid:\"a\" json:\"q\" valid:\"b\"\n}\n",
		"package p\n\ntype T struct {\n\tC int `valid:\"x\" json:\"c\"` // @tag json:\"1\" json:\"2\" json:\"3\"\n\tD int `a:\"1\"` // @tag a:\"1\" a:\"1\"\n}\n",
		"package p\n\ntype T struct {\n\tE int `k:\"v\" k:\"w\"` // @tag k:\"z\" k:\"y\" m:\"1\"\n}\n",
	}
	for i, in := range dupFiles {
		dir := filepath.Join(tmp, fmt.Sprintf("dup%d", i))
		path := filepath.Join(dir, "dup.go")
		if err := mustWrite(path, in); err != nil {
			return err
		}
		prev := in
		for n := 1; n <= 3; n++ {
			a, perr := parseOnly(path)
			if perr != nil {
				violations = append(violations, map[string]interface{}{"kind": "output-no-longer-parses", "run": n, "error": perr.Error(), "input": in, "bytes": prev})
				break
			}
			if _, _, werr := libRun(path); werr != nil {
				violations = append(violations, map[string]interface{}{"kind": "library-write-error", "error": werr.Error(), "input": in})
			}
			out := readStr(path)
			w.Add("CBytes "+gal.Str(prev)+" "+galAreas(a)+" "+gal.Str(out), map[string]interface{}{"kind": "repeated key in the comment", "run": n, "input": prev, "bytes_after": out},
				fmt.Sprintf("dupkey:%d:run%d", i, n))
			if n >= 2 && out != prev {
				violations = append(violations, map[string]interface{}{"kind": "not-idempotent", "run": n, "input": in, "before": prev, "after": out})
			}
			prev = out
		}
		w.Count("files.repeated-key")
	}
	violations = append(violations, libPanics...)
	w.Extra["violations"] = violations
	return w.Flush()
}

// ---- C19 ----
var brokenSources = []string{
	"package", "", "package p\n\ntype A struct {\n\tX int `json:\"x\"` // @tag a:\"b\"\n", "package p\n\nfunc {", "pakage p\n", "package p\n\ntype A struct {\n\tX int `json:\"x\" // @tag a:\"b\"\n}\n",
	"package p\n\nvar s = \"\xff\xfe\" // @tag a:\"b\"\n\ntype A struct {\n\tX int `json:\"x\"` // \xc0 @tag a:\"b\"\n}\n",
	"package p\n\x00\ntype A struct {\n\tX int `json:\"x\"` // @tag a:\"b\"\n}\n",
	"package p\n\ntype A struct {\n\tX int `json:\"x\"` // @tag a:\"b\"\n}\n}}}\n",
	"{\"json\": \"not go\"}", "#!/bin/sh\necho @tag a:\"b\"\n",
}

// valid Go the tool does not expect (no abstract file is attached: only "no crash" and the model apply)
var oddValidSources = []string{
	"package p\n\ntype A struct {\n\tX int // @tag a:\"b\"\n\tY, Z string /* @tag c:\"d\" */\n\tsync.Mutex // @tag e:\"f\"\n}\n",
	"package p\n\ntype A struct {\n\tX int `json:\"x\"` // @tag valid:\"required\n\tY int `json:\"y\"` // see @tag\n\tW int `json:\"w\"` // @tag\n\tV int `json:\"v\"` // @tag \n}\n",
	"package p\n\ntype (\n\tK int\n\tS struct {\n\t\tG int `json:\"g\"` // @tag a:\"b\"\n\t}\n)\n\nfunc f() {\n\ttype L struct {\n\t\tH int // @tag a:\"b\"\n\t}\n\t_ = L{}\n}\n",
	"package p\n\ntype A struct{}\n\ntype B struct {\n}\n\ntype C interface{ M() } // @tag a:\"b\"\n\ntype D = struct{ X int }\n",
	"package p\n\ntype A struct {\n\tX int `json:\"x\"` /* @tag a:\"1\" */ // @tag b:\"2\"\n}\n",
	"package p\n\ntype A struct {\n\tX int ``   // @tag a:\"b\"\n\tY int \"k:\\\"v\\\"\" // @tag a:\"b\"\n}\n",
	"package p\n\ntype A struct {\n\tX func(struct {\n\t\tI int `a:\"b\"` // @tag c:\"d\"\n\t}) `json:\"x\"` // @tag e:\"f\"\n}\n",
	"package p\n\ntype A[T any, U comparable] struct {\n\tX T `json:\"x\"` // @tag a:\"b\"\n\tM map[U]T // @tag c:\"d\"\n}\n",
	"package p\n",
	"//go:build ignore\n\npackage main\n\nimport \"fmt\"\n\nfunc main() { fmt.Println(\"@tag a:\\\"b\\\"\") }\n",
}

type c19File struct {
	rel     string // path relative to the run directory
	content string
	tf      *tFile
	kind    string
}

func runC19(c *Ctx) error {
	w := gal.NewWriter("C19", c.Out, "Run.Run_C19", 20)
	r := c.Rng
	nTrees := 120
	if c.Thorough {
		nTrees = 1200
	}
	tmp, err := os.MkdirTemp("", "verif-c19-")
	if err != nil {
		return err
	}
	defer os.RemoveAll(tmp)
	cli, err := buildCLI(tmp)
	if err != nil {
		return err
	}
	violations := []map[string]interface{}{}
	addV := func(kind string, kv map[string]interface{}) {
		if len(violations) < 20 {
			kv["kind"] = kind
			violations = append(violations, kv)
		}
	}
	goNames := []string{"a.go", "b.pb.go", "m.go", "z.go", "0.go", "消息.pb.go", "a b.go", "x[1].go", "_.go", "Z.go", ".go"}
	otherNames := []string{"README.md", "data.txt", "x.go.txt", "go", "y.gox", "UP.GO", "Makefile", "t.proto", "a.go~", "名.txt"}

	for t := 0; t < nTrees; t++ {
		run := filepath.Join(tmp, fmt.Sprintf("t%d", t))
		dir := r.Pick([]string{"d", "proto", "目录", "a b"})
		var files []c19File
		var dirs []string
		usedNames := map[string]bool{}
		pickName := func(pool []string) string {
			for tries := 0; tries < 30; tries++ {
				n := r.Pick(pool)
				if !usedNames[n] {
					usedNames[n] = true
					return n
				}
			}
			n := fmt.Sprintf("f%d.go", len(usedNames))
			usedNames[n] = true
			return n
		}
		mk := func(prefix string, depth int) {
			for i, n := 0, r.Range(2, 7); i < n; i++ {
				switch k := r.Intn(10); {
				case k < 3: // valid annotated / un-annotated file of C06's shape
					tf := genFile(r, false)
					files = append(files, c19File{rel: prefix + pickName(goNames), content: tf.render(), tf: tf, kind: "valid"})
				case k < 4:
					tf := genProtocFile(r)
					files = append(files, c19File{rel: prefix + pickName(goNames), content: tf.render(), tf: tf, kind: "valid"})
				case k < 6:
					files = append(files, c19File{rel: prefix + pickName(goNames), content: r.Pick(brokenSources), kind: "broken"})
				case k < 8:
					files = append(files, c19File{rel: prefix + pickName(goNames), content: r.Pick(oddValidSources), kind: "odd"})
				default: // non-Go files, some with Go content
					content := r.Pick([]string{"hello\n", "", "\x00\x01\xff", "package p\n\ntype A struct {\n\tX int `json:\"x\"` // @tag a:\"b\"\n}\n"})
					files = append(files, c19File{rel: prefix + pickName(otherNames), content: content, kind: "nongo"})
				}
			}
		}
		mk(dir+"/", 0)
		// sub-directories (one may carry a .go suffix), never descended into by -d
		for i, n := 0, r.Intn(3); i < n; i++ {
			sub := r.Pick([]string{"sub", "inner.go", "vendor", "子目录"})
			if usedNames[sub] {
				continue
			}
			usedNames[sub] = true
			dirs = append(dirs, dir+"/"+sub)
			saved := usedNames
			usedNames = map[string]bool{}
			mk(dir+"/"+sub+"/", 1)
			usedNames = saved
		}
		for _, d := range dirs {
			if err := os.MkdirAll(filepath.Join(run, d), 0o755); err != nil {
				return err
			}
		}
		for _, f := range files {
			if err := mustWrite(filepath.Join(run, f.rel), f.content); err != nil {
				return err
			}
		}
		// the oracle: file.ParseFile on every regular file ending in .go, before the run
		var parseTerms, absTerms, beforeTerms, afterTerms []string
		parseDesc := map[string]interface{}{}
		for _, f := range files {
			beforeTerms = append(beforeTerms, "("+gal.Str(f.rel)+", "+gal.Str(f.content)+")")
			if strings.HasSuffix(f.rel, ".go") {
				a, perr := parseOnly(filepath.Join(run, f.rel))
				parseTerms = append(parseTerms, "("+gal.Str(f.rel)+", "+galOptAreas(a, perr == nil)+")")
				if perr != nil {
					parseDesc[f.rel] = "error: " + perr.Error()
					if f.kind == "valid" && !isPanicErr(perr) {
						return fmt.Errorf("generator bug: go/parser rejects a generated file: %v\n%s", perr, f.content)
					}
				} else {
					parseDesc[f.rel] = a
					if f.tf != nil {
						absTerms = append(absTerms, "("+gal.Str(f.rel)+", "+f.tf.gal()+")")
					}
				}
			}
		}
		// the run
		var modeTerm, modeDesc string
		var res cliResult
		switch r.Intn(7) {
		case 0, 1, 2: // -d
			arg := dir + r.Pick([]string{"", "/"})
			ents, err := os.ReadDir(filepath.Join(run, dir))
			if err != nil {
				return err
			}
			var et []string
			for _, e := range ents {
				et = append(et, "("+gal.Str(e.Name())+", "+gal.Bool(e.IsDir())+")")
			}
			modeTerm = "MDir " + gal.Str(arg) + " " + gal.List(et)
			modeDesc = "-d " + arg
			res = runCLI(cli, run, "-d", arg)
		case 3, 4: // -p
			pat := dir + "/" + r.Pick([]string{"*.go", "*", "*.pb.go", "*/*.go", "[a-m]*", "nomatch*"})
			matches, _ := filepath.Glob(filepath.Join(run, pat))
			var rels []string
			for _, m := range matches {
				rel, _ := filepath.Rel(run, m)
				rels = append(rels, rel)
			}
			// the CLI gets the relative pattern and is run inside the run directory: same matches
			modeTerm = "MPattern " + gal.StrList(rels)
			modeDesc = "-p " + pat
			res = runCLI(cli, run, "-p", pat)
		default: // -f on one of the files, a directory or a missing path
			var target string
			switch r.Intn(8) {
			case 0:
				target = dir + "/missing.go"
			case 1:
				target = dir
			default:
				target = files[r.Intn(len(files))].rel
			}
			modeTerm = "MFile " + gal.Str(target)
			modeDesc = "-f " + target
			res = runCLI(cli, run, "-f", target)
		}
		if res.Exit != 0 || res.Panic {
			addV("cli-failure", map[string]interface{}{"args": modeDesc, "exit": res.Exit, "panic": res.Panic, "output": tail(res.Out, 2000), "tree": treeDesc(files)})
		}
		changed := 0
		afterDesc := map[string]string{}
		for _, f := range files {
			out := readStr(filepath.Join(run, f.rel))
			afterTerms = append(afterTerms, "("+gal.Str(f.rel)+", "+gal.Str(out)+")")
			if out != f.content {
				changed++
				afterDesc[f.rel] = out
				if !strings.HasSuffix(f.rel, ".go") {
					addV("non-go-file-changed", map[string]interface{}{"args": modeDesc, "file": f.rel, "before": f.content, "after": out})
				}
				if f.kind == "broken" {
					if _, perr := parseOnly(filepath.Join(run, f.rel)); perr != nil {
						// still unparsable and yet rewritten
						addV("unparsable-file-changed", map[string]interface{}{"args": modeDesc, "file": f.rel, "before": f.content, "after": out})
					}
				}
			}
		}
		// files that appeared
		n := 0
		_ = filepath.Walk(run, func(p string, info os.FileInfo, err error) error {
			if err == nil && !info.IsDir() {
				n++
			}
			return nil
		})
		if n != len(files) {
			addV("file-count-changed", map[string]interface{}{"args": modeDesc, "before": len(files), "after": n})
		}
		kinds := map[string]int{}
		for _, f := range files {
			kinds[f.kind]++
		}
		term := "CTree (" + modeTerm + ") " + gal.List(beforeTerms) + " " + gal.List(parseTerms) + " " + gal.List(absTerms) + " " + gal.List(afterTerms)
		w.Add(term, map[string]interface{}{"kind": "cli run over a tree", "args": modeDesc, "exit": res.Exit, "tree": treeDesc(files), "parse": parseDesc, "changed_files": afterDesc},
			fmt.Sprintf("tree:%s:v%d:b%d:o%d:n%d:sub%d:chg%d", strings.Fields(modeDesc)[0]+classOfArg(modeDesc), min(kinds["valid"], 3), min(kinds["broken"], 3), min(kinds["odd"], 3), min(kinds["nongo"], 3), len(dirs), min(changed, 3)))
		w.Count("trees")
		w.Count("mode." + strings.Fields(modeDesc)[0])
		for k, v := range kinds {
			w.Dist["files."+k] += v
		}
	}
	// the witness of the repaired defect D22, replayed through the CLI
	{
		run := filepath.Join(tmp, "d22")
		src := "package p\n\ntype A struct {\n\tX int // @tag valid:\"required\"\n}\n"
		_ = mustWrite(filepath.Join(run, "a.go"), src)
		res := runCLI(cli, run, "-f", "a.go")
		if res.Exit != 0 || res.Panic || readStr(filepath.Join(run, "a.go")) != src {
			addV("cli-failure", map[string]interface{}{"args": "-f a.go", "exit": res.Exit, "panic": res.Panic, "output": tail(res.Out, 2000), "input": src,
				"note": "a field with an @tag comment and no tag literal (D22)"})
		}
	}
	violations = append(violations, libPanics...)
	w.Extra["violations"] = violations
	return w.Flush()
}

func classOfArg(desc string) string {
	switch {
	case strings.HasSuffix(desc, "/"):
		return "slash"
	case strings.Contains(desc, "*/*"):
		return "deep"
	case strings.HasSuffix(desc, "/*"):
		return "all"
	case strings.Contains(desc, "nomatch"):
		return "none"
	case strings.Contains(desc, "missing"):
		return "missing"
	}
	return ""
}

func treeDesc(files []c19File) []map[string]string {
	out := make([]map[string]string, len(files))
	for i, f := range files {
		out[i] = map[string]string{"path": f.rel, "kind": f.kind, "content": f.content}
	}
	return out
}
