package main

// Shared by the validator properties: Go value -> Gallina [val] printer, projection of an error
// text onto canonical clauses, configuration of one call, execution with recover().

import (
	"fmt"
	"math"
	"reflect"
	"regexp"
	"sort"
	"strconv"
	"strings"
	"sync/atomic"
	"time"

	"gitee.com/xuesongtao/protoc-go-valid/valid"
	"verif/harness/internal/gal"
)

var timeType = reflect.TypeOf(time.Time{})

func galKd(t reflect.Type) string {
	switch t.Kind() {
	case reflect.Bool:
		return "KBool"
	case reflect.Int, reflect.Int8, reflect.Int16, reflect.Int32, reflect.Int64:
		return "KInt"
	case reflect.Uint, reflect.Uint8, reflect.Uint16, reflect.Uint32, reflect.Uint64, reflect.Uintptr:
		return "KUint"
	case reflect.Float32, reflect.Float64:
		return "KFloat"
	case reflect.String:
		return "KString"
	case reflect.Slice:
		return "(KSlice " + galKd(t.Elem()) + ")"
	case reflect.Array:
		return "(KArray " + galKd(t.Elem()) + ")"
	case reflect.Map:
		return "KMap"
	case reflect.Struct:
		return "KStruct"
	case reflect.Ptr:
		return "KPtr"
	case reflect.Interface:
		return "KIface"
	}
	return "KOther"
}

func galWidth(k reflect.Kind) string {
	switch k {
	case reflect.Int8, reflect.Uint8:
		return "W8"
	case reflect.Int16, reflect.Uint16:
		return "W16"
	case reflect.Int32, reflect.Uint32:
		return "W32"
	case reflect.Int64, reflect.Uint64:
		return "W64"
	}
	return "WInt"
}

func galZ(n int64) string {
	if n < 0 {
		return "(" + strconv.FormatInt(n, 10) + ")"
	}
	return strconv.FormatInt(n, 10)
}

func galFl(f float64) string {
	if math.IsNaN(f) {
		return "FNaN"
	}
	if math.IsInf(f, 1) {
		return "(FInf false)"
	}
	if math.IsInf(f, -1) {
		return "(FInf true)"
	}
	if f == 0 {
		return "(FFin 0 0)"
	}
	fr, e := math.Frexp(f) // f = fr * 2^e, 0.5 <= |fr| < 1
	m := int64(fr * (1 << 53))
	return "(FFin " + galZ(m) + " " + galZ(int64(e-53)) + ")"
}

var tagPairRe = regexp.MustCompile(`(\w+):"((?:[^"\\]|\\.)*)"`)

func galTags(tag reflect.StructTag) string {
	var parts []string
	for _, m := range tagPairRe.FindAllStringSubmatch(string(tag), -1) {
		v, err := strconv.Unquote(`"` + m[2] + `"`)
		if err != nil {
			v = m[2]
		}
		parts = append(parts, "("+gal.Str(m[1])+", "+gal.Str(v)+")")
	}
	return gal.List(parts)
}

// mapKeysSorted returns map keys in a deterministic order (the model iterates in this order)
func mapKeysSorted(v reflect.Value) []reflect.Value {
	keys := v.MapKeys()
	sort.Slice(keys, func(i, j int) bool { return fmt.Sprint(keys[i].Interface()) < fmt.Sprint(keys[j].Interface()) })
	return keys
}

// galVal prints v as a Gallina [val]; multiMap is set when a map with more than one entry is met
func galVal(v reflect.Value, multiMap *bool) string {
	if !v.IsValid() {
		return "VInvalid"
	}
	t := v.Type()
	switch v.Kind() {
	case reflect.Bool:
		return "(VBool " + gal.Bool(v.Bool()) + ")"
	case reflect.Int, reflect.Int8, reflect.Int16, reflect.Int32, reflect.Int64:
		return "(VInt " + galWidth(v.Kind()) + " " + galZ(v.Int()) + ")"
	case reflect.Uint, reflect.Uint8, reflect.Uint16, reflect.Uint32, reflect.Uint64:
		return "(VUint " + galWidth(v.Kind()) + " " + strconv.FormatUint(v.Uint(), 10) + ")"
	case reflect.Float32:
		return "(VFloat true " + galFl(v.Float()) + " " + gal.Str(strconv.FormatFloat(v.Float(), 'f', -1, 32)) + " " + gal.Str(strconv.FormatFloat(v.Float(), 'f', -1, 64)) + ")"
	case reflect.Float64:
		return "(VFloat false " + galFl(v.Float()) + " " + gal.Str(strconv.FormatFloat(v.Float(), 'f', -1, 64)) + " " + gal.Str(strconv.FormatFloat(v.Float(), 'f', -1, 64)) + ")"
	case reflect.String:
		return "(VStr " + gal.Str(v.String()) + ")"
	case reflect.Ptr:
		if v.IsNil() {
			return "(VNilPtr " + gal.Str(t.String()) + ")"
		}
		return "(VPtr " + galVal(v.Elem(), multiMap) + ")"
	case reflect.Slice, reflect.Array:
		parts := make([]string, v.Len())
		for i := range parts {
			parts[i] = galVal(v.Index(i), multiMap)
		}
		if v.Kind() == reflect.Slice {
			return "(VSlice " + gal.Bool(v.IsNil()) + " " + galKd(t.Elem()) + " " + gal.Str(t.Elem().String()) + " " + gal.List(parts) + ")"
		}
		return "(VArray " + galKd(t.Elem()) + " " + gal.Str(t.Elem().String()) + " " + gal.List(parts) + ")"
	case reflect.Map:
		if v.Len() > 1 && multiMap != nil {
			*multiMap = true
		}
		var parts []string
		for _, k := range mapKeysSorted(v) {
			parts = append(parts, "("+galVal(k, multiMap)+", "+galVal(v.MapIndex(k), multiMap)+")")
		}
		return "(VMap " + gal.Bool(v.IsNil()) + " " + galKd(t.Key()) + " " + gal.Str(t.String()) + " " + gal.List(parts) + ")"
	case reflect.Struct:
		if t == timeType {
			return "(VTime " + gal.Bool(v.IsZero()) + ")"
		}
		parts := make([]string, v.NumField())
		for i := range parts {
			f := t.Field(i)
			parts[i] = "(FI " + gal.Str(f.Name) + " " + galTags(f.Tag) + " " + gal.Bool(f.Type == timeType) + ", " + galVal(v.Field(i), multiMap) + ")"
		}
		if id := typeID(t); id != t.String() {
			return "(VStruct (SI3 " + gal.Str(t.Name()) + " " + gal.Str(t.String()) + " " + gal.Str(id) + ") " + gal.List(parts) + ")"
		}
		return "(VStruct (SI " + gal.Str(t.Name()) + " " + gal.Str(t.String()) + ") " + gal.List(parts) + ")"
	case reflect.Interface:
		if v.IsNil() {
			return "(VIface None)"
		}
		return "(VIface (Some " + galVal(v.Elem(), multiMap) + "))"
	}
	return "(VOther " + gal.Str(t.String()) + ")"
}

func galSrc(src interface{}, multiMap *bool) string {
	if src == nil {
		return "None"
	}
	return "(Some " + galVal(reflect.ValueOf(src), multiMap) + ")"
}

func galRM(rm map[string]string) string {
	keys := make([]string, 0, len(rm))
	for k := range rm {
		keys = append(keys, k)
	}
	sort.Strings(keys)
	parts := make([]string, len(keys))
	for i, k := range keys {
		parts[i] = "(" + gal.Str(k) + ", " + gal.Str(rm[k]) + ")"
	}
	return gal.List(parts)
}

// ---------- oracles ----------
type oracleSet struct {
	ip   map[string][2]bool
	tm   map[[2]string]bool
	re   map[[2]string]bool
	json map[string]bool
	stat map[string]*bool
}

func newOracles() *oracleSet {
	return &oracleSet{ip: map[string][2]bool{}, tm: map[[2]string]bool{}, re: map[[2]string]bool{}, json: map[string]bool{}, stat: map[string]*bool{}}
}

func (o *oracleSet) gal() string {
	if o == nil || (len(o.ip) == 0 && len(o.tm) == 0 && len(o.re) == 0 && len(o.json) == 0 && len(o.stat) == 0) {
		return "no_oracles"
	}
	var ip, tm, re, js, st []string
	for k, v := range o.ip {
		ip = append(ip, "("+gal.Str(k)+", ("+gal.Bool(v[0])+", "+gal.Bool(v[1])+"))")
	}
	for k, v := range o.tm {
		tm = append(tm, "("+gal.Str(k[0])+", "+gal.Str(k[1])+", "+gal.Bool(v)+")")
	}
	for k, v := range o.re {
		re = append(re, "("+gal.Str(k[0])+", "+gal.Str(k[1])+", "+gal.Bool(v)+")")
	}
	for k, v := range o.json {
		js = append(js, "("+gal.Str(k)+", "+gal.Bool(v)+")")
	}
	for k, v := range o.stat {
		if v == nil {
			st = append(st, "("+gal.Str(k)+", None)")
		} else {
			st = append(st, "("+gal.Str(k)+", Some ("+gal.Bool(*v)+", nil))")
		}
	}
	sort.Strings(ip)
	sort.Strings(tm)
	sort.Strings(re)
	sort.Strings(js)
	sort.Strings(st)
	return "{| o_ip := " + gal.List(ip) + "; o_time := " + gal.List(tm) + "; o_re := " + gal.List(re) + "; o_json := " + gal.List(js) + "; o_stat := " + gal.List(st) + " |}"
}

// ---------- one call ----------
type walkCall struct {
	Entry    string            // struct | var | map | url
	Tag      string            // struct: target tag ("" = default "valid")
	EmptyTag bool              // struct: the tag name "" passed explicitly (no field has rules under it)
	Typed    []typedRule       // struct: SetRule(rule, obj)
	Unscoped map[string]string // struct: SetRule(rule); nil = none
	HasUnsc  bool
	Local    map[string]string // name -> marker tag ("" = nil function)
	Global   map[string]string // already registered in this process
	VarRules []string
	Rules    map[string]string // map / url
	Src      interface{}
	Orc      *oracleSet
}

type typedRule struct {
	Obj  interface{}
	Rule map[string]string
}

func markFn(tag string) valid.CommonValidFn {
	if tag == "" {
		return nil
	}
	return func(errBuf *strings.Builder, validName, objName, fieldName string, tv reflect.Value) {
		errBuf.WriteString(valid.GetJoinValidErrStr(objName, fieldName, "", valid.ExplainEn+" FN"+tag))
	}
}

func galFnRegs(m map[string]string) string {
	keys := make([]string, 0, len(m))
	for k := range m {
		keys = append(keys, k)
	}
	sort.Strings(keys)
	parts := make([]string, len(keys))
	for i, k := range keys {
		if m[k] == "" {
			parts[i] = "(" + gal.Str(k) + ", FnNil)"
		} else {
			parts[i] = "(" + gal.Str(k) + ", FnMark " + gal.Str(m[k]) + ")"
		}
	}
	return gal.List(parts)
}

// typeID: the identity of a struct type as the library sees it (reflect.Type): package path and name for a named
// type outside package main, otherwise what String() prints (unique for the types this harness builds)
func typeID(t reflect.Type) string {
	if t.Name() != "" && t.PkgPath() != "" && t.PkgPath() != "main" {
		return t.PkgPath() + "." + t.Name()
	}
	return t.String()
}

func (w *walkCall) galCfg() string {
	tag := w.Tag
	if tag == "" && !w.EmptyTag {
		tag = "valid"
	}
	var typed []string
	for _, t := range w.Typed {
		ty := reflect.TypeOf(t.Obj)
		for ty.Kind() == reflect.Ptr {
			ty = ty.Elem()
		}
		typed = append(typed, "("+gal.Str(typeID(ty))+", "+galRM(t.Rule)+")")
	}
	unsc := "None"
	if w.HasUnsc {
		unsc = "(Some " + galRM(w.Unscoped) + ")"
	}
	return "{| c_tag := " + gal.Str(tag) + "; c_typed := " + gal.List(typed) + "; c_unscoped := " + unsc +
		"; c_local := " + galFnRegs(w.Local) + "; c_global := " + galFnRegs(w.Global) + "; c_orc := " + w.Orc.gal() + " |}"
}

// ---------- priming ----------
// Before one measured call in three, a handful of unrelated calls are made and their results dropped: refused calls
// (nil or unsupported sources) that carry rules, calls that carry per-call functions under every built-in rule name, and
// the exported text helpers on their rarely taken branches.  A correct library is unaffected (C12: a call's result
// depends on its own arguments only); state that survives in a pool, a cache or a reused buffer shows up in the
// measured call as a clause nobody asked for, or as a clause that is missing.
var primeCounter uint64

type primeT struct {
	X int    `valid:"ge=1"`
	S string `valid:"required"`
}

// non-nil pointers to scalars under required / exist: walked through the "pointer to something that is no struct" exits
type primePtrT struct {
	P *string `valid:"required"`
	Q *int    `valid:"exist"`
	R **bool  `valid:"exist"`
}

var builtinRuleNames = []string{"required", "exist", "either", "botheq", "to", "ge", "le", "oto", "gt", "lt", "eq", "noeq", "in", "include",
	"phone", "email", "idcard", "year", "year2month", "date", "datetime", "int", "ints", "float", "re", "ip", "ipv4", "ipv6", "unique",
	"json", "prefix", "suffix", "file", "dir"}

func quietly(f func()) {
	defer func() { _ = recover() }()
	f()
}

func prime() {
	n := atomic.AddUint64(&primeCounter, 1)
	if n%3 != 0 {
		return
	}
	noop := func(errBuf *strings.Builder, validName, objName, fieldName string, tv reflect.Value) {}
	const big = "ge=999999999|M9PRIMED"
	// refused calls that carry rules: the pooled object they used must not reach a later call with them
	refused := func() {
		quietly(func() {
			_ = valid.NewVStruct().SetRule(valid.RM{"X": big, "S": "required|M9PRIMED"}).Valid((*primeT)(nil))
		})
		quietly(func() { _ = valid.NewVStruct().SetRule(valid.RM{"X": big}).Valid(7) })
		quietly(func() { _ = valid.NewVMap().SetRule(valid.RM{"k": big}).Valid(nil) })
		quietly(func() { _ = valid.NewVMap().SetRule(valid.RM{"k": big}).Valid(7) })
		quietly(func() { _ = valid.NewVUrl().SetRule(valid.RM{"k": big}).Valid("") })
		quietly(func() { _ = valid.Var(make(chan int), big) })
		quietly(func() { _ = valid.Var(nil, big) })
		quietly(func() { _ = valid.Var((*int)(nil), big, "required|M9PRIMED") })
	}
	// accepted calls that carry a do-nothing function under every built-in rule name
	withFns := func() {
		quietly(func() {
			vs := valid.NewVStruct()
			for _, n := range builtinRuleNames {
				vs.SetValidFn(n, noop)
			}
			_ = vs.Valid(&primeT{X: 1, S: "s"})
		})
		quietly(func() {
			fns := valid.Name2FnMap{}
			for _, n := range builtinRuleNames {
				fns[n] = noop
			}
			_ = valid.StructForFns(&primeT{X: 1, S: "s"}, valid.RM{"X": "ge=1"}, fns)
		})
		quietly(func() {
			vm := valid.NewVMap().SetRule(valid.RM{"k": "ge=1"})
			for _, n := range builtinRuleNames {
				vm.SetValidFn(n, noop)
			}
			_ = vm.Valid(map[string]int{"k": 1})
		})
		quietly(func() {
			vu := valid.NewVUrl().SetRule(valid.RM{"k": "ge=1"})
			for _, n := range builtinRuleNames {
				vu.SetValidFn(n, noop)
			}
			_ = vu.Valid("http://h/p?k=1")
		})
		quietly(func() {
			vv := valid.NewVVar().SetRules("ge=1")
			for _, n := range builtinRuleNames {
				vv.SetValidFn(n, noop)
			}
			_ = vv.Valid(1)
		})
	}
	// the exported text helpers, on their rarely taken branches
	helpers := func() {
		quietly(func() { _ = valid.GenValidKV("M9PRIMED") })
		quietly(func() { _ = valid.GenValidKV("in", "M9PRIMED", "M9PRIMED") })
		quietly(func() { _ = valid.ValidNamesSplit("M9PRIMED='a,b',M9PRIMED") })
		quietly(func() { _, _, _ = valid.ParseValidNameKV("M9PRIMED=1|M9PRIMED") })
		quietly(func() { _ = valid.ToStr(1.5) })
		quietly(func() { _ = valid.GetOnlyExplainErr("\"P\" input \"1\", explain: M9PRIMED; ") })
		quietly(func() { _ = valid.GetJoinFieldErr("P", "P", "explain: M9PRIMED") })
		quietly(func() { _ = valid.GetJoinFieldErr("", "", fmt.Errorf("explain: M9PRIMED")) })
		quietly(func() { _ = valid.GetJoinValidErrStr("P", "P", "explain: M9PRIMED") })
	}
	// accepted calls that leave through rarely taken exits (a counter or flag kept per pooled object would drift);
	// many in a row: too quick for a garbage collection to empty the pool in between
	burst := func() {
		quietly(func() {
			ps, pi, pb := "s", 1, true
			ppb := &pb
			for k := 0; k < 70; k++ {
				_ = valid.Struct(&primePtrT{P: &ps, Q: &pi, R: &ppb})
			}
		})
	}
	// which family comes last decides what a pool hands to the measured call
	// (a period of five: callers that run every case twice keep a fixed parity of n/3, and must still meet every order)
	switch (n / 3) % 5 {
	case 0:
		withFns()
		helpers()
		refused()
	case 1:
		refused()
		helpers()
		withFns()
	case 2, 4:
		refused()
		withFns()
		helpers()
	default:
		refused()
		helpers()
		burst()
	}
}

var refusedCounter uint64

// primeRefusedSameType: before one struct call in four, two refused calls (nil source, typed nil pointer) that carry an
// unscoped rule set and a rule set for the measured object's OWN type, naming its own exported fields with rules every
// value violates; whatever a refused call leaves behind in a pooled validator then shows in the measured call as
// clauses marked M9PRIMED that nobody asked for
func (w *walkCall) primeRefusedSameType() {
	if w.Entry != "struct" || w.Src == nil {
		return
	}
	if atomic.AddUint64(&refusedCounter, 1)%4 != 0 {
		return
	}
	ty := reflect.TypeOf(w.Src)
	for ty.Kind() == reflect.Ptr {
		ty = ty.Elem()
	}
	if ty.Kind() != reflect.Struct {
		return
	}
	rm := valid.RM{}
	for i := 0; i < ty.NumField(); i++ {
		f := ty.Field(i)
		if f.PkgPath == "" {
			rm[f.Name] = "required|M9PRIMED,eq=999999999|M9PRIMED"
		}
	}
	if len(rm) == 0 {
		return
	}
	nilPtr := reflect.Zero(reflect.PtrTo(ty)).Interface()
	quietly(func() { _ = valid.NewVStruct().SetRule(rm).SetRule(rm, nilPtr).Valid(nil) })
	quietly(func() { _ = valid.NewVStruct().SetRule(rm).SetRule(rm, nilPtr).Valid(nilPtr) })
	if w.Tag != "" {
		quietly(func() { _ = valid.NewVStruct(w.Tag).SetRule(rm).SetRule(rm, nilPtr).Valid(nilPtr) })
	}
}

// run executes the call on the implementation; returns (err, panicked, panic text)
func (w *walkCall) run() (err error, panicked bool, ptext string) {
	prime()
	w.primeRefusedSameType()
	defer func() {
		if p := recover(); p != nil {
			panicked = true
			ptext = fmt.Sprint(p)
		}
	}()
	// the documented convenience entry points are thin wrappers over the builders; a call goes through a wrapper
	// whenever one fits its configuration (chosen by the configuration alone, so that a repeated call takes the same road)
	fnMap := func() valid.Name2FnMap {
		m := valid.Name2FnMap{}
		for name, tag := range w.Local {
			m[name] = markFn(tag)
		}
		return m
	}
	switch w.Entry {
	case "struct":
		switch {
		case w.EmptyTag && !w.HasUnsc && len(w.Typed) == 0 && len(w.Local) == 0:
			err = valid.ValidateStruct(w.Src, "")
			return
		case len(w.Typed) == 0 && len(w.Local) == 0 && !w.HasUnsc && w.Tag == "":
			err = valid.Struct(w.Src)
			return
		case len(w.Typed) == 0 && len(w.Local) == 0 && !w.HasUnsc:
			err = valid.ValidateStruct(w.Src, w.Tag)
			return
		case len(w.Typed) == 0 && len(w.Local) == 0 && w.HasUnsc && w.Tag == "" && len(w.Unscoped)%2 == 0:
			err = valid.Struct(w.Src, valid.RM(w.Unscoped))
			return
		case len(w.Typed) == 0 && len(w.Local) == 0 && w.HasUnsc && w.Tag == "" && len(w.Unscoped)%4 == 1:
			// Struct takes a variadic list of rule sets and uses the first one only: the others change nothing
			decoy := valid.RM{}
			for k := range w.Unscoped {
				decoy[k] = "eq=987654321|M9DECOY,required|M9DECOY"
			}
			decoy["NoSuchField"] = "required|M9DECOY"
			err = valid.Struct(w.Src, valid.RM(w.Unscoped), decoy, valid.RM{"S": "eq=987654321|M9DECOY", "A": "required|M9DECOY"})
			return
		case len(w.Typed) == 0 && len(w.Local) == 0 && w.HasUnsc && w.Tag != "" && len(w.Unscoped)%2 == 0:
			err = valid.StructForFn(w.Src, valid.RM(w.Unscoped), w.Tag)
			return
		case len(w.Typed) == 0 && len(w.Local) == 0 && w.HasUnsc && w.Tag != "":
			err = valid.ValidStructForRule(valid.RM(w.Unscoped), w.Src, w.Tag)
			return
		case len(w.Typed) == 0 && len(w.Local) > 0 && w.HasUnsc && w.Tag == "" && !w.EmptyTag:
			err = valid.StructForFns(w.Src, valid.RM(w.Unscoped), fnMap())
			return
		case len(w.Typed) == 0 && len(w.Local) > 0 && w.HasUnsc && w.Tag != "":
			err = valid.StructForFns(w.Src, valid.RM(w.Unscoped), fnMap(), w.Tag)
			return
		case len(w.Typed) == 0 && len(w.Local) == 1 && !w.HasUnsc && !w.EmptyTag:
			for name, tag := range w.Local {
				if w.Tag == "" {
					err = valid.ValidStructForMyValidFn(w.Src, name, markFn(tag))
				} else {
					err = valid.ValidStructForMyValidFn(w.Src, name, markFn(tag), w.Tag)
				}
			}
			return
		case len(w.Typed) > 0 && len(w.Local) == 0 && !w.HasUnsc && w.Tag == "":
			rules := map[interface{}]valid.RM{}
			dup := false
			for _, t := range w.Typed {
				if !reflect.TypeOf(t.Obj).Comparable() { // a struct value holding slices cannot be a map key
					dup = true
					break
				}
				if _, ok := rules[t.Obj]; ok {
					dup = true
					break
				}
				rules[t.Obj] = valid.RM(t.Rule)
			}
			if !dup {
				err = valid.NestedStructForRule(w.Src, rules)
				return
			}
		}
		var vs *valid.VStruct
		switch {
		case w.EmptyTag:
			vs = valid.NewVStruct("")
		case w.Tag == "":
			vs = valid.NewVStruct()
		default:
			vs = valid.NewVStruct(w.Tag)
		}
		if w.HasUnsc {
			vs.SetRule(valid.RM(w.Unscoped))
		}
		for _, t := range w.Typed {
			vs.SetRule(valid.RM(t.Rule), t.Obj)
		}
		for name, tag := range w.Local {
			vs.SetValidFn(name, markFn(tag))
		}
		err = vs.Valid(w.Src)
	case "var":
		if len(w.Local) == 0 {
			err = valid.Var(w.Src, w.VarRules...)
			return
		}
		vv := valid.NewVVar().SetRules(w.VarRules...)
		for name, tag := range w.Local {
			vv.SetValidFn(name, markFn(tag))
		}
		err = vv.Valid(w.Src)
	case "map":
		switch {
		case len(w.Local) == 0:
			err = valid.Map(w.Src, valid.RM(w.Rules))
			return
		case len(w.Rules)%2 == 0:
			err = valid.MapFn(w.Src, valid.RM(w.Rules), fnMap())
			return
		}
		vm := valid.NewVMap().SetRule(valid.RM(w.Rules))
		for name, tag := range w.Local {
			vm.SetValidFn(name, markFn(tag))
		}
		err = vm.Valid(w.Src)
	case "url":
		if len(w.Local) == 0 {
			err = valid.Url(w.Src, valid.RM(w.Rules))
			return
		}
		if len(w.Local) == 1 && len(w.Rules) == 0 {
			for name, tag := range w.Local {
				err = valid.UrlForFn(w.Src, name, markFn(tag))
			}
			return
		}
		vu := valid.NewVUrl().SetRule(valid.RM(w.Rules))
		for name, tag := range w.Local {
			vu.SetValidFn(name, markFn(tag))
		}
		err = vu.Valid(w.Src)
	}
	return
}

// ---------- canonical projection of an error text ----------
const us = "\x1f"

var customBodyRe = regexp.MustCompile(`^(explain:|说明:) (M\d|T\d|标\d|FN)`)
var ruleErrRe = regexp.MustCompile(`^valid "(\w+)" is not ok`)

func echoFilter(e string) string {
	for _, p := range []string{"[", "{", "&", "<", "map[", "0x"} {
		if strings.HasPrefix(e, p) {
			return "?"
		}
	}
	return e
}

func canonClause(t string) string {
	// group clauses
	for _, g := range [][2]string{{" they shouldn't all be empty", "G:either:"}, {" they should be equal", "G:botheq:"}} {
		if strings.HasSuffix(t, " "+valid.ExplainEn+g[0]) {
			members := strings.TrimSuffix(t, " "+valid.ExplainEn+g[0])
			return us + "-" + us + g[1] + members
		}
	}
	path, rest := "", t
	if strings.HasPrefix(t, `"`) {
		if j := strings.Index(t[1:], `" `); j >= 0 {
			path, rest = t[1:1+j], t[1+j+2:]
		}
	}
	if strings.HasPrefix(rest, `input "`) {
		body := rest[len(`input "`):]
		echo, others := "", ""
		if j := strings.Index(body, `", `); j >= 0 {
			echo, others = body[:j], body[j+3:]
		} else {
			echo = strings.TrimSuffix(body, `"`)
		}
		kind := "D"
		if customBodyRe.MatchString(others) {
			kind = "C:" + others
		}
		return path + us + echoFilter(echo) + us + kind
	}
	kind := "F:" + rest
	if m := ruleErrRe.FindStringSubmatch(rest); m != nil {
		kind = "W:" + m[1]
	} else if strings.HasPrefix(rest, "strconv.Atoi") {
		kind = "A"
	}
	return path + us + "-" + us + kind
}

func canonErr(err error, sortMembers bool) []string {
	parts := strings.Split(err.Error(), valid.ErrEndFlag)
	out := make([]string, len(parts))
	for i, p := range parts {
		out[i] = canonClause(p)
		// map input: the members of a group come in Go map order; compared as a set
		if sortMembers && strings.HasPrefix(out[i], us+"-"+us+"G:") {
			j := strings.Index(out[i][6:], ":") + 7
			ms := strings.Split(out[i][j:], ", ")
			sort.Strings(ms)
			out[i] = out[i][:j] + strings.Join(ms, ", ")
		}
	}
	return out
}

// galObs prints the observation
func galObs(err error, panicked bool, sortMembers bool) (string, []string) {
	if panicked {
		return "ObsPanic", nil
	}
	if err == nil {
		return "ObsNil", nil
	}
	cs := canonErr(err, sortMembers)
	return "(ObsErr " + gal.StrList(cs) + ")", cs
}

// caseTerm builds the CWalk term for a call
func (w *walkCall) caseTerm(specs []string) (term string, desc map[string]interface{}) {
	multi := false
	src := galSrc(w.Src, &multi)
	var entry string
	switch w.Entry {
	case "struct":
		entry = "(EStruct " + w.galCfg() + " " + src + ")"
	case "var":
		entry = "(EVar " + w.galCfg() + " " + gal.StrList(w.VarRules) + " " + src + ")"
	case "map":
		entry = "(EMap " + w.galCfg() + " " + galRM(w.Rules) + " " + src + ")"
	case "url":
		entry = "(EUrl " + w.galCfg() + " " + galRM(w.Rules) + " " + src + ")"
	}
	err, panicked, ptext := w.run()
	obs, _ := galObs(err, panicked, w.Entry == "map")
	term = "CWalk " + entry + " " + gal.Bool(!multi) + " " + obs + " " + gal.List(specs)
	desc = map[string]interface{}{"entry": w.Entry, "src": fmt.Sprintf("%#v", w.Src), "src_type": fmt.Sprintf("%T", w.Src)}
	if w.Entry == "var" {
		desc["rules"] = w.VarRules
	}
	if w.Rules != nil {
		desc["rules"] = w.Rules
	}
	if w.Tag != "" {
		desc["tag"] = w.Tag
	}
	if panicked {
		desc["panic"] = ptext
	} else if err != nil {
		desc["error"] = err.Error()
	} else {
		desc["error"] = nil
	}
	return
}
