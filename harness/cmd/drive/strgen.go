package main

import (
	"strings"

	"verif/harness/internal/gal"
)

// alphabets
var (
	asciiLetters = []string{"a", "b", "c", "x", "y", "z", "A", "Z", "0", "1", "5", "9", "_"}
	fourByte     = []string{"😀", "𠀀", "𝄞", "🀄"}                               // one character, four bytes each
	cjk          = []string{"中", "文", "必", "填", "说", "明", "一", "龥", "龦", "㐀"} // 一 U+4E00, 龥 U+9FA5 inside; 龦 U+9FA6, 㐀 U+3400 outside
	punct        = []string{"=", "~", "/", "(", ")", "|", ",", "'", " ", "-", ":", ".", "@", "+", "\\", ";", "\"", "%", "&", "?", "$"}
	ctrl         = []string{"\x00", "\n", "\t", "\r", "\x1a", "\x7f"}
	badUtf8      = []string{"\xff", "\xc0", "\xe4\xb8", "\x80", "\xed\xa0\x80", "\xf4\x90\x80\x80", "\xc2"}
)

func randWord(r *gal.Rng, alpha [][]string, minLen, maxLen int) string {
	n := r.Range(minLen, maxLen)
	var b strings.Builder
	for i := 0; i < n; i++ {
		a := alpha[r.Intn(len(alpha))]
		b.WriteString(a[r.Intn(len(a))])
	}
	return b.String()
}

func randBytes(r *gal.Rng, maxLen int) string {
	n := r.Intn(maxLen + 1)
	b := make([]byte, n)
	for i := range b {
		switch r.Intn(4) {
		case 0:
			b[i] = byte(r.Intn(256))
		case 1:
			b[i] = "=|,'~/()"[r.Intn(8)]
		default:
			b[i] = byte('a' + r.Intn(4))
		}
	}
	return string(b)
}
