package main

import (
	"bufio"
	"bytes"
	"encoding/json"
	"fmt"
	"os"
	"os/exec"
	"runtime"
	"sort"
	"strconv"
	"strings"
	"sync"
	"sync/atomic"
	"time"

	"gitee.com/xuesongtao/protoc-go-valid/valid"
	"verif/harness/internal/gal"
)

func init() {
	drivers["C10"] = runC10
	workers["lruconc"] = lruConcWorker
}

type concEv struct {
	T    int     `json:"t"`
	Code int64   `json:"c"` // kind*1000000 + key*100 + value ; kind 4 = Dump
	Res  []int64 `json:"r"`
	Inv  int64   `json:"i"`
	Ret  int64   `json:"e"`
}

type concRun struct {
	Kind   string   `json:"kind"` // small | large
	Cap    int      `json:"cap"`
	G      int      `json:"g"`
	Events []concEv `json:"events,omitempty"`
	Len    int      `json:"len"`
	Lines  int      `json:"lines"`
	Panics []string `json:"panics,omitempty"`
	Ops    int      `json:"ops"`
}

func doOp(c *valid.LRUCache, code int64) []int64 {
	kind, k, v := code/1000000, int((code/100)%10000), int(code%100)
	switch kind {
	case 0:
		c.Store(k, v)
	case 1:
		x, ok := c.Load(k)
		if !ok {
			return []int64{0}
		}
		return []int64{int64(1 + x.(int))}
	case 2:
		c.Delete(k)
	case 3:
		return []int64{int64(c.Len())}
	case 4:
		d := c.Dump()
		out := []int64{}
		if d != "" {
			for _, line := range strings.Split(d, "\n") {
				n, _ := strconv.Atoi(line)
				out = append(out, int64(n))
			}
		}
		return out
	}
	return nil
}

func genCode(r *gal.Rng, nkeys int, withDump bool) int64 {
	if nkeys == 1 { // contention stream: everybody stores / deletes the same key
		if r.Intn(3) == 0 {
			return 2 * 1000000
		}
		return int64(r.Range(1, 9))
	}
	k := int64(r.Intn(nkeys))
	switch x := r.Intn(12); {
	case x < 4:
		return 0*1000000 + k*100 + int64(r.Range(1, 9))
	case x < 8:
		return 1*1000000 + k*100
	case x < 10:
		return 2*1000000 + k*100
	case x == 10 || !withDump:
		return 3 * 1000000
	default:
		return 4 * 1000000
	}
}

func oneConcRun(r *gal.Rng, kind string, cp, g, perG, nkeys int) concRun {
	done := make(chan concRun, 1)
	rr := r.Fork()
	go func() { done <- oneConcRun0(rr, kind, cp, g, perG, nkeys) }()
	select {
	case x := <-done:
		return x
	case <-time.After(30 * time.Second):
		return concRun{Kind: kind, Cap: cp, G: g, Panics: []string{fmt.Sprintf("DEADLOCK: %d goroutines did not finish within 30 s (cap %d)", g, cp)}}
	}
}

func oneConcRun0(r *gal.Rng, kind string, cp, g, perG, nkeys int) concRun {
	c := valid.NewLRU(cp)
	var stamp, ready int64
	var wg sync.WaitGroup
	var mu sync.Mutex
	res := concRun{Kind: kind, Cap: cp, G: g, Ops: g * perG}
	start := make(chan struct{})
	plans := make([][]int64, g)
	yields := make([][]bool, g)
	for t := 0; t < g; t++ {
		plans[t] = make([]int64, perG)
		yields[t] = make([]bool, perG)
		for j := range plans[t] {
			plans[t][j] = genCode(r, nkeys, true)
			yields[t][j] = r.Chance(30)
		}
	}
	record := kind == "small"
	for t := 0; t < g; t++ {
		wg.Add(1)
		go func(t int) {
			defer wg.Done()
			defer func() {
				if p := recover(); p != nil {
					mu.Lock()
					res.Panics = append(res.Panics, fmt.Sprint(p))
					mu.Unlock()
				}
			}()
			<-start
			atomic.AddInt64(&ready, 1)
			for atomic.LoadInt64(&ready) < int64(g) { // spinning barrier: start together
			}
			var local []concEv
			for j, code := range plans[t] {
				if yields[t][j] {
					runtime.Gosched()
				}
				inv := atomic.AddInt64(&stamp, 1)
				out := doOp(c, code)
				ret := atomic.AddInt64(&stamp, 1)
				if record {
					local = append(local, concEv{T: t, Code: code, Res: out, Inv: inv, Ret: ret})
				}
			}
			if record {
				mu.Lock()
				res.Events = append(res.Events, local...)
				mu.Unlock()
			}
		}(t)
	}
	close(start)
	wg.Wait()
	res.Len = c.Len()
	d := c.Dump()
	if d != "" {
		res.Lines = len(strings.Split(d, "\n"))
	}
	return res
}

// scriptedRun: a sequential prefix, one call per goroutine started together, a sequential suffix that probes the
// final state (Dump, then Load of every key); every call is recorded with its stamps
func scriptedRun(cp int, pre []int64, conc []int64, post []int64) concRun {
	done := make(chan concRun, 1)
	go func() { done <- scriptedRun0(cp, pre, conc, post) }()
	select {
	case r := <-done:
		return r
	case <-time.After(5 * time.Second): // a call that never returns (a lock left held): the goroutines are abandoned
		return concRun{Kind: "small", Cap: cp, G: len(conc), Panics: []string{fmt.Sprintf("DEADLOCK: calls did not return within 5 s (cap %d, prefix %v, concurrent %v)", cp, pre, conc)}}
	}
}

func scriptedRun0(cp int, pre []int64, conc []int64, post []int64) concRun {
	c := valid.NewLRU(cp)
	var stamp, ready int64
	res := concRun{Kind: "small", Cap: cp, G: len(conc), Ops: len(pre) + len(conc) + len(post)}
	rec := func(t int, code int64) concEv {
		inv := atomic.AddInt64(&stamp, 1)
		out := doOp(c, code)
		ret := atomic.AddInt64(&stamp, 1)
		return concEv{T: t, Code: code, Res: out, Inv: inv, Ret: ret}
	}
	func() {
		defer func() {
			if p := recover(); p != nil {
				res.Panics = append(res.Panics, fmt.Sprint(p))
			}
		}()
		for _, code := range pre {
			res.Events = append(res.Events, rec(0, code))
		}
	}()
	evs := make([]concEv, len(conc))
	var wg sync.WaitGroup
	var mu sync.Mutex
	for t := range conc {
		wg.Add(1)
		go func(t int) {
			defer wg.Done()
			defer func() {
				if p := recover(); p != nil {
					mu.Lock()
					res.Panics = append(res.Panics, fmt.Sprint(p))
					mu.Unlock()
				}
			}()
			atomic.AddInt64(&ready, 1)
			for atomic.LoadInt64(&ready) < int64(len(conc)) {
			}
			evs[t] = rec(t, conc[t])
		}(t)
	}
	wg.Wait()
	res.Events = append(res.Events, evs...)
	func() {
		defer func() {
			if p := recover(); p != nil {
				res.Panics = append(res.Panics, fmt.Sprint(p))
			}
		}()
		for _, code := range post {
			res.Events = append(res.Events, rec(0, code))
		}
	}()
	res.Len = c.Len()
	if d := c.Dump(); d != "" {
		res.Lines = len(strings.Split(d, "\n"))
	}
	return res
}

// the shape of a recorded history without its absolute stamps: which calls, which results, which order of invocations
// and returns (two runs of the same shape are the same case)
func historyShape(run concRun) string {
	type pt struct {
		stamp int64
		tag   string
	}
	var pts []pt
	for i, e := range run.Events {
		pts = append(pts, pt{e.Inv, fmt.Sprintf("i%d", i)}, pt{e.Ret, fmt.Sprintf("r%d", i)})
	}
	sort.Slice(pts, func(a, b int) bool { return pts[a].stamp < pts[b].stamp })
	var b strings.Builder
	fmt.Fprintf(&b, "%d|", run.Cap)
	for _, e := range run.Events {
		fmt.Fprintf(&b, "%d:%v;", e.Code, e.Res)
	}
	for _, p := range pts {
		b.WriteString(p.tag)
	}
	return b.String()
}

// worker: lruconc <seed> <nsmall> <nlarge> <largeOps>
func lruConcWorker(args []string) {
	seed, _ := strconv.ParseUint(args[0], 10, 64)
	nsmall, _ := strconv.Atoi(args[1])
	nlarge, _ := strconv.Atoi(args[2])
	largeOps, _ := strconv.Atoi(args[3])
	r := gal.NewRng(seed)
	enc := json.NewEncoder(os.Stdout) // unbuffered: what was recorded survives a worker that has to be killed
	for i := 0; i < nsmall; i++ {
		g := r.Range(2, 4)
		perG := 2
		if g == 2 {
			perG = r.Range(2, 4)
		}
		_ = enc.Encode(oneConcRun(r, "small", r.Intn(3), g, perG, 3))
	}
	// a full cache, then one Load of a resident key races one Store of a new key (and variants); afterwards the final
	// state is probed.  The same shape is emitted once.
	seen := map[string]bool{}
	stuck := 0
	for i := 0; i < nsmall*50; i++ {
		cp := 1 + i%2
		pre := []int64{0*1000000 + 0*100 + 1}
		if cp == 2 {
			pre = append(pre, 0*1000000+1*100+2)
		}
		var conc []int64
		switch i % 9 {
		case 5:
			conc = []int64{0*1000000 + 2*100 + 3, 3 * 1000000} // Store(k2) || Len
		case 6:
			conc = []int64{0*1000000 + 2*100 + 3, 2*1000000 + 0*100} // Store(k2) || Delete(k0)
		case 7:
			conc = []int64{0*1000000 + 2*100 + 3, 3 * 1000000, 3 * 1000000}
		case 8: // capacity 0: Store(k0) || Delete(k0) on an empty cache
			cp, pre = 0, nil
			conc = []int64{0*1000000 + 0*100 + 1, 2*1000000 + 0*100}
		case 0:
			conc = []int64{1*1000000 + 0*100, 0*1000000 + 2*100 + 3} // Load(k0) || Store(k2)
		case 1:
			conc = []int64{1*1000000 + 0*100, 0*1000000 + 2*100 + 3, 0*1000000 + 3*100 + 4}
		case 2:
			conc = []int64{0*1000000 + 0*100 + 5, 0*1000000 + 2*100 + 3} // Store(k0) (existing) || Store(k2)
		case 3:
			conc = []int64{2*1000000 + 0*100, 0*1000000 + 2*100 + 3} // Delete(k0) || Store(k2)
		default:
			conc = []int64{1*1000000 + 0*100, 2*1000000 + 0*100, 0*1000000 + 2*100 + 3} // Load || Delete || Store
		}
		post := []int64{3 * 1000000, 4 * 1000000, 1*1000000 + 0*100, 1*1000000 + 1*100, 1*1000000 + 2*100, 1*1000000 + 3*100}
		run := scriptedRun(cp, pre, conc, post)
		if sh := historyShape(run); !seen[sh] || len(run.Panics) > 0 {
			seen[sh] = true
			_ = enc.Encode(run)
		}
		if len(run.Panics) > 0 {
			if stuck++; stuck >= 3 { // enough evidence; every further one costs the watchdog's delay
				break
			}
		}
	}
	for i := 0; i < nsmall*3; i++ { // check-then-act windows: 3..8 goroutines hammer one key
		_ = enc.Encode(oneConcRun(r, "contend", r.Range(1, 2), r.Range(3, 8), 24, 1))
	}
	for i := 0; i < nlarge; i++ {
		nkeys := 4
		if r.Bool() {
			nkeys = 2000
		}
		_ = enc.Encode(oneConcRun(r, "large", r.Intn(9), r.Range(2, 16), largeOps, nkeys))
	}
}

func runC10(c *Ctx) error {
	w := gal.NewWriter("C10", c.Out, "Run.Run_C10", 150)
	nworkers, nsmall, nlarge, largeOps := 4, 100, 6, 1500
	if c.Thorough {
		nworkers, nsmall, nlarge, largeOps = 12, 400, 30, 5000
	}
	self, err := os.Executable()
	if err != nil {
		return err
	}
	var violations []interface{}
	raceReports := 0
	total := 0
	for wi := 0; wi < nworkers; wi++ {
		cmd := exec.Command(self, "worker", "lruconc", strconv.FormatUint(c.Rng.U64()%1000000007, 10), strconv.Itoa(nsmall), strconv.Itoa(nlarge), strconv.Itoa(largeOps))
		var stdout, stderr bytes.Buffer
		cmd.Stdout, cmd.Stderr = &stdout, &stderr
		cmd.Env = append(os.Environ(), "GORACE=halt_on_error=0 exitcode=66")
		if err := cmd.Start(); err != nil {
			return err
		}
		done := make(chan error, 1)
		go func() { done <- cmd.Wait() }()
		var werr error
		select {
		case werr = <-done:
		case <-time.After(150 * time.Second):
			_ = cmd.Process.Kill()
			<-done
			violations = append(violations, map[string]interface{}{"kind": "deadlock-or-timeout", "worker": wi, "note": "worker did not finish within 150 s"})
		}
		se := stderr.String()
		if strings.Contains(se, "DATA RACE") {
			raceReports += strings.Count(se, "WARNING: DATA RACE")
			first := se
			if len(first) > 2500 {
				first = first[:2500]
			}
			violations = append(violations, map[string]interface{}{"kind": "data-race", "worker": wi, "reports": strings.Count(se, "WARNING: DATA RACE"), "first_report": first})
		} else if werr != nil {
			tail := se
			if len(tail) > 2500 {
				tail = tail[len(tail)-2500:]
			}
			violations = append(violations, map[string]interface{}{"kind": "worker-crash", "worker": wi, "error": werr.Error(), "stderr": tail})
		}
		sc := bufio.NewScanner(&stdout)
		sc.Buffer(make([]byte, 1<<20), 1<<26)
		for sc.Scan() {
			var run concRun
			if json.Unmarshal(sc.Bytes(), &run) != nil {
				continue
			}
			total++
			for _, p := range run.Panics {
				violations = append(violations, map[string]interface{}{"kind": "panic", "panic": p, "cap": run.Cap, "goroutines": run.G})
			}
			if run.Kind == "small" {
				evs := make([]string, len(run.Events))
				overlap := 0
				for i, e := range run.Events {
					evs[i] = fmt.Sprintf("(%d, %s, %d, %d)", e.Code, zlist(e.Res), e.Inv, e.Ret)
					for _, f := range run.Events {
						if f.T != e.T && f.Inv < e.Ret && e.Inv < f.Ret {
							overlap++
							break
						}
					}
				}
				w.Add(fmt.Sprintf("CLin %d [%s]%%Z", run.Cap, strings.Join(evs, "; ")),
					map[string]interface{}{"kind": "small history", "cap": run.Cap, "goroutines": run.G, "events": run.Events},
					fmt.Sprintf("lin:cap%d:g%d:n%d:ov%d", run.Cap, run.G, len(run.Events), overlap))
				w.Count("small")
				if overlap > 0 {
					w.Count("small.with_overlapping_calls")
				}
			}
			w.Add(fmt.Sprintf("CQuiesce %d %s %d", run.Cap, galZ(int64(run.Len)), run.Lines),
				map[string]interface{}{"kind": "quiescent " + run.Kind, "cap": run.Cap, "goroutines": run.G, "ops": run.Ops, "len": run.Len, "dump_lines": run.Lines},
				fmt.Sprintf("q:%s:cap%d:g%d:len%d", run.Kind, run.Cap, run.G, run.Len))
			w.Count("quiescent." + run.Kind)
		}
	}
	w.Extra["violations"] = violations
	w.Extra["x_race_detector"] = fmt.Sprintf("workers built with -race: %d data race reports", raceReports)
	w.Extra["x_runs"] = total
	w.Extra["x_race_build"] = raceEnabled
	if !raceEnabled {
		violations = append(violations, map[string]interface{}{"kind": "harness-not-race-built", "note": "the driver was built without -race; data races cannot be observed"})
		w.Extra["violations"] = violations
	}
	return w.Flush()
}
