package main

import (
	"fmt"
	"reflect"

	ctime "verif/harness/internal/clock/time"

	"verif/harness/internal/gal"
)

func init() {
	drivers["C02"] = func(c *Ctx) error { return runGraphs(c, "C02", 4, 2) }
	drivers["C04"] = func(c *Ctx) error { return runGraphs(c, "C04", 3, 5) }
}

// runGraphs: synthesised struct graphs with by-construction expectations.
// C02 favours wide structs with many rules (many simultaneous violations); C04 favours depth.
func runGraphs(c *Ctx, prop string, width, depth int) error {
	w := gal.NewWriter(prop, c.Out, "Run.Run_Walk", 60)
	n := 420
	if c.Thorough {
		n = 6000
	}
	for i := 0; i < n; i++ {
		g := newWgen(c.Rng.Fork())
		d := g.r.Range(0, depth)
		b := g.buildStruct(d, "")
		var src interface{}
		top := "value"
		switch g.r.Intn(4) {
		case 0:
			src = b.val.Interface()
		case 1, 2:
			src = b.val.Addr().Interface()
			top = "pointer"
		default:
			p := b.val.Addr()
			pp := reflect.New(p.Type())
			pp.Elem().Set(p)
			src = pp.Interface()
			top = "pointer-to-pointer"
		}
		call := &walkCall{Entry: "struct", Src: src}
		var specs []string
		if len(b.exps) == 0 {
			specs = []string{"SNil"}
		} else {
			specs = []string{"SExpect " + gal.Bool(!g.multi) + " " + galExps(b.exps)}
		}
		specs = append(specs, "SNoPanic")
		term, desc := call.caseTerm(specs)
		desc["expected_clauses"] = len(b.exps)
		desc["top"] = top
		nclass := "0"
		switch {
		case len(b.exps) == 1:
			nclass = "1"
		case len(b.exps) > 1 && len(b.exps) <= 4:
			nclass = "2-4"
		case len(b.exps) > 4:
			nclass = "5+"
		}
		w.Add(term, desc, fmt.Sprintf("%s:n%s:d%d:%s", top, nclass, d, g.featureCell()))
		w.Count("clauses." + nclass)
		w.Count("depth." + fmt.Sprint(d))
		for k, v := range g.feat {
			if v {
				w.Count("feature." + k)
			}
		}
	}
	// ---- the same struct type validated repeatedly: with a per-call rule override on one field, then plainly.
	// Every call is judged on its own (by its own arguments): the expectation of each is built independently.
	pairs := n / 6
	for i := 0; i < pairs; i++ {
		g := newWgen(c.Rng.Fork())
		proto := g.buildStructType(0)
		for round := 0; round < 3; round++ {
			sv, exps := proto.fill(g, "")
			call := &walkCall{Entry: "struct", Src: sv.Addr().Interface()}
			kind := "plain"
			if round == 0 || (round == 2 && g.r.Bool()) {
				pf := proto.fields[g.r.Intn(len(proto.fields))]
				rv := pf.sp.rules[g.r.Intn(len(pf.sp.rules))]
				m := g.mark()
				call.HasUnsc = true
				call.Unscoped = map[string]string{pf.name: rv.text + "|" + m}
				// the override replaces the field's tag rules for this call only
				var ne []expE
				done := false
				zero := sv.FieldByName(pf.name).IsZero()
				for _, pf2 := range proto.fields {
					if pf2.name == pf.name {
						if rv.viol && !zero {
							ne = append(ne, expE{"C", pf.name, m})
						}
						done = true
						continue
					}
					for _, e := range exps {
						if e.path == pf2.name {
							ne = append(ne, e)
						}
					}
				}
				_ = done
				exps = ne
				kind = "override"
			}
			var specs []string
			if len(exps) == 0 {
				specs = []string{"SNil"}
			} else {
				specs = []string{"SExpect true " + galExps(exps)}
			}
			specs = append(specs, "SNoPanic")
			term, desc := call.caseTerm(specs)
			desc["expected_clauses"] = len(exps)
			desc["round"] = round
			desc["call"] = kind
			w.Add(term, desc, fmt.Sprintf("repeat:%s:r%d:n%d", kind, round, len(exps)))
			w.Count("repeat." + kind)
		}
	}
	// ---- a user type that prints "time.Time" is an ordinary struct; the real time.Time stays unvalidated
	for i := 0; i < 4; i++ {
		wc := wclock()
		exps := []expE{{"C", "WClock.At.S", "T61"}, {"C", "WClock.P.S", "T61"}, {"C", "WClock.Ls[0].S", "T61"}, {"C", "WClock.After", "T65"}}
		var src interface{} = &wc
		switch i {
		case 1:
			src = wc
		case 2: // the zero value of the user type under required
			wc.At = ctime.Time{}
			exps = []expE{{"C", "WClock.At", "T63"}, {"C", "WClock.P.S", "T61"}, {"C", "WClock.Ls[0].S", "T61"}, {"C", "WClock.After", "T65"}}
			src = &wc
		case 3:
			wc.P, wc.Ls = nil, nil
			exps = []expE{{"C", "WClock.At.S", "T61"}, {"C", "WClock.After", "T65"}}
			src = &wc
		}
		call := &walkCall{Entry: "struct", Src: src}
		term, desc := call.caseTerm([]string{"SExpect true " + galExps(exps), "SNoPanic"})
		w.Add(term, desc, fmt.Sprintf("user-type-named-time:%d", i))
		w.Count("user-time-type")
	}
	// ---- cross-field groups (C02: "group clauses last", "exactly one clause per violated rule instance")
	{
		for i := 0; i < n/6; i++ {
			src, exps, cell := wgs2Case(c.Rng)
			if prop == "C04" || i%2 == 1 { // group members named by the path of the element they belong to
				src, exps, cell = wgsCase(c.Rng)
			}
			call := &walkCall{Entry: "struct", Src: src}
			spec := "SNil"
			if len(exps) > 0 {
				spec = "SExpect false " + galExps(exps)
			}
			term, desc := call.caseTerm([]string{spec, "SNoPanic"})
			desc["expected_groups"] = len(exps)
			w.Add(term, desc, "groups:"+cell)
			w.Count("groups")
		}
	}
	return w.Flush()
}
