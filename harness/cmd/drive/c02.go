package main

import (
	"fmt"
	"reflect"

	"verif/harness/internal/gal"
)

func init() {
	drivers["C02"] = func(c *Ctx) error { return runGraphs(c, "C02", 4, 2) }
	drivers["C04"] = func(c *Ctx) error { return runGraphs(c, "C04", 3, 5) }
}

// runGraphs: synthesised struct graphs with by-construction expectations.
// C02 favours wide structs with many rules (many simultaneous violations); C04 favours depth.
func runGraphs(c *Ctx, prop string, width, depth int) error {
	w := gal.NewWriter(prop, c.Out, "Run.Run_Walk", 60)
	n := 420
	if c.Thorough {
		n = 6000
	}
	for i := 0; i < n; i++ {
		g := newWgen(c.Rng.Fork())
		d := g.r.Range(0, depth)
		b := g.buildStruct(d, "")
		var src interface{}
		top := "value"
		switch g.r.Intn(4) {
		case 0:
			src = b.val.Interface()
		case 1, 2:
			src = b.val.Addr().Interface()
			top = "pointer"
		default:
			p := b.val.Addr()
			pp := reflect.New(p.Type())
			pp.Elem().Set(p)
			src = pp.Interface()
			top = "pointer-to-pointer"
		}
		call := &walkCall{Entry: "struct", Src: src}
		var specs []string
		if len(b.exps) == 0 {
			specs = []string{"SNil"}
		} else {
			specs = []string{"SExpect " + gal.Bool(!g.multi) + " " + galExps(b.exps)}
		}
		specs = append(specs, "SNoPanic")
		term, desc := call.caseTerm(specs)
		desc["expected_clauses"] = len(b.exps)
		desc["top"] = top
		nclass := "0"
		switch {
		case len(b.exps) == 1:
			nclass = "1"
		case len(b.exps) > 1 && len(b.exps) <= 4:
			nclass = "2-4"
		case len(b.exps) > 4:
			nclass = "5+"
		}
		w.Add(term, desc, fmt.Sprintf("%s:n%s:d%d:%s", top, nclass, d, g.featureCell()))
		w.Count("clauses." + nclass)
		w.Count("depth." + fmt.Sprint(d))
		for k, v := range g.feat {
			if v {
				w.Count("feature." + k)
			}
		}
	}
	return w.Flush()
}
