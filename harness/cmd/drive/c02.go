package main

import (
	"encoding/json"
	"fmt"
	"reflect"
	"strings"

	"gitee.com/xuesongtao/protoc-go-valid/valid"
	ctime "verif/harness/internal/clock/time"

	"verif/harness/internal/gal"
)

func init() {
	drivers["C02"] = func(c *Ctx) error { return runGraphs(c, "C02", 4, 2) }
	drivers["C04"] = func(c *Ctx) error { return runGraphs(c, "C04", 3, 5) }
}

// runGraphs: synthesised struct graphs with by-construction expectations.
// C02 favours wide structs with many rules (many simultaneous violations); C04 favours depth.
func runGraphs(c *Ctx, prop string, width, depth int) error {
	w := gal.NewWriter(prop, c.Out, "Run.Run_Walk", 60)
	n := 420
	if c.Thorough {
		n = 6000
	}
	for i := 0; i < n; i++ {
		g := newWgen(c.Rng.Fork())
		d := g.r.Range(0, depth)
		b := g.buildStruct(d, "")
		var src interface{}
		top := "value"
		switch g.r.Intn(4) {
		case 0:
			src = b.val.Interface()
		case 1, 2:
			src = b.val.Addr().Interface()
			top = "pointer"
		default:
			p := b.val.Addr()
			pp := reflect.New(p.Type())
			pp.Elem().Set(p)
			src = pp.Interface()
			top = "pointer-to-pointer"
		}
		call := &walkCall{Entry: "struct", Src: src}
		var specs []string
		if len(b.exps) == 0 {
			specs = []string{"SNil"}
		} else {
			specs = []string{"SExpect " + gal.Bool(!g.multi) + " " + galExps(b.exps)}
		}
		specs = append(specs, "SNoPanic")
		term, desc := call.caseTerm(specs)
		desc["expected_clauses"] = len(b.exps)
		desc["top"] = top
		nclass := "0"
		switch {
		case len(b.exps) == 1:
			nclass = "1"
		case len(b.exps) > 1 && len(b.exps) <= 4:
			nclass = "2-4"
		case len(b.exps) > 4:
			nclass = "5+"
		}
		w.Add(term, desc, fmt.Sprintf("%s:n%s:d%d:%s", top, nclass, d, g.featureCell()))
		w.Count("clauses." + nclass)
		w.Count("depth." + fmt.Sprint(d))
		for k, v := range g.feat {
			if v {
				w.Count("feature." + k)
			}
		}
	}
	// ---- the same struct type validated repeatedly: with a per-call rule override on one field, then plainly.
	// Every call is judged on its own (by its own arguments): the expectation of each is built independently.
	pairs := n / 6
	for i := 0; i < pairs; i++ {
		g := newWgen(c.Rng.Fork())
		proto := g.buildStructType(0)
		for round := 0; round < 3; round++ {
			sv, exps := proto.fill(g, "")
			call := &walkCall{Entry: "struct", Src: sv.Addr().Interface()}
			kind := "plain"
			if round == 0 || (round == 2 && g.r.Bool()) {
				pf := proto.fields[g.r.Intn(len(proto.fields))]
				rv := pf.sp.rules[g.r.Intn(len(pf.sp.rules))]
				m := g.mark()
				call.HasUnsc = true
				call.Unscoped = map[string]string{pf.name: rv.text + "|" + m}
				// the override replaces the field's tag rules for this call only
				var ne []expE
				done := false
				zero := sv.FieldByName(pf.name).IsZero()
				for _, pf2 := range proto.fields {
					if pf2.name == pf.name {
						if rv.viol && !zero {
							ne = append(ne, expE{"C", pf.name, m})
						}
						done = true
						continue
					}
					for _, e := range exps {
						if e.path == pf2.name {
							ne = append(ne, e)
						}
					}
				}
				_ = done
				exps = ne
				kind = "override"
			}
			var specs []string
			if len(exps) == 0 {
				specs = []string{"SNil"}
			} else {
				specs = []string{"SExpect true " + galExps(exps)}
			}
			specs = append(specs, "SNoPanic")
			term, desc := call.caseTerm(specs)
			desc["expected_clauses"] = len(exps)
			desc["round"] = round
			desc["call"] = kind
			w.Add(term, desc, fmt.Sprintf("repeat:%s:r%d:n%d", kind, round, len(exps)))
			w.Count("repeat." + kind)
		}
	}
	// ---- a user type that prints "time.Time" is an ordinary struct; the real time.Time stays unvalidated
	for i := 0; i < 4; i++ {
		wc := wclock()
		exps := []expE{{"C", "WClock.At.S", "T61"}, {"C", "WClock.P.S", "T61"}, {"C", "WClock.Ls[0].S", "T61"}, {"C", "WClock.After", "T65"}}
		var src interface{} = &wc
		switch i {
		case 1:
			src = wc
		case 2: // the zero value of the user type under required
			wc.At = ctime.Time{}
			exps = []expE{{"C", "WClock.At", "T63"}, {"C", "WClock.P.S", "T61"}, {"C", "WClock.Ls[0].S", "T61"}, {"C", "WClock.After", "T65"}}
			src = &wc
		case 3:
			wc.P, wc.Ls = nil, nil
			exps = []expE{{"C", "WClock.At.S", "T61"}, {"C", "WClock.After", "T65"}}
			src = &wc
		}
		call := &walkCall{Entry: "struct", Src: src}
		term, desc := call.caseTerm([]string{"SExpect true " + galExps(exps), "SNoPanic"})
		w.Add(term, desc, fmt.Sprintf("user-type-named-time:%d", i))
		w.Count("user-time-type")
	}
	// ---- arrays of structs (all zero: a zero value, skipped under exist and reported under required), maps keyed by
	// bool / float / small integers (the key is part of the path), pointers to pointers to structs
	emitDirectedShapes(w)
	emitJsonEchoes(w)
	// ---- the clause separator is an exported variable (valid.ErrEndFlag): with another separator every clause, group
	// clauses included, ends with it and the default one appears nowhere.  Judged on the Go side (the model carries the
	// default separator): as many pieces as expected clauses, each "C" piece holding its marker, in order.
	{
		old := valid.ErrEndFlag
		valid.ErrEndFlag = " |#| "
		var viol []interface{}
		check := func(src interface{}, exps []expE, what string) {
			err := valid.Struct(src)
			text := ""
			if err != nil {
				text = err.Error()
			}
			var pieces []string
			if text != "" {
				pieces = strings.Split(text, valid.ErrEndFlag)
			}
			bad := len(pieces) != len(exps) || strings.Contains(text, old)
			for i := 0; !bad && i < len(exps); i++ {
				if exps[i].kind == "C" && !strings.Contains(pieces[i], exps[i].text) {
					bad = true
				}
			}
			if bad && len(viol) < 5 {
				viol = append(viol, map[string]interface{}{"kind": "custom-separator", "separator": valid.ErrEndFlag, "case": what, "error": text,
					"expected_clauses": len(exps), "src": fmt.Sprintf("%+v", src)})
			}
		}
		for _, d := range directedShapes() {
			check(d.src, d.exps, "directed:"+d.cell)
		}
		for i := 0; i < 40; i++ {
			src, exps, cell := wgsCase(c.Rng.Fork())
			check(src, exps, "groups:"+cell)
			src2, exps2, cell2 := wgs2Case(c.Rng.Fork())
			check(src2, exps2, "groups2:"+cell2)
		}
		valid.ErrEndFlag = old
		w.Extra["violations"] = viol
		w.Count("custom-separator")
	}
	// ---- cross-field groups (C02: "group clauses last", "exactly one clause per violated rule instance")
	{
		for i := 0; i < n/6; i++ {
			src, exps, cell := wgs2Case(c.Rng)
			if prop == "C04" || i%2 == 1 { // group members named by the path of the element they belong to
				src, exps, cell = wgsCase(c.Rng)
			}
			ord := "false"
			if i%3 == 2 { // group objects followed by fields with ordinary rules (no Go map inside: the order is fixed)
				src, exps, cell = wgoCase(c.Rng)
				ord = "true"
			}
			call := &walkCall{Entry: "struct", Src: src}
			spec := "SNil"
			if len(exps) > 0 {
				spec = "SExpect " + ord + " " + galExps(exps)
			}
			term, desc := call.caseTerm([]string{spec, "SNoPanic"})
			desc["expected_groups"] = len(exps)
			w.Add(term, desc, "groups:"+cell)
			w.Count("groups")
		}
	}
	return w.Flush()
}

type directedCase struct {
	src  interface{}
	exps []expE
	cell string
}

func directedShapes() []directedCase {
	ok := WReq{R: "x", N: 7}
	pz := &WReq{}
	ppz := &pz
	pz2 := &WReq{N: 2}
	ppz2 := &pz2
	var nilp *WReq
	return []directedCase{
		{&WArr{}, []expE{{"C", "WArr.B", "T91"}}, "array-all-zero"},
		{&WArr{A: [2]WReq{ok, {}}, B: [2]WReq{{}, ok}}, []expE{{"C", "WArr.A[1].R", "T95"}, {"C", "WArr.B[0].R", "T95"}}, "array-half-zero"},
		{&WArr{A: [2]WReq{{N: 2}, ok}, B: [2]WReq{ok, ok}}, []expE{{"C", "WArr.A[0].R", "T95"}, {"C", "WArr.A[0].N", "T96"}}, "array-nonzero"},
		{&WKeyed{MB: map[bool]WReq{true: {}}, MF: map[float64]WReq{1.5: {}}, MP: map[int8]*WReq{-3: {}}, MU: map[uint16]WReq{65535: {N: 1}}},
			[]expE{{"C", "WKeyed.MB[true].R", "T95"}, {"C", "WKeyed.MF[1.5].R", "T95"}, {"C", "WKeyed.MP[-3].R", "T95"},
				{"C", "WKeyed.MU[65535].R", "T95"}, {"C", "WKeyed.MU[65535].N", "T96"}}, "map-keys-bool-float-int8"},
		{&WKeyed{MB: map[bool]WReq{false: ok}}, []expE{{"C", "WKeyed.MP", "T93"}}, "map-keys-false"},
		{&WPP{PP: ppz, EP: ppz2}, []expE{{"C", "WPP.PP.R", "T95"}, {"C", "WPP.EP.R", "T95"}, {"C", "WPP.EP.N", "T96"}}, "ptr-ptr-struct"},
		{&WPP{PP: &nilp, EP: &nilp}, nil, "ptr-ptr-inner-nil"}, // a non-nil pointer is not the zero value of its type
		{&WPP{}, []expE{{"C", "WPP.PP", "T94"}}, "ptr-ptr-nil"},
		{&WEmb{WAge: 200, WNick: "abc", WReq: WReq{N: 2}, N: 1}, []expE{{"C", "WEmb.WAge", "T81"}, {"C", "WEmb.WNick", "T82"},
			{"C", "WEmb.WReq.R", "T95"}, {"C", "WEmb.WReq.N", "T96"}, {"C", "WEmb.N", "T83"}}, "embedded-fields"},
		{&WEmb{WAge: 20, WNick: "abcdef", N: 7}, nil, "embedded-fields-ok"},
		{&WPPC{S: []**WReq{ppz}, A: [1]**WReq{ppz2}, M: map[string]**WReq{"k": ppz}, E: []**WReq{ppz2}},
			[]expE{{"C", "WPPC.S[0].R", "T95"}, {"C", "WPPC.A[0].R", "T95"}, {"C", "WPPC.A[0].N", "T96"}, {"C", "WPPC.M[k].R", "T95"},
				{"C", "WPPC.E[0].R", "T95"}, {"C", "WPPC.E[0].N", "T96"}}, "containers-of-ptr-ptr"},
		{&WPPC{}, []expE{{"C", "WPPC.S", "T71"}, {"C", "WPPC.A", "T72"}, {"C", "WPPC.M", "T73"}}, "containers-of-ptr-ptr-zero"},
	}
}

// the json rule echoes its input up to 256 bytes and a placeholder beyond; a clause carries the echo
func emitJsonEchoes(w *gal.Writer) {
	for _, n := range []int{0, 1, 255, 256, 257, 300} {
		bad := "{" + strings.Repeat("x", n)
		if n == 0 {
			bad = "x"
		}
		bad = bad[:len(bad)-1] + "'" // one character StrEscape rewrites
		for len(bad) < n {
			bad += "y"
		}
		for _, good := range []bool{false, true} {
			j := bad
			if good {
				j = "[" + strings.Repeat("1,", (n+1)/2) + "1]"
			}
			orc := newOracles()
			orc.json[j] = json.Valid([]byte(j))
			orc.json[bad] = false
			call := &walkCall{Entry: "struct", Src: &WJson{J: j, K: bad}, Orc: orc}
			exps := []expE{{"D", "WJson.K", ""}}
			if !good {
				exps = []expE{{"C", "WJson.J", "T97"}, {"D", "WJson.K", ""}}
			}
			term, desc := call.caseTerm([]string{"SExpect true " + galExps(exps), "SNoPanic"})
			w.Add(term, desc, fmt.Sprintf("directed:json-echo:%d:%v", len(j), good))
			w.Count("directed-json")
		}
	}
}

func emitDirectedShapes(w *gal.Writer) {
	for _, d := range directedShapes() {
		call := &walkCall{Entry: "struct", Src: d.src}
		spec := "SNil"
		if len(d.exps) > 0 {
			spec = "SExpect true " + galExps(d.exps)
		}
		term, desc := call.caseTerm([]string{spec, "SNoPanic"})
		w.Add(term, desc, "directed:"+d.cell)
		w.Count("directed-shapes")
	}
}
