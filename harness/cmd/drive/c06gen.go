package main

// Generator of ABSTRACT Go files for C06 / C07 / C19 (see coq/Spec/InjectSpec.v): a file is a list
// of raw text and visited struct fields; the same value is rendered to real bytes and printed as a
// Gallina term, so the implementation and the Coq side see the same program.

import (
	"fmt"
	"strings"

	"verif/harness/internal/gal"
)

type tItem struct{ K, V string } // V is the value WITHOUT its quotes

const (
	cmtNone = iota
	cmtPlain
	cmtTag
)

type tCmt struct {
	Kind  int
	Text  string // cmtPlain
	Lead  string // cmtTag: Lead + "@tag " + items + Trail
	Inj   []tItem
	Trail string
}

type tElem struct {
	IsField bool
	Raw     string
	Pre     string
	HasTag  bool
	Tag     []tItem
	Gap     string
	Cmt     tCmt
}

type tFile struct {
	Elems []tElem
	// statistics for the cell / distribution
	Structs, Visited, Annotated int
	Override, Add, Same         int
	CJK, CRLF, Block, Grouped   bool
}

func fmtItems(items []tItem) string {
	parts := make([]string, len(items))
	for i, it := range items {
		parts[i] = it.K + `:"` + it.V + `"`
	}
	return strings.Join(parts, " ")
}

func (c tCmt) render() string {
	switch c.Kind {
	case cmtPlain:
		return c.Text
	case cmtTag:
		return c.Lead + "@tag " + fmtItems(c.Inj) + c.Trail
	}
	return ""
}

func (e tElem) render() string {
	if !e.IsField {
		return e.Raw
	}
	s := e.Pre
	if e.HasTag {
		s += "`" + fmtItems(e.Tag) + "`"
	}
	return s + e.Gap + e.Cmt.render()
}

func (f *tFile) render() string {
	var b strings.Builder
	for _, e := range f.Elems {
		b.WriteString(e.render())
	}
	return b.String()
}

// the specification's merge, re-stated in Go only for the supporting StructTag check
func mergeItems(old, inj []tItem) []tItem {
	out := make([]tItem, 0, len(old)+len(inj))
	for _, o := range old {
		v := o.V
		for _, i := range inj {
			if i.K == o.K {
				v = i.V
				break
			}
		}
		out = append(out, tItem{o.K, v})
	}
	for _, i := range inj {
		dup := false
		for _, o := range old {
			if o.K == i.K {
				dup = true
			}
		}
		if !dup {
			out = append(out, i)
		}
	}
	return out
}

func (f *tFile) injected() *tFile {
	g := &tFile{Elems: make([]tElem, len(f.Elems))}
	copy(g.Elems, f.Elems)
	for i, e := range g.Elems {
		if e.IsField && e.HasTag && e.Cmt.Kind == cmtTag {
			g.Elems[i].Tag = mergeItems(e.Tag, e.Cmt.Inj)
		}
	}
	return g
}

// ---- Gallina ----
func galItems(items []tItem) string {
	parts := make([]string, len(items))
	for i, it := range items {
		parts[i] = "(" + gal.Str(it.K) + ", " + gal.Str(it.V) + ")"
	}
	return gal.List(parts)
}

func (c tCmt) gal() string {
	switch c.Kind {
	case cmtPlain:
		return "(CPlain " + gal.Str(c.Text) + ")"
	case cmtTag:
		return "(CTag " + gal.Str(c.Lead) + " " + galItems(c.Inj) + " " + gal.Str(c.Trail) + ")"
	}
	return "CNone"
}

func (f *tFile) gal() string {
	parts := make([]string, len(f.Elems))
	for i, e := range f.Elems {
		if !e.IsField {
			parts[i] = "Raw " + gal.Str(e.Raw)
			continue
		}
		tag := "None"
		if e.HasTag {
			tag = "(Some " + galItems(e.Tag) + ")"
		}
		parts[i] = "Fld (mkField " + gal.Str(e.Pre) + " " + tag + " " + gal.Str(e.Gap) + " " + e.Cmt.gal() + ")"
	}
	return gal.List(parts)
}

func (f *tFile) cell() string {
	c := func(n, m int) int {
		if n > m {
			return m
		}
		return n
	}
	return fmt.Sprintf("s%d:v%d:a%d:o%d:n%d:e%d:cjk%v:crlf%v:blk%v:grp%v", c(f.Structs, 3), c(f.Visited, 4), c(f.Annotated, 4),
		c(f.Override, 2), c(f.Add, 2), c(f.Same, 1), f.CJK, f.CRLF, f.Block, f.Grouped)
}

// ---- alphabets ----
var (
	tagKeys    = []string{"json", "xml", "valid", "protobuf", "form", "db", "gorm", "yaml", "validate", "binding", "v1", "_x", "K9", "bson", "a", "xvalid", "ejson", "mydb"} // some keys end with another key
	valAlpha   = []string{"a", "b", "n", "x", "Z", "0", "1", "9", "_", ",", "=", "~", "|", "$", "\\", "'", ";", ":", ".", "(", ")", "/", "<", ">", "!", "@", "#", "%", "^", "&", "-", "+", " ", "[", "]", "{", "}", "?"}
	valSpecial = []string{"$1", "${a}", "$", "\\d+", "\\\\", "|", "'a,b'", ";", "re='^\\d+$1x'", "to=1~10|必须在1到10之间", "required", "omitempty", "name,omitempty", "bytes,1,opt,name=id,proto3", "-", "@tag x", "in=(a/b)", "phone|手机号"}
	fieldNames = []string{"Name", "Id", "Age", "Email", "CreatedAt", "XXX_unrecognized", "state", "sizeCache", "Data", "Items", "M", "F2", "名字", "Größe"}
	fieldTypes = []string{"string", "int32", "int64", "bool", "[]byte", "*string", "[]*Item", "map[string]*Item", "float64", "time.Time", "func(a int) error",
		"chan int", "[3]int", "interface{}", "struct{}", "pkg.T", "*pkg.T", "[]map[string][]int", "any"}
	structNames = []string{"User", "Item", "Request", "Reply", "消息", "T1", "Outer", "Page", "Cfg", "X"}
)

func genBody(r *gal.Rng, star bool) string {
	switch r.Intn(5) {
	case 0:
		return r.Pick(valSpecial)
	case 1:
		return randWord(r, [][]string{cjk}, 1, 3) + randWord(r, [][]string{valAlpha}, 0, 2)
	default:
		s := randWord(r, [][]string{valAlpha, asciiLetters}, 1, 8)
		if star && r.Chance(30) {
			s += "*" + randWord(r, [][]string{asciiLetters}, 0, 2)
		}
		return s
	}
}

func genItems(r *gal.Rng, n int, avoid map[string]bool, star bool) []tItem {
	used := map[string]bool{}
	var out []tItem
	for tries := 0; len(out) < n && tries < 50; tries++ {
		k := r.Pick(tagKeys)
		if used[k] || avoid[k] {
			continue
		}
		used[k] = true
		out = append(out, tItem{k, genBody(r, star)})
	}
	return out
}

// an @tag comment for a field whose literal has the items old
func genTagComment(r *gal.Rng, f *tFile, old []tItem, crlf bool) tCmt {
	block := r.Chance(12)
	c := tCmt{Kind: cmtTag}
	// which keys
	var inj []tItem
	mode := r.Intn(6)
	oldKeys := map[string]bool{}
	for _, o := range old {
		oldKeys[o.K] = true
	}
	pickOld := func(n int, same bool) {
		perm := r.Intn(len(old) + 1)
		for i := 0; i < len(old) && n > 0; i++ {
			o := old[(i+perm)%len(old)]
			v := genBody(r, !block)
			if same {
				v = o.V
			}
			inj = append(inj, tItem{o.K, v})
			n--
		}
	}
	// a key that is the tail of an existing key, with that key's value: it is a NEW key and must be added
	suffixOf := map[string]string{"xvalid": "valid", "ejson": "json", "mydb": "db"}
	var tailAdd []tItem
	for _, o := range old {
		if sk, ok := suffixOf[o.K]; ok && !oldKeys[sk] {
			tailAdd = []tItem{{sk, o.V}}
		}
	}
	switch {
	case tailAdd != nil && r.Chance(70):
		inj = tailAdd
		f.Add++
	case len(old) == 0 || mode == 0: // add only
		inj = genItems(r, r.Range(1, 3), oldKeys, !block)
		f.Add++
	case mode == 1: // override only
		pickOld(r.Range(1, 2), false)
		f.Override++
	case mode == 2: // the comment repeats what is there
		pickOld(r.Range(1, 2), true)
		f.Same++
	case mode == 3: // nothing tag-like after "@tag "
		inj = nil
	default: // both, interleaved
		pickOld(r.Range(1, 2), false)
		add := genItems(r, r.Range(1, 2), oldKeys, !block)
		if r.Bool() {
			inj = append(add, inj...)
		} else {
			inj = append(inj, add...)
		}
		f.Override++
		f.Add++
	}
	c.Inj = inj
	if block {
		f.Block = true
		c.Lead = r.Pick([]string{"/* ", "/*", "/* 说明 "})
		c.Trail = r.Pick([]string{" */", "*/", " 其他 */"})
		if !crlf && r.Chance(25) {
			c.Trail = "\n\t   second line */"
		}
	} else {
		c.Lead = r.Pick([]string{"// ", "// ", "//", "// 中文说明 ", "//名字@tag", "// a.b: ", "// x@y.z ", "//\t"})
		c.Trail = r.Pick([]string{"", "", "", " ", " 其他说明", " // more", "\t# x", " valid:required"})
	}
	if len(inj) == 0 {
		c.Trail = r.Pick([]string{"", "docs", " ", "valid:required", "见上"})
		if block {
			c.Trail += " */"
		}
	}
	if strings.ContainsAny(c.Lead+c.Trail, "中文名字说明其他见上") {
		f.CJK = true
	}
	return c
}

func genPlainComment(r *gal.Rng) tCmt {
	return tCmt{Kind: cmtPlain, Text: r.Pick([]string{"// 普通注释", "// see @tag", "//@tag", "// @tagged x:\"y\"", "/* c */", "// mentions @tag\tx:\"y\"",
		"// json:\"z\" valid:\"required\"", "//", "// TODO(x): a@b", "/* @tagx a:\"b\" */"})}
}

func genFieldPre(r *gal.Rng, nl, indent string, withTag bool) string {
	var pre string
	switch r.Intn(12) {
	case 0: // embedded
		pre = r.Pick([]string{"sync.Mutex", "*Base", "Base", "pkg.T"})
	case 1: // several names
		pre = r.Pick(fieldNames) + ", " + r.Pick([]string{"B2", "C3", "别名"}) + " " + r.Pick(fieldTypes)
	case 2: // an inline struct type over several lines whose own fields are tagged and annotated: not visited
		pre = r.Pick(fieldNames) + " struct {" + nl + indent + "\tA int `json:\"a\"` // @tag x:\"y\"" + nl + indent + "\tB string" + nl + indent + "}"
	default:
		pre = r.Pick(fieldNames) + strings.Repeat(" ", r.Range(1, 3)) + r.Pick(fieldTypes)
	}
	if withTag {
		pre += r.Pick([]string{" ", " ", "\t", "  "})
	}
	return pre
}

// the fields of one visited struct
func genFields(r *gal.Rng, f *tFile, nl, indent string) []tElem {
	var out []tElem
	n := r.Range(0, 6)
	for i := 0; i < n; i++ {
		if r.Chance(15) { // a doc comment above the field, it may look like an annotation
			out = append(out, tElem{Raw: indent + r.Pick([]string{"// @tag json:\"doc\"", "// 字段说明 @tag", "// doc", "/* @tag a:\"b\" */"}) + nl})
		}
		out = append(out, tElem{Raw: indent})
		e := tElem{IsField: true}
		e.HasTag = r.Chance(80)
		e.Pre = genFieldPre(r, nl, indent, e.HasTag)
		if strings.ContainsAny(e.Pre, "名字别") {
			f.CJK = true
		}
		kind := r.Intn(10)
		switch {
		case kind < 5: // @tag comment
			if e.HasTag {
				e.Tag = genItems(r, r.Range(1, 4), nil, true)
				f.Annotated++
			}
			e.Cmt = genTagComment(r, f, e.Tag, nl == "\r\n")
			e.Gap = r.Pick([]string{" ", " ", "\t", "", "   "})
		case kind < 7:
			if e.HasTag {
				e.Tag = genItems(r, r.Range(0, 3), nil, true)
			}
			e.Cmt = genPlainComment(r)
			e.Gap = r.Pick([]string{" ", "\t", ""})
		default:
			if e.HasTag {
				e.Tag = genItems(r, r.Range(0, 3), nil, true)
			}
			e.Gap = r.Pick([]string{"", "", " "})
		}
		if !e.HasTag && e.Gap == "" && e.Cmt.Kind != cmtNone {
			e.Gap = " "
		}
		f.Visited++
		out = append(out, e)
		out = append(out, tElem{Raw: nl})
	}
	return out
}

// frame text the tool must not touch; several pieces look like annotated fields
func genFrame(r *gal.Rng, nl string) string {
	switch r.Intn(13) {
	case 11: // empty declaration groups are valid Go
		return r.Pick([]string{"type ()", "var ()", "const ()", "type (" + nl + ")", "var (" + nl + "\t// @tag a:\"b\"" + nl + ")"}) + nl
	case 12: // a grouped type declaration whose first type is a struct without fields
		return "type (" + nl + "\tE0 struct{}" + nl + "\tE1 struct {" + nl + "\t\tG int `json:\"g\"` // @tag a:\"b\"" + nl + "\t}" + nl + ")" + nl
	case 0:
		return "func (x *" + r.Pick(structNames) + ") Reset() { *x = " + r.Pick(structNames) + "{} }" + nl
	case 1:
		return "var file_rawDesc = []byte{" + nl + "\t0x0a, 0x0b, 0x74," + nl + "}" + nl
	case 2:
		return "const (" + nl + "\tStatus_OK  Status = 0 // @tag json:\"ok\"" + nl + "\tStatus_BAD Status = 1" + nl + ")" + nl
	case 3:
		return "type Status int32" + nl
	case 4:
		return "type Doer interface {" + nl + "\tDo(s string) error // @tag valid:\"required\"" + nl + "}" + nl
	case 5: // a local type declaration with an annotated field: never visited
		return "func local() {" + nl + "\ttype L struct {" + nl + "\t\tH int `json:\"h\"` // @tag a:\"b\"" + nl + "\t}" + nl + "\t_ = L{}" + nl + "}" + nl
	case 6: // a grouped declaration whose FIRST type is no struct: the whole group is skipped
		return "type (" + nl + "\tK int" + nl + "\tS struct {" + nl + "\t\tG int `json:\"g\"` // @tag a:\"b\"" + nl + "\t}" + nl + ")" + nl
	case 7:
		return "// 中文说明: 见 @tag valid:\"required\"" + nl + "var Enum_name = map[int32]string{0: \"A\", 1: \"`\"}" + nl
	case 8:
		return "var raw = `multi" + nl + "line @tag a:\"b\"`" + nl
	case 9:
		return nl + "/* block comment" + nl + "   @tag json:\"x\" */" + nl
	default:
		return "func init() { _ = \"@tag a:\\\"b\\\"\" }" + nl
	}
}

// genFile: header, imports, several structs with fields in every interleaving, frame around them
func genFile(r *gal.Rng, protoc bool) *tFile {
	f := &tFile{}
	nl := "\n"
	if r.Chance(10) {
		nl = "\r\n"
		f.CRLF = true
	}
	raw := func(s string) { f.Elems = append(f.Elems, tElem{Raw: s}) }
	hdr := ""
	if protoc || r.Chance(50) {
		hdr += "// Code generated by protoc-gen-go. DO NOT EDIT." + nl + "// source: 消息.proto @tag json:\"h\"" + nl + nl
		f.CJK = true
	}
	hdr += "package " + r.Pick([]string{"pb", "p", "v1"}) + nl + nl
	switch r.Intn(4) {
	case 0:
		hdr += "import (" + nl + "\t\"sync\"" + nl + "\tpkg \"a/b/pkg\"" + nl + "\t\"time\"" + nl + ")" + nl + nl
	case 1:
		hdr += "import \"time\"" + nl + nl
	case 2:
		hdr += "import ()" + nl + nl
	}
	if r.Chance(8) { // a byte order mark: go/parser skips it, every offset still counts its three bytes
		hdr = "\xef\xbb\xbf" + hdr
		f.CJK = true
	}
	raw(hdr)
	nStructs := r.Range(1, 4)
	if r.Chance(8) {
		nStructs = 0
	}
	for s := 0; s < nStructs; s++ {
		for k := r.Intn(3); k > 0; k-- {
			raw(genFrame(r, nl))
		}
		name := r.Pick(structNames) + fmt.Sprint(s)
		f.Structs++
		switch r.Intn(10) {
		case 0: // grouped declaration: only its first type is visited
			f.Grouped = true
			raw("type (" + nl + "\t" + name + " struct {" + nl)
			f.Elems = append(f.Elems, genFields(r, f, nl, "\t\t")...)
			raw("\t}" + nl + "\tSecond" + fmt.Sprint(s) + " struct {" + nl + "\t\tB int `json:\"b\"` // @tag c:\"d\"" + nl + "\t}" + nl + ")" + nl)
		case 1:
			raw("type " + name + "[T any] struct {" + nl)
			f.Elems = append(f.Elems, genFields(r, f, nl, "\t")...)
			raw("}" + nl)
		case 2:
			raw("type " + name + " = struct {" + nl)
			f.Elems = append(f.Elems, genFields(r, f, nl, "\t")...)
			raw("}" + nl)
		default:
			if r.Chance(40) {
				raw("// " + name + " 是一个消息 @tag" + nl)
			}
			raw("type " + name + " struct {" + nl)
			f.Elems = append(f.Elems, genFields(r, f, nl, "\t")...)
			raw("}" + nl + nl)
		}
	}
	for k := r.Intn(3); k > 0; k-- {
		raw(genFrame(r, nl))
	}
	if r.Chance(10) {
		raw("// no newline at end @tag a:\"b\"")
	}
	// merge adjacent raw elements (the abstract file does not care, the terms get shorter)
	var merged []tElem
	for _, e := range f.Elems {
		if !e.IsField && len(merged) > 0 && !merged[len(merged)-1].IsField {
			merged[len(merged)-1].Raw += e.Raw
			continue
		}
		merged = append(merged, e)
	}
	f.Elems = merged
	return f
}

// a file in exactly the shape protoc-gen-go emits (test/test.proto of the repository)
func genProtocFile(r *gal.Rng) *tFile {
	f := &tFile{CJK: true}
	nl := "\n"
	raw := func(s string) { f.Elems = append(f.Elems, tElem{Raw: s}) }
	raw("// Code generated by protoc-gen-go. DO NOT EDIT.\n// versions:\n// \tprotoc-gen-go v1.26.0\n// source: test.proto\n\npackage test\n\nimport (\n\tprotoreflect \"google.golang.org/protobuf/reflect/protoreflect\"\n\tprotoimpl \"google.golang.org/protobuf/runtime/protoimpl\"\n\treflect \"reflect\"\n\tsync \"sync\"\n)\n\n")
	n := r.Range(1, 3)
	for s := 0; s < n; s++ {
		name := r.Pick([]string{"User", "Man", "Order"}) + fmt.Sprint(s)
		f.Structs++
		raw("type " + name + " struct {\n")
		for _, pf := range []string{"state         protoimpl.MessageState", "sizeCache     protoimpl.SizeCache", "unknownFields protoimpl.UnknownFields"} {
			raw("\t")
			f.Elems = append(f.Elems, tElem{IsField: true, Pre: pf})
			f.Visited++
			raw(nl)
		}
		raw(nl)
		nf := r.Range(1, 6)
		for i := 0; i < nf; i++ {
			fn := r.Pick([]string{"Name", "Age", "Phone", "Email", "Addr", "Hobby"}) + fmt.Sprint(i)
			lower := strings.ToLower(fn)
			e := tElem{IsField: true, HasTag: true, Pre: fn + " " + r.Pick([]string{"string", "int32", "[]string", "*Man0"}) + " ",
				Tag: []tItem{{"protobuf", fmt.Sprintf("bytes,%d,opt,name=%s,proto3", i+1, lower)}, {"json", lower + ",omitempty"}}}
			if r.Chance(70) {
				inj := []tItem{{"valid", r.Pick([]string{"required", "to=1~10", "required|必填", "phone", "re='^\\d+$'", "in=(a/b/c)|只能是 a b c"})}}
				if r.Chance(30) {
					inj = append(inj, tItem{"json", lower})
					f.Override++
				}
				f.Add++
				f.Annotated++
				e.Gap = " "
				e.Cmt = tCmt{Kind: cmtTag, Lead: r.Pick([]string{"// ", "// 姓名 ", "// 年龄, "}), Inj: inj}
			} else if r.Bool() {
				e.Gap = " "
				e.Cmt = tCmt{Kind: cmtPlain, Text: "// 描述"}
			}
			f.Visited++
			raw("\t")
			f.Elems = append(f.Elems, e)
			raw(nl)
		}
		raw("}\n\nfunc (x *" + name + ") Reset() {\n\t*x = " + name + "{}\n}\n\nfunc (x *" + name + ") String() string {\n\treturn protoimpl.X.MessageStringOf(x)\n}\n\n")
	}
	raw("var file_test_proto_rawDesc = []byte{\n\t0x0a, 0x0a, 0x74, 0x65, 0x73, 0x74,\n}\n\nvar (\n\tfile_test_proto_rawDescOnce sync.Once\n\t_ = reflect.TypeOf\n\t_ = protoreflect.Name(\"\")\n)\n")
	var merged []tElem
	for _, e := range f.Elems {
		if !e.IsField && len(merged) > 0 && !merged[len(merged)-1].IsField {
			merged[len(merged)-1].Raw += e.Raw
			continue
		}
		merged = append(merged, e)
	}
	f.Elems = merged
	return f
}
