package main

import (
	"fmt"
	"os"
	"path/filepath"
	"reflect"
	"strings"

	"gitee.com/xuesongtao/protoc-go-valid/valid"
	"verif/harness/internal/gal"
)

func init() { drivers["C15"] = runC15 }

func c15Message(r *gal.Rng, i int) (msg string, zh bool) {
	switch r.Intn(10) {
	case 6: // a single byte
		return r.Pick([]string{"x", "?", "!", "7"}), false
	case 7: // a Chinese message that quotes the English label
		return fmt.Sprintf("标%d 见 explain: 内文", i), true
	case 8: // an English message that repeats its own label, and one with the separator's first byte
		return fmt.Sprintf("M%d see explain: inner;", i), false
	case 9: // one CJK character
		return r.Pick([]string{"错", "必"}), true
	case 0:
		return fmt.Sprintf("M%d must be ok", i), false
	case 1:
		return fmt.Sprintf("标%d 必须正确", i), true
	case 2:
		return fmt.Sprintf("M%d a=b|c (x)", i), false
	case 3:
		return fmt.Sprintf("M%d 混合 mixed 文字", i), true
	case 4:
		return fmt.Sprintf("M%d 'quoted, comma'", i), false
	default:
		return fmt.Sprintf("M%dx", i)[:3], false
	}
}

func galSClause(pre, lab, msg string, labelled bool) string {
	if labelled {
		return "Labelled " + gal.Str(pre) + " " + gal.Str(lab) + " " + gal.Str(msg)
	}
	return "Unlabelled " + gal.Str(pre)
}

func runC15(c *Ctx) error {
	w := gal.NewWriter("C15", c.Out, "Run.Run_C15", 150)
	r := c.Rng
	n := 260
	if c.Thorough {
		n = 3500
	}
	// ---- (1) every rule that supports a custom message: the exact clause text
	type rv struct {
		rule string
		val  interface{}
		echo string
	}
	violated := []rv{
		{"to=5~9", "abc", "abc"}, {"ge=9", 7, "7"}, {"le=5", int8(7), "7"}, {"oto=3~5", "abc", "abc"}, {"gt=7", uint(7), "7"}, {"lt=7", 7.5, "7.5"},
		{"eq=4", "abc", "abc"}, {"noeq=3", "abc", "abc"}, {"in=(x/y)", "abc", "abc"}, {"include=(zz)", "abc", "abc"}, {"phone", "abc", "abc"},
		{"email", "abc", "abc"}, {"idcard", "abc", "abc"}, {"year", "abc", "abc"}, {"year2month", "abc", "abc"}, {"date", "abc", "abc"},
		{"datetime", "abc", "abc"}, {"int", "abc", "abc"}, {"ints", "a,b", "a,b"}, {"float", "abc", "abc"}, {"re='^\\d+$'", "abc", "abc"},
		{"ip", "abc", "abc"}, {"ipv4", "abc", "abc"}, {"ipv6", "abc", "abc"}, {"unique", "a,a", "a,a"}, {"json", "{", "{"}, {"prefix=zz", "abc", "abc"},
		{"suffix=zz", "abc", "abc"}, {"required", "", ""},
		// a rule argument with CJK characters does not decide the label: the message does
		{"in=(男/女)", "abc", "abc"}, {"include=(中)", "abc", "abc"}, {"prefix=博士", "abc", "abc"}, {"suffix='士'", "abc", "abc"},
		{"re='^[一-龥]+$'", "abc", "abc"}, {"date='年'", "abc", "abc"}, {"ints='、'", "a、b", "a、b"},
	}
	// file / dir: a path that exists but is of the other sort (the custom message is shown then too)
	fsRoot := filepath.Join(c.Out, "c15fs")
	_ = os.MkdirAll(filepath.Join(fsRoot, "d"), 0o755)
	_ = os.WriteFile(filepath.Join(fsRoot, "f"), []byte("x"), 0o644)
	defer os.RemoveAll(fsRoot)
	violated = append(violated, rv{"file", filepath.Join(fsRoot, "d"), filepath.Join(fsRoot, "d")}, rv{"dir", filepath.Join(fsRoot, "f"), filepath.Join(fsRoot, "f")},
		rv{"file", filepath.Join(fsRoot, "missing"), filepath.Join(fsRoot, "missing")}, rv{"dir", filepath.Join(fsRoot, "missing"), filepath.Join(fsRoot, "missing")})
	// directed: every rule x every special message shape (one byte, quotes, the labels themselves, separator bytes)
	type sm struct {
		msg string
		zh  bool
	}
	specials := []sm{{"x", false}, {"?", false}, {"错", true}, {"it's wrong", false}, {"'q'", false}, {"数字'0-9'", true}, {"见 explain: 内文", true},
		{"see explain: inner", false}, {"a=b", false}, {"(x)", false}, {"m;", false}, {"ends with blank ", false},
		// format verbs: the error text is never a format string
		{"at most 100% of it", false}, {"%d %s %v %%", false}, {"占比 50% 以内", true}}
	for i := 0; i < n+len(violated)*len(specials); i++ {
		x := violated[r.Intn(len(violated))]
		msg, zh := c15Message(r, i)
		if i >= n {
			j := i - n
			x = violated[j/len(specials)]
			sp := specials[j%len(specials)]
			msg, zh = sp.msg, sp.zh
		}
		if x.rule == "ints" || x.rule == "unique" || strings.Contains(msg, ",") && !strings.Contains(msg, "'") {
			// keep commas of the message inside quotes (documented)
		}
		text := x.rule + "|" + msg
		withMsg := r.Chance(75) || i >= n
		if !withMsg {
			text = x.rule
		}
		entry := r.Pick([]string{"var", "struct", "map"})
		if i >= n { // the directed grid meets every entry point with every message shape (rules rotate)
			j := i - n
			entry = []string{"var", "struct", "map"}[(j/len(specials)+j%len(specials))%3]
		}
		if _, isStr := x.val.(string); !isStr && entry == "map" {
			entry = "var"
		}
		if x.rule == "required" {
			entry = "struct"
		}
		call := &walkCall{}
		orc := newOracles()
		// oracle answers for the rules that need them (all say "not in the language")
		s, _ := x.val.(string)
		orc.ip[s] = [2]bool{false, false}
		orc.json[s] = false
		for _, lay := range []string{"2006", "2006-01", "2006-01-02", "2006-01-02 15:04:05"} {
			orc.tm[[2]string{lay, s}] = false
		}
		orc.re[[2]string{`^\d+$`, s}] = false
		orc.re[[2]string{`^[一-龥]+$`, s}] = false
		orc.tm[[2]string{"2006年01年02", s}] = false
		if strings.HasPrefix(s, fsRoot) {
			switch {
			case strings.HasSuffix(s, "missing"):
				orc.stat[s] = nil
			case strings.HasSuffix(s, "d"):
				t := true
				orc.stat[s] = &t
			default:
				f := false
				orc.stat[s] = &f
			}
		}
		call.Orc = orc
		path := ""
		switch entry {
		case "var":
			call.Entry, call.VarRules, call.Src = "var", []string{text}, x.val
		case "struct":
			st := reflect.StructOf([]reflect.StructField{{Name: "F", Type: reflect.TypeOf(x.val), Tag: tagOf(text)}})
			sv := reflect.New(st).Elem()
			sv.Field(0).Set(reflect.ValueOf(x.val))
			call.Entry, call.Src = "struct", sv.Addr().Interface()
			path = "F"
		case "map":
			call.Entry, call.Rules, call.Src = "map", map[string]string{"k": text}, map[string]string{"k": s}
			path = "map[k]"
		}
		err, panicked, _ := call.run()
		if err == nil || panicked || strings.Contains(err.Error(), valid.ErrEndFlag) {
			continue
		}
		multi := false
		src := galSrc(call.Src, &multi)
		var e string
		switch entry {
		case "var":
			e = "(EVar " + call.galCfg() + " " + gal.StrList(call.VarRules) + " " + src + ")"
		case "struct":
			e = "(EStruct " + call.galCfg() + " " + src + ")"
		default:
			e = "(EMap " + call.galCfg() + " " + galRM(call.Rules) + " " + src + ")"
		}
		if withMsg {
			// exact text, and the extractor gives the message back
			w.Add("CText "+e+" "+gal.Str(err.Error()), map[string]interface{}{"kind": "custom clause text", "rule": text, "entry": entry, "error": err.Error()},
				fmt.Sprintf("text:%s:%s:zh%v", strings.SplitN(x.rule, "=", 2)[0], entry, zh))
			if !strings.Contains(msg, valid.ExplainEn) && !strings.Contains(msg, valid.ExplainZh) {
				w.Add("CCustom "+gal.Str(msg)+" "+gal.Str(err.Error()), map[string]interface{}{"kind": "custom message behind its label", "rule": text, "entry": entry, "error": err.Error()},
					fmt.Sprintf("label:%s:%s:zh%v", strings.SplitN(x.rule, "=", 2)[0], entry, zh))
			}
			lab := valid.ExplainEn
			if zh {
				lab = valid.ExplainZh
			}
			pre := ""
			if path != "" {
				pre = `"` + path + `" `
			}
			pre += `input "` + x.echo + `", `
			if x.rule == "json" {
				pre = ""
				if path != "" {
					pre = `"` + path + `" `
				}
				pre += `input "` + x.echo + `", `
			}
			out := valid.GetOnlyExplainErr(err.Error())
			w.Add("CExtract ["+galSClause(pre, lab, msg, true)+"] "+gal.Str(out),
				map[string]interface{}{"kind": "extract one", "error": err.Error(), "out": out, "expected_message": msg}, fmt.Sprintf("one:%s:zh%v", strings.SplitN(x.rule, "=", 2)[0], zh))
			w.Count("custom")
		} else {
			// default wording: English label, an unpredicted text: the extractor against the model only
			out := valid.GetOnlyExplainErr(err.Error())
			w.Add("COnly "+gal.Str(err.Error())+" "+gal.Str(out), map[string]interface{}{"kind": "default wording", "error": err.Error(), "out": out},
				fmt.Sprintf("default:%s", strings.SplitN(x.rule, "=", 2)[0]))
			w.Count("default")
		}
	}
	// ---- (2) the extractor on errors with every order of clause kinds
	kinds := []string{"zh", "en", "un"}
	mkClause := func(kind string, i int) (text string, sc string) {
		switch kind {
		case "zh":
			pre := fmt.Sprintf(`"T.F%d" input "v%d", `, i, i)
			msg := fmt.Sprintf("标%d 中文说明", i)
			if i%3 == 1 {
				msg = fmt.Sprintf("标%d 见 explain: 内文", i) // quotes the other label
			}
			return pre + valid.ExplainZh + " " + msg, galSClause(pre, valid.ExplainZh, msg, true)
		case "en":
			pre := fmt.Sprintf(`"T.F%d" input "v%d", `, i, i)
			msg := fmt.Sprintf("M%d it is less than 3 str-length", i)
			return pre + valid.ExplainEn + " " + msg, galSClause(pre, valid.ExplainEn, msg, true)
		}
		t := fmt.Sprintf(`"T.F%d" valid "nosuch%d" is not exist, You can call SetValidFn`, i, i)
		return t, galSClause(t, "", "", false)
	}
	var orders [][]string
	var rec func(cur []string, depth int)
	rec = func(cur []string, depth int) {
		if len(cur) > 0 {
			orders = append(orders, append([]string{}, cur...))
		}
		if depth == 4 {
			return
		}
		for _, k := range kinds {
			rec(append(cur, k), depth+1)
		}
	}
	rec(nil, 0)
	for _, ord := range orders { // all 3+9+27+81 = 120 orders up to length 4
		var texts, scs []string
		for i, k := range ord {
			t, sc := mkClause(k, i)
			texts = append(texts, t)
			scs = append(scs, "("+sc+")")
		}
		errText := strings.Join(texts, valid.ErrEndFlag)
		out := valid.GetOnlyExplainErr(errText)
		w.Add("CExtract "+gal.List(scs)+" "+gal.Str(out), map[string]interface{}{"kind": "extract order", "order": ord, "error": errText, "out": out}, "order:"+strings.Join(ord, ","))
		w.Count("orders")
	}
	for i := 0; i < n/2; i++ { // longer random mixes
		k := r.Range(5, 12)
		var texts, scs, ord []string
		for j := 0; j < k; j++ {
			kd := kinds[r.Intn(3)]
			t, sc := mkClause(kd, j)
			texts = append(texts, t)
			scs = append(scs, "("+sc+")")
			ord = append(ord, kd)
		}
		errText := strings.Join(texts, valid.ErrEndFlag)
		out := valid.GetOnlyExplainErr(errText)
		w.Add("CExtract "+gal.List(scs)+" "+gal.Str(out), map[string]interface{}{"kind": "extract long", "order": ord, "out": out}, fmt.Sprintf("long:%d:%s", k, strings.Join(ord[:3], ",")))
		w.Count("long")
	}
	// ---- (3) real library errors with mixed kinds, and arbitrary strings: against the model
	for i := 0; i < n/2; i++ {
		var s string
		var panicked bool
		var out string
		switch r.Intn(3) {
		case 0:
			g := newWgen(r.Fork())
			b := g.buildStruct(g.r.Range(0, 2), "")
			err := valid.Struct(b.val.Addr().Interface())
			if err == nil {
				continue
			}
			s = err.Error()
		case 1:
			s = randWord(r, [][]string{{"explain:", "说明:", "; ", " ", ";", "explain", "说明"}, asciiLetters, cjk, {`"`, ","}}, 0, 10)
		default:
			s = randBytes(r, 20)
		}
		func() {
			defer func() {
				if p := recover(); p != nil {
					panicked = true
				}
			}()
			out = valid.GetOnlyExplainErr(s)
		}()
		if panicked {
			w.Extra["violations"] = append(asList(w.Extra["violations"]), map[string]interface{}{"kind": "panic", "fn": "GetOnlyExplainErr", "input": s})
			continue
		}
		w.Add("COnly "+gal.Str(s)+" "+gal.Str(out), map[string]interface{}{"kind": "extract any", "in": s, "out": out}, fmt.Sprintf("any:%d:%d", min(strings.Count(s, "; "), 3), min(strings.Count(s, "explain:")+strings.Count(s, "说明:"), 3)))
		w.Count("any")
	}
	return w.Flush()
}

func asList(v interface{}) []interface{} {
	if v == nil {
		return nil
	}
	return v.([]interface{})
}
