package main

import (
	"fmt"
	"reflect"
	"strings"
	"sync"

	"gitee.com/xuesongtao/protoc-go-valid/valid"
	"verif/harness/internal/gal"
)

func init() { drivers["C13"] = runC13 }

type c13T struct {
	A string `valid:"required"`
	B int    `valid:"ge=1"`
}
type c13Outer struct {
	P  *c13T            `valid:"exist"`
	PP **c13T           `valid:"exist"`
	L  []*c13T          `valid:"exist"`
	M  map[string]*c13T `valid:"exist"`
	MI map[int]c13T     `valid:"required"`
	I  interface{}      `valid:"exist"`
	F  func()           `valid:"required"`
	C  chan int         `valid:"exist"`
}

// unexported fields that hold values: a rule set that names them must not make the library read them
type c13H struct {
	A      string `valid:"required"`
	hidden int
	secret []string
	flag   bool
}

// unexported fields whose names start with a character that has no case (underscore, a CJK ideograph), tagged with
// rules whose functions call Interface(): never validated, so never a panic ("not lower case" is not "exported")
type c13C struct {
	A     string   `valid:"required"`
	_kind int      `valid:"in=(1/2)"`
	数量    []string `valid:"unique"`
	_s    string   `valid:"eq=9"`
}

// a map whose key type is a NAMED string type (reflect.MapOf cannot build one at run time)
type c13K string

// botheq groups over kinds that == cannot compare
type c13G struct {
	S1 []string       `valid:"botheq=1"`
	S2 []string       `valid:"botheq=1"`
	M1 map[string]int `valid:"botheq=2"`
	M2 map[string]int `valid:"botheq=2"`
	F1 func()         `valid:"botheq=3"`
	F2 func()         `valid:"botheq=3"`
	E1 c13T           `valid:"botheq=4"`
	E2 c13T           `valid:"botheq=4"`
	I1 interface{}    `valid:"botheq=5"`
	I2 interface{}    `valid:"botheq=5"`
}

// rules that read the whole string, for the length-boundary catalogue
var longRules = []string{"json", "re='^a+$'", "re='^[0-9]+$'", "phone", "email", "idcard", "int", "float", "ints", "in=(a/b)", "include=(zz)",
	"prefix=a", "suffix=a", "ip", "ipv4", "ipv6", "date", "datetime", "year", "unique", "to=1~3", "eq=3", "file", "dir"}
var longLens = []int{63, 64, 65, 127, 128, 129, 255, 256, 257, 258, 400, 511, 512, 513}

// rule text: grammar-aware mutations of well-formed rules, plus raw bytes
var hostileBase = []string{"required", "exist", "either=1", "botheq=2", "to=1~3", "to=3~1", "oto=a~b", "ge=", "le=x", "gt=99999999999999999999", "lt=-0",
	"eq=1.5", "noeq", "in=(a/b)", "in=)a(", "in=(", "in", "include=(x)", "include=()", "phone", "email|", "idcard|m", "year", "year2month=''",
	"date='/'", "datetime='-, ,:,x'", "datetime=,", "int", "ints=", "ints=''", "float", "re='[", "re='", "re=''", "re='a\\'", "re='a\\", "re='\\d+\\", "re='\\", "re='a\\\\\\", "re", "re=a", "re='['", "re='a(b'", "re='(?P<n'", "re='\\d{2,1}'", "re='*'|m", "re='['", "re='a(b'", "ip", "ipv4", "ipv6",
	"unique", "json", "prefix=", "suffix='''", "file", "dir", "nosuch", "=", "|", "=|", "to=~", "to=1~2~3", "'", "a,'b", "to='1~2'", "\x00", "说明:", "explain:"}

func hostileRule(r *gal.Rng) string {
	base := hostileBase
	switch r.Intn(5) {
	case 0:
		return base[r.Intn(len(base))]
	case 1: // two rules joined, maybe with stray quotes
		return base[r.Intn(len(base))] + r.Pick([]string{",", ",,", "',", ",'", "|", "="}) + base[r.Intn(len(base))]
	case 2: // a mutated rule
		return editString(r, base[r.Intn(len(base))])
	case 3:
		return editString(r, editString(r, base[r.Intn(len(base))]+"|"+r.Pick([]string{"m", "中", "", "a=b", "'"})))
	}
	return randBytes(r, 14)
}

func hostileValue(r *gal.Rng) (interface{}, string) {
	var np *c13T
	npp := &np
	s := "abc"
	full := &c13T{A: "x", B: 1}
	fullp := &full
	vals := []struct {
		v    interface{}
		name string
	}{
		{nil, "nil"}, {np, "typed-nil-ptr"}, {npp, "ptr-to-nil-ptr"}, {[]*c13T{nil, full, nil}, "slice-with-nil-elems"},
		{map[string]*c13T{"k": nil}, "map-with-nil-value"}, {[]*c13T(nil), "nil-slice"}, {map[int]c13T{}, "empty-map-int-key"},
		{map[int]c13T{3: {}}, "map-int-key"}, {3, "int"}, {"str", "string"}, {3.5, "float"}, {true, "bool"}, {&s, "ptr-to-string"},
		{(*string)(nil), "nil-ptr-to-string"}, {[]interface{}{1, nil, "a", full}, "slice-of-iface"}, {[3]*c13T{}, "array-of-nil"},
		{c13Outer{}, "outer-zero"}, {&c13Outer{P: np, PP: npp, L: []*c13T{nil}, M: map[string]*c13T{"k": nil}, MI: map[int]c13T{1: {}}, I: np, F: func() {}, C: make(chan int)}, "outer-nils"},
		{&c13Outer{P: full, PP: fullp, L: []*c13T{full}, M: map[string]*c13T{"k": full}, I: full}, "outer-full"},
		{fullp, "ptr-ptr-struct"}, {[]c13Outer{{}, {P: full}}, "slice-of-outer"}, {map[string]interface{}{"a": nil, "b": 1, "c": "x"}, "map-iface"},
		{map[string]string{"a": ""}, "map-str"}, {[]map[string]string{nil, {"a": "x"}}, "slice-of-maps-with-nil"}, {map[int]string{1: "x"}, "map-int-str"},
		{func() {}, "func"}, {make(chan int), "chan"}, {[]int{}, "empty-ints"}, {[]string{"a", ""}, "strings"}, {struct{}{}, "empty-struct"},
		{&c13G{S1: []string{"a"}, S2: []string{"a"}, M1: map[string]int{"a": 1}, M2: map[string]int{"a": 1}, F1: func() {}, F2: func() {}, E1: c13T{A: "x"}, E2: c13T{A: "x"}, I1: []int{1}, I2: []int{1}}, "groups-uncomparable-equal"},
		{&c13G{S1: []string{"a"}, S2: []string{"b"}, M1: map[string]int{"a": 1}, M2: map[string]int{"a": 2}, E1: c13T{A: "x"}, E2: c13T{A: "y"}, I1: map[string]int{"a": 1}, I2: []int{1}}, "groups-uncomparable-differ"},
		{map[string][]string{"a": {"x"}, "b": {"x"}}, "map-of-slices"},
		{&c13H{A: "x", hidden: 5, secret: []string{"a", "a"}, flag: true}, "unexported-with-values"},
		{&c13C{A: "x", _kind: 5, 数量: []string{"a", "a"}, _s: "abc"}, "caseless-unexported-with-values"}, {[]c13C{{A: "y", _kind: 7}}, "slice-caseless-unexported"},
		{map[c13K]string{"a": "abc", "b": ""}, "map-named-key"}, {[]map[c13K]int{{"a": 3}}, "slice-map-named-key"}, {&map[c13K]string{"a": "x"}, "ptr-map-named-key"},
		{"http://h/p?a=%zz", "bad-escape-url"}, {"http://h/p?a=1&a=2&=3&b", "odd-url"}, {"?", "qmark"}, {"", "empty-string"}, {"http://h/p?a=%", "trunc-escape"},
	}
	x := vals[r.Intn(len(vals))]
	return x.v, x.name
}

func runC13(c *Ctx) error {
	w := gal.NewWriter("C13", c.Out, "Run.Run_Walk", 150)
	r := c.Rng
	n := 700
	if c.Thorough {
		n = 9000
	}
	var violations []interface{}
	// the directed catalogue first: every hostile rule text on a non-empty string through each entry point
	type directed struct {
		entry string
		rule  string
	}
	var dir []directed
	for _, rule := range hostileBase {
		for _, e := range []string{"var", "struct", "map", "url"} {
			dir = append(dir, directed{e, rule})
		}
	}
	for _, rule := range longRules {
		for _, L := range longLens {
			dir = append(dir, directed{"long", fmt.Sprintf("%s\x00%d", rule, L)})
		}
	}
	for i := 0; i < n+len(dir); i++ {
		v, vname := hostileValue(r)
		entry := r.Pick([]string{"struct", "var", "map", "url"})
		nr := r.Range(0, 3)
		rules := make([]string, nr)
		for j := range rules {
			rules[j] = hostileRule(r)
		}
		if i < len(dir) {
			entry, rules, nr = dir[i].entry, []string{dir[i].rule}, 1
			isLong := entry == "long"
			if isLong { // a string of exactly L bytes through Var (alternating contents)
				var L int
				parts := strings.SplitN(dir[i].rule, "\x00", 2)
				fmt.Sscan(parts[1], &L)
				fill := []string{"a", "{", "7", "\"", "[1,", "中"}[(i+L)%6]
				entry, rules = "var", []string{parts[0]}
				v, vname = strings.Repeat(fill, L)[:L], fmt.Sprintf("long-%d", L)
			}
			switch {
			case isLong:
			case entry == "var":
				v, vname = "abc", "string"
			case entry == "struct":
				v, vname = &c13T{A: "abc", B: 1}, "struct-A-abc"
			case entry == "map":
				v, vname = map[string]string{"a": "abc"}, "map-a-abc"
			default:
				v, vname = "http://h/p?a=abc", "url-a-abc"
			}
		}
		call := &walkCall{Entry: entry, Src: v}
		switch entry {
		case "struct":
			if r.Bool() || i < len(dir) {
				call.HasUnsc = true
				call.Unscoped = map[string]string{"A": strings.Join(rules, ","), "P": hostileRule(r), "L": hostileRule(r), "": hostileRule(r)}
				if vname == "unexported-with-values" {
					call.Unscoped = map[string]string{"hidden": r.Pick([]string{"in=(1/2)", "eq=4", "noeq=5", "to=1~3"}), "secret": r.Pick([]string{"unique", "ints", "ge=3"}), "flag": "in=(false)", "A": strings.Join(rules, ",")}
				}
			}
			if r.Chance(20) {
				call.Local = map[string]string{"to": "", "nosuch": "L1"} // a nil function under a built-in name
			}
		case "var":
			call.VarRules = rules
		default:
			call.Rules = map[string]string{"a": strings.Join(rules, ","), "b": hostileRule(r), "": hostileRule(r), "k": hostileRule(r)}
			if vname == "map-of-slices" {
				call.Rules = map[string]string{"a": "botheq=1", "b": "botheq=1"}
			}
			if r.Chance(10) {
				call.Rules = nil
			}
		}
		multi := false
		src := galSrc(v, &multi)
		var e string
		switch entry {
		case "struct":
			e = "(EStruct " + call.galCfg() + " " + src + ")"
		case "var":
			e = "(EVar " + call.galCfg() + " " + gal.StrList(call.VarRules) + " " + src + ")"
		case "map":
			e = "(EMap " + call.galCfg() + " " + galRM(call.Rules) + " " + src + ")"
		default:
			e = "(EUrl " + call.galCfg() + " " + galRM(call.Rules) + " " + src + ")"
		}
		err, panicked, ptext := call.run()
		desc := map[string]interface{}{"entry": entry, "value": vname, "src_type": fmt.Sprintf("%T", v), "rules": rules, "panicked": panicked}
		if panicked {
			desc["panic"] = ptext
			violations = append(violations, map[string]interface{}{"kind": "panic", "entry": entry, "value": vname, "src": fmt.Sprintf("%#v", v), "rules": rules, "unscoped": call.Unscoped, "map_rules": call.Rules, "panic": ptext})
		} else if err != nil {
			desc["error"] = err.Error()
		}
		rk := "none"
		if nr > 0 {
			rk = strings.SplitN(strings.SplitN(rules[0], "=", 2)[0], "|", 2)[0]
			if len(rk) > 10 || !isWord(rk) {
				rk = "garbage"
			}
		}
		w.Add("CTotal "+e+" "+gal.Bool(panicked), desc, fmt.Sprintf("%s:%s:%s:err%v", entry, vname, rk, err != nil))
		w.Count("entry." + entry)
		_ = reflect.TypeOf(v)
	}
	// ---- several callers meet a type nobody has validated before at the same moment (both miss the type cache, both
	// store their analysis): no caller may panic, and every one gets the clause
	{
		rounds := 150
		if c.Thorough {
			rounds = 1500
		}
		var mu sync.Mutex
		bad := 0
		for k := 0; k < rounds; k++ {
			fields := []reflect.StructField{
				{Name: "A", Type: reflect.TypeOf(""), Tag: reflect.StructTag(fmt.Sprintf(`valid:"required|M%dc" x:"%d"`, k, k))},
				{Name: "B", Type: reflect.TypeOf([]int{}), Tag: `valid:"required"`},
				{Name: fmt.Sprintf("F%d", k), Type: reflect.TypeOf(0)}}
			for f := 0; f < 150; f++ { // a long analysis: a wide window in which the other callers miss the cache as well
				fields = append(fields, reflect.StructField{Name: fmt.Sprintf("G%d", f), Type: reflect.TypeOf(0), Tag: reflect.StructTag(fmt.Sprintf(`valid:"ge=%d"`, f))})
			}
			st := reflect.StructOf(fields)
			src := reflect.New(st).Interface()
			var wg sync.WaitGroup
			start := make(chan struct{})
			for g := 0; g < 8; g++ {
				wg.Add(1)
				go func() {
					defer wg.Done()
					defer func() {
						if p := recover(); p != nil {
							mu.Lock()
							if bad < 5 {
								violations = append(violations, map[string]interface{}{"kind": "panic", "entry": "struct", "value": "fresh type met by 8 callers at once",
									"src": fmt.Sprintf("%T", src), "panic": fmt.Sprint(p)})
							}
							bad++
							mu.Unlock()
						}
					}()
					<-start
					if err := valid.Struct(src); err == nil {
						mu.Lock()
						if bad < 5 {
							violations = append(violations, map[string]interface{}{"kind": "missing-error", "entry": "struct", "value": "fresh type met by 8 callers at once", "src": fmt.Sprintf("%T", src)})
						}
						bad++
						mu.Unlock()
					}
				}()
			}
			close(start)
			wg.Wait()
		}
		w.Count("concurrent-first-use")
		w.Dist["concurrent_first_use.rounds"] = rounds
	}
	w.Extra["violations"] = violations
	return w.Flush()
}

func isWord(s string) bool {
	for _, c := range s {
		if !(c >= 'a' && c <= 'z') && !(c >= '0' && c <= '9') {
			return false
		}
	}
	return s != ""
}
