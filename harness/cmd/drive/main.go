// drive — runs the implementation (public API of /repo) on generated inputs and writes
// Coq case files holding the inputs and the observed outputs.
package main

import (
	"flag"
	"fmt"
	"os"
	"strings"

	"verif/harness/internal/gal"
)

type Ctx struct {
	Prop     string
	Tier     string
	Seed     uint64
	Out      string
	Only     string // "file:index" replay selector (unused by most drivers)
	Rng      *gal.Rng
	Thorough bool
}

var drivers = map[string]func(*Ctx) error{}

func main() {
	if len(os.Args) > 1 && os.Args[1] == "worker" {
		workerMain(os.Args[2:])
		return
	}
	var c Ctx
	var seed int64
	flag.StringVar(&c.Prop, "prop", "", "property id (C01..C20)")
	flag.StringVar(&c.Tier, "tier", "quick", "quick|thorough")
	flag.Int64Var(&seed, "seed", 1, "seed of the single PRNG")
	flag.StringVar(&c.Out, "out", "", "output directory for case files")
	flag.StringVar(&c.Only, "only", "", "replay selector")
	flag.Parse()
	c.Seed = uint64(seed)
	c.Rng = gal.NewRng(c.Seed)
	c.Thorough = c.Tier == "thorough"
	d, ok := drivers[strings.ToUpper(c.Prop)]
	if !ok {
		fmt.Fprintf(os.Stderr, "drive: no driver for %q\n", c.Prop)
		os.Exit(2)
	}
	if err := os.MkdirAll(c.Out, 0o755); err != nil {
		fmt.Fprintln(os.Stderr, err)
		os.Exit(2)
	}
	if err := d(&c); err != nil {
		fmt.Fprintln(os.Stderr, "drive:", err)
		os.Exit(2)
	}
}

// workerMain: sub-process entry for calls that may panic or need process-global state.
var workers = map[string]func(args []string){}

func workerMain(args []string) {
	if len(args) == 0 {
		os.Exit(2)
	}
	w, ok := workers[args[0]]
	if !ok {
		fmt.Fprintf(os.Stderr, "drive: no worker %q\n", args[0])
		os.Exit(2)
	}
	w(args[1:])
}
