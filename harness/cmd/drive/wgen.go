package main

// Generator of object graphs with rules whose verdicts are known BY CONSTRUCTION: every scalar is
// a specimen drawn from a hand-written truth table (value, rule, violated?), so the list of
// clauses a call must produce — paths, markers, order — is computed while the input is built,
// independently of the implementation and of the Coq model.

import (
	"fmt"
	"reflect"
	"strings"
	"time"

	"verif/harness/internal/gal"
)

type ruleV struct {
	text string
	viol bool
}

type specimen struct {
	name  string
	val   interface{}
	rules []ruleV
}

var specimens = []specimen{
	{"str-abc", "abc", []ruleV{{"to=2~4", false}, {"to=5~9", true}, {"oto=3~5", true}, {"ge=3", false}, {"gt=3", true}, {"le=2", true},
		{"lt=4", false}, {"eq=3", false}, {"eq=4", true}, {"noeq=3", true}, {"in=(abc/x)", false}, {"in=(x/y)", true}, {"include=(bc)", false},
		{"include=(zz)", true}, {"phone", true}, {"int", true}, {"email", true}, {"prefix=ab", false}, {"suffix=zz", true}, {"unique", false}, {"ints", true},
		{"to=5~2", true}, {"oto=3~3", true}, {"in=('a,b'/abc)", false}, {"in=('x,y'/z)", true}, {"suffix='zz'", true}, {"prefix='ab'", false}, {"include=('b,c'/bc)", false}}},
	{"str-phone", "13812345678", []ruleV{{"phone", false}, {"int", false}, {"ints", false}, {"to=11~11", false}, {"eq=10", true}, {"idcard", true}, {"float", true}}},
	{"str-cjk", "中文字", []ruleV{{"to=3~3", false}, {"eq=3", false}, {"gt=3", true}, {"le=2", true}, {"prefix=中", false}, {"eq=9", true}}},
	{"str-mail", "a@b.cn", []ruleV{{"email", false}, {"phone", true}, {"include=(@)", false}, {"lt=6", true}}},
	{"str-blanks", " ab ", []ruleV{{"eq=4", false}, {"eq=2", true}, {"to=4~4", false}, {"to=1~3", true}, {"le=3", true}, {"ge=4", false}, {"lt=4", true}, {"noeq=4", true}}},
	{"str-space", "a b", []ruleV{{"in=(a b)", false}, {"in=(a+b)", true}, {"include=( )", false}, {"include=(+)", true}, {"prefix='a '", false},
		{"suffix=' b'", false}, {"eq=3", false}, {"le=2", true}, {"in=(a%20b)", true}}},
	{"str-plus", "a+b", []ruleV{{"eq=3", false}, {"in=(a+b)", false}, {"in=(a b)", true}, {"le=2", true}, {"include=(+)", false}}},
	{"str-pct", "%41x", []ruleV{{"eq=4", false}, {"eq=2", true}, {"prefix=%", false}, {"in=(Ax)", true}, {"ge=4", false}}},
	{"str-emoji", "a😀b", []ruleV{{"eq=3", false}, {"eq=6", true}, {"le=2", true}, {"to=3~3", false}, {"gt=3", true}}},
	{"str-tab", "ab\t", []ruleV{{"eq=3", false}, {"le=2", true}, {"gt=2", false}}},
	{"f32-0.1", float32(0.1), []ruleV{{"in=(0.1)", false}, {"in=(0.2/0.3)", true}, {"le=1", false}, {"ge=1", true}, {"float", false}, {"lt=0", true}}},
	{"int-7", 7, []ruleV{{"ge=5", false}, {"ge=9", true}, {"le=9", false}, {"le=5", true}, {"gt=7", true}, {"lt=7", true}, {"lt=8", false},
		{"eq=7", false}, {"noeq=7", true}, {"in=(7/8)", false}, {"in=(1/2)", true}, {"int", false}, {"float", true}, {"to=-3~7", false}, {"oto=-3~7", true}, {"to=9~5", true}, {"oto=7~4", true}, {"in=('7'/8)", false}}},
	{"int8-7", int8(7), []ruleV{{"ge=5", false}, {"gt=7", true}, {"eq=7", false}, {"le=5", true}}},
	{"int64-neg", int64(-4), []ruleV{{"ge=-4", false}, {"gt=-4", true}, {"le=-5", true}, {"eq=-4", false}, {"to=-9~-1", false}}},
	{"uint-5", uint(5), []ruleV{{"gt=5", true}, {"ge=-1", false}, {"le=-1", true}, {"eq=5", false}, {"in=(5)", false}, {"to=1~4", true}, {"lt=6", false}, {"to=9~1", true}}},
	{"uint16-5", uint16(5), []ruleV{{"gt=4", false}, {"lt=5", true}, {"noeq=5", true}}},
	{"f64-2.5", 2.5, []ruleV{{"ge=2", false}, {"ge=3", true}, {"lt=3", false}, {"eq=2", true}, {"float", false}, {"int", true}, {"in=(2.5)", false}}},
	{"f32-2", float32(2), []ruleV{{"eq=2", false}, {"in=(2/3)", false}, {"le=1", true}, {"gt=2", true}}},
	{"ints-12", []int{1, 2}, []ruleV{{"to=1~3", false}, {"ge=3", true}, {"eq=2", false}, {"noeq=2", true}, {"unique", false}, {"ints", false}, {"gt=2", true}}},
	{"strs-aa", []string{"a", "a"}, []ruleV{{"unique", true}, {"ints", true}, {"eq=2", false}, {"lt=2", true}}},
}

type expE struct {
	kind string // C D F G
	path string
	text string // marker (C), kind text (F), group text (G)
}

func (e expE) gal() string {
	switch e.kind {
	case "C":
		return "XC " + gal.Str(e.path) + " " + gal.Str(e.text)
	case "D":
		return "XD " + gal.Str(e.path)
	case "F":
		return "XF " + gal.Str(e.path) + " " + gal.Str(e.text)
	}
	return "XG " + gal.Str(e.text)
}

type wgen struct {
	r      *gal.Rng
	marker int
	multi  bool // a Go map with more than one entry was built: order unspecified
	feat   map[string]bool
}

func newWgen(r *gal.Rng) *wgen { return &wgen{r: r, feat: map[string]bool{}} }

func (g *wgen) mark() string {
	g.marker++
	// a message may end in blanks or semicolons (bytes of the clause separator): shown verbatim, never trimmed
	tail := ""
	if g.r.Chance(12) {
		tail = g.r.Pick([]string{";", " ", " ;", ";;", "  "})
	}
	if g.r.Chance(15) {
		return fmt.Sprintf("标%d%s", g.marker, tail)
	}
	return fmt.Sprintf("M%d%s", g.marker, tail)
}

func joinPath(structName, field string) string {
	if structName == "" {
		return field
	}
	return structName + "." + field
}

// fieldErrPath: GetJoinFieldErr shows a prefix only when both names are non-empty
func fieldErrPath(structName, field string) string {
	if structName == "" || field == "" {
		return ""
	}
	return structName + "." + field
}

// rulesFor draws 0..k rules for a specimen field; returns the tag text and the expected clauses
func (g *wgen) rulesFor(sp specimen, zero bool, structName, field string, maxRules int) (string, []expE) {
	var parts []string
	var exps []expE
	n := g.r.Range(0, maxRules)
	for i := 0; i < n; i++ {
		switch x := g.r.Intn(20); {
		case x == 0: // empty item between commas
			parts = append(parts, "")
			g.feat["empty-item"] = true
		case x == 1: // unknown rule name: an error clause, the other rules are still evaluated
			parts = append(parts, "nosuch")
			exps = append(exps, expE{"F", fieldErrPath(structName, field), `F:valid "nosuch" is not exist, You can call SetValidFn`})
			g.feat["unknown-rule"] = true
		case x <= 4:
			m := g.mark()
			parts = append(parts, "required|"+m)
			if zero {
				exps = append(exps, expE{"C", joinPath(structName, field), m})
			}
			g.feat["required"] = true
		default:
			rv := sp.rules[g.r.Intn(len(sp.rules))]
			m := g.mark()
			parts = append(parts, rv.text+"|"+m)
			if rv.viol && !zero {
				exps = append(exps, expE{"C", joinPath(structName, field), m})
			}
			if rv.viol {
				g.feat["violated"] = true
			} else {
				g.feat["satisfied"] = true
			}
			if i > 0 && g.r.Chance(10) { // the same rule twice: two instances
				m2 := g.mark()
				parts = append(parts, rv.text+"|"+m2)
				if rv.viol && !zero {
					exps = append(exps, expE{"C", joinPath(structName, field), m2})
				}
				g.feat["repeated-rule"] = true
			}
		}
	}
	if len(parts) > 0 && g.r.Chance(8) {
		parts = append(parts, "") // trailing comma
	}
	return strings.Join(parts, ","), exps
}

func tagOf(rules string) reflect.StructTag {
	if rules == "" {
		return ""
	}
	return reflect.StructTag(`valid:"` + strings.ReplaceAll(rules, `"`, `\"`) + `"`)
}

// built describes one generated struct value
type built struct {
	val  reflect.Value // addressable struct value
	exps []expE
}

// buildStruct synthesises a struct type with reflect.StructOf and a value of it.
// structName is the path prefix the walker will use for this object's fields.
func (g *wgen) buildStruct(depth int, structName string) built {
	nf := g.r.Range(1, 4)
	type fld struct {
		sf   reflect.StructField
		val  reflect.Value
		exps []expE
	}
	var fs []fld
	for i := 0; i < nf; i++ {
		name := fmt.Sprintf("F%d", i)
		choice := g.r.Intn(10)
		if depth == 0 && choice >= 6 {
			choice = g.r.Intn(6)
		}
		switch {
		case choice < 6: // scalar specimen
			sp := specimens[g.r.Intn(len(specimens))]
			zero := g.r.Chance(25)
			v := reflect.ValueOf(sp.val)
			if zero {
				v = reflect.Zero(v.Type())
				g.feat["zero-value"] = true
			}
			rules, exps := g.rulesFor(sp, zero, structName, name, 4)
			fs = append(fs, fld{reflect.StructField{Name: name, Type: v.Type(), Tag: tagOf(rules)}, v, exps})
		case choice == 6 && g.r.Bool(): // time.Time: never validated
			fs = append(fs, fld{reflect.StructField{Name: name, Type: timeType, Tag: tagOf("required|" + g.mark())}, reflect.ValueOf(time.Time{}), nil})
			g.feat["time-field"] = true
		case choice == 6: // *time.Time is an ordinary pointer field: required fires when it is nil, nothing is entered otherwise
			m := g.mark()
			pt := reflect.PtrTo(timeType)
			if g.r.Bool() {
				fs = append(fs, fld{reflect.StructField{Name: name, Type: pt, Tag: tagOf("required|" + m)}, reflect.Zero(pt), []expE{{"C", joinPath(structName, name), m}}})
			} else {
				now := time.Date(2020, 1, 2, 3, 4, 5, 0, time.UTC)
				fs = append(fs, fld{reflect.StructField{Name: name, Type: pt, Tag: tagOf(g.r.Pick([]string{"required|", "exist|"}) + m)}, reflect.ValueOf(&now), nil})
			}
			g.feat["time-pointer-field"] = true
		default: // nested: struct / pointer(s) / slice / array / map, marked or decoy
			childName := structName + "." + name // the walker passes structName + "." + fieldName
			mode := g.r.Intn(7)                  // 0 required 1 exist 2 decoy-none 3 decoy-other-rule 4.. required/exist
			tagRule := ""
			marked := true
			var m string
			switch mode {
			case 2:
				marked = false
				g.feat["decoy-untagged"] = true
			case 3:
				marked = false
				tagRule = "to=1~2|" + g.mark() // a non-builtin rule on a struct: evaluated on the struct value, never descends
				g.feat["decoy-other-rule"] = true
			case 1, 5:
				tagRule = "exist"
			default:
				m = g.mark()
				tagRule = "required|" + m
			}
			shape := g.r.Intn(8)
			if mode == 3 && shape > 3 { // a size rule would measure a slice: keep this decoy on structs and pointers
				shape = g.r.Intn(4)
			}
			var v reflect.Value
			var exps []expE
			isNilOrEmpty := false
			switch shape {
			case 0, 1: // struct by value
				b := g.buildStruct(depth-1, childName)
				v = b.val
				if marked {
					exps = b.exps
				}
				// an all-zero struct under required is "empty": required fires, nothing is descended
				if v.IsZero() {
					isNilOrEmpty = true
					exps = nil
				}
				g.feat["nested-value"] = true
			case 2, 3: // pointer(s) to struct, maybe nil
				levels := g.r.Range(1, 3)
				if levels >= 2 && g.r.Chance(45) {
					// the outer pointer is set, an inner level is nil: a supplied (non-zero) value with nothing behind it,
					// skipped silently under exist and under required alike
					b := g.buildStruct(depth-1, childName)
					t := b.val.Type()
					for k := 0; k < levels-1; k++ {
						t = reflect.PtrTo(t)
					}
					inner := reflect.Zero(t) // a nil pointer with levels-1 stars
					p := reflect.New(t)
					p.Elem().Set(inner)
					v = p
					g.feat["inner-nil-pointer"] = true
				} else if g.r.Chance(25) {
					b := g.buildStruct(depth-1, childName)
					t := b.val.Type()
					for k := 0; k < levels; k++ {
						t = reflect.PtrTo(t)
					}
					v = reflect.Zero(t)
					isNilOrEmpty = true
					g.feat["nil-pointer"] = true
				} else {
					b := g.buildStruct(depth-1, childName)
					v = b.val
					for k := 0; k < levels; k++ {
						p := reflect.New(v.Type())
						p.Elem().Set(v)
						v = p
					}
					if marked {
						exps = b.exps
					}
					g.feat[fmt.Sprintf("pointer-levels-%d", levels)] = true
				}
			case 4, 5: // slice / array of structs or pointers (all elements of one synthesised type)
				n := g.r.Range(0, 3)
				proto := g.buildStructType(depth - 1)
				usePtr := g.r.Bool()
				et := proto.t
				if usePtr {
					et = reflect.PtrTo(et)
				}
				if shape == 5 && n > 0 {
					v = reflect.New(reflect.ArrayOf(n, et)).Elem()
					g.feat["array-of-structs"] = true
				} else {
					v = reflect.MakeSlice(reflect.SliceOf(et), n, n)
					if n == 0 && g.r.Bool() {
						v = reflect.Zero(reflect.SliceOf(et))
					}
					g.feat["slice-of-structs"] = true
				}
				for k := 0; k < n; k++ {
					if usePtr && g.r.Chance(20) {
						g.feat["nil-element"] = true
						continue // nil element: skipped silently
					}
					ev, ee := proto.fill(g, fmt.Sprintf("%s[%d]", childName, k))
					if usePtr {
						p := reflect.New(proto.t)
						p.Elem().Set(ev)
						v.Index(k).Set(p)
					} else {
						v.Index(k).Set(ev)
					}
					if marked {
						exps = append(exps, ee...)
					}
				}
				if n == 0 {
					isNilOrEmpty = true
				}
				if shape == 5 && n > 0 && v.IsZero() { // an array of zero structs is the zero value
					isNilOrEmpty = true
					exps = nil
				}
			default: // map of structs
				n := g.r.Range(0, 2)
				proto := g.buildStructType(depth - 1)
				intKey := g.r.Bool()
				kt := reflect.TypeOf("")
				if intKey {
					kt = reflect.TypeOf(0)
				}
				v = reflect.MakeMap(reflect.MapOf(kt, proto.t))
				if n == 0 && g.r.Bool() {
					v = reflect.Zero(reflect.MapOf(kt, proto.t))
				}
				for k := 0; k < n; k++ {
					var kv reflect.Value
					var ks string
					if intKey {
						kv, ks = reflect.ValueOf(k+3), fmt.Sprint(k+3)
					} else {
						ks = []string{"ka", "kb"}[k]
						kv = reflect.ValueOf(ks)
					}
					ev, ee := proto.fill(g, fmt.Sprintf("%s[%s]", childName, ks))
					v.SetMapIndex(kv, ev)
					if marked {
						exps = append(exps, ee...)
					}
				}
				if n > 1 {
					g.multi = true
				}
				if n == 0 {
					isNilOrEmpty = true
				}
				g.feat["map-of-structs"] = true
			}
			var fexps []expE
			if strings.HasPrefix(tagRule, "required") && isNilOrEmpty {
				fexps = []expE{{"C", joinPath(structName, name), m}}
				g.feat["required-on-empty-container"] = true
			} else if marked {
				fexps = exps
			}
			fs = append(fs, fld{reflect.StructField{Name: name, Type: v.Type(), Tag: tagOf(tagRule)}, v, fexps})
		}
	}
	// the same object reachable through two fields: each path is validated and reported on its own
	if g.r.Chance(30) {
		for i := len(fs) - 1; i >= 0; i-- {
			f := fs[i]
			if f.val.Kind() != reflect.Ptr || f.val.IsNil() || f.val.Type().Elem().Kind() != reflect.Struct {
				continue
			}
			tag := string(f.sf.Tag)
			if !strings.Contains(tag, "required") && !strings.Contains(tag, "exist") {
				break
			}
			dupName := fmt.Sprintf("F%dx", i)
			oldPrefix, newPrefix := structName+"."+f.sf.Name, structName+"."+dupName
			var de []expE
			for _, e := range f.exps {
				if strings.HasPrefix(e.path, oldPrefix+".") || strings.HasPrefix(e.path, oldPrefix+"[") {
					de = append(de, expE{e.kind, newPrefix + e.path[len(oldPrefix):], e.text})
				}
			}
			if len(de) != len(f.exps) { // a clause of the field itself (required on empty): not a shared-object case
				break
			}
			fs = append(fs, fld{reflect.StructField{Name: dupName, Type: f.val.Type(), Tag: tagOf("exist")}, f.val, de})
			g.feat["shared-pointer"] = true
			break
		}
	}
	sfs := make([]reflect.StructField, len(fs))
	for i, f := range fs {
		sfs[i] = f.sf
	}
	st := reflect.StructOf(sfs)
	sv := reflect.New(st).Elem()
	var exps []expE
	for i, f := range fs {
		sv.Field(i).Set(f.val)
		exps = append(exps, f.exps...)
	}
	return built{sv, exps}
}

// structProto: one synthesised struct type of scalar fields whose instances can be filled with
// different values (the elements of one slice / map share their type, hence their tags)
type structProto struct {
	t      reflect.Type
	fields []protoField
}
type protoField struct {
	name  string
	sp    specimen
	rules []protoRule
}
type protoRule struct {
	text   string // with marker
	marker string
	kind   string // rule | required | unknown | empty
	viol   bool
}

func (g *wgen) buildStructType(depth int) structProto {
	nf := g.r.Range(1, 3)
	var p structProto
	var sfs []reflect.StructField
	for i := 0; i < nf; i++ {
		sp := specimens[g.r.Intn(len(specimens))]
		pf := protoField{name: fmt.Sprintf("E%d", i), sp: sp}
		var parts []string
		for k := g.r.Range(0, 3); k > 0; k-- {
			if g.r.Chance(20) {
				m := g.mark()
				pf.rules = append(pf.rules, protoRule{"required|" + m, m, "required", false})
				parts = append(parts, "required|"+m)
				continue
			}
			rv := sp.rules[g.r.Intn(len(sp.rules))]
			m := g.mark()
			pf.rules = append(pf.rules, protoRule{rv.text + "|" + m, m, "rule", rv.viol})
			parts = append(parts, rv.text+"|"+m)
		}
		p.fields = append(p.fields, pf)
		sfs = append(sfs, reflect.StructField{Name: pf.name, Type: reflect.TypeOf(sp.val), Tag: tagOf(strings.Join(parts, ","))})
	}
	p.t = reflect.StructOf(sfs)
	return p
}

func (p structProto) fill(g *wgen, structName string) (reflect.Value, []expE) {
	sv := reflect.New(p.t).Elem()
	var exps []expE
	for i, pf := range p.fields {
		zero := g.r.Chance(25)
		if !zero {
			sv.Field(i).Set(reflect.ValueOf(pf.sp.val))
		}
		for _, pr := range pf.rules {
			if (pr.kind == "required" && zero) || (pr.kind == "rule" && pr.viol && !zero) {
				exps = append(exps, expE{"C", joinPath(structName, pf.name), pr.marker})
			}
		}
	}
	return sv, exps
}

func galExps(es []expE) string {
	parts := make([]string, len(es))
	for i, e := range es {
		parts[i] = "(" + e.gal() + ")"
	}
	return gal.List(parts)
}

func (g *wgen) featureCell() string {
	var fs []string
	for _, k := range []string{"violated", "satisfied", "zero-value", "required", "unknown-rule", "empty-item", "repeated-rule", "time-field", "time-pointer-field", "shared-pointer",
		"nested-value", "nil-pointer", "inner-nil-pointer", "pointer-levels-1", "pointer-levels-2", "pointer-levels-3", "slice-of-structs", "array-of-structs", "map-of-structs",
		"nil-element", "decoy-untagged", "decoy-other-rule", "required-on-empty-container"} {
		if g.feat[k] {
			fs = append(fs, k)
		}
	}
	return strings.Join(fs, "+")
}
