package main

// C20 — the struct dumper emits well-formed JSON matching the standard encoder.
// Struct types are synthesised at run time (reflect.StructOf, exported fields only) and taken
// from the hand-written named types of c20types.go (unexported fields, recursion); values are
// random.  Every value is dumped with valid.GetDumpStructStr and printed as a Gallina [val]
// term next to the observed bytes.  Stream 1 (CDump): maps hold at most one entry, so the
// dumper's output is deterministic and compared byte for byte in Coq.  Stream 2 (CPerm):
// multi-entry maps, compared as documents with object members taken as a set.  In both streams
// the harness also decodes the dump and valid.GetDumpStructStrForJson(v) with encoding/json and
// compares the documents up to the documented deviations.

import (
	"bytes"
	"encoding/json"
	"fmt"
	"math"
	"reflect"
	"sort"
	"strconv"
	"strings"
	"time"

	"gitee.com/xuesongtao/protoc-go-valid/valid"
	"verif/harness/internal/gal"
)

func init() { drivers["C20"] = runC20 }

var c20TimeType = reflect.TypeOf(time.Time{})

// ---------- Gallina printer of a Go value ----------

func c20Gal(v reflect.Value) string {
	if !v.IsValid() {
		return "VInvalid"
	}
	switch v.Kind() {
	case reflect.Bool:
		return "(VBool " + gal.Bool(v.Bool()) + ")"
	case reflect.Int, reflect.Int8, reflect.Int16, reflect.Int32, reflect.Int64:
		return "(VInt " + gal.Z(v.Int()) + ")"
	case reflect.Uint, reflect.Uint8, reflect.Uint16, reflect.Uint32, reflect.Uint64, reflect.Uintptr:
		return "(VUint " + gal.N(v.Uint()) + ")"
	case reflect.Float32:
		return "(VFloat true " + gal.Str(strconv.FormatFloat(v.Float(), 'f', -1, 32)) + ")"
	case reflect.Float64:
		return "(VFloat false " + gal.Str(strconv.FormatFloat(v.Float(), 'f', -1, 64)) + ")"
	case reflect.String:
		return "(VStr " + gal.Str(v.String()) + ")"
	case reflect.Ptr:
		if v.IsNil() {
			return "VNilPtr"
		}
		return "(VPtr " + c20Gal(v.Elem()) + ")"
	case reflect.Slice:
		parts := make([]string, v.Len())
		for i := range parts {
			parts[i] = c20Gal(v.Index(i))
		}
		return "(VSlice " + gal.Bool(v.Type().Elem().Kind() == reflect.Uint8) + " " + gal.Bool(v.IsNil()) + " " + gal.List(parts) + ")"
	case reflect.Array:
		parts := make([]string, v.Len())
		for i := range parts {
			parts[i] = c20Gal(v.Index(i))
		}
		return "(VArray " + gal.List(parts) + ")"
	case reflect.Map:
		type ent struct{ k, s string }
		var es []ent
		it := v.MapRange()
		for it.Next() {
			es = append(es, ent{c20KeyText(it.Key()), "(" + c20Gal(it.Key()) + ", " + c20Gal(it.Value()) + ")"})
		}
		sort.Slice(es, func(i, j int) bool { return es[i].k < es[j].k })
		parts := make([]string, len(es))
		for i := range es {
			parts[i] = es[i].s
		}
		return "(VMap " + gal.Bool(v.IsNil()) + " " + gal.List(parts) + ")"
	case reflect.Struct:
		t := v.Type()
		parts := make([]string, v.NumField())
		for i := range parts {
			sf := t.Field(i)
			parts[i] = "(mkf " + gal.Str(sf.Name) + " " + gal.Bool(sf.PkgPath == "") + " " + gal.Bool(sf.Anonymous) + " " + gal.Bool(sf.Type == c20TimeType) + ", " + c20Gal(v.Field(i)) + ")"
		}
		return "(VStruct " + gal.Str(t.Name()) + " " + gal.List(parts) + ")"
	case reflect.Interface:
		if v.IsNil() {
			return "(VIface None)"
		}
		return "(VIface (Some " + c20Gal(v.Elem()) + "))"
	default: // func, chan, complex, unsafe pointer
		return "VOther"
	}
}

func c20KeyText(k reflect.Value) string {
	switch k.Kind() {
	case reflect.String:
		return k.String()
	case reflect.Int, reflect.Int8, reflect.Int16, reflect.Int32, reflect.Int64:
		return strconv.FormatInt(k.Int(), 10)
	case reflect.Uint, reflect.Uint8, reflect.Uint16, reflect.Uint32, reflect.Uint64, reflect.Uintptr:
		return strconv.FormatUint(k.Uint(), 10)
	}
	return fmt.Sprint(k)
}

// ---------- random types ----------

type c20Gen struct {
	r     *gal.Rng
	multi bool // multi-entry maps allowed (stream 2)
}

var c20Scalars = []reflect.Type{
	reflect.TypeOf(""), reflect.TypeOf(true), reflect.TypeOf(int(0)), reflect.TypeOf(int8(0)), reflect.TypeOf(int16(0)),
	reflect.TypeOf(int32(0)), reflect.TypeOf(int64(0)), reflect.TypeOf(uint(0)), reflect.TypeOf(uint16(0)), reflect.TypeOf(uint32(0)),
	reflect.TypeOf(uint64(0)), reflect.TypeOf(uintptr(0)), reflect.TypeOf(float32(0)), reflect.TypeOf(float64(0)),
}
var c20KeyTypes = []reflect.Type{
	reflect.TypeOf(int(0)), reflect.TypeOf(int8(0)), reflect.TypeOf(int64(0)), reflect.TypeOf(uint(0)), reflect.TypeOf(uint16(0)),
	reflect.TypeOf(""), reflect.TypeOf(""), reflect.TypeOf(int32(0)),
}
var c20Uint8 = reflect.TypeOf(uint8(0))
var c20FieldNames = []string{"A", "B", "Cx", "D1", "E_", "Name", "Time", "ID", "Z9", "Hello", "X", "Y"}

func (g *c20Gen) scalar(allowU8 bool) reflect.Type {
	if allowU8 && g.r.Chance(8) {
		return c20Uint8
	}
	return c20Scalars[g.r.Intn(len(c20Scalars))]
}

func (g *c20Gen) namedStruct() reflect.Type {
	return reflect.TypeOf(c20DomainTypes[g.r.Intn(len(c20DomainTypes))])
}

// a struct type: synthesised, or (sometimes) one of the named ones
func (g *c20Gen) structType(depth int) reflect.Type {
	if g.r.Chance(25) {
		return g.namedStruct()
	}
	n := g.r.Intn(5)
	if g.r.Chance(10) {
		n = 0
	}
	if depth <= 0 && n > 2 {
		n = 2
	}
	used := map[string]bool{}
	fields := make([]reflect.StructField, 0, n)
	for i := 0; i < n; i++ {
		name := c20FieldNames[g.r.Intn(len(c20FieldNames))]
		for used[name] {
			name += "x"
		}
		used[name] = true
		fields = append(fields, reflect.StructField{Name: name, Type: g.fieldType(depth - 1)})
	}
	return reflect.StructOf(fields)
}

// elemType: what may sit inside a slice / array / map value
func (g *c20Gen) elemType(depth int, allowU8 bool) reflect.Type {
	if depth <= 0 {
		return g.scalar(allowU8)
	}
	switch g.r.Intn(10) {
	case 0, 1:
		return g.structType(depth - 1)
	case 2, 3:
		return reflect.PtrTo(g.structType(depth - 1))
	case 4:
		return reflect.SliceOf(g.elemType(depth-1, false))
	case 5:
		return reflect.MapOf(c20KeyTypes[g.r.Intn(len(c20KeyTypes))], g.elemType(depth-1, true))
	default:
		return g.scalar(allowU8)
	}
}

func (g *c20Gen) fieldType(depth int) reflect.Type {
	if depth <= 0 {
		return g.scalar(true)
	}
	switch g.r.Intn(12) {
	case 0, 1:
		return g.structType(depth - 1)
	case 2, 3:
		return reflect.PtrTo(g.structType(depth - 1))
	case 4, 5:
		return reflect.SliceOf(g.elemType(depth-1, false)) // never []uint8: []byte is outside the domain (finding)
	case 6:
		return reflect.ArrayOf(g.r.Intn(4), g.elemType(depth-1, true))
	case 7, 8:
		return reflect.MapOf(c20KeyTypes[g.r.Intn(len(c20KeyTypes))], g.elemType(depth-1, true))
	default:
		return g.scalar(true)
	}
}

// ---------- random values ----------

var c20Chars = []string{"a", "b", "Z", "0", "9", " ", "!", "#", "'", "/", ":", ",", "{", "}", "[", "]", "<", ">", "&", "=", "~", "\x7f",
	"é", "中", "文", " ", "😀", "null", "true"}

func (g *c20Gen) str() string {
	n := g.r.Intn(5)
	if g.r.Chance(15) {
		n = 0
	}
	var b strings.Builder
	for i := 0; i < n; i++ {
		b.WriteString(c20Chars[g.r.Intn(len(c20Chars))])
	}
	return b.String()
}

func (g *c20Gen) i64(bits int) int64 {
	min := int64(-1) << (bits - 1)
	max := -(min + 1)
	switch g.r.Intn(8) {
	case 0:
		return min
	case 1:
		return max
	case 2:
		return 0
	case 3:
		return -1
	case 4:
		return int64(g.r.Intn(100))
	case 5:
		return -int64(g.r.Intn(100000))
	default:
		x := int64(g.r.U64())
		if bits < 64 {
			x >>= uint(64 - bits)
		}
		return x
	}
}

func (g *c20Gen) u64(bits int) uint64 {
	max := ^uint64(0) >> uint(64-bits)
	switch g.r.Intn(6) {
	case 0:
		return max
	case 1:
		return 0
	case 2:
		return uint64(g.r.Intn(100))
	default:
		return g.r.U64() & max
	}
}

// moderate floats: finite, magnitudes between 1e-10 and 1e25 (plus zero); both notations of encoding/json are hit
func (g *c20Gen) f64() float64 {
	fixed := []float64{0, 1, -1, 0.5, 0.1, -0.25, 1e-7, 1.5e-9, 1e21, 1e20, 123456.789, 1e25, -2.5e22, 3.0000000000000004, 100, 1e6, 0.000001, 0.0000001}
	switch g.r.Intn(4) {
	case 0:
		return fixed[g.r.Intn(len(fixed))]
	case 1:
		return float64(g.r.Intn(2000)-1000) / float64(1+g.r.Intn(64))
	case 2:
		return float64(int64(g.r.U64() >> 11))
	default:
		m := float64(g.r.U64()>>11) / float64(uint64(1)<<53) // [0,1)
		e := g.r.Intn(36) - 10
		x := (1 + m) * math.Pow(10, float64(e))
		if g.r.Bool() {
			x = -x
		}
		return x
	}
}

func (g *c20Gen) fill(v reflect.Value, depth int) {
	if !v.CanSet() {
		return
	}
	t := v.Type()
	switch t.Kind() {
	case reflect.String:
		v.SetString(g.str())
	case reflect.Bool:
		v.SetBool(g.r.Bool())
	case reflect.Int, reflect.Int8, reflect.Int16, reflect.Int32, reflect.Int64:
		v.SetInt(g.i64(t.Bits()))
	case reflect.Uint, reflect.Uint8, reflect.Uint16, reflect.Uint32, reflect.Uint64, reflect.Uintptr:
		v.SetUint(g.u64(t.Bits()))
	case reflect.Float32:
		x := float32(g.f64())
		if math.IsInf(float64(x), 0) {
			x = 1
		}
		v.SetFloat(float64(x))
	case reflect.Float64:
		v.SetFloat(g.f64())
	case reflect.Ptr:
		if depth <= 0 || g.r.Chance(30) {
			return // nil
		}
		p := reflect.New(t.Elem())
		g.fill(p.Elem(), depth-1)
		v.Set(p)
	case reflect.Struct:
		for i := 0; i < v.NumField(); i++ {
			g.fill(v.Field(i), depth-1)
		}
	case reflect.Slice:
		if g.r.Chance(25) {
			return // nil
		}
		n := 0
		if depth > 0 && !g.r.Chance(20) {
			n = g.r.Range(1, 3)
		}
		s := reflect.MakeSlice(t, n, n)
		for i := 0; i < n; i++ {
			g.fill(s.Index(i), depth-1)
		}
		v.Set(s)
	case reflect.Array:
		for i := 0; i < v.Len(); i++ {
			g.fill(v.Index(i), depth-1)
		}
	case reflect.Map:
		if g.r.Chance(20) {
			return // nil
		}
		m := reflect.MakeMap(t)
		n := 0
		if depth > 0 && !g.r.Chance(20) {
			n = 1
			if g.multi {
				n = g.r.Range(2, 4)
			}
		}
		for i := 0; i < n; i++ {
			k := reflect.New(t.Key()).Elem()
			g.fill(k, 0)
			e := reflect.New(t.Elem()).Elem()
			g.fill(e, depth-1)
			m.SetMapIndex(k, e)
		}
		v.Set(m)
	}
}

// ---------- features of a value (distribution, distinctness cell) ----------

func c20Features(v reflect.Value, depth int, f map[string]bool) {
	if !v.IsValid() {
		return
	}
	if depth >= 4 {
		f["deep"] = true
	}
	switch v.Kind() {
	case reflect.Bool:
		f["bool"] = true
	case reflect.Int, reflect.Int8, reflect.Int16, reflect.Int32, reflect.Int64:
		if v.Int() < 0 {
			f["negint"] = true
		} else {
			f["int"] = true
		}
	case reflect.Uint, reflect.Uint8, reflect.Uint16, reflect.Uint32, reflect.Uint64, reflect.Uintptr:
		f["uint"] = true
	case reflect.Float32:
		f["f32"] = true
	case reflect.Float64:
		f["f64"] = true
		if a := math.Abs(v.Float()); a != 0 && (a < 1e-6 || a >= 1e21) {
			f["f64exp"] = true
		}
	case reflect.String:
		if v.Len() == 0 {
			f["str0"] = true
		} else {
			f["str"] = true
		}
	case reflect.Ptr:
		if v.IsNil() {
			f["nilptr"] = true
		} else {
			f["ptr"] = true
			c20Features(v.Elem(), depth, f)
		}
	case reflect.Slice, reflect.Array:
		tag := "slice"
		if v.Kind() == reflect.Array {
			tag = "array"
		}
		switch {
		case v.Kind() == reflect.Slice && v.IsNil():
			f["nilslice"] = true
		case v.Len() == 0:
			f[tag+"0"] = true
		default:
			f[tag+"-"+v.Type().Elem().Kind().String()] = true
		}
		for i := 0; i < v.Len(); i++ {
			c20Features(v.Index(i), depth+1, f)
		}
	case reflect.Map:
		kk := "int"
		if v.Type().Key().Kind() == reflect.String {
			kk = "str"
		}
		switch {
		case v.IsNil():
			f["nilmap"] = true
		case v.Len() == 0:
			f["map0"] = true
		case v.Len() == 1:
			f["map1"+kk] = true
		default:
			f["mapN"+kk] = true
		}
		it := v.MapRange()
		for it.Next() {
			c20Features(it.Value(), depth+1, f)
		}
	case reflect.Struct:
		t := v.Type()
		n := v.NumField()
		exp := 0
		for i := 0; i < n; i++ {
			if t.Field(i).PkgPath == "" {
				exp++
			}
		}
		switch {
		case n == 0:
			f["emptystruct"] = true
		case exp == 0:
			f["allunexp"] = true
		default:
			if t.Field(0).PkgPath != "" {
				f["firstunexp"] = true
			}
			seen := false
			for i := 0; i < n; i++ {
				if t.Field(i).PkgPath == "" {
					seen = true
				} else if seen {
					f["laterunexp"] = true
				}
			}
		}
		for i := 0; i < n; i++ {
			if t.Field(i).PkgPath == "" {
				c20Features(v.Field(i), depth+1, f)
			}
		}
	}
}

func c20Cell(v reflect.Value) (string, []string) {
	f := map[string]bool{}
	c20Features(v, 0, f)
	keys := make([]string, 0, len(f))
	for k := range f {
		keys = append(keys, k)
	}
	sort.Strings(keys)
	return strings.Join(keys, ","), keys
}

// ---------- documents: encoding/json's decoding of both texts ----------

func c20Decode(s string) (interface{}, error) {
	dec := json.NewDecoder(bytes.NewReader([]byte(s)))
	dec.UseNumber()
	var d interface{}
	if err := dec.Decode(&d); err != nil {
		return nil, err
	}
	if dec.More() {
		return nil, fmt.Errorf("trailing data")
	}
	return d, nil
}

// c20Deviate rewrites the standard encoder's document into the one the dumper documents:
// booleans as "true"/"false", nil slice as [], nil map as {} (nil pointer stays null, unexported
// fields are absent on both sides).  It walks the document along the Go value.
func c20Deviate(doc interface{}, v reflect.Value) (interface{}, error) {
	switch v.Kind() {
	case reflect.Ptr, reflect.Interface:
		if v.IsNil() {
			if doc != nil {
				return nil, fmt.Errorf("nil pointer encoded as %v", doc)
			}
			return nil, nil
		}
		return c20Deviate(doc, v.Elem())
	case reflect.Bool:
		b, ok := doc.(bool)
		if !ok {
			return nil, fmt.Errorf("bool encoded as %T", doc)
		}
		return strconv.FormatBool(b), nil
	case reflect.Slice, reflect.Array:
		if v.Kind() == reflect.Slice && v.IsNil() {
			if doc != nil {
				return nil, fmt.Errorf("nil slice encoded as %v", doc)
			}
			return []interface{}{}, nil
		}
		l, ok := doc.([]interface{})
		if !ok || len(l) != v.Len() {
			return nil, fmt.Errorf("slice/array encoded as %T", doc)
		}
		out := make([]interface{}, len(l))
		for i := range l {
			d, err := c20Deviate(l[i], v.Index(i))
			if err != nil {
				return nil, err
			}
			out[i] = d
		}
		return out, nil
	case reflect.Map:
		if v.IsNil() {
			if doc != nil {
				return nil, fmt.Errorf("nil map encoded as %v", doc)
			}
			return map[string]interface{}{}, nil
		}
		m, ok := doc.(map[string]interface{})
		if !ok || len(m) != v.Len() {
			return nil, fmt.Errorf("map encoded as %T", doc)
		}
		out := map[string]interface{}{}
		it := v.MapRange()
		for it.Next() {
			k := c20KeyText(it.Key())
			x, ok := m[k]
			if !ok {
				return nil, fmt.Errorf("map key %q missing in the standard encoding", k)
			}
			d, err := c20Deviate(x, it.Value())
			if err != nil {
				return nil, err
			}
			out[k] = d
		}
		return out, nil
	case reflect.Struct:
		m, ok := doc.(map[string]interface{})
		if !ok {
			return nil, fmt.Errorf("struct encoded as %T", doc)
		}
		out := map[string]interface{}{}
		t := v.Type()
		for i := 0; i < v.NumField(); i++ {
			sf := t.Field(i)
			if sf.PkgPath != "" {
				continue
			}
			x, ok := m[sf.Name]
			if !ok {
				return nil, fmt.Errorf("field %q missing in the standard encoding", sf.Name)
			}
			d, err := c20Deviate(x, v.Field(i))
			if err != nil {
				return nil, err
			}
			out[sf.Name] = d
		}
		if len(out) != len(m) {
			return nil, fmt.Errorf("standard encoding has %d members, the struct %d exported fields", len(m), len(out))
		}
		return out, nil
	}
	return doc, nil
}

func c20SameDoc(a, b interface{}, path string) string {
	switch x := a.(type) {
	case nil:
		if b != nil {
			return path + ": null vs " + fmt.Sprint(b)
		}
	case string:
		y, ok := b.(string)
		if !ok || x != y {
			return fmt.Sprintf("%s: %q vs %v", path, x, b)
		}
	case bool:
		y, ok := b.(bool)
		if !ok || x != y {
			return fmt.Sprintf("%s: %v vs %v", path, x, b)
		}
	case json.Number:
		y, ok := b.(json.Number)
		if !ok {
			return fmt.Sprintf("%s: number %s vs %v", path, x, b)
		}
		if x.String() != y.String() {
			fx, e1 := strconv.ParseFloat(x.String(), 64)
			fy, e2 := strconv.ParseFloat(y.String(), 64)
			if e1 != nil || e2 != nil || fx != fy {
				return fmt.Sprintf("%s: number %s vs %s", path, x, y)
			}
		}
	case []interface{}:
		y, ok := b.([]interface{})
		if !ok || len(x) != len(y) {
			return fmt.Sprintf("%s: array %v vs %v", path, x, b)
		}
		for i := range x {
			if d := c20SameDoc(x[i], y[i], fmt.Sprintf("%s[%d]", path, i)); d != "" {
				return d
			}
		}
	case map[string]interface{}:
		y, ok := b.(map[string]interface{})
		if !ok || len(x) != len(y) {
			return fmt.Sprintf("%s: object %v vs %v", path, x, b)
		}
		for k, xv := range x {
			yv, ok := y[k]
			if !ok {
				return fmt.Sprintf("%s: member %q missing", path, k)
			}
			if d := c20SameDoc(xv, yv, path+"."+k); d != "" {
				return d
			}
		}
	default:
		return fmt.Sprintf("%s: unexpected %T", path, a)
	}
	return ""
}

// c20Agree: "" when the dump is valid JSON and decodes to the standard encoding's document up to the deviations.
func c20Agree(dump, std string, v reflect.Value) string {
	got, err := c20Decode(dump)
	if err != nil {
		return "the dump is not valid JSON: " + err.Error()
	}
	ref, err := c20Decode(std)
	if err != nil {
		return "the standard encoding does not decode: " + err.Error()
	}
	want, err := c20Deviate(ref, v)
	if err != nil {
		return "standard encoding: " + err.Error()
	}
	if d := c20SameDoc(want, got, "$"); d != "" {
		return "documents differ at " + d
	}
	return ""
}

// ---------- the run ----------

func runC20(c *Ctx) error {
	w := gal.NewWriter("C20", c.Out, "Run.Run_C20", 250)
	r := c.Rng
	scale := 1
	if c.Thorough {
		scale = 10
	}
	var violations []map[string]interface{}

	add := func(x interface{}, ctor, origin string, inDomain bool) {
		out, panicked := func() (s string, p interface{}) {
			defer func() { p = recover() }()
			return valid.GetDumpStructStr(x), nil
		}()
		if panicked != nil { // "the dumper never fails": a panic is a failing input of its own, the case is not handed on
			std := ""
			func() {
				defer func() { _ = recover() }()
				std = valid.GetDumpStructStrForJson(x)
			}()
			violations = append(violations, map[string]interface{}{
				"what": "GetDumpStructStr(v) panics", "type": fmt.Sprintf("%T", x), "panic": fmt.Sprint(panicked), "standard_encoding": std, "origin": origin})
			return
		}
		std := valid.GetDumpStructStrForJson(x)
		rv := reflect.ValueOf(x)
		agrees := true
		why := ""
		if inDomain {
			why = c20Agree(out, std, rv)
			agrees = why == ""
			if !agrees {
				violations = append(violations, map[string]interface{}{
					"what": "GetDumpStructStr(v) does not decode to the document of the standard encoding (up to the documented deviations)",
					"type": fmt.Sprintf("%T", x), "dump": out, "standard_encoding": std, "why": why, "origin": origin})
			}
		}
		cell, feats := c20Cell(rv)
		for _, f := range feats {
			w.Count("feature." + f)
		}
		w.Count("origin." + origin)
		tn := "nil"
		if rv.IsValid() {
			tn = rv.Type().String()
		}
		if len(tn) > 300 {
			tn = tn[:300] + "..."
		}
		desc := map[string]interface{}{"fn": "GetDumpStructStr", "type": tn, "dump": out, "standard_encoding": std, "origin": origin, "in_domain": inDomain}
		if why != "" {
			desc["json_comparison"] = why
		}
		w.Add(ctor+" "+c20Gal(rv)+" "+gal.Str(out)+" "+gal.Bool(agrees)+" "+gal.Bool(inDomain), desc, origin+":"+cell)
	}

	// corpus: fixed instances (non-zero unexported fields, boundaries), witnesses of the repaired defects D20
	for _, x := range c20FixedValues() {
		add(x, "CDump", "fixed", true)
	}
	add(struct{ M map[string]int }{map[string]int{"k": 1}}, "CDump", "fixed", true)
	add(struct{ F float32 }{0.1}, "CDump", "fixed", true)
	add(struct{ E struct{} }{}, "CDump", "fixed", true)
	// deep nesting: a chain of 40 pointers / a slice nested 12 deep (exercises the model's fuel measure)
	{
		chain := &c20Rec{V: 0}
		for i := 1; i <= 40; i++ {
			chain = &c20Rec{V: i, Next: chain}
		}
		add(chain, "CDump", "fixed", true)
		kids := c20Rec{V: 0}
		for i := 1; i <= 12; i++ {
			kids = c20Rec{V: i, Kids: []c20Rec{kids, {V: -i}}, M: map[string]*c20Rec{"m": {V: i}}}
		}
		add(kids, "CDump", "fixed", true)
	}
	// quirk shapes outside the domain: model tie only
	for _, x := range c20QuirkValues() {
		add(x, "CDump", "quirk", false)
	}

	for _, multi := range []bool{false, true} {
		g := &c20Gen{r: r, multi: multi}
		ctor, origin := "CDump", "exact"
		if multi {
			ctor, origin = "CPerm", "perm"
		}
		n := 260 * scale
		if multi {
			n = 140 * scale
		}
		for i := 0; i < n; i++ {
			var t reflect.Type
			depth := g.r.Range(1, 4)
			if g.r.Chance(30) {
				t = g.namedStruct()
			} else {
				t = g.structType(depth)
			}
			p := reflect.New(t)
			g.fill(p.Elem(), depth+1)
			var x interface{}
			switch g.r.Intn(10) {
			case 0, 1, 2:
				x = p.Interface() // pointer to struct
			case 3:
				if g.r.Chance(30) {
					x = reflect.Zero(reflect.PtrTo(t)).Interface() // typed nil pointer
				} else {
					x = p.Elem().Interface()
				}
			default:
				x = p.Elem().Interface()
			}
			add(x, ctor, origin, true)
		}
	}

	// a very large dump (hundreds of kilobytes), then small ones right after it: each dump stands alone
	// (the large one is not a case: only what follows it is observed)
	{
		big := struct{ L []int64 }{L: make([]int64, 40000)}
		for i := range big.L {
			big.L[i] = int64(i) * 1000003
		}
		for round := 0; round < 3; round++ {
			if n := len(valid.GetDumpStructStr(big)); n < 1<<16 {
				violations = append(violations, map[string]interface{}{"what": "the large dump is shorter than expected", "length": n})
			}
			for _, x := range c20FixedValues()[:6] {
				add(x, "CDump", "after-large-dump", true)
			}
		}
	}

	// findings: regions of the domain where the dumper differs from the standard encoder; excluded from the generators above
	type fb struct{ B []byte }
	type fn struct{ Äb int }
	fbv, fnv := fb{[]byte{1, 2}}, fn{3}
	w.Extra["findings"] = []map[string]interface{}{
		{"id": "C20-byte-slice", "reproduces": c20Agree(valid.GetDumpStructStr(fbv), valid.GetDumpStructStrForJson(fbv), reflect.ValueOf(fbv)) != "",
			"input": `GetDumpStructStr(struct{ B []byte }{[]byte{1, 2}})`, "observed": valid.GetDumpStructStr(fbv), "standard_encoding": valid.GetDumpStructStrForJson(fbv)},
		{"id": "C20-nonascii-exported-field", "reproduces": c20Agree(valid.GetDumpStructStr(fnv), valid.GetDumpStructStrForJson(fnv), reflect.ValueOf(fnv)) != "",
			"input": `GetDumpStructStr(struct{ Äb int }{3})`, "observed": valid.GetDumpStructStr(fnv), "standard_encoding": valid.GetDumpStructStrForJson(fnv)},
	}
	if violations == nil {
		violations = []map[string]interface{}{}
	}
	if len(violations) > 5 {
		violations = violations[:5]
	}
	w.Extra["violations"] = violations
	return w.Flush()
}
