package main

import (
	"time"

	ctime "verif/harness/internal/clock/time"
	opb "verif/harness/internal/orders/pb"
	upb "verif/harness/internal/users/pb"
)

// Named struct types (the walkers use Type.Name() for paths; reflect.StructOf types have none).
// Field S holds "abc", N holds 7 in the populated instances.
type WLeaf struct {
	S      string    `valid:"to=5~9|T1"` // "abc": violated by the tag rule
	N      int       `valid:"ge=5|T2"`   // 7: satisfied
	hidden string    `valid:"required|T3"`
	T      time.Time `valid:"required|T4"`
}

type WMid struct {
	A  WLeaf   `valid:"required|T5"`
	P  *WLeaf  `valid:"exist"`
	Ls []WLeaf `valid:"exist"`
	D  WLeaf   // unmarked: never validated
	S  string  `valid:"eq=4|T6"` // "abc": violated
}

type WTop struct {
	Mid  WMid   `valid:"required|T7"`
	PMid *WMid  `valid:"exist"`
	S    string `valid:"to=5~9|T8"` // shares the field name S with WMid and WLeaf
}

func wleaf() WLeaf { _ = WLeaf{}.hidden; return WLeaf{S: "abc", N: 7} }
func wmid() WMid {
	return WMid{A: wleaf(), P: &WLeaf{S: "abc", N: 7}, Ls: []WLeaf{wleaf(), wleaf()}, D: wleaf(), S: "abc"}
}
func wtop() WTop { m := wmid(); return WTop{Mid: wmid(), PMid: &m, S: "abc"} }

// group-rule types for C17
type WG struct {
	X string `valid:"either=1"`
	Y string `valid:"either=1"`
	A int    `valid:"botheq=1"`
	B int    `valid:"botheq=1"`
}
type WGS struct {
	L []WG          `valid:"exist"`
	M map[string]WG `valid:"exist"`
	N WG            `valid:"exist"`
	P *WG           `valid:"exist"`
	X string        `valid:"either=1"`
	Y string        `valid:"either=1"`
}

// group objects FOLLOWED by ordinary rules: the group clauses of N and of the elements of L must still come last
type WGO struct {
	N WG     `valid:"exist"`
	L []WG   `valid:"exist"`
	S string `valid:"to=1~2|M7"`
	I int    `valid:"le=3|M8"`
}
type WG1 struct {
	X string `valid:"either=7"`
	A int    `valid:"botheq=8"`
}

// more group shapes: an int-keyed map of objects (entries named MI[3], MI[4]), a botheq group of four
// members, and botheq groups over kinds that are not comparable with == (slices, maps)
type WGS2 struct {
	MI map[int]WG     `valid:"exist"`
	A  int            `valid:"botheq=3"`
	B  int            `valid:"botheq=3"`
	C  int            `valid:"botheq=3"`
	D  int            `valid:"botheq=3"`
	S1 []string       `valid:"botheq=4"`
	S2 []string       `valid:"botheq=4"`
	M1 map[string]int `valid:"botheq=5"`
	M2 map[string]int `valid:"botheq=5"`
	E1 WG1            `valid:"botheq=6"`
	E2 WG1            `valid:"botheq=6"`
	P1 *string        `valid:"botheq=7"` // pointers are equal when what they point at is equal
	P2 *string        `valid:"botheq=7"`
}

// a self-referential type: the outermost object and the deeper objects have the same type
type WNode struct {
	S    string  `valid:"to=5~9|T9"` // "abc": violated by the tag rule
	Next *WNode  `valid:"exist"`
	Kids []WNode `valid:"exist"`
}

func wnode() WNode {
	return WNode{S: "abc", Next: &WNode{S: "abc", Next: &WNode{S: "abc"}}, Kids: []WNode{{S: "abc"}, {S: "abc", Kids: []WNode{{S: "abc"}}}}}
}

// two different struct types that print the same String() ("pb.Item")
type WTwo struct {
	O  opb.Item   `valid:"exist"`
	U  upb.Item   `valid:"exist"`
	Us []upb.Item `valid:"exist"`
}

func wtwo() WTwo {
	return WTwo{O: opb.Item{S: "abc", N: 7}, U: upb.Item{S: "abc", N: 7}, Us: []upb.Item{{S: "abc", N: 7}}}
}

// a user struct type that prints "time.Time" (package verif/harness/internal/clock/time), next to the real one
type WClock struct {
	At    ctime.Time   `valid:"required|T63"`
	P     *ctime.Time  `valid:"exist"`
	Ls    []ctime.Time `valid:"exist"`
	Real  time.Time    `valid:"required|T64"` // the standard library's type: never validated
	After string       `valid:"eq=4|T65"`     // "abc": violated; declared after the time fields
}

func wclock() WClock {
	return WClock{At: ctime.Time{S: "abc", N: 7}, P: &ctime.Time{S: "abc", N: 7}, Ls: []ctime.Time{{S: "abc", N: 7}}, After: "abc"}
}

// round 5: arrays of structs (an all-zero array is a zero value), maps keyed by other kinds, pointers to pointers
type WReq struct {
	R string `valid:"required|T95"`
	N int    `valid:"ge=5|T96"`
}

type WArr struct {
	A [2]WReq `valid:"exist"`
	B [2]WReq `valid:"required|T91"`
}

type WKeyed struct {
	MB map[bool]WReq    `valid:"exist"`
	MF map[float64]WReq `valid:"exist"`
	MP map[int8]*WReq   `valid:"required|T93"`
	MU map[uint16]WReq  `valid:"exist"`
}

type WPP struct {
	PP **WReq `valid:"required|T94"`
	EP **WReq `valid:"exist"`
}

type WJson struct {
	J string `valid:"json|T97"`
	K string `valid:"json"`
}

// embedded fields: a named scalar type carrying a rule, an embedded struct under exist
type WAge int32
type WNick string
type WEmb struct {
	WAge  `valid:"to=1~150|T81"`
	WNick `valid:"to=5~9|T82"`
	WReq  `valid:"exist"`
	N     int `valid:"ge=5|T83"`
}

// containers of pointers to pointers to structs
type WPPC struct {
	S []**WReq          `valid:"required|T71"`
	A [1]**WReq         `valid:"required|T72"`
	M map[string]**WReq `valid:"required|T73"`
	E []**WReq          `valid:"exist"`
}

// one field in two groups of different kinds; group ids and messages that mention the other kind
type WG2 struct {
	A string `valid:"either=1,botheq=2"`
	B string `valid:"either=1"`
	C string `valid:"botheq=2"`
	P string `valid:"botheq=either_pwd"`
	Q string `valid:"botheq=either_pwd"`
	X string `valid:"either=botheq_x"`
	Y string `valid:"either=botheq_x"`
}
