package main

import (
	"fmt"
	"math"
	"net/url"
	"reflect"
	"strconv"
	"strings"

	"gitee.com/xuesongtao/protoc-go-valid/valid"
	"verif/harness/internal/gal"
)

func init() { drivers["C01"] = runC01 }

var sizeRules = []string{"to", "ge", "le", "oto", "gt", "lt", "eq", "noeq"}
var sizeRuleCtor = map[string]string{"to": "RTo", "ge": "RGe", "le": "RLe", "oto": "ROTo", "gt": "RGt", "lt": "RLt", "eq": "REq", "noeq": "RNoEq"}

func sizeRuleText(r string, lo, hi int64) string {
	switch r {
	case "to", "oto":
		return fmt.Sprintf("%s=%d~%d", r, lo, hi)
	case "le", "lt":
		return fmt.Sprintf("%s=%d", r, hi)
	}
	return fmt.Sprintf("%s=%d", r, lo)
}

func packBools(bs []bool) string {
	var parts []string
	for i := 0; i < len(bs); i += 60 {
		var v uint64
		for j := 0; j < 60 && i+j < len(bs); j++ {
			if bs[i+j] {
				v |= 1 << uint(j)
			}
		}
		parts = append(parts, strconv.FormatUint(v, 10))
	}
	return "[" + strings.Join(parts, ";") + "]%Z"
}

// a string with exactly n runes under Go's decoding, mixing ASCII, CJK and invalid bytes
func runeString(r *gal.Rng, n int, urlSafe bool) string {
	var b strings.Builder
	for i := 0; i < n; i++ {
		switch x := r.Intn(10); {
		case x < 5:
			b.WriteByte(byte('a' + r.Intn(26)))
		case x < 8 || urlSafe:
			b.WriteString(cjk[r.Intn(len(cjk))])
		case x == 8 && r.Bool():
			b.WriteString(fourByte[r.Intn(len(fourByte))])
		case x == 8:
			b.WriteString([]string{"\xff", "\xc0", "\x80", "\xe4", "\xbf", "\x9a"}[r.Intn(6)]) // each decodes to one U+FFFD (stray continuation bytes too)
		default:
			b.WriteString("é")
		}
	}
	return b.String()
}

func runC01(c *Ctx) error {
	w := gal.NewWriter("C01", c.Out, "Run.Run_C01", 250)
	r := c.Rng

	// ---- (A) complete sweep: all non-zero 8-bit values x all bounds in a window x the 8 rules
	var window []int64
	if c.Thorough {
		for b := int64(-20); b <= 20; b++ {
			window = append(window, b)
		}
		for _, b := range []int64{-130, -129, -128, -127, -126, 125, 126, 127, 128, 129, 130, 253, 254, 255, 256, 257, 260} {
			window = append(window, b)
		}
	} else {
		for b := int64(-6); b <= 6; b++ {
			window = append(window, b)
		}
		for _, b := range []int64{-129, -128, -127, 126, 127, 128, 129, 254, 255, 256, 257} {
			window = append(window, b)
		}
	}
	pairWindow := window
	if !c.Thorough {
		pairWindow = []int64{-129, -128, -2, -1, 0, 1, 2, 5, 126, 127, 128, 254, 255, 256}
	}
	winTermOf := func(window []int64) string {
		parts := make([]string, len(window))
		for i, b := range window {
			parts[i] = galZ(b)
		}
		return "[" + strings.Join(parts, ";") + "]%Z"
	}
	sweepTotal := 0
	for _, signed := range []bool{true, false} {
		for _, rl := range sizeRules {
			var bits []bool
			type pr struct{ lo, hi int64 }
			var pairs []pr
			if rl == "to" || rl == "oto" {
				for _, lo := range pairWindow {
					for _, hi := range pairWindow {
						pairs = append(pairs, pr{lo, hi})
					}
				}
			} else {
				for _, b := range window {
					if rl == "le" || rl == "lt" {
						pairs = append(pairs, pr{0, b})
					} else {
						pairs = append(pairs, pr{b, 0})
					}
				}
			}
			for _, p := range pairs {
				text := sizeRuleText(rl, p.lo, p.hi)
				for n := 0; n < 256; n++ {
					var err error
					if signed {
						z := n - 128
						if z == 0 {
							continue
						}
						err = valid.Var(int8(z), text)
					} else {
						if n == 0 {
							continue
						}
						err = valid.Var(uint8(n), text)
					}
					bits = append(bits, err != nil)
				}
			}
			sweepTotal += len(bits)
			w.AddHeavy(fmt.Sprintf("CSweep %s %s %s %s", gal.Bool(signed), sizeRuleCtor[rl], winTermOf(map[bool][]int64{true: pairWindow, false: window}[rl == "to" || rl == "oto"]), packBools(bits)),
				map[string]interface{}{"kind": "complete 8-bit sweep", "signed": signed, "rule": rl, "window": window, "verdicts": len(bits)},
				fmt.Sprintf("sweep:%v:%s", signed, rl))
		}
	}
	w.Dist["sweep.verdicts"] = sweepTotal
	w.Extra["exhaustive"] = true
	w.Extra["x_exhaustive_bound"] = fmt.Sprintf("all 255 non-zero values of int8 and of uint8 x all bounds (pairs for to/oto) in a window of %d integers x the 8 rules", len(window))

	// ---- (B) boundary generator: every kind x rule x bounds x measures around the bounds x entry points
	kinds := []string{"string", "int8", "int16", "int32", "int64", "int", "uint8", "uint16", "uint32", "uint64", "uint", "float32", "float64", "slice"}
	entries := []string{"var", "struct", "map", "mapiface", "url"}
	nB := 700
	if c.Thorough {
		nB = 9000
	}
	bigBounds := []int64{1 << 31, -(1 << 31), 1<<31 - 1, 1 << 53, -(1 << 53), math.MaxInt64, math.MinInt64, math.MaxInt64 - 1}
	marker := 0
	for i := 0; i < nB; i++ {
		kind := kinds[r.Intn(len(kinds))]
		rl := sizeRules[r.Intn(len(sizeRules))]
		// bounds
		var lo, hi int64
		pickBound := func() int64 {
			switch x := r.Intn(10); {
			case x < 6:
				return int64(r.Range(-4, 12))
			case x < 8:
				return int64(r.Range(-300, 300))
			default:
				return bigBounds[r.Intn(len(bigBounds))]
			}
		}
		lo, hi = pickBound(), pickBound()
		if r.Chance(70) && lo > hi {
			lo, hi = hi, lo
		}
		if kind == "string" || kind == "slice" { // measures are small non-negative counts: keep the bounds near them
			lo, hi = int64(r.Range(-2, 7)), int64(r.Range(-2, 9))
		}
		if kind == "float32" || kind == "float64" {
			if lo > 1<<53 || lo < -(1<<53) {
				lo = int64(r.Range(-5, 5))
			}
			if hi > 1<<53 || hi < -(1<<53) {
				hi = int64(r.Range(-5, 5))
			}
		}
		lo2, hi2 := lo, hi
		switch rl {
		case "le", "lt":
			lo2 = 0
		case "to", "oto":
		default:
			hi2 = 0
		}
		// the measure: at bound-1, bound, bound+1 of one of the bounds, or random
		base := lo
		if rl == "le" || rl == "lt" || ((rl == "to" || rl == "oto") && r.Bool()) {
			base = hi
		}
		delta := int64(r.Range(-1, 1))
		if r.Chance(15) {
			delta = int64(r.Range(-5, 5))
		}
		m := base + delta
		if (base > 0 && m < base && delta > 0) || (base < 0 && m > base && delta < 0) {
			m = base // overflow guard
		}
		var v interface{}
		cls := "int"
		switch kind {
		case "string":
			if m < 1 {
				m = 1
			}
			if m > 40 {
				m = 40
			}
			v = runeString(r, int(m), false)
			cls = "str"
			if r.Chance(35) { // byte length at bound-1 / bound / bound+1 with fewer characters (multi-byte)
				b := int(base) + r.Range(-1, 1)
				if b >= 3 && b <= 40 {
					k := r.Range(1, b/3)
					v = strings.Repeat(cjk[r.Intn(4)], k) + strings.Repeat("a", b-3*k)
					m = int64(k + b - 3*k)
					cls = "str-bytes-at-bound"
				}
			}
		case "slice":
			if m < 0 {
				m = 0
			}
			if m > 40 {
				m = 40
			}
			v = make([]int, m)
			cls = "slice"
			switch r.Intn(3) { // the measure is the length: spare capacity and the window a slice was cut from do not count
			case 0:
				v = make([]int, m, int(m)+r.Range(1, 9))
				cls = "slice-spare-capacity"
			case 1:
				big := make([]string, int(m)+r.Range(2, 6))
				v = big[1 : 1+m]
				cls = "slice-resliced"
			}
		case "int8":
			v = int8(m)
		case "int16":
			v = int16(m)
		case "int32":
			v = int32(m)
		case "int64":
			v = m
		case "int":
			v = int(m)
		case "uint8":
			v = uint8(m)
			cls = "uint"
		case "uint16":
			v = uint16(m)
			cls = "uint"
		case "uint32":
			v = uint32(m)
			cls = "uint"
		case "uint64":
			v = uint64(m)
			cls = "uint"
		case "uint":
			v = uint(m)
			cls = "uint"
		case "float32":
			f := float32(m)
			switch r.Intn(4) {
			case 0:
				f += 0.5
			case 1:
				f -= 0.5
			case 2:
				f = math.Nextafter32(f, float32(math.Inf(1)))
			}
			v = f
			cls = "float"
		case "float64":
			f := float64(m)
			switch r.Intn(4) {
			case 0:
				f += 0.5
			case 1:
				f -= 0.5
			case 2:
				f = math.Nextafter(f, math.Inf(-1))
			}
			v = f
			cls = "float"
		}
		rv := reflect.ValueOf(v)
		if rv.IsZero() && kind != "slice" { // the rules skip zero values: outside the property's domain
			continue
		}
		marker++
		mk := fmt.Sprintf("M%d", marker)
		text := sizeRuleText(rl, lo2, hi2) + "|" + mk
		entry := entries[r.Intn(len(entries))]
		if entry == "url" && kind != "string" {
			entry = "var"
		}
		call := &walkCall{Orc: nil}
		switch entry {
		case "var":
			call.Entry, call.VarRules, call.Src = "var", []string{text}, v
		case "struct":
			st := reflect.StructOf([]reflect.StructField{{Name: "F", Type: rv.Type(), Tag: reflect.StructTag(`valid:"` + text + `"`)}})
			sv := reflect.New(st).Elem()
			sv.Field(0).Set(rv)
			call.Entry, call.Src = "struct", sv.Interface()
			if r.Bool() {
				call.Src = sv.Addr().Interface()
			}
		case "map":
			mt := reflect.MapOf(reflect.TypeOf(""), rv.Type())
			mv := reflect.MakeMap(mt)
			mv.SetMapIndex(reflect.ValueOf("k"), rv)
			call.Entry, call.Rules, call.Src = "map", map[string]string{"k": text}, mv.Interface()
		case "mapiface":
			// known finding C18-iface-map-values: interface{} entry values are never unwrapped, so this
			// presentation is replayed only as that finding; here it is folded into the concrete map
			mt := reflect.MapOf(reflect.TypeOf(""), rv.Type())
			mv := reflect.MakeMap(mt)
			mv.SetMapIndex(reflect.ValueOf("k"), rv)
			call.Entry, call.Rules, call.Src = "map", map[string]string{"k": text}, mv.Interface()
			entry = "map"
		case "url":
			s := runeString(r, len([]rune(v.(string))), true)
			v = s
			rv = reflect.ValueOf(v)
			u := "http://h.example/p?x=1&k=" + s + "&y=2"
			if r.Bool() {
				u = "http://h.example/p?k=" + url.QueryEscape(s)
			}
			call.Entry, call.Rules, call.Src = "url", map[string]string{"k": text}, u
		}
		spec := fmt.Sprintf("SSize %s %s %s %s %s", sizeRuleCtor[rl], galZ(lo2), galZ(hi2), galVal(rv, nil), gal.Str(mk))
		term, desc := call.caseTerm([]string{spec})
		desc["rule"] = text
		desc["kind"] = kind
		// position of the measure relative to the bounds: 7 classes
		pos := func(b int64) string {
			switch {
			case m < b:
				return "<"
			case m == b:
				return "="
			}
			return ">"
		}
		w.Add("CW ("+term+")", desc, fmt.Sprintf("b:%s:%s:%s%s:%s", rl, cls, pos(lo2), pos(hi2), entry))
		w.Count("boundary." + kind)
		w.Count("entry." + entry)
	}
	// ---- (C) directed grid: strings whose BYTE length sits exactly at / next to a bound while their
	// character count is smaller (multi-byte text), every rule, through Var and a struct field
	for _, rl := range sizeRules {
		for _, bound := range []int{3, 4, 6, 9} {
			for _, db := range []int{-1, 0, 1} {
				b := bound + db
				for k := 1; 3*k <= b; k++ {
					if k > 2 && k < b/3 {
						continue
					}
					s := strings.Repeat(cjk[(bound+k)%4], k) + strings.Repeat("z", b-3*k)
					marker++
					mk := fmt.Sprintf("M%d", marker)
					lo2, hi2 := int64(bound), int64(bound+2)
					switch rl {
					case "le", "lt":
						lo2, hi2 = 0, int64(bound)
					case "to", "oto":
					default:
						hi2 = 0
					}
					text := sizeRuleText(rl, lo2, hi2) + "|" + mk
					call := &walkCall{Entry: "var", VarRules: []string{text}, Src: s}
					if (bound+k+db)%2 == 0 {
						st := reflect.StructOf([]reflect.StructField{{Name: "F", Type: reflect.TypeOf(""), Tag: reflect.StructTag(`valid:"` + text + `"`)}})
						sv := reflect.New(st).Elem()
						sv.Field(0).SetString(s)
						call = &walkCall{Entry: "struct", Src: sv.Addr().Interface()}
					}
					spec := fmt.Sprintf("SSize %s %s %s %s %s", sizeRuleCtor[rl], galZ(lo2), galZ(hi2), galVal(reflect.ValueOf(s), nil), gal.Str(mk))
					term, desc := call.caseTerm([]string{spec})
					desc["rule"] = text
					desc["bytes"] = len(s)
					desc["chars"] = len([]rune(s))
					w.Add("CW ("+term+")", desc, fmt.Sprintf("bytes-at-bound:%s:%d:%d", rl, db, k))
					w.Count("directed.bytes-at-bound")
				}
			}
		}
	}
	// ---- (D) characters of four bytes: n characters are 4n bytes; bounds at n, n+-1, 3n, 4n
	for _, rl := range sizeRules {
		for _, nch := range []int{1, 2, 3, 5} {
			s := strings.Repeat(fourByte[nch%len(fourByte)], nch)
			if nch == 3 {
				s = fourByte[0] + "a" + fourByte[1]
			}
			for _, bound := range []int{nch - 1, nch, nch + 1, 3 * nch, 4 * nch} {
				if bound < 0 {
					continue
				}
				marker++
				mk := fmt.Sprintf("M%d", marker)
				lo2, hi2 := int64(bound), int64(bound+2)
				switch rl {
				case "le", "lt":
					lo2, hi2 = 0, int64(bound)
				case "to", "oto":
				default:
					hi2 = 0
				}
				text := sizeRuleText(rl, lo2, hi2) + "|" + mk
				call := &walkCall{Entry: "var", VarRules: []string{text}, Src: s}
				spec := fmt.Sprintf("SSize %s %s %s %s %s", sizeRuleCtor[rl], galZ(lo2), galZ(hi2), galVal(reflect.ValueOf(s), nil), gal.Str(mk))
				term, desc := call.caseTerm([]string{spec})
				desc["rule"] = text
				desc["bytes"] = len(s)
				desc["chars"] = len([]rune(s))
				w.Add("CW ("+term+")", desc, fmt.Sprintf("four-byte:%s:%d:%d", rl, nch, bound))
				w.Count("directed.four-byte-chars")
			}
		}
	}
	// ---- (E) bounds are DECIMAL numbers however they are spelled: leading zeros, an explicit plus sign
	for _, rl := range sizeRules {
		for _, sp := range []struct{ pre string }{{"0"}, {"00"}, {"+"}, {"+0"}} {
			for _, val := range []int64{7, 8, 9, 10, 15, 16, 17, 20, 21} {
				marker++
				mk := fmt.Sprintf("M%d", marker)
				lo2, hi2 := int64(10), int64(20)
				switch rl {
				case "le", "lt":
					lo2 = 0
				case "to", "oto":
				default:
					hi2 = 0
				}
				var text string
				switch rl {
				case "to", "oto":
					text = fmt.Sprintf("%s=%s%d~%s%d", rl, sp.pre, lo2, sp.pre, hi2)
				case "le", "lt":
					text = fmt.Sprintf("%s=%s%d", rl, sp.pre, hi2)
				default:
					text = fmt.Sprintf("%s=%s%d", rl, sp.pre, lo2)
				}
				text += "|" + mk
				var v interface{} = int(val)
				if val%2 == 0 {
					v = uint16(val)
				}
				call := &walkCall{Entry: "var", VarRules: []string{text}, Src: v}
				spec := fmt.Sprintf("SSize %s %s %s %s %s", sizeRuleCtor[rl], galZ(lo2), galZ(hi2), galVal(reflect.ValueOf(v), nil), gal.Str(mk))
				term, desc := call.caseTerm([]string{spec})
				desc["rule"] = text
				w.Add("CW ("+term+")", desc, fmt.Sprintf("spelled-bounds:%s:%s:%d", rl, sp.pre, val))
				w.Count("directed.spelled-bounds")
			}
		}
	}
	// ---- (F) 64-bit integers beyond 2^53, where float64 no longer tells neighbours apart: value at bound-1, bound, bound+1
	for _, rl := range sizeRules {
		for _, b := range []int64{1 << 53, 1<<53 + 1, 1 << 62, 9223372036854775806, -(1 << 53), -(1<<62 + 1)} {
			for _, dv := range []int64{-1, 0, 1} {
				for _, kind := range []string{"int64", "int", "uint64", "uint"} {
					val := b + dv
					if (kind == "uint64" || kind == "uint") && val < 0 {
						continue
					}
					var v interface{}
					switch kind {
					case "int64":
						v = val
					case "int":
						v = int(val)
					case "uint64":
						v = uint64(val)
					default:
						v = uint(val)
					}
					marker++
					mk := fmt.Sprintf("M%d", marker)
					lo2, hi2 := b, b
					var text string
					switch rl {
					case "to", "oto":
						lo2, hi2 = b-1, b
						if b == -(1<<62 + 1) {
							lo2, hi2 = b, b+1
						}
						text = fmt.Sprintf("%s=%d~%d", rl, lo2, hi2)
					case "le", "lt":
						lo2 = 0
						text = fmt.Sprintf("%s=%d", rl, hi2)
					default:
						hi2 = 0
						text = fmt.Sprintf("%s=%d", rl, lo2)
					}
					text += "|" + mk
					call := &walkCall{Entry: "var", VarRules: []string{text}, Src: v}
					spec := fmt.Sprintf("SSize %s %s %s %s %s", sizeRuleCtor[rl], galZ(lo2), galZ(hi2), galVal(reflect.ValueOf(v), nil), gal.Str(mk))
					term, desc := call.caseTerm([]string{spec})
					desc["rule"] = text
					w.Add("CW ("+term+")", desc, fmt.Sprintf("beyond-2^53:%s:%s:%d", rl, kind, dv))
					w.Count("directed.beyond-2^53")
				}
			}
		}
	}
	// ---- (G) text that is not well-formed UTF-8: every byte that cannot be decoded counts as one character
	for _, s := range []string{"a\x80b", "\x80\x80", "中\x80", "\xe4\xb8", "\xbf", "ab\xc0\xaf", "\xf0\x9f\x98", "x\xed\xa0\x80y", "\x80中\x80文\x80"} {
		n := int64(len([]rune(s)))
		for _, rl := range sizeRules {
			for _, db := range []int64{-1, 0, 1} {
				b := n + db
				marker++
				mk := fmt.Sprintf("M%d", marker)
				lo2, hi2 := b, b
				var text string
				switch rl {
				case "to", "oto":
					lo2, hi2 = b, b+1
					text = fmt.Sprintf("%s=%d~%d", rl, lo2, hi2)
				case "le", "lt":
					lo2 = 0
					text = fmt.Sprintf("%s=%d", rl, hi2)
				default:
					hi2 = 0
					text = fmt.Sprintf("%s=%d", rl, lo2)
				}
				text += "|" + mk
				call := &walkCall{Entry: "var", VarRules: []string{text}, Src: s}
				if marker%2 == 0 {
					call = &walkCall{Entry: "map", Rules: map[string]string{"k": text}, Src: map[string]string{"k": s}}
				}
				spec := fmt.Sprintf("SSize %s %s %s %s %s", sizeRuleCtor[rl], galZ(lo2), galZ(hi2), galVal(reflect.ValueOf(s), nil), gal.Str(mk))
				term, desc := call.caseTerm([]string{spec})
				desc["rule"] = text
				desc["bytes"] = len(s)
				desc["chars"] = n
				w.Add("CW ("+term+")", desc, fmt.Sprintf("ill-formed-utf8:%s:%d:%d", rl, n, db))
				w.Count("directed.ill-formed-utf8")
			}
		}
	}
	w.Extra["evaluations"] = sweepTotal + marker
	return w.Flush()
}
