package main

import (
	"bufio"
	"bytes"
	"encoding/json"
	"fmt"
	"os"
	"os/exec"
	"reflect"
	"strconv"
	"strings"
	"sync"
	"time"

	"gitee.com/xuesongtao/protoc-go-valid/valid"
	"verif/harness/internal/gal"
)

func init() {
	drivers["C08"] = runC08
	drivers["C11"] = runC11
	drivers["C12"] = runC12
	workers["calls"] = callsWorker
}

// ---- a catalogue of struct types that carry rule sets for two tag names ----
// type i: struct { A string `valid:"to=2~4|V<i>a" alt:"to=5~9|W<i>a"`; B int `valid:"ge=9|V<i>b" alt:"le=9|W<i>b"`; C string `valid:"required|V<i>c"` }
// with A="abc", B=7, C="" :  tag valid -> B (ge=9) and C (required) violated ; tag alt -> A (to=5~9) violated ; any other tag -> nil
type twoTag struct {
	t reflect.Type
	i int
}

func twoTagType(i int) twoTag {
	mk := func(v, a string) reflect.StructTag {
		s := ""
		if v != "" {
			s += `valid:"` + v + `"`
		}
		if a != "" {
			if s != "" {
				s += " "
			}
			s += `alt:"` + a + `"`
		}
		return reflect.StructTag(s)
	}
	t := reflect.StructOf([]reflect.StructField{
		{Name: "A", Type: reflect.TypeOf(""), Tag: mk(fmt.Sprintf("to=2~4|M%da", i), fmt.Sprintf("to=5~9|T%da", i))},
		{Name: "B", Type: reflect.TypeOf(0), Tag: mk(fmt.Sprintf("ge=9|M%db", i), fmt.Sprintf("le=9|T%db", i))},
		{Name: "C", Type: reflect.TypeOf(""), Tag: mk(fmt.Sprintf("required|M%dc", i), "")},
		// quoted arguments: the splitter's slow path, twice on one field; "abc" satisfies both rules
		{Name: "D", Type: reflect.TypeOf(""), Tag: mk(fmt.Sprintf("in=('a,b'/abc)|M%dd,suffix='bc'|M%de", i, i), fmt.Sprintf("in=('a,b'/abc)|T%dd,prefix='ab'|T%de", i, i))},
	})
	return twoTag{t, i}
}

func (tt twoTag) value() interface{} {
	v := reflect.New(tt.t).Elem()
	v.Field(0).SetString("abc")
	v.Field(1).SetInt(7)
	v.Field(3).SetString("abc")
	return v.Addr().Interface()
}

// the call and its by-construction expectation
func (tt twoTag) call(r *gal.Rng) (*walkCall, []expE, string) {
	tag := r.Pick([]string{"", "valid", "alt", "alt", "other", "explicit-empty"})
	call := &walkCall{Entry: "struct", Tag: tag, Src: tt.value()}
	var exps []expE
	over := ""
	if tag == "explicit-empty" { // the tag name "" passed explicitly: no field has rules under it
		call.Tag, call.EmptyTag = "", true
		return call, nil, tag
	}
	switch tag {
	case "", "valid":
		exps = []expE{{"C", "B", fmt.Sprintf("M%db", tt.i)}, {"C", "C", fmt.Sprintf("M%dc", tt.i)}}
	case "alt":
		exps = []expE{{"C", "A", fmt.Sprintf("T%da", tt.i)}}
	}
	if r.Chance(25) { // a per-call override of A: replaces its rule for THIS call only
		call.HasUnsc = true
		m := fmt.Sprintf("M%dx", tt.i)
		call.Unscoped = map[string]string{"A": "eq=4|" + m}
		var ne []expE
		ne = append(ne, expE{"C", "A", m})
		for _, e := range exps {
			if e.path != "A" {
				ne = append(ne, e)
			}
		}
		exps = ne
		over = "+override"
		if r.Chance(40) { // ... together with a per-call function under the name the override uses (StructForFns with a tag)
			call.Local = map[string]string{"eq": "L1"}
			exps[0] = expE{"C", "A", "FNL1"}
			over = "+override+localfn"
		}
	} else if r.Chance(20) && tag != "other" { // a per-call function under a built-in name: this call only
		call.Local = map[string]string{"to": "L1"}
		var ne []expE
		for _, e := range exps {
			if e.path != "A" {
				ne = append(ne, e)
			}
		}
		exps = append([]expE{{"C", "A", "FNL1"}}, ne...) // A = "abc" is non-zero: its to rule (tag valid or alt) writes FNL1
		over = "+localfn"
	}
	return call, exps, tag + over
}

type caseLine struct {
	Term string                 `json:"term"`
	Desc map[string]interface{} `json:"desc"`
	Cell string                 `json:"cell"`
	Viol []interface{}          `json:"viol,omitempty"`
}

type missCache struct{}

func (missCache) Load(key interface{}) (interface{}, bool) { return nil, false }
func (missCache) Store(key, value interface{})             {}

// interleaveCache is a legal cache (a sync.Map) that, right after a Store, lets one pending caller run to completion
// in another goroutine: what a concurrent caller arriving just after the Store would do, made deterministic.
type interleaveCache struct {
	m    sync.Map
	mu   sync.Mutex
	hook func()
}

func (c *interleaveCache) Load(key interface{}) (interface{}, bool) { return c.m.Load(key) }
func (c *interleaveCache) Store(key, value interface{}) {
	c.m.Store(key, value)
	c.mu.Lock()
	h := c.hook
	c.hook = nil
	c.mu.Unlock()
	if h != nil {
		done := make(chan struct{})
		go func() { defer close(done); h() }()
		<-done
	}
}

var theInterleaveCache *interleaveCache

func setCache(cfg string) {
	switch {
	case cfg == "default":
	case cfg == "interleave":
		theInterleaveCache = &interleaveCache{}
		valid.SetStructTypeCache(theInterleaveCache)
	case strings.HasPrefix(cfg, "lru"):
		n, _ := strconv.Atoi(cfg[3:])
		valid.SetStructTypeCache(valid.NewLRU(n))
	case cfg == "syncmap":
		valid.SetStructTypeCache(new(sync.Map))
	case cfg == "miss":
		valid.SetStructTypeCache(missCache{})
	}
}

func emitCall(enc *json.Encoder, call *walkCall, exps []expE, cell string, extra map[string]interface{}) (string, bool) {
	spec := "SNil"
	if len(exps) > 0 {
		spec = "SExpect true " + galExps(exps)
	}
	term, desc := call.caseTerm([]string{spec, "SNoPanic"})
	for k, v := range extra {
		desc[k] = v
	}
	_ = enc.Encode(caseLine{Term: term, Desc: desc, Cell: cell})
	es, _ := desc["error"].(string)
	return es, desc["panic"] != nil
}

// worker: calls <mode> <cacheCfg> <seed> <n>   mode = c08 | c11 | c12
func callsWorker(args []string) {
	mode, cfg := args[0], args[1]
	seed, _ := strconv.ParseUint(args[2], 10, 64)
	n, _ := strconv.Atoi(args[3])
	setCache(cfg)
	r := gal.NewRng(seed)
	out := bufio.NewWriterSize(os.Stdout, 1<<20)
	defer out.Flush()
	enc := json.NewEncoder(out)
	ntypes := 40
	types := make([]twoTag, ntypes)
	for i := range types {
		types[i] = twoTagType(i)
	}
	switch mode {
	case "c08":
		for i := 0; i < n; i++ {
			tt := types[r.Intn(ntypes)]
			if r.Chance(30) { // locality: come back to a few hot types, so hits and evictions alternate
				tt = types[r.Intn(4)]
			}
			call, exps, what := tt.call(r)
			if theInterleaveCache != nil { // a second caller with the same arguments arrives while the first one stores the type
				c2 := *call
				theInterleaveCache.mu.Lock()
				theInterleaveCache.hook = func() {
					emitCall(enc, &c2, exps, fmt.Sprintf("%s:%s:arriving-during-store", cfg, what), map[string]interface{}{"cache": cfg, "type": tt.i})
				}
				theInterleaveCache.mu.Unlock()
			}
			emitCall(enc, call, exps, fmt.Sprintf("%s:%s", cfg, what), map[string]interface{}{"cache": cfg, "type": tt.i})
			if theInterleaveCache != nil {
				theInterleaveCache.mu.Lock()
				theInterleaveCache.hook = nil
				theInterleaveCache.mu.Unlock()
			}
		}
		// ---- a function registered globally AFTER a type was analysed and cached is seen by the next call on that type
		// (new name: the "is not exist" clause goes away; name of a built-in: the registered function replaces it)
		{
			lt := reflect.StructOf([]reflect.StructField{
				{Name: "G", Type: reflect.TypeOf(""), Tag: `valid:"c08late|M9g"`},
				{Name: "H", Type: reflect.TypeOf(0), Tag: `valid:"ge=9|M9h"`}})
			lv := reflect.New(lt).Elem()
			lv.Field(0).SetString("g")
			lv.Field(1).SetInt(7)
			src := lv.Addr().Interface()
			notExist := expE{"F", "", `F:valid "c08late" is not exist, You can call SetValidFn`}
			emitCall(enc, &walkCall{Entry: "struct", Src: src}, []expE{notExist, {"C", "H", "M9h"}}, cfg+":late-registration:before", map[string]interface{}{"cache": cfg})
			valid.SetCustomerValidFn("c08late", markFn("G1"))
			g1 := map[string]string{"c08late": "G1"}
			emitCall(enc, &walkCall{Entry: "struct", Src: src, Global: g1}, []expE{{"C", "G", "FNG1"}, {"C", "H", "M9h"}}, cfg+":late-registration:new-name", map[string]interface{}{"cache": cfg})
			valid.SetCustomerValidFn("ge", markFn("G2"))
			g2 := map[string]string{"c08late": "G1", "ge": "G2"}
			emitCall(enc, &walkCall{Entry: "struct", Src: src, Global: g2}, []expE{{"C", "G", "FNG1"}, {"C", "H", "FNG2"}}, cfg+":late-registration:builtin-name", map[string]interface{}{"cache": cfg})
		}
		// ---- tag names nobody has used before are used for the first time at the same moment, on one type: each call
		// is judged by its own tag (the cache key tells the tag names apart whatever the order of arrival)
		{
			rounds, ng := 200, 8
			var viol []interface{}
			for k := 0; k < rounds; k++ {
				fields := make([]reflect.StructField, ng)
				for f := 0; f < ng; f++ {
					tag := ""
					for g := 0; g < ng; g++ { // under tag t<k>_<g> only field g is required
						rule := "eq=5|M1x"
						if g == f {
							rule = fmt.Sprintf("required|M1f%d", f)
						}
						tag += fmt.Sprintf(`t%d_%d:"%s" `, k, g, rule)
					}
					fields[f] = reflect.StructField{Name: fmt.Sprintf("F%d", f), Type: reflect.TypeOf(""), Tag: reflect.StructTag(tag)}
				}
				sv := reflect.New(reflect.StructOf(fields)).Elem()
				src := sv.Addr().Interface() // every field empty
				errs := make([]error, ng)
				var wg sync.WaitGroup
				start := make(chan struct{})
				for g := 0; g < ng; g++ {
					wg.Add(1)
					go func(g int) {
						defer wg.Done()
						<-start
						errs[g] = valid.ValidateStruct(src, fmt.Sprintf("t%d_%d", k, g))
					}(g)
				}
				close(start)
				wg.Wait()
				for g := 0; g < ng; g++ {
					want := fmt.Sprintf("M1f%d", g)
					got := "<nil>"
					if errs[g] != nil {
						got = errs[g].Error()
					}
					if (strings.Count(got, "M1f") != 1 || !strings.Contains(got, want)) && len(viol) < 5 {
						viol = append(viol, map[string]interface{}{"kind": "first-use-of-several-tags-at-once", "cache": cfg, "round": k,
							"tag": fmt.Sprintf("t%d_%d", k, g), "result": got, "expected": "exactly the clause " + want})
					}
				}
			}
			_ = enc.Encode(caseLine{Viol: viol})
		}
	case "c12":
		c12Sequence(r, enc, types, n, cfg)
	case "c11":
		c11Concurrent(r, enc, types, n, cfg)
	}
}

// runWorkers spawns one child per cache configuration and collects its case lines
func runWorkers(c *Ctx, w *gal.Writer, mode string, cfgs []string, n int) ([]interface{}, error) {
	self, err := os.Executable()
	if err != nil {
		return nil, err
	}
	var violations []interface{}
	for _, cfg := range cfgs {
		cmd := exec.Command(self, "worker", "calls", mode, cfg, strconv.FormatUint(c.Rng.U64()%1000000007, 10), strconv.Itoa(n))
		var stdout, stderr bytes.Buffer
		cmd.Stdout, cmd.Stderr = &stdout, &stderr
		cmd.Env = append(os.Environ(), "GORACE=halt_on_error=0 exitcode=66")
		if err := cmd.Start(); err != nil {
			return nil, err
		}
		done := make(chan error, 1)
		go func() { done <- cmd.Wait() }()
		var werr error
		select {
		case werr = <-done:
		case <-time.After(300 * time.Second):
			_ = cmd.Process.Kill()
			violations = append(violations, map[string]interface{}{"kind": "deadlock-or-timeout", "cache": cfg})
			continue
		}
		se := stderr.String()
		if strings.Contains(se, "DATA RACE") {
			first := se
			if len(first) > 2500 {
				first = first[:2500]
			}
			violations = append(violations, map[string]interface{}{"kind": "data-race", "cache": cfg, "reports": strings.Count(se, "WARNING: DATA RACE"), "first_report": first})
		} else if werr != nil {
			tail := se
			if len(tail) > 2500 {
				tail = tail[len(tail)-2500:]
			}
			violations = append(violations, map[string]interface{}{"kind": "worker-crash", "cache": cfg, "error": werr.Error(), "stderr": tail})
		}
		sc := bufio.NewScanner(&stdout)
		sc.Buffer(make([]byte, 1<<20), 1<<28)
		for sc.Scan() {
			var cl caseLine
			if json.Unmarshal(sc.Bytes(), &cl) != nil {
				continue
			}
			violations = append(violations, cl.Viol...)
			if cl.Term != "" {
				w.Add(cl.Term, cl.Desc, cl.Cell)
				w.Count("cache." + cfg)
			}
		}
	}
	return violations, nil
}

func runC08(c *Ctx) error {
	w := gal.NewWriter("C08", c.Out, "Run.Run_Walk", 200)
	n := 200
	if c.Thorough {
		n = 2000
	}
	v, err := runWorkers(c, w, "c08", []string{"default", "lru0", "lru1", "lru2", "lru3", "lru8", "syncmap", "miss", "interleave"}, n)
	if err != nil {
		return err
	}
	w.Extra["violations"] = v
	return w.Flush()
}
