// Package gal: PRNG, Gallina printers and case-file plumbing shared by all drivers.
package gal

import (
	"encoding/json"
	"fmt"
	"os"
	"path/filepath"
	"sort"
	"strconv"
	"strings"
)

// ---------- PRNG: splitmix64, the single source of randomness ----------
type Rng struct{ s uint64 }

func NewRng(seed uint64) *Rng { return &Rng{s: seed*0x9E3779B97F4A7C15 + 0x1234567} }
func (r *Rng) U64() uint64 {
	r.s += 0x9E3779B97F4A7C15
	z := r.s
	z = (z ^ (z >> 30)) * 0xBF58476D1CE4E5B9
	z = (z ^ (z >> 27)) * 0x94D049BB133111EB
	return z ^ (z >> 31)
}
func (r *Rng) Intn(n int) int {
	if n <= 0 {
		return 0
	}
	return int(r.U64() % uint64(n))
}
func (r *Rng) Bool() bool        { return r.U64()&1 == 1 }
func (r *Rng) Chance(p int) bool { return r.Intn(100) < p } // p percent
func (r *Rng) Pick(xs []string) string {
	return xs[r.Intn(len(xs))]
}
func (r *Rng) Range(lo, hi int) int { return lo + r.Intn(hi-lo+1) }
func (r *Rng) Fork() *Rng           { return NewRng(r.U64()) }

// ---------- Gallina printers ----------

// Str prints a byte string as (bs [i1; i2; ...]%uint63): 7 bytes per primitive int, sentinel bit on top.
func Str(s string) string {
	if len(s) == 0 {
		return "nil"
	}
	var b strings.Builder
	b.WriteString("(bs [")
	for i := 0; i < len(s); i += 7 {
		if i > 0 {
			b.WriteByte(';')
		}
		end := i + 7
		if end > len(s) {
			end = len(s)
		}
		var v uint64 = 1
		for j := end - 1; j >= i; j-- {
			v = v<<8 | uint64(s[j])
		}
		b.WriteString(strconv.FormatUint(v, 10))
	}
	b.WriteString("]%uint63)")
	return b.String()
}

func StrList(xs []string) string {
	if len(xs) == 0 {
		return "nil"
	}
	parts := make([]string, len(xs))
	for i, x := range xs {
		parts[i] = Str(x)
	}
	return "[" + strings.Join(parts, "; ") + "]"
}

func List(parts []string) string {
	if len(parts) == 0 {
		return "nil"
	}
	return "[" + strings.Join(parts, "; ") + "]"
}

func Bool(b bool) string {
	if b {
		return "true"
	}
	return "false"
}

func Z(n int64) string {
	if n < 0 {
		return "(" + strconv.FormatInt(n, 10) + ")%Z"
	}
	return strconv.FormatInt(n, 10) + "%Z"
}
func N(n uint64) string { return strconv.FormatUint(n, 10) + "%N" }
func Nat(n int) string  { return strconv.Itoa(n) + "%nat" }
func OptStr(s *string) string {
	if s == nil {
		return "None"
	}
	return "(Some " + Str(*s) + ")"
}

// ---------- case files ----------

// Case is one generated case: the Gallina term and a human-readable description (for replays).
type Case struct {
	Heavy bool        `json:"-"` // gets a case file of its own
	Term  string      `json:"-"`
	Desc  interface{} `json:"desc"`
	Cell  string      `json:"cell"` // non-triviality / distinctness class
}

type Writer struct {
	Prop      string
	OutDir    string
	RunModule string // e.g. Run.Run_C14
	PerFile   int
	cases     []Case
	Dist      map[string]int
	Extra     map[string]interface{}
}

func NewWriter(prop, outDir, runModule string, perFile int) *Writer {
	return &Writer{Prop: prop, OutDir: outDir, RunModule: runModule, PerFile: perFile, Dist: map[string]int{}, Extra: map[string]interface{}{}}
}

func (w *Writer) Add(term string, desc interface{}, cell string) {
	w.cases = append(w.cases, Case{Term: term, Desc: desc, Cell: cell})
}
func (w *Writer) AddHeavy(term string, desc interface{}, cell string) {
	w.cases = append(w.cases, Case{Term: term, Desc: desc, Cell: cell, Heavy: true})
}
func (w *Writer) Count(key string) { w.Dist[key]++ }
func (w *Writer) Len() int         { return len(w.cases) }

// Flush writes cases_<prop>_<k>.v (+ .json descriptions) and stats_<prop>.json.
func (w *Writer) Flush() error {
	nfiles := 0
	cells := map[string]bool{}
	for _, c := range w.cases {
		if c.Cell != "" {
			cells[c.Cell] = true
		}
	}
	for start, end := 0, 0; start < len(w.cases); start = end {
		end = start + 1
		if !w.cases[start].Heavy {
			for end < len(w.cases) && end-start < w.PerFile && !w.cases[end].Heavy {
				end++
			}
		}
		var b strings.Builder
		b.WriteString("From Coq Require Import Uint63.\nFrom PGV Require Import Base.Bytes " + w.RunModule + ".\n")
		b.WriteString("Definition cases : list case := [\n")
		for i := start; i < end; i++ {
			b.WriteString(w.cases[i].Term)
			if i < end-1 {
				b.WriteString(";\n")
			}
		}
		b.WriteString("\n].\n")
		b.WriteString("Definition bad_model := Eval vm_compute in mismatches_model cases.\n")
		b.WriteString("Definition bad_spec := Eval vm_compute in mismatches_spec cases.\n")
		b.WriteString("Print bad_model.\nPrint bad_spec.\n")
		base := fmt.Sprintf("cases_%s_%03d", w.Prop, nfiles)
		if err := os.WriteFile(filepath.Join(w.OutDir, base+".v"), []byte(b.String()), 0o644); err != nil {
			return err
		}
		descs := make([]interface{}, 0, end-start)
		for i := start; i < end; i++ {
			descs = append(descs, w.cases[i].Desc)
		}
		js, _ := json.Marshal(descs)
		if err := os.WriteFile(filepath.Join(w.OutDir, base+".json"), js, 0o644); err != nil {
			return err
		}
		nfiles++
	}
	samples := []interface{}{}
	step := len(w.cases)/5 + 1
	for i := 0; i < len(w.cases); i += step {
		samples = append(samples, w.cases[i].Desc)
	}
	keys := make([]string, 0, len(w.Dist))
	for k := range w.Dist {
		keys = append(keys, k)
	}
	sort.Strings(keys)
	stats := map[string]interface{}{
		"property":            w.Prop,
		"evaluations":         len(w.cases),
		"distinct_nontrivial": len(cells),
		"files":               nfiles,
		"distribution":        w.Dist,
		"samples":             samples,
	}
	for k, v := range w.Extra {
		stats[k] = v
	}
	js, _ := json.MarshalIndent(stats, "", " ")
	return os.WriteFile(filepath.Join(w.OutDir, "stats_"+w.Prop+".json"), js, 0o644)
}
