// Package pb (users): see internal/orders/pb.
package pb

type Item struct {
	S string `valid:"to=5~9|T81"` // "abc": violated by the tag rule
	N int    `valid:"ge=5|T82"`   // 7: satisfied
}
