// Package pb (orders): a struct type named Item; internal/users/pb has another type with the same name,
// so both print "pb.Item" although they are different types.
package pb

type Item struct {
	S string `valid:"to=5~9|T71"` // "abc": violated by the tag rule
	N int    `valid:"ge=5|T72"`   // 7: satisfied
}
