// Package time (verif/harness/internal/clock/time): a user package that happens to be called "time", with a struct type
// Time.  Its Type.String() is "time.Time", the same text as the standard library's type, but it is a different type:
// fields of this type are ordinary structs and are validated.
package time

type Time struct {
	S string `valid:"to=5~9|T61"` // "abc": violated
	N int    `valid:"ge=5|T62"`   // 7: satisfied
}
