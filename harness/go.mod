module verif/harness

go 1.21

require gitee.com/xuesongtao/protoc-go-valid v0.0.0

replace gitee.com/xuesongtao/protoc-go-valid => /repo
