#!/usr/bin/env python3
"""Regenerates MANIFEST.json from bin/props.py (claimed) and the NOT_YET table (not claimed)."""
import json, os, sys
sys.path.insert(0, os.path.dirname(os.path.abspath(__file__)))
from props import PROPS, LEVELS, NOT_APPLICABLE

checks = []
for pid in sorted(PROPS):
    lv = LEVELS[pid]
    checks.append({
        "property_id": pid,
        "quick_cmd": "bin/check %s --tier quick" % pid,
        "thorough_cmd": "bin/check %s --tier thorough" % pid,
        "evidence_file": "/verif/evidence/%s.json" % pid,
        "replay_cmd_template": "bin/check %s --replay {path}" % pid,
        "engine": "coq",
        "level_claimed": {"category": "proof", "text": lv["text"], "design_ref": lv["design_ref"]},
        "level_note": lv["note"],
        "technique": lv["technique"],
    })
m = {
    "version": 1,
    "setup_cmd": "bin/setup",
    "hooks": {
        "guard": "verif",
        "enable": "go build -tags verif (the harness uses only the exported API; no hook file exists in /repo)",
        "baseline_off_cmd": "cd /repo && GOFLAGS=-mod=mod GOPROXY=off GOSUMDB=off GOTOOLCHAIN=local go test -vet=off -count=1 ./...",
        "source_commits": [],
        "add_only": True,
    },
    "engines": [{"name": "coq", "path": "/verif/coq", "serves_properties": sorted(PROPS),
                 "kind_free_text": "Coq 8.16.1 development (model, spec, theorems) + Go harness writing case files evaluated by vm_compute + Go translator regenerating coq/Extracted from /repo"}],
    "checks": checks,
    "not_applicable": [{"property_id": k, "reason": v} for k, v in sorted(NOT_APPLICABLE.items()) if k not in PROPS],
    "notes": "See DESIGN.md. Every check: rebuilds the harness and translator from /repo's working tree, re-makes the proof target, evaluates generated cases inside Coq against model and spec, replays known findings.",
}
json.dump(m, open(os.path.join(os.path.dirname(os.path.dirname(os.path.abspath(__file__))), "MANIFEST.json"), "w"), indent=1, ensure_ascii=False)
print("claimed:", sorted(PROPS))
