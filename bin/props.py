"""Per-property configuration of bin/check."""

ORACLES = "oracles (behaviour trusted, use modelled): "

PROPS = {
    "C14": {
        "run": "Run.Run_C14",
        "rule": "cases = corpus (witnesses of repaired defects, documented examples) + generated: ParseValidNameKV on structured "
                "key[=value][|msg] texts, mixed ASCII/CJK/invalid-UTF-8 words and raw bytes; ValidNamesSplit with ',' '/' and random "
                "separator bytes on quote-dense strings; GenValidKV on every rule key x 0..3 arguments (empty, leading '=', quotes); "
                "RM.Set/Get sequences; structured rule lists through builder->Set->Get->split->parse. A case is non-trivial/distinct by its "
                "cell = (function, input class, number of '=' / '|' / quotes / separators (capped), label kind, number of pieces or rule-shape string).",
        "trusted": ["translator: constants ExplainEn/ExplainZh/rule names and regexp IncludeZhRe (regexp/syntax tree -> Gallina)",
                    "correspondence: Go driver c14.go, Run/Run_C14.v comparison functions, bin/check"],
        "assumptions": ["Go's regexp engine agrees with the Brzozowski matcher on IncludeZhRe (tested by every ParseValidNameKV case)",
                        "strings.Index/Split/Join as modelled in Base/GoStr.v (tested by the same cases)"],
    },
}

LEVELS = {
    "C14": {
        "text": "Theorems in Coq about an executable model of ParseValidNameKV / ValidNamesSplit / GenValidKV / RM.Set/Get: no-loss law for "
                "every byte string, quoted commas never split, builder text, parser round trip and the whole list pipeline for every "
                "well-formed rule list (unbounded). The model is tied to the code by evaluating it inside Coq on the harness's cases next to the "
                "observed outputs, and the label/regex constants are regenerated from the source on every run.",
        "design_ref": "DESIGN.md section 5, C14",
        "note": "Trusted: Coq kernel + vm_compute; the Go translator (constants, IncludeZhRe); the correspondence harness. The model is hand-written "
                "(not a compilation of the Go source). '|' inside a value is excluded (known finding D14, theorem C14_bar_in_value_refuted).",
        "technique": "Coq proof (induction over strings / rule lists) + model-vs-implementation correspondence evaluated in Coq",
    },
}

_NOT_YET = "not yet built in this session (the design is in DESIGN.md section 5); no check is registered, nothing is claimed"
NOT_APPLICABLE = {("C%02d" % i): _NOT_YET for i in range(1, 21)}
