"""Per-property configuration of bin/check."""

ORACLES = "oracles (behaviour trusted, use modelled): "

PROPS = {
    "C14": {
        "run": "Run.Run_C14",
        "rule": "cases = corpus (witnesses of repaired defects, documented examples) + generated: ParseValidNameKV on structured "
                "key[=value][|msg] texts, mixed ASCII/CJK/invalid-UTF-8 words and raw bytes; ValidNamesSplit with ',' '/' and random "
                "separator bytes on quote-dense strings; GenValidKV on every rule key x 0..3 arguments (empty, leading '=', quotes); "
                "RM.Set/Get sequences; structured rule lists through builder->Set->Get->split->parse. A case is non-trivial/distinct by its "
                "cell = (function, input class, number of '=' / '|' / quotes / separators (capped), label kind, number of pieces or rule-shape string).",
        "trusted": ["translator: constants ExplainEn/ExplainZh/rule names and regexp IncludeZhRe (regexp/syntax tree -> Gallina)",
                    "correspondence: Go driver c14.go, Run/Run_C14.v comparison functions, bin/check"],
        "assumptions": ["Go's regexp engine agrees with the Brzozowski matcher on IncludeZhRe (tested by every ParseValidNameKV case)",
                        "strings.Index/Split/Join as modelled in Base/GoStr.v (tested by the same cases)"],
    },
    "C09": {
        "run": "Run.Run_C09", "subindex": True,
        "rule": "bounded-exhaustive: every operation sequence of the stated length over 3 keys x 2 values x {Store,Load,Delete,Len} on capacities 0..4, "
                "observed step by step (outputs, callback log, final Dump order) and recomputed inside Coq from the model and from the abstract LRU; "
                "plus random sequences of thousands of operations (capacities 0..8, 2..12 keys) that cross the map-rebuild threshold, and a "
                "default-capacity run with 1500 keys. distinct_nontrivial counts (capacity, first operation) blocks and random configurations; "
                "the exhaustive sequence count is in distribution.",
        "trusted": ["translator: lruSize", "correspondence: Go driver c09.go, Run/Run_C09.v, bin/check"],
        "assumptions": ["container/list and Go maps behave as the list / association-list model (tested by every case)",
                        "keys and values of the harness are small integers; the model is parametric in them"],
    },
    "C10": {
        "run": "Run.Run_C10", "race": True,
        "rule": "worker processes built with -race run 2..16 goroutines issuing random Store/Load/Delete/Len/Dump streams (small and large key sets, "
                "capacities 0..8); small recorded histories (<= 8 calls, invoke/return stamps from one atomic counter) are checked for "
                "linearizability inside Coq against the sequential model and against the abstract LRU; every run is checked at quiescence "
                "(0 <= Len <= cap, Dump lines = Len); race reports, panics and timeouts are violations. distinct cell = (kind, capacity, goroutines, "
                "events, overlapping calls / final length).",
        "trusted": ["translator: lock/field summary of cache.go (classification table in harness/cmd/extract/lru.go)",
                    "correspondence: Go driver c10.go (history recording), Run/Run_C10.v, bin/check",
                    "Go race detector as the search for concrete racy schedules"],
        "assumptions": ["PARTIAL: Go memory model, sync.RWMutex internals and the scheduler are outside the model",
                        "the deletion callback is not re-entrant (granted by the property)",
                        "SetDelCallBackFn is configuration, called before concurrent use"],
    },
    "C01": {
        "run": "Run.Run_C01",
        "rule": "(A) complete sweep: all 255 non-zero values of int8 and of uint8 x every bound (bound pair for to/oto) of a window x the 8 rules, through "
                "valid.Var; the Coq side recomputes the verdict tables from the model and from the interval spec. (B) boundary generator: kinds "
                "{string ASCII/CJK/invalid UTF-8, int8..int64, int, uint8..uint64, uint, float32, float64, slice} x rule x bounds (negative, 0, lo>hi, "
                "+-2^31, +-2^53, int64 extremes) x measures at bound-1, bound, bound+1 (+-0.5 and +-ulp for floats) x entry points (Var, struct field, "
                "map entry, URL parameter raw and percent-encoded); every instance carries a unique marker message. distinct cell = (rule, kind "
                "class, position of the measure relative to both bounds, entry point) plus one cell per sweep table.",
        "trusted": ["translator: rule table validName2FnMap, rule-name constants", "correspondence: Go driver c01.go + walkcommon.go, Run/Run_C01.v, Run/Run_Walk.v, bin/check",
                    "oracle: decimal rendering of floats (strconv.FormatFloat) supplied by the harness for the echo only"],
        "assumptions": ["float bounds beyond 2^53 and NaN / infinities are outside the property's domain (float64(min) would round)",
                        "bound text beyond int64 is outside 'integer bounds'",
                        "map[string]interface{} presentation: known finding C18-iface-map-values"],
    },
    "C20": {
        "run": "Run.Run_C20",
        "rule": "cases = fixed instances of 16 hand-written named struct types (empty struct, first / all / middle / last fields unexported, deep nesting, "
                "recursive type, pointer fields nil and non-nil, slices of structs / pointers / scalars nil vs empty vs populated, maps with int and "
                "string keys nil / empty / one entry, arrays, every int/uint width, float32/float64, bools; a 40-pointer chain and a 12-deep slice nest) "
                "+ random values of struct types synthesised with reflect.StructOf (0..4 exported fields, depth 1..4, nested named types) "
                "+ 31 quirk shapes outside the domain (embedded, interface fields, pointers to scalars, **T, time.Time, func/chan, []byte, bool keys, "
                "escapes, top-level non-structs) that tie the model only. Stream CDump: maps hold <= 1 entry, the dump is compared byte for byte in Coq "
                "with the model and with jprint(doc_of v), and must pass the RFC 8259 parser; stream CPerm: multi-entry maps, compared as parsed documents "
                "with object members as a set. In both streams the harness also decodes the dump and GetDumpStructStrForJson(v) with encoding/json and "
                "compares the documents up to the documented deviations (carried into the case as json_agrees; a mismatch is also a driver violation). "
                "Every case the generator claims in-domain must satisfy dumpable (no vacuous pass). distinct cell = (origin, set of features).",
        "trusted": [ORACLES + "strconv.FormatFloat(x,'f',-1,32|64) (float_repr, printed by the harness into each VFloat)",
                    "correspondence: Go driver c20.go/c20types.go (reflect walk printing the Gallina val term, encoding/json document comparison), "
                    "Run/Run_C20.v comparison functions, bin/check"],
        "assumptions": ["encoding/json's document of a value (field names as keys, no tags) is doc_of v up to the documented deviations "
                        "(tested on every in-domain case by decoding both texts with encoding/json)",
                        "reflect shows the dumper the first-order image in Model/DumpVal.v (kind, nil-ness, field name / PkgPath / Anonymous / type==time.Time)",
                        "map entries are printed in iteration order on both sides; the order itself is not observable and is compared as a set",
                        "strconv.AppendInt/AppendUint agree with itoa/utoa of Base/GoNum.v (tested by every case with an integer)"],
    },
    "C05": {
        "run": "Run.Run_C05",
        "rule": "per rule (phone, email, idcard, int, float, in, include, ints, unique, prefix, suffix, year, year2month, date, datetime, re, ip, ipv4, ipv6, "
                "json, file, dir): members of the language, single-character edits of members (insert / delete / substitute over digits, letters, CJK, "
                "punctuation, separators, quotes, control bytes, invalid UTF-8) so near-misses are dense, double edits and random strings; numeric and "
                "slice inputs for in/int/ints/float/unique; separator triples over punctuation incl. the empty separator; regexes with escaped quotes, "
                "alternation and commas; options protected by quotes; through valid.Var and a struct field; every instance carries a unique marker; "
                "plus valid.GetTimeFmt for all 64 masks x 0..3 separators (and, since it is re-derived from its source text, for every list of separators by C05_timefmt_from_source). The independent verdict is computed inside Coq (Spec/FormatSpec.v) or, for the "
                "oracle-backed rules, by the harness's own direct standard-library call. distinct cell = (rule, Go type of the value, verdict, a "
                "rule-specific shape feature).",
        "trusted": ["translator: the regular expressions of valid/init.go as regexp/syntax trees, rule table", 
                    ORACLES + "net.ParseIP, time.Parse, regexp.MatchString (user patterns), json.Valid, os.Stat; strconv.FormatFloat for renderings",
                    "correspondence: Go driver c05.go + walkcommon.go, Run/Run_C05.v, Run/Run_Walk.v, bin/check"],
        "assumptions": ["PARTIAL: for ip*, dates, re, json, file, dir the accepted language is the standard library's; findings C05-datetime-fraction and C05-ipv4-mapped are where it differs from the documented one",
                        "Go's regexp engine agrees with the Brzozowski matcher on the repository's patterns (tested by every string case)"],
    },
    "C06": {
        "run": "Run.Run_C06",
        "rule": "cases = abstract Go files (header, imports, 0..4 structs incl. grouped/generic/alias declarations, fields with/without literal and with "
                "@tag / plain / no trailing comment in every interleaving, several annotated fields per struct and file, CJK in identifiers, comments "
                "and values, keys that override / add / both / repeat, 1..3 keys per comment, values with $ \\ | ' ; , block and multi-line comments, "
                "CRLF files, protoc-gen-go shaped files; frame: funcs, vars, consts, interfaces, local and non-first grouped type declarations with "
                "annotated-looking fields) rendered to disk; file.ParseFile's areas are compared with the model's areas_of, and the bytes after one run "
                "through the library, CLI -f, -d and -p with write_file (model) and render(inject_file f) (spec) inside Coq; plus byte-level cases "
                "outside the abstract shape (irregular literals, duplicate keys, two comments, finding regions, random tag soup). The driver also "
                "re-parses every output (same declarations/field types) and looks every key up with reflect.StructTag. A case is distinct by its cell = "
                "(structs, visited fields, annotated fields, overrides, additions, repeats (capped), CJK, CRLF, block comment, grouped).",
        "trusted": ["translator: rTags / rInject / rComment (regexp/syntax tree -> Gallina), compared with the reference trees by C06_regex_ref",
                    "correspondence: Go driver c06.go + c06gen.go (generator, renderer and Gallina printer of the abstract file), Run/Run_C06.v, bin/check"],
        "assumptions": ["PARTIAL: go/parser is not modelled; the model starts from the field spans / tag literal / comment texts it returns "
                        "(fields_from), checked against file.ParseFile on every generated file",
                        "Go's regexp engine agrees with the byte-wise scanners written for the three expressions (tested by every case; a changed "
                        "expression breaks C06_regex_ref)",
                        "domain: conventional key:\"value\" items (value non-empty, no double quote, no line break), distinct keys per literal and per "
                        "comment, non-empty back-quoted literal that is the last back-quoted text on its line, one trailing comment per field; "
                        "outside it see the listed findings"],
    },
    "C07": {
        "run": "Run.Run_C06",
        "rule": "the C06 generator x 2..5 consecutive runs on the same file, each run through a randomly chosen entry point (library, CLI -f, -d with and "
                "without trailing slash, -p with *.go / * / ./*.go), with a sibling file processed along; before every run file.ParseFile's areas are "
                "recorded; Coq replays every run with write_file from the previous bytes (model), requires the areas of run >= 2 to be areas_of "
                "(inject_file f), and requires the bytes after EVERY run to equal render(inject_file f) (spec: idempotence; files without annotation "
                "stay byte-identical). distinct cell = (number of runs, sequence of entry points, C06 cell).",
        "trusted": ["correspondence: Go driver c06.go + c06gen.go, Run/Run_C06.v, bin/check"],
        "assumptions": ["PARTIAL: go/parser is not modelled (the parse of the tool's own output is taken to be the abstract file after injection; "
                        "checked on every run >= 2)", "domain as for C06"],
    },
    "C19": {
        "run": "Run.Run_C19",
        "rule": "directory trees mixing valid annotated and un-annotated files of C06's shape, valid Go the tool does not expect (fields without tag "
                "literal, malformed @tag text, grouped / local / generic declarations, two comments), broken .go files (truncated, unbalanced, invalid "
                "UTF-8, NUL, empty, not Go), non-Go files with Go content, names with blanks / CJK / brackets / '.go' alone / upper-case suffix, "
                "sub-directories (one named *.go); one CLI run per tree with -d (with/without slash), -p (*.go, *, *.pb.go, */*.go, class, no match) or "
                "-f (file, directory, missing path). Exit status / panic output and changed non-Go or unparsable files are reported by the driver; the "
                "bytes of every file before/after are compared in Coq with handle_dir / handle_pattern / handle_file under the recorded ParseFile "
                "oracle (model) and with the specification (non-.go, not asked, unparsable => identical; valid C06 files => render(inject_file f)). "
                "distinct cell = (mode and argument class, kinds of files (capped), sub-directories, changed files).",
        "trusted": ["correspondence: Go driver c06.go + c06gen.go, Run/Run_C19.v, bin/check"],
        "assumptions": ["PARTIAL: go/parser is an oracle (file.ParseFile's result per file is recorded before the run)",
                        "PARTIAL: the real file system is a finite map path -> bytes; os.ReadDir / filepath.Glob results are inputs; permissions, "
                        "symlinks and concurrent modification are outside the model"],
    },
    "C02": {
        "run": "Run.Run_Walk",
        "rule": 'struct types synthesised at run time with reflect.StructOf (1..4 fields per struct, nesting depth 0..2 favouring wide structs): scalar fields are specimens of a hand-written truth table (value, rule, violated?) carrying 0..4 rules each with a unique marker, repeated rules, empty items between commas, trailing commas, unknown rule names, required; nested structs / pointers (1..3 levels, nil) / slices / arrays / maps of structs marked required / exist or left as decoys; the clauses a call must produce (paths, markers, ORDER, nil iff none, groups last) are computed while the input is built and compared with the implementation and with the model inside Coq; inputs with a multi-entry Go map are compared as sets. distinct cell = (top-level form, number of expected clauses class, depth, set of generator features hit).',
        "trusted": ["translator: rule table validName2FnMap, rule-name constants, label/separator constants, regexes", "correspondence: Go drivers (walkcommon.go value printer and error-text projection, wgen.go generator with by-construction expectations), Run/Run_Walk.v, bin/check", ORACLES + "strconv.FormatFloat renderings; fmt %v echoes of composite values are not compared"],
        "assumptions": ['rule semantics enter only through the truth table here (C01/C05 decide them)', 'echoed values that fmt prints with %v are not compared'],
    },
    "C03": {
        "run": "Run.Run_Walk",
        "rule": "every supported field type (string, int..int64, uint..uint64, float32/64, bool, nil/non-empty slices, empty non-nil slices and maps, arrays, maps, structs, pointers to structs, pointers to scalars, pointer to pointer, interface) x zero / non-zero value x required at every position among 0..3 other rules that the non-zero value violates x entry points (struct field, Var, map entry, URL parameter): expected = required clause iff zero/empty, the other rules' clauses iff non-zero. distinct cell = (entry, type, zero?, with required?, number of other rules).",
        "trusted": ["translator: rule table validName2FnMap, rule-name constants, label/separator constants, regexes", "correspondence: Go drivers (walkcommon.go value printer and error-text projection, wgen.go generator with by-construction expectations), Run/Run_Walk.v, bin/check", ORACLES + "strconv.FormatFloat renderings; fmt %v echoes of composite values are not compared"],
        "assumptions": ['known finding C03-missing-entry: a missing map key / URL parameter never violates required'],
    },
    "C04": {
        "run": "Run.Run_Walk",
        "rule": 'as C02 with depth up to 5: object graphs nested through values, pointers (1..3 levels), slices, arrays and maps (string and int keys) with nil / zero / populated nodes at every position, nil elements, decoys (violating sub-objects under untagged fields, under a non-builtin rule, time.Time fields) that must stay silent; top-level struct, pointer, pointer to pointer; expected (path, marker) lists by construction. distinct cell as C02.',
        "trusted": ["translator: rule table validName2FnMap, rule-name constants, label/separator constants, regexes", "correspondence: Go drivers (walkcommon.go value printer and error-text projection, wgen.go generator with by-construction expectations), Run/Run_Walk.v, bin/check", ORACLES + "strconv.FormatFloat renderings; fmt %v echoes of composite values are not compared"],
        "assumptions": ['cyclic graphs are excluded by the property'],
    },
    "C13": {
        "run": "Run.Run_Walk",
        "rule": 'hostile inputs: a catalogue of 35 nil / wrong-kind shapes (nil, typed nil pointers, pointer to nil pointer, nil elements in slices / maps / arrays, non-string-keyed maps, non-maps for Map, scalars for Struct, funcs, chans, interface slices, bad URL escapes) x the four entry points x rule text from a grammar-aware mutator (60 seeds: missing / malformed arguments, unbalanced quotes and brackets, too many separators, bad regexes, NUL) with single and double character edits and raw random bytes, also as programmatic rule sets and with a nil function registered under a built-in name; observation = panicked or returned; the model must agree and never panic. distinct cell = (entry, shape, leading rule name or garbage, error?).',
        "trusted": ["translator: rule table validName2FnMap, rule-name constants, label/separator constants, regexes", "correspondence: Go drivers (walkcommon.go value printer and error-text projection, wgen.go generator with by-construction expectations), Run/Run_Walk.v, bin/check", ORACLES + "strconv.FormatFloat renderings; fmt %v echoes of composite values are not compared"],
        "assumptions": ['PARTIAL: Go slicing / indexing is written with total list functions in the model at sites checked by reading; the hostile stream is what ties them', 'user callbacks that panic and re-use of consumed validators are excluded by the property'],
    },
    "C16": {
        "run": "Run.Run_Walk",
        "rule": "the fixed object graph WTop{Mid WMid{A WLeaf, P *WLeaf, Ls []WLeaf, D WLeaf (unmarked), S}, PMid *WMid, S} (three struct types sharing the field name S, tag rules T1..T8) x per-type rule sets for each of the three types (absent / empty / partial: S, N, an unexported field, struct fields re-marked required / exist / a non-builtin rule / unknown, a non-existent field) x unscoped set (absent / empty / S / Mid) x this call's functions (lfn; shadowing the global ge; shadowing the built-in to) x global functions gfn and ge (registered in a child process before the calls) x input form (value, pointer, top-level slice = no outermost struct, WMid as outermost); expected clauses computed from the property's text (effective rule, resolution order) by a small evaluator over the fixed graph. distinct cell = set of configuration features.",
        "trusted": ["translator: rule table validName2FnMap, rule-name constants, label/separator constants, regexes", "correspondence: Go drivers (walkcommon.go value printer and error-text projection, wgen.go generator with by-construction expectations), Run/Run_Walk.v, bin/check", ORACLES + "strconv.FormatFloat renderings; fmt %v echoes of composite values are not compared"],
        "assumptions": ['where the property text is silent the observed behaviour is adopted: a non-empty typed set for the outermost type suppresses the unscoped set; elements of a top-level slice are not the outermost struct'],
    },
    "C17": {
        "run": "Run.Run_Walk",
        "rule": 'objects WG{X,Y either=1; A,B botheq=2} with every value pattern (all empty, one set, all equal, one differing) repeated in a slice, a map, nested by value and by pointer inside WGS (which has its own either group), top-level slices of WG, single-member groups (rule-writing error), map[string]string / map[string]int / []map inputs, URL inputs with the parameters in every order; expected group clauses (kind, member list) per object by construction; group clauses are compared as a set (Go map order), member lists of map input as sets. distinct cell = (entry, shape, number of violated groups).',
        "trusted": ["translator: rule table validName2FnMap, rule-name constants, label/separator constants, regexes", "correspondence: Go drivers (walkcommon.go value printer and error-text projection, wgen.go generator with by-construction expectations), Run/Run_Walk.v, bin/check", ORACLES + "strconv.FormatFloat renderings; fmt %v echoes of composite values are not compared"],
        "assumptions": ['members of one botheq group have one type (property)', 'object paths contain no NUL byte'],
    },
    "C18": {
        "run": "Run.Run_Walk",
        "rule": 'every scalar specimen x 1..4 rules of its truth table, presented as Var, struct field, map[string]T entry, []map[string]T element, and (strings) URL parameter raw or percent-encoded among 0..2 other parameters in any order: each presentation must produce exactly the by-construction marker list under its own path, and the same marker set as the Var presentation (SSame). distinct cell = (presentation, specimen, number of violated rules).',
        "trusted": ["translator: rule table validName2FnMap, rule-name constants, label/separator constants, regexes", "correspondence: Go drivers (walkcommon.go value printer and error-text projection, wgen.go generator with by-construction expectations), Run/Run_Walk.v, bin/check", ORACLES + "strconv.FormatFloat renderings; fmt %v echoes of composite values are not compared"],
        "assumptions": ['known findings: C18-iface-map-values (interface{} entry values), C18-url-reserved (reserved characters in URL values)'],
    },
    "C08": {
        "run": "Run.Run_Walk",
        "rule": 'one worker process per cache configuration (default LRU, LRU of capacity 0, 1, 2, 3, 8, sync.Map, a cache that forgets everything — SetStructTypeCache is once-only): histories of validation calls over 40 distinct struct types (more than every small capacity) that carry rule sets for two tag names, with tag name valid / alt / other / default chosen per call, 25% of the calls with a per-call rule override, 30% returning to four hot types so that hits, evictions and re-analysis alternate; every result is compared in Coq with the cache-free model and with the by-construction expectation for the tag requested in that call. distinct cell = (cache configuration, tag name, override?).',
        "trusted": ["translator: rule table, constants", "correspondence: Go drivers c08.go/c12.go (worker processes per cache configuration), walkcommon.go, Run/Run_Walk.v, bin/check"],
        "assumptions": ['the cache is only reachable through validation calls (public API)'],
    },
    "C12": {
        "run": "Run.Run_Walk",
        "rule": "per cache configuration (default, LRU 1, always-miss) a history of heterogeneous calls (Struct over 40 two-tag types with different tags, per-call overrides and per-call functions under a built-in name; Var; Map; Url; failing and succeeding) followed by the same calls in a random permutation: every result is compared with the model / expectation in Coq and with the same call's first result; inputs and rule maps are deep-copied before and compared after every call; up to 400 earlier error strings and the tokens of an earlier ValidNamesSplit are re-read at the end. distinct cell = (cache, round, call kind).",
        "trusted": ["translator: rule table, constants", "correspondence: Go drivers c08.go/c12.go (worker processes per cache configuration), walkcommon.go, Run/Run_Walk.v, bin/check"],
        "assumptions": ['PARTIAL: aliasing of builder buffers / scratch slices is outside the functional model; checked by re-reading strings in the harness'],
    },
    "C11": {
        "run": "Run.Run_Walk",
        "race": True,
        "rule": 'per cache configuration (default, LRU 2, LRU 0) three rounds with 2, 8 and 32 goroutines released together, each issuing a random stream of Struct (shared and private types, different tags, overrides, per-call functions), Var, Map and Url calls, built with -race; every concurrent result is compared with the same call run alone afterwards; a sample of calls per goroutine is compared in Coq with the model and the expectation; race reports, panics and timeouts are violations. distinct cell = (cache, goroutines, call kind).',
        "trusted": ["translator: rule table, constants", "correspondence: Go drivers c08.go/c12.go (worker processes per cache configuration), walkcommon.go, Run/Run_Walk.v, bin/check"],
        "assumptions": ['PARTIAL: scheduler, Go memory model, sync.Pool internals are outside the model; global function registration happens before the goroutines start'],
    },
    "C15": {
        "run": "Run.Run_C15",
        "rule": "(1) every rule that supports a custom message (29 rules incl. required) x messages in ASCII / CJK / mixed with '=', '|', quotes and quoted commas, and one-character messages x entry points (Var, struct field, map entry), with and without a message: the exact clause text is compared with the model's clause_text, and the extractor must give the message back; (2) the extractor on all 120 orders of up to four Chinese-labelled, English-labelled and unlabelled clauses and on random mixes of 5..12 clauses, against the structured specification (explanations in order, joined, none trailing); (3) the extractor on real library errors of synthesised structs, on label / separator soup and on raw bytes, against the model, with recover(). distinct cell = (stream, rule or order, entry, label kind).",
        "trusted": ["translator: ExplainEn, ExplainZh, ErrEndFlag, IncludeZhRe", "correspondence: Go driver c15.go + walkcommon.go, Run/Run_C15.v, bin/check",
                    ORACLES + "the oracle-backed rules are driven with answers that make them fail (their verdict is C05's subject)"],
        "assumptions": ["clean clauses: no separator and no earlier label inside paths, echoes and messages (the text format has no escaping)"],
    },
}

LEVELS = {
    "C15": {
        "text": "Theorems in Coq: the label is Chinese exactly when the message contains a CJK character of the source's class and English otherwise; a clause whose rule carried message m reads path, echo, label, m verbatim; every rule function that supports a message uses the message of its rule text when there is one and default wording only when there is none; the extractor returns exactly the explanations of the clauses that have one, in order, joined by the separator, for every number and order of Chinese-labelled, English-labelled and unlabelled clean clauses (proved via a lemma that splitting a join of separator-free pieces gives the pieces back). The go/ast syntax tree of GetJoinValidErrStr — the function that words every rule violation — is REGENERATED FROM /repo ON EVERY RUN and proved (loop invariant over the range loop with continue) to compute the model's clause text for every name, echo and list of further texts; a parser-labelled custom message goes through it verbatim behind its one label. From the source text of 29 rule functions (C15_message_discipline_from_source): what a rule function writes is nothing, or ONE clause whose explanation is the rule's message alone when the rule text has one and the default wording only when it has none (kind errors and unreadable rules come before the message is looked at); GetJoinFieldErr computes the clause of an unreadable rule; and GetOnlyExplainErr itself, from its syntax tree, computes the model's extractor on EVERY text (loop invariant over the clauses) and never slices out of range.",
        "design_ref": "DESIGN.md section 5, C15",
        "note": "Trusted: Coq kernel, translator (labels, separator, CJK class; minigo.go) and the semantics of Model/GoParse.v (strings.Builder as text, strings.Contains, range/continue), correspondence harness. The extractor's domain excludes echoes/messages that contain the separator or an earlier label (no escaping exists).",
        "technique": "Coq proof (string-splitting lemmas for a two-byte separator, per-rule case analysis) + exact-text and extractor correspondence evaluated in Coq",
    },
    "C08": {
        "text": 'Theorems in Coq: for ANY cache whose loads return nothing or a value stored under that key, every history of lookups over any (type, tag name) keys returns the fresh analysis, and the field loop run on the cached analysis equals the cache-free validation; an always-miss cache, an unbounded map and an LRU of any capacity (0 included) satisfy the hypothesis; the key carries the tag name. The LRU here is the abstract LRU that cache.go refines (C09). Tied by histories over more types than capacity under nine cache configurations (one of which lets a second caller of the same type run to completion from inside Store).',
        "design_ref": "DESIGN.md section 5, C08",
        "note": 'The walker is shown to use a struct type only through its analysis (on_fields_analysis). Trusted: Coq kernel, correspondence harness.',
        "technique": 'Coq proof (representation invariant over all lookup histories, generic in the cache) + multi-configuration history correspondence evaluated in Coq',
    },
    "C11": {
        "text": "Theorems in Coq: every interleaving of any number of goroutines' atomic shared actions (pool get/put, cache load/store, cache forgetting entries) preserves 'pooled objects are clean and cache entries are correct', so every call reads from the shared state exactly what it reads alone; with C08 the result is the solo result. Tied by 2/8/32-goroutine runs under the race detector compared with solo results.",
        "design_ref": "DESIGN.md section 5, C11",
        "note": "PARTIAL: atomicity of the shared actions is C10 (cache) and sync.Pool's contract; scheduler and memory model are outside; races are searched with -race.",
        "technique": 'Coq proof (invariant over all interleavings of atomic shared actions) + race-detector runs and solo-vs-concurrent comparison',
    },
    "C12": {
        "text": "Theorems in Coq: an object taken from the pool never carries an earlier call's rule map (free() clears before Put, early returns never Put), for every history; the cached analysis is never altered by a per-call override; hence the model's purely functional validators are a faithful description of the pooled, cached implementation. Tied by histories and their permutations compared call by call, deep copies of inputs, and re-reading earlier error strings and tokens.",
        "design_ref": "DESIGN.md section 5, C12",
        "note": "PARTIAL: 'inputs unmodified' and 'strings handed out never change' concern Go memory aliasing and are carried by the harness, not by a theorem.",
        "technique": 'Coq proof (pool / cache invariants over all histories) + history-and-permutation correspondence evaluated in Coq',
    },

    "C02": {
        "text": 'Theorems in Coq about the executable model of the four validators: the error buffer is append-only and every object graph is walked to the end (no early exit, declaration then rule order), one rule instance writes at most one clause naming its field (contract proved for all 30 rule functions of the table), groups yield at most one clause each and come last, the result is nil exactly when nothing was written. Capstone (C02_walk_exact, C02_struct_valid_exact): against an address-based specification with no buffer, fuel or traversal (Spec/WalkAddr.v: resolve is structural on the address), for every configuration and every object graph the validator writes exactly the contributions of the resolving addresses, each once, in strictly increasing lexicographic order (declaration order, rule order, nested instances after the rule that opens them), group clauses last, nil iff none. Tied to the code by synthesised struct programs whose expected clause lists are known by construction.',
        "design_ref": "DESIGN.md section 5, C02",
        "note": "Trusted: Coq kernel, translator, correspondence harness (value printer, error-text projection). The walkers are modelled by hand; reflect is modelled at the calls used. 'Exactly one clause per VIOLATED instance' = the exactness theorem (one contribution per rule instance) + the rule contract (a contribution is at most one clause) + the per-rule verdict theorems of C01/C05. The exactness theorem covers the struct walker; Var / Map / Url are flat loops with per-step theorems.",
        "technique": 'Coq proof (induction on depth fuel with top-level helpers, append-only buffer invariant, rule contract) + generator with by-construction expectations evaluated in Coq against implementation and model',
    },
    "C03": {
        "text": 'Theorems in Coq: required on a struct field writes its clause exactly when the value is zero or an empty slice/array/map, and otherwise descends without reporting (pointer to scalar included); required through Var likewise; every non-builtin rule (and registered function) is not evaluated on a zero value, in all four validators. Tied by every field type x zero/non-zero x rule combinations x entry points with by-construction expectations.',
        "design_ref": "DESIGN.md section 5, C03",
        "note": 'Known finding C03-missing-entry (map/URL: missing entries) is outside the theorems (they speak about present entries). IsZero is modelled kind by kind (tested on every generated value).',
        "technique": 'Coq proof (induction on depth fuel with top-level helpers, append-only buffer invariant, rule contract) + generator with by-construction expectations evaluated in Coq against implementation and model',
    },
    "C04": {
        "text": "Theorems in Coq: under required/exist a struct reached through any number of pointer levels (RemoveValuePtr, from its syntax tree regenerated on every run, computes the model's remove_ptr on every value) is validated under Parent.Field, slice/array elements under Parent.Field[i], map entries under Parent.Field[key], to any depth (fuel > depth); zero/nil sub-objects under exist are skipped silently; fields without required/exist never use the recursive call (the result is independent of it), unexported and time.Time fields are skipped; every clause found inside an object carries a path extending the object's path. Capstone (C04_reaches_exactly): a clause is written, at whatever depth, if and only if it is the contribution of a rule instance some address resolves to, where resolve (Spec/WalkAddr.v, structural on the address) enters a value only through a built-in required/exist on a non-empty value and names what it enters Parent.Field, Parent.Field[i], Parent.Field[key]. Tied by deep synthesised graphs with decoys and by-construction (path, marker) lists.",
        "design_ref": "DESIGN.md section 5, C04",
        "note": 'Trusted as C02. Reach is the resolve function of Spec/WalkAddr.v (an independent, fuel-free, buffer-free definition) plus the per-construct equations.',
        "technique": 'Coq proof (induction on depth fuel with top-level helpers, append-only buffer invariant, rule contract) + generator with by-construction expectations evaluated in Coq against implementation and model',
    },
    "C13": {
        "text": 'Theorems in Coq: for every value without the invalid reflect.Value inside (nil, typed nil pointers, nil elements, pointers to pointers, scalars, any map, non-maps ...), every configuration (arbitrary rule bytes, rule sets, registered functions incl. nil) each of the four entry points returns Ok: never Panic, never out of fuel with fuel = depth+2. From the source text (REGENERATED FROM /repo ON EVERY RUN): on a well-formed value the syntax tree of VVar.validate, under the semantics of Model/GoWalk.v, returns normally - no panic, no form without a meaning - for every configuration and buffer, having written exactly the clauses of the rules of the variable in rule order (C13_var_walker_source_total). Tied by a hostile-input stream comparing panicked/returned.',
        "design_ref": "DESIGN.md section 5, C13",
        "note": "PARTIAL: the model's only explicit panic source is IsZero on the invalid Value; Go slice/index panics are modelled by total functions at sites repaired or checked by reading, so an unknown panic site is found by the correspondence stream (it found re=' and nil *string), not by the theorem.",
        "technique": 'Coq proof (induction on depth fuel with top-level helpers, append-only buffer invariant, rule contract) + generator with by-construction expectations evaluated in Coq against implementation and model',
    },
    "C16": {
        "text": "Theorems in Coq: the rule set in force for a struct is the typed set of its type wherever it occurs, else for the outermost struct the unscoped set (validate_body = on_fields with effective_rules); a supplied rule replaces the tag rule entirely, unmentioned fields keep theirs; name resolution is this call's function, then the global one, then the built-in; an unknown name writes one error clause and the remaining rules are evaluated. The go/ast syntax tree of validCommon.getValidFn (valid/abstract.go) is REGENERATED FROM /repo ON EVERY RUN and, under the block-scoped semantics of Model/GoWalk.v (comma-ok map lookups on this call's functions and on the global table, errors.New), proved to compute exactly that resolution with the is-not-exist error made explicit (C16_lookup_from_source); the getValidFn methods of VVar, VMap and VUrl are, syntactically, the delegation to it. Tied by configurations over a fixed three-type graph with expectations computed from the property text.",
        "design_ref": "DESIGN.md section 5, C16",
        "note": 'Where the property text is silent the observed scoping is adopted and stated in the spec (DESIGN appendix B).',
        "technique": 'Coq proof (induction on depth fuel with top-level helpers, append-only buffer invariant, rule contract) + generator with by-construction expectations evaluated in Coq against implementation and model',
    },
    "C17": {
        "text": "Theorems in Coq: an either group of >= 2 members yields its clause exactly when all members are zero, a botheq group exactly when not all equal the first, a single member is a rule-writing error, the clause lists all members; groups are keyed by (object path, rule text) injectively, each group is judged on its own members, and members recorded under an object carry that object's path. Tied by objects repeated in slices/maps/nested, map, []map and URL inputs.",
        "design_ref": "DESIGN.md section 5, C17",
        "note": 'reflect.DeepEqual is modelled on the scalar kinds used in groups (strings, numbers, bools).',
        "technique": 'Coq proof (induction on depth fuel with top-level helpers, append-only buffer invariant, rule contract) + generator with by-construction expectations evaluated in Coq against implementation and model',
    },
    "C18": {
        "text": 'Theorems in Coq: for every rule text that resolves to a rule function and every non-zero value the struct, variable, map and (strings) URL validators call the same function, and every function of the rule table has a verdict independent of the object/field names; hence identical verdicts, only the path differs. The go/ast syntax tree of VVar.validate (valid/validvar.go) is REGENERATED FROM /repo ON EVERY RUN and proved (loop lemma over the range loop with continue, block scoping, switch, nil-function test, IsZero with its panic) to BE the variable walker of the model for every configuration, rule map, value and buffer (C18_var_walker_from_source), VVar.Valid as a whole being that followed by getError (C18_var_entry_from_source); VMap.getKey is the entry path of the model (C18_map_key_path_from_source). Tied by presenting each specimen through every entry point and comparing marker sets.',
        "design_ref": "DESIGN.md section 5, C18",
        "note": "Known findings C18-iface-map-values and C18-url-reserved are outside the theorems' hypotheses (interface-kind values; percent-encoded reserved characters).",
        "technique": 'Coq proof (induction on depth fuel with top-level helpers, append-only buffer invariant, rule contract) + generator with by-construction expectations evaluated in Coq against implementation and model',
    },

    "C06": {
        "text": "Theorems in Coq about an executable model of newTagItems / override / format / injectTag / WriteFile and the area loop of ParseFile: the "
                "merge loop meets the four clauses of the property and is the only list that does (C06_merge, C06_merge_unique); the tag scanner reads "
                "back every conventional literal (C06_scan_format); for every abstract file - any number and interleaving of raw text and fields - the "
                "areas applied from the last to the first write exactly the file whose annotated fields carry the merge and whose other bytes are "
                "unchanged (C06_splice_frame); the scanners are written for the regex trees regenerated from parse.go (C06_regex_ref). The go/ast syntax trees of "
                "tagItems.override (two nested loops with break, append, slices) and tagItems.format are REGENERATED FROM /repo ON EVERY RUN and proved, each loop by "
                "an invariant, to compute the model's merge and formatting on every pair of tag lists. The model is tied "
                "to the code by comparing areas and output bytes of generated files, through the library and the CLI, inside Coq.",
        "design_ref": "DESIGN.md section 5, C06",
        "note": "PARTIAL: go/parser is not modelled (the model starts from the spans it returns, checked against file.ParseFile on every generated file). "
                "Trusted: Coq kernel + vm_compute; translator (three regexes; minigo.go) and the semantics of Model/GoTags.v (slices as immutable lists); correspondence harness. Findings outside the theorem's domain: literal "
                "empty / interpreted / multi-line is never rewritten; a back quote earlier on the literal's line overwrites the field type; a back quote "
                "in an injected value breaks the output (C06_empty_literal_refuted, C06_backquote_in_type_refuted).",
        "technique": "Coq proof (induction over the abstract file with a byte prefix invariant; association-list reasoning for the merge) + "
                     "program-generating model-vs-implementation correspondence evaluated in Coq",
    },
    "C07": {
        "text": "Theorems in Coq: override is idempotent under distinct keys, inject_file is idempotent and the domain is closed under it, a run on an "
                "already processed file writes the bytes it found, a file without areas is written back unchanged, the n-th run for every n >= 1 writes "
                "the bytes of the first, and a second -d / -p run over files that each settle changes nothing; the override whose idempotence is stated is the "
                "source text's (C07_merge_from_source: its syntax tree, regenerated on every run, computes the model's override). Tied to the code by 2..5 repeated runs "
                "mixing library / -f / -d / -p on generated files, replayed in Coq.",
        "design_ref": "DESIGN.md section 5, C07",
        "note": "PARTIAL: go/parser is not modelled; re-parsing the tool's output is represented by the abstract file after injection (checked on every "
                "repeated run). Same domain and findings as C06.",
        "technique": "Coq proof (corollaries of the C06 frame theorem and merge idempotence) + repeated-run correspondence evaluated in Coq",
    },
    "C19": {
        "text": "Theorems in Coq about handleFile / handleDir / handlePatternFiles over a finite map path -> bytes with ParseFile as an oracle: a name "
                "without .go, a missing path and an unparsable file leave everything untouched; collecting areas never panics on any abstract AST "
                "(fields without tag literal, comments that only mention @tag, grouped declarations) - with the pre-repair loop panicking on the D22 "
                "witness; a run over distinct names is the map-wise application of a per-file step to the original contents, in any order, and only a "
                "panic can end it early; a valid C06 file is still processed whatever surrounds it. Tied to the code by CLI runs over generated trees.",
        "design_ref": "DESIGN.md section 5, C19",
        "note": "PARTIAL: go/parser is an oracle and the file system is a finite map (permissions, symlinks, I/O errors are not modelled); process "
                "exit status and panics are observed by the driver only.",
        "technique": "Coq proof (induction over the list of names with a locality lemma per file) + CLI-over-directory-tree correspondence evaluated in Coq",
    },
    "C05": {
        "text": "Theorems in Coq: the five regular expressions of the repository (regenerated from the source on every run) accept exactly the languages of "
                "hand-written recognisers, for every string (e-mail included: words separated by single separators, one '@', a '.' in the domain); the "
                "rule functions write a clause exactly when the value is outside the language (int/float kind dispatch, in/include option extraction, "
                "ints separators, unique as NoDup, prefix/suffix with protecting quotes stripped); the date layout builder equals the documented layout "
                "for every mask and separator triple; the re pattern extraction returns the text between the protecting quotes. The go/ast syntax tree of "
                "ToStr (the canonical rendering in/unique compare by) is REGENERATED FROM /repo ON EVERY RUN and proved (type switch, strconv calls) to compute "
                "the model's to_str on every scalar value; so are all 23 format and content rule functions (Phone, Email, IDCard, Ip, Ipv4, Ipv6, Year, Year2Month, Date, Datetime, Prefix, Suffix, Int, "
                "Float, Json, File, Dir, Ints, Unique, Re, In, Include and the in() they share, with CheckFieldIsStr): each writes exactly the predicted text for every rule text, "
                "names and value of any kind — the right recogniser, IP family test, layout mask and separator, kind dispatch, option list and comparison — and "
                "writes nothing exactly when the model's rule function reports no clause (in(): for every comparison function, by induction over the options). "
                "Oracle-backed rules: wiring proved, acceptance delegated.",
        "design_ref": "DESIGN.md section 5, C05",
        "note": "PARTIAL: ip/ipv4/ipv6, year/year2month/date/datetime, re, json, file, dir delegate membership to the standard library (oracles, listed); "
                "in-builder round trip proved for options without quotes/slashes only (quoted options: correspondence). Trusted: Coq kernel, translator "
                "(regex trees; minigo.go) and the semantics of Model/GoToStr.v (strconv.FormatFloat's text is a field of the model's float value) and Model/GoRule.v "
                "(calls mean the callees' models; net.ParseIP / time.Parse / json.Valid / os.Stat are the oracle tables; function literals of the form return e are values), "
                "correspondence harness. The Re theorem speaks about rule texts of bytes (every element below 256).",
        "technique": "Coq proof (regular-language equivalences via Brzozowski derivatives and a two-state scanner; case analysis) + correspondence evaluated in Coq",
    },
    "C20": {
        "text": "Theorems in Coq: (1) an RFC 8259 recursive-descent parser (white space, escapes, number grammar) parses the compact printing of every "
                "document whose strings need no escapes and whose numbers are valid literals back to that document (unbounded; decimal renderings of all "
                "integers are proved valid literals); (2) a line-by-line model of HandleDumpStruct/loopHandleKV (first-field special case, needAddComma, "
                "exported-only fields, per-kind rendering, slice and map separators, key quoting) prints, for every value of the property's domain and "
                "every nesting depth, exactly the document of the standard encoder with the documented deviations (doc_of), by induction on fuel with one "
                "lemma per loop; hence the dump is well-formed JSON that decodes to that document. The model is tied to the code by evaluating it inside "
                "Coq on generated values next to the observed bytes, and doc_of is tied to encoding/json by decoding both texts.",
        "design_ref": "DESIGN.md section 5, C20",
        "note": "Trusted: Coq kernel + vm_compute; float renderings are an oracle (harness-supplied, required to be JSON number literals); the correspondence "
                "harness; doc_of as a description of encoding/json (tested, not proved). Domain made precise (dumpable): top-level struct, pointer to struct "
                "or nil pointer (one Indirect only: **T dumps the empty string); no embedded fields, interface-typed fields, pointers to non-structs, time.Time, func/chan; "
                "escape-free strings and field names; finite floats; map keys string/int/uint. Excluded as known findings: []byte (C20_byte_slice_refuted) "
                "and exported fields with a non-ASCII capital initial (C20_nonascii_field_refuted). The time.Time branch is modelled with a field flag.",
        "technique": "Coq proof (parser/printer round trip; fuel induction over a mutually recursive model) + model-vs-implementation and spec-vs-encoding/json correspondence evaluated in Coq",
    },
    "C01": {
        "text": "Theorems in Coq: for every rule text whose bounds parse, every object/field name and every non-zero value of a sized kind, each of the 8 "
                "rule functions writes a clause exactly when the measure (rune count / exact integer or dyadic value / slice length) lies outside the "
                "stated set, and at most one clause; the verdict depends on the measure only (width, signedness irrelevant). strconv.Itoa then Atoi is "
                "the identity on every int64, so for every pair of int64 bounds the builder-written text key=lo~hi|msg is read back as exactly those "
                "bounds and judged by them. The go/ast syntax trees of validInputSize and eq are REGENERATED FROM /repo ON EVERY RUN and, under a stated "
                "semantics of the Go forms they use, proved to compute the model for every bound, value and mode; so are the eight rule functions To, OTo, Ge, Gt, Le, Lt, Eq, NoEq themselves (a call meaning the callee's model): each writes exactly the predicted text — right bound, closed/open mode, custom message or default wording — and writes nothing exactly when the model's rule function reports no clause; parseTagTo (the bound reader of to / oto) computes the model's parse_tag_to on every text and ReflectKindIsNum is the kind test on every kind name. A finite 8-bit sweep through the rule "
                "text is proved by computation. Model also tied to the code by the complete 8-bit sweep and boundary cases evaluated in Coq.",
        "design_ref": "DESIGN.md section 5, C01",
        "note": "Trusted: Coq kernel + vm_compute; translator (rule table); correspondence harness; reflect/strconv/utf8 modelled at the calls used. "
                "Trusted in addition: the MiniGo translator (harness/cmd/extract/minigo.go, one constructor per go/ast node) and the semantics of Model/GoSize.v "
                "(int/int64 as Z, uint64(int) as mod 2^64, float64(int) exact) and of Model/GoRule.v (calls of ParseValidNameKV, validInputSize, eq, GetJoinValidErrStr, ToStr mean their models, each with its own from-source theorem; strconv.Atoi hand-modelled; unit text and GetJoinFieldErr text abstract).",
        "technique": "Coq proof (case analysis + linear arithmetic over Z, digit induction for Itoa/Atoi, finite sweep by vm_compute) + source-to-Gallina translator with staged symbolic execution proved equal to the model + model-vs-implementation correspondence evaluated in Coq",
    },
    "C10": {
        "text": "Theorems in Coq about an interleaving semantics with a reader/writer lock: the lock/field summary of every LRUCache method is "
                "regenerated from cache.go on every run and must pass race_freeb (proved sound for all schedules and any number of threads); under "
                "it every execution of a snapshot/commit machine (which exhibits lost updates and stale reads when exclusion fails) is linearizable "
                "in commit order and its shared state satisfies C09's invariants. Recorded real histories are checked in Coq by a checker proved sound; "
                "real data races are searched with the race detector.",
        "design_ref": "DESIGN.md section 5, C10",
        "note": "PARTIAL: the Go memory model, sync.RWMutex and the scheduler are not modelled; the translator's read/write classification is trusted; "
                "deadlock freedom is argued (one lock, no nested acquisition) and searched by timeouts, not proved.",
        "technique": "Coq proof over all interleavings of a lock-discipline model extracted from source + linearizability checking of recorded histories in Coq + race detector",
    },
    "C09": {
        "text": "Refinement proofs in Coq: the line-by-line model of cache.go refines an abstract most-recent-first list, which refines an order-free "
                "timestamp specification (evict the entry with the oldest store-or-load), for every operation history and every capacity >= 0, by "
                "induction over the history with a 7-clause coupling invariant; corollaries: bound, Len exactness, callback log. The go/ast syntax trees of "
                "Store, Load, Delete, delete and Len are REGENERATED FROM /repo ON EVERY RUN and, under a stated semantics of the Go forms they use, every "
                "history run through those bodies is proved equal to the model's run (per method on every state satisfying the invariant, then by "
                "induction over histories). The model is also tied to the code by exhaustive short histories and long random ones evaluated in Coq.",
        "design_ref": "DESIGN.md section 5, C09",
        "note": "Trusted: Coq kernel + vm_compute; translator (lruSize; minigo.go, one constructor per go/ast node); the semantics of Model/GoLRU.v "
                "(container/list as a list of (id, value), the Go map as an association list visited by range from its far end, removed elements keep their Value); "
                "correspondence harness. container/list and the Go map are modelled, not verified.",
        "technique": "Coq refinement proof (two layers, induction over histories) + source-to-Gallina translator with an interpreter proved equal to the model on every history + bounded-exhaustive and random model-vs-implementation correspondence",
    },
    "C14": {
        "text": "Theorems in Coq about an executable model of ParseValidNameKV / ValidNamesSplit / GenValidKV / RM.Set/Get: no-loss law for "
                "every byte string, quoted commas never split, builder text, parser round trip and the whole list pipeline for every "
                "well-formed rule list (unbounded). The model is tied to the code by evaluating it inside Coq on the harness's cases next to the "
                "observed outputs, and the label/regex constants are regenerated from the source on every run. The go/ast syntax tree of ParseValidNameKV is "
                "REGENERATED FROM /repo ON EVERY RUN and, under a stated semantics of the Go forms it uses (strings.Index, slices with run-time bounds, len, "
                "regexp match, concatenation), proved to compute the model's parse_kv on every byte string; likewise ValidNamesSplit (fast path, the quote-aware "
                "for loop with its continue statements, the byte stack) is proved to compute names_split for every text and one-byte separator; GenValidKV (pooled builder, switch on the key, guarded byte indexing) computes gen_kv for every key and value list, and RM.Set / RM.Get (range over strings.Split, v, ok := m[k], m[k] += x) compute rm_set / rm_get for every rule map — every stage of the round-trip pipeline is the source text's.",
        "design_ref": "DESIGN.md section 5, C14",
        "note": "Trusted: Coq kernel + vm_compute; the Go translator (constants, IncludeZhRe; minigo.go, one constructor per go/ast node) and the semantics of "
                "Model/GoParse.v and Model/GoSplit.v (internal/stack.go as modelled; UnsafeBytes2Str read as string()); the correspondence harness. The Go map of RM is the model's association list (only Get observes it); the pooled strings.Builder is the text written so far. "
                "'|' inside a value is excluded (known finding D14, theorem C14_bar_in_value_refuted).",
        "technique": "Coq proof (induction over strings / rule lists) + source-to-Gallina translator with an interpreter proved equal to the model + model-vs-implementation correspondence evaluated in Coq",
    },
}

_NOT_YET = "not yet built in this session (the design is in DESIGN.md section 5); no check is registered, nothing is claimed"
NOT_APPLICABLE = {("C%02d" % i): _NOT_YET for i in range(1, 21)}

# streams added after the seeded-change rounds (inserted before the "distinct ..." sentence of each rule text)
_ADDED_STREAMS = {
    "C01": "(C) strings whose BYTE length sits at a bound while they have fewer characters; (D) characters of four bytes (emoji, CJK extension B) with bounds at n, n+-1, 3n, 4n.",
    "C02": "Messages may end in blanks or semicolons (bytes of the separator). A repeated-type stream validates the same synthesised type three times (with a per-call override, plainly, again); cross-field groups (four-member botheq, groups over slices / maps / structs / pointers, int-keyed maps of objects) are included; pointers whose outer level is set and an inner level nil.",
    "C03": "Also: non-nil pointers to zero scalars (required is satisfied), URL keys that occur several times with the empty / invalid occurrence first or last.",
    "C05": "Directed catalogues: number-like strings (signs, exponents, blanks, radix prefixes, full-width digits, > 19 digits) through int / float / ints / phone; phone / e-mail / id-card near-misses; decimal options met by float32 / float64 values incl. tiny and huge magnitudes; file / dir on links, a dangling link, a missing path, trailing slashes; a quoted rule followed by a second rule on the same value.",
    "C06": "Keys that end with another key (xvalid / valid) carrying the same value; files that start with a byte order mark; empty declaration groups.",
    "C09": "The same with keys / values of other dynamic types (strings and slices; the nil key, pointers, structs holding a slice), exhaustive at length 3 and in the random runs; a panic inside the cache is recorded.",
    "C10": "Scripted races: a full cache, one call per goroutine released together (Load / Store / Delete / Len of resident and new keys, capacity 0 included), then Len, Dump and a Load of every key; histories of equal shape are emitted once; every run has a deadlock watchdog.",
    "C11": "The call mix includes re rules with a pattern no earlier call used and rejected calls (nil input) that carry a rule set.",
    "C12": "The call mix includes re rules with a pattern no earlier call used and rejected calls (nil / typed-nil input) that carry a rule set.",
    "C13": "A directed catalogue puts every seed rule text on a non-empty value through each entry point; every whole-string rule meets strings of 63..513 bytes (six fillers); botheq groups over slices / maps / funcs / structs / interfaces; maps keyed by a named string type.",
    "C15": "A directed grid crosses every rule with one-byte / one-character messages, messages with quotes, messages that quote the labels, '=', ';' and a trailing blank.",
    "C16": "Also: per-call functions named like the extension rules required / exist; a self-referential type (pointer to and slice of itself) as outermost object; two different types that print the same name (packages orders/pb and users/pb).",
    "C17": "WGS2 adds an int-keyed map of objects, a four-member botheq group with the mismatch anywhere, botheq over slices / maps / structs / pointers; URL members of blanks only or differing by a trailing blank.",
    "C18": "Specimens include strings with blanks, '+', '%', a tab, four-byte characters and a float32 that is no dyadic fraction; the zero value of every specimen goes through all presentations (nothing may be reported); the struct presentation is sometimes primed by a call with another rule for the same field.",
    "C19": "Generated files may start with a byte order mark and contain empty declaration groups.",
}
_PRIMING = ("Before one measured call in three the harness makes unrelated calls and drops their results: refused calls (nil / unsupported source) "
            "that carry rules, accepted calls with a do-nothing function under every built-in rule name, the exported text helpers on rare branches; "
            "state surviving in a pool, cache or buffer shows as a foreign or missing clause.")
_ROUND5 = {
    "C01": "Slices with spare capacity and re-sliced windows (the measure is the length); every clause of the result must belong to the case's one rule instance. " + _PRIMING,
    "C02": "Directed shapes: arrays of structs (all zero / half zero / non-zero), maps of structs keyed by bool / float64 / int8 / uint16, pointers to pointers to structs, embedded named scalars and an embedded struct; non-JSON strings of 255 / 256 / 257 bytes under json. " + _PRIMING,
    "C03": "Directed shapes under required / exist: arrays of structs, maps of structs keyed by other kinds, pointers to pointers (inner level set, nil, outer nil), embedded fields. " + _PRIMING,
    "C04": "Directed shapes: arrays of structs (all zero skipped under exist), maps of structs keyed by bool / float64 / int8 / uint16 (the key is part of the path), pointers to pointers, embedded fields. " + _PRIMING,
    "C05": "Separator characters inside e-mail parts (comma, star, brackets, slash, quote). " + _PRIMING,
    "C06": "The directory handed to -d has a name a glob would interpret (d[v1], d*x, d?).",
    "C08": "A ninth cache configuration lets a second caller of the same type run to completion from inside Store; a per-call override together with a per-call function (StructForFns with a tag). " + _PRIMING,
    "C09": "In the third presentation the abstract value 2 is stored as the nil interface.",
    "C11": _PRIMING,
    "C12": _PRIMING,
    "C13": "Closed invalid regular expressions (re='[', re='a(b' ...) occur several times per process. " + _PRIMING,
    "C15": "Rules whose argument has CJK characters with ASCII messages; file / dir against existing paths of the other sort and missing paths. " + _PRIMING,
    "C16": _PRIMING,
    "C17": "Empty group members written as bare URL keys (no '='). " + _PRIMING,
    "C18": "Every string specimen x each of its rules x every spelling of the value in a query (QueryEscape, %20, raw); a specimen with a blank inside; embedded named scalars against Var on the scalar. " + _PRIMING,
    "C20": "Named numeric types with String() / Error() methods and time.Duration as fields, elements and map keys; unexported fields whose names start with a non-ASCII lower-case letter.",
}
_ROUND6 = {
    "C01": "Text that is not well-formed UTF-8 (stray continuation bytes, truncated sequences, surrogates) with bounds at the character count and +-1.",
    "C02": "One stage runs directed shapes and group cases under another clause separator (valid.ErrEndFlag is a variable), judged on the Go side.",
    "C03": "Escaped '#' inside and at the start of URL values.",
    "C04": "Containers (slice, array, map) of pointers to pointers to structs under required / exist.",
    "C08": "A function registered globally (new name; name of a built-in) after the type was cached; eight never-used tag names first used at the same moment on one type (200 rounds per cache configuration).",
    "C09": "Requested capacities above the default one (513, 700) with more live keys than that.",
    "C12": "The Struct wrapper is called with decoy rule sets behind the real one; priming has a fourth order ending in 70 validations through the 'pointer to a non-struct' exits.",
    "C13": "150 rounds (1500 thorough) of eight callers meeting a wide fresh type at once: a panic or a missing error is a violation.",
    "C16": "Per-call entries holding a nil function under built-in, global, per-call-only and unknown names.",
    "C17": "A field that is first member of an either group and of a botheq group; group ids that contain the other kind's name.",
    "C18": "Rule arguments that end with a blank as the last thing in the rule text.",
    "C20": "A panic of the dumper is recovered and reported with its input.",
}
_ROUND7 = {
    "C02": "Group objects (nested by value, in a slice) FOLLOWED by fields with violated ordinary rules, compared in order: the group clauses still come last.",
    "C03": "Empty but non-nil slices under size rules (ge / eq / to / gt): not the zero value, so the rule is evaluated and fires (struct field and single variable); the nil slice of the same type is skipped.",
    "C12": "Inputs are copied deeply before each call (slices, arrays, maps, struct fields) and compared afterwards; slices whose elements are out of order under unique (variable and struct field).",
    "C15": "Messages with '%' (format verbs) in the directed grid, which now meets every entry point (variable, struct, map) with every message shape.",
    "C13": "A declared type with tagged unexported fields whose names start with a caseless character (underscore, a CJK ideograph) under rules whose functions call Interface(): never validated, never a panic.",
    "C20": "A type with a blank field and unexported fields whose names start with an underscore or a CJK ideograph: hidden, as for the standard encoder.",
    "C16": "Before one struct call in four: refused calls (nil source, typed nil pointer of the measured object's own type) carrying an unscoped rule set and a rule set for that very type, over its own field names.",
}
for _p, _t in _ROUND7.items():
    _ROUND6[_p] = (_ROUND6.get(_p, "") + " " + _t).strip()
for _p, _t in _ROUND6.items():
    _ROUND5[_p] = (_ROUND5.get(_p, "") + " " + _t).strip()
for _p, _t in _ROUND5.items():
    _ADDED_STREAMS[_p] = (_ADDED_STREAMS.get(_p, "") + " " + _t).strip()
for _p, _t in _ADDED_STREAMS.items():
    _r = PROPS[_p]["rule"]
    _i = _r.rfind("A case is") if "A case is" in _r else _r.rfind(" distinct")
    PROPS[_p]["rule"] = (_r[:_i].rstrip() + " " + _t + " " + _r[_i:].lstrip()) if _i >= 0 else _r + " " + _t
