"""Per-property configuration of bin/check."""

ORACLES = "oracles (behaviour trusted, use modelled): "

PROPS = {
    "C14": {
        "run": "Run.Run_C14",
        "rule": "cases = corpus (witnesses of repaired defects, documented examples) + generated: ParseValidNameKV on structured "
                "key[=value][|msg] texts, mixed ASCII/CJK/invalid-UTF-8 words and raw bytes; ValidNamesSplit with ',' '/' and random "
                "separator bytes on quote-dense strings; GenValidKV on every rule key x 0..3 arguments (empty, leading '=', quotes); "
                "RM.Set/Get sequences; structured rule lists through builder->Set->Get->split->parse. A case is non-trivial/distinct by its "
                "cell = (function, input class, number of '=' / '|' / quotes / separators (capped), label kind, number of pieces or rule-shape string).",
        "trusted": ["translator: constants ExplainEn/ExplainZh/rule names and regexp IncludeZhRe (regexp/syntax tree -> Gallina)",
                    "correspondence: Go driver c14.go, Run/Run_C14.v comparison functions, bin/check"],
        "assumptions": ["Go's regexp engine agrees with the Brzozowski matcher on IncludeZhRe (tested by every ParseValidNameKV case)",
                        "strings.Index/Split/Join as modelled in Base/GoStr.v (tested by the same cases)"],
    },
    "C09": {
        "run": "Run.Run_C09", "subindex": True,
        "rule": "bounded-exhaustive: every operation sequence of the stated length over 3 keys x 2 values x {Store,Load,Delete,Len} on capacities 0..4, "
                "observed step by step (outputs, callback log, final Dump order) and recomputed inside Coq from the model and from the abstract LRU; "
                "plus random sequences of thousands of operations (capacities 0..8, 2..12 keys) that cross the map-rebuild threshold, and a "
                "default-capacity run with 1500 keys. distinct_nontrivial counts (capacity, first operation) blocks and random configurations; "
                "the exhaustive sequence count is in distribution.",
        "trusted": ["translator: lruSize", "correspondence: Go driver c09.go, Run/Run_C09.v, bin/check"],
        "assumptions": ["container/list and Go maps behave as the list / association-list model (tested by every case)",
                        "keys and values of the harness are small integers; the model is parametric in them"],
    },
    "C10": {
        "run": "Run.Run_C10", "race": True,
        "rule": "worker processes built with -race run 2..16 goroutines issuing random Store/Load/Delete/Len/Dump streams (small and large key sets, "
                "capacities 0..8); small recorded histories (<= 8 calls, invoke/return stamps from one atomic counter) are checked for "
                "linearizability inside Coq against the sequential model and against the abstract LRU; every run is checked at quiescence "
                "(0 <= Len <= cap, Dump lines = Len); race reports, panics and timeouts are violations. distinct cell = (kind, capacity, goroutines, "
                "events, overlapping calls / final length).",
        "trusted": ["translator: lock/field summary of cache.go (classification table in harness/cmd/extract/lru.go)",
                    "correspondence: Go driver c10.go (history recording), Run/Run_C10.v, bin/check",
                    "Go race detector as the search for concrete racy schedules"],
        "assumptions": ["PARTIAL: Go memory model, sync.RWMutex internals and the scheduler are outside the model",
                        "the deletion callback is not re-entrant (granted by the property)",
                        "SetDelCallBackFn is configuration, called before concurrent use"],
    },
    "C01": {
        "run": "Run.Run_C01",
        "rule": "(A) complete sweep: all 255 non-zero values of int8 and of uint8 x every bound (bound pair for to/oto) of a window x the 8 rules, through "
                "valid.Var; the Coq side recomputes the verdict tables from the model and from the interval spec. (B) boundary generator: kinds "
                "{string ASCII/CJK/invalid UTF-8, int8..int64, int, uint8..uint64, uint, float32, float64, slice} x rule x bounds (negative, 0, lo>hi, "
                "+-2^31, +-2^53, int64 extremes) x measures at bound-1, bound, bound+1 (+-0.5 and +-ulp for floats) x entry points (Var, struct field, "
                "map entry, URL parameter raw and percent-encoded); every instance carries a unique marker message. distinct cell = (rule, kind "
                "class, position of the measure relative to both bounds, entry point) plus one cell per sweep table.",
        "trusted": ["translator: rule table validName2FnMap, rule-name constants", "correspondence: Go driver c01.go + walkcommon.go, Run/Run_C01.v, Run/Run_Walk.v, bin/check",
                    "oracle: decimal rendering of floats (strconv.FormatFloat) supplied by the harness for the echo only"],
        "assumptions": ["float bounds beyond 2^53 and NaN / infinities are outside the property's domain (float64(min) would round)",
                        "bound text beyond int64 is outside 'integer bounds'",
                        "map[string]interface{} presentation: known finding C18-iface-map-values"],
    },
}

LEVELS = {
    "C01": {
        "text": "Theorems in Coq: for every rule text whose bounds parse, every object/field name and every non-zero value of a sized kind, each of the 8 "
                "rule functions writes a clause exactly when the measure (rune count / exact integer or dyadic value / slice length) lies outside the "
                "stated set, and at most one clause; the verdict depends on the measure only (width, signedness irrelevant). A finite 8-bit sweep "
                "through the rule text is proved by computation. Model tied to the code by the complete 8-bit sweep and boundary cases evaluated in Coq.",
        "design_ref": "DESIGN.md section 5, C01",
        "note": "Trusted: Coq kernel + vm_compute; translator (rule table); correspondence harness; reflect/strconv/utf8 modelled at the calls used. "
                "The parse of builder-written bound text (Itoa/Atoi round trip) is covered by the finite sweep theorem and the correspondence, not by an unbounded lemma.",
        "technique": "Coq proof (case analysis + linear arithmetic over Z, finite sweep by vm_compute) + model-vs-implementation correspondence evaluated in Coq",
    },
    "C10": {
        "text": "Theorems in Coq about an interleaving semantics with a reader/writer lock: the lock/field summary of every LRUCache method is "
                "regenerated from cache.go on every run and must pass race_freeb (proved sound for all schedules and any number of threads); under "
                "it every execution of a snapshot/commit machine (which exhibits lost updates and stale reads when exclusion fails) is linearizable "
                "in commit order and its shared state satisfies C09's invariants. Recorded real histories are checked in Coq by a checker proved sound; "
                "real data races are searched with the race detector.",
        "design_ref": "DESIGN.md section 5, C10",
        "note": "PARTIAL: the Go memory model, sync.RWMutex and the scheduler are not modelled; the translator's read/write classification is trusted; "
                "deadlock freedom is argued (one lock, no nested acquisition) and searched by timeouts, not proved.",
        "technique": "Coq proof over all interleavings of a lock-discipline model extracted from source + linearizability checking of recorded histories in Coq + race detector",
    },
    "C09": {
        "text": "Refinement proofs in Coq: the line-by-line model of cache.go refines an abstract most-recent-first list, which refines an order-free "
                "timestamp specification (evict the entry with the oldest store-or-load), for every operation history and every capacity >= 0, by "
                "induction over the history with a 7-clause coupling invariant; corollaries: bound, Len exactness, callback log. The model is tied to "
                "the code by exhaustive short histories and long random ones evaluated in Coq.",
        "design_ref": "DESIGN.md section 5, C09",
        "note": "Trusted: Coq kernel + vm_compute; translator (lruSize); correspondence harness. container/list and the Go map are modelled, not verified.",
        "technique": "Coq refinement proof (two layers, induction over histories) + bounded-exhaustive and random model-vs-implementation correspondence",
    },
    "C14": {
        "text": "Theorems in Coq about an executable model of ParseValidNameKV / ValidNamesSplit / GenValidKV / RM.Set/Get: no-loss law for "
                "every byte string, quoted commas never split, builder text, parser round trip and the whole list pipeline for every "
                "well-formed rule list (unbounded). The model is tied to the code by evaluating it inside Coq on the harness's cases next to the "
                "observed outputs, and the label/regex constants are regenerated from the source on every run.",
        "design_ref": "DESIGN.md section 5, C14",
        "note": "Trusted: Coq kernel + vm_compute; the Go translator (constants, IncludeZhRe); the correspondence harness. The model is hand-written "
                "(not a compilation of the Go source). '|' inside a value is excluded (known finding D14, theorem C14_bar_in_value_refuted).",
        "technique": "Coq proof (induction over strings / rule lists) + model-vs-implementation correspondence evaluated in Coq",
    },
}

_NOT_YET = "not yet built in this session (the design is in DESIGN.md section 5); no check is registered, nothing is claimed"
NOT_APPLICABLE = {("C%02d" % i): _NOT_YET for i in range(1, 21)}
