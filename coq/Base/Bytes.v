(* Bytes.v — byte strings as lists of N (each < 256), literals, packed case-file encoding.
   Model files contain no proofs about the code; this file has a few generic list lemmas. *)
From Coq Require Export List NArith ZArith Lia Bool Arith.
From Coq Require Import Uint63 Ascii String.
Export ListNotations.

Notation byte := N (only parsing).
Notation str := (list N) (only parsing).

Fixpoint str_eqb (a b : str) : bool :=
  match a, b with
  | [], [] => true
  | x :: a', y :: b' => N.eqb x y && str_eqb a' b'
  | _, _ => false
  end.

Lemma str_eqb_eq a b : str_eqb a b = true <-> a = b.
Proof.
  revert b; induction a as [|x a IH]; intros [|y b]; cbn; split; intros H;
    try discriminate; try reflexivity.
  - apply andb_prop in H as [H1 H2]. apply N.eqb_eq in H1. apply IH in H2. congruence.
  - inversion H; subst. rewrite N.eqb_refl. cbn. now apply IH.
Qed.

Lemma str_eqb_refl a : str_eqb a a = true.
Proof. now apply str_eqb_eq. Qed.

(* literals: [s2b "explain:"] ; Coq keeps the UTF-8 bytes of the source text *)
Fixpoint s2b (s : string) : str :=
  match s with
  | EmptyString => []
  | String a r => N_of_ascii a :: s2b r
  end.
Arguments s2b s%string.
Export String.StringSyntax.

(* ---- packed encoding used only by generated case files ----
   one primitive int holds up to 7 bytes, little end first, with a sentinel 1 bit above them *)
Fixpoint unpack1 (fuel : nat) (x : int) : str :=
  match fuel with
  | O => []
  | S f => if Uint63.leb x 1 then []
           else Z.to_N (Uint63.to_Z (Uint63.land x 255)) :: unpack1 f (Uint63.lsr x 8)
  end.

Definition unpack (l : list int) : str := flat_map (unpack1 8) l.
Definition bs := unpack.

(* generic option / list helpers used by all models *)
Definition opt_eqb {A} (eqb : A -> A -> bool) (a b : option A) : bool :=
  match a, b with
  | None, None => true
  | Some x, Some y => eqb x y
  | _, _ => false
  end.

Fixpoint list_eqb {A} (eqb : A -> A -> bool) (a b : list A) : bool :=
  match a, b with
  | [], [] => true
  | x :: a', y :: b' => eqb x y && list_eqb eqb a' b'
  | _, _ => false
  end.

Lemma list_eqb_eq {A} (eqb : A -> A -> bool) :
  (forall x y, eqb x y = true <-> x = y) ->
  forall a b, list_eqb eqb a b = true <-> a = b.
Proof.
  intros He a. induction a as [|x a IH]; intros [|y b]; cbn; split; intros H;
    try discriminate; try reflexivity.
  - apply andb_prop in H as [H1 H2]. apply He in H1. apply IH in H2. congruence.
  - inversion H; subst. apply andb_true_intro. split; [now apply He|now apply IH].
Qed.

(* result of a computation that may panic (Go run-time panic) or run out of model fuel *)
Inductive res (A : Type) : Type :=
| Ok (a : A)
| Panic (why : str)
| OutOfFuel.
Arguments Ok {A} a.
Arguments Panic {A} why.
Arguments OutOfFuel {A}.

Definition bind {A B} (m : res A) (f : A -> res B) : res B :=
  match m with
  | Ok a => f a
  | Panic w => Panic w
  | OutOfFuel => OutOfFuel
  end.
Notation "x <- m ;; k" := (bind m (fun x => k)) (at level 61, m at next level, right associativity).

Definition is_ok {A} (m : res A) : bool := match m with Ok _ => true | _ => false end.
Definition is_panic {A} (m : res A) : bool := match m with Panic _ => true | _ => false end.
