(* Url.v — net/url.QueryUnescape: %XX decoding, '+' becomes a space; an incomplete or non-hex
   escape is an error (the error text quotes the offending bytes). *)
From PGV Require Import Base.Bytes.
Open Scope N_scope.

Definition hexval (c : byte) : option N :=
  if (48 <=? c) && (c <=? 57) then Some (c - 48)
  else if (97 <=? c) && (c <=? 102) then Some (c - 87)
  else if (65 <=? c) && (c <=? 70) then Some (c - 55)
  else None.

(* first pass of Go's unescape: validate every '%' ; returns the offending text on failure *)
Fixpoint check_escapes (s : str) : option str :=
  match s with
  | [] => None
  | c :: r =>
    if c =? 37 then
      match r with
      | a :: b :: r' => match hexval a, hexval b with
                        | Some _, Some _ => check_escapes r'
                        | _, _ => Some [37; a; b]
                        end
      | _ => Some (37 :: r)      (* s = s[i:] when fewer than 3 bytes remain *)
      end
    else check_escapes r
  end.

(* second pass (only reached when the first found no bad escape) *)
Fixpoint decode_escapes (s : str) : str :=
  match s with
  | [] => []
  | c :: r =>
    if c =? 37 then
      match r with
      | a :: b :: r' => match hexval a, hexval b with
                        | Some x, Some y => (x * 16 + y) :: decode_escapes r'
                        | _, _ => 37 :: a :: b :: decode_escapes r'     (* unreachable after check_escapes *)
                        end
      | _ => 37 :: r                                                     (* unreachable *)
      end
    else if c =? 43 then 32 :: decode_escapes r
    else c :: decode_escapes r
  end.

(* inl decoded | inr offending escape *)
Definition query_unescape (s : str) : str + str :=
  match check_escapes s with
  | Some bad => inr bad
  | None => inl (decode_escapes s)
  end.
