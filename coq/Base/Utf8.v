(* Utf8.v — Go's unicode/utf8 decoding (DecodeRuneInString): an invalid or short sequence is
   the rune U+FFFD of width 1.  []rune(s), utf8.RuneCountInString(s) and the regexp engine's
   input stepping all follow this function. *)
From PGV Require Import Base.Bytes.
Open Scope N_scope.

Notation rune := N (only parsing).
Definition RuneError : rune := 65533.

Definition cont (b : byte) : bool := (128 <=? b) && (b <=? 191).

(* returns (rune, width) for a non-empty input *)
Definition decode1 (s : str) : rune * nat :=
  match s with
  | [] => (RuneError, 0%nat)
  | p0 :: r =>
    if p0 <? 128 then (p0, 1%nat)
    else if (p0 <? 194) || (244 <? p0) then (RuneError, 1%nat)
    else if p0 <? 224 then (* 2 bytes *)
      match r with
      | b1 :: _ => if cont b1 then ((p0 - 192) * 64 + (b1 - 128), 2%nat) else (RuneError, 1%nat)
      | _ => (RuneError, 1%nat)
      end
    else if p0 <? 240 then (* 3 bytes *)
      match r with
      | b1 :: b2 :: _ =>
        let lo := if p0 =? 224 then 160 else 128 in
        let hi := if p0 =? 237 then 159 else 191 in
        if (lo <=? b1) && (b1 <=? hi) && cont b2
        then ((p0 - 224) * 4096 + (b1 - 128) * 64 + (b2 - 128), 3%nat)
        else (RuneError, 1%nat)
      | _ => (RuneError, 1%nat)
      end
    else (* 4 bytes *)
      match r with
      | b1 :: b2 :: b3 :: _ =>
        let lo := if p0 =? 240 then 144 else 128 in
        let hi := if p0 =? 244 then 143 else 191 in
        if (lo <=? b1) && (b1 <=? hi) && cont b2 && cont b3
        then ((p0 - 240) * 262144 + (b1 - 128) * 4096 + (b2 - 128) * 64 + (b3 - 128), 4%nat)
        else (RuneError, 1%nat)
      | _ => (RuneError, 1%nat)
      end
  end.

Fixpoint decode_fuel (fuel : nat) (s : str) : list rune :=
  match fuel with
  | O => []
  | S f =>
    match s with
    | [] => []
    | _ => let '(r, w) := decode1 s in r :: decode_fuel f (skipn w s)
    end
  end.
Definition decode (s : str) : list rune := decode_fuel (length s) s.
Definition rune_count (s : str) : nat := length (decode s).

(* utf8.EncodeRune for valid scalar values (surrogates and > 0x10FFFF give U+FFFD's encoding) *)
Definition encode1 (r : rune) : str :=
  if r <? 128 then [r]
  else if r <? 2048 then [192 + r / 64; 128 + r mod 64]
  else if ((55296 <=? r) && (r <=? 57343)) || (1114111 <? r) then [239; 191; 189]
  else if r <? 65536 then [224 + r / 4096; 128 + (r / 64) mod 64; 128 + r mod 64]
  else [240 + r / 262144; 128 + (r / 4096) mod 64; 128 + (r / 64) mod 64; 128 + r mod 64].
Definition encode (rs : list rune) : str := flat_map encode1 rs.
