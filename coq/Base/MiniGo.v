(* MiniGo.v — the abstract syntax the translator (harness/cmd/extract/minigo.go) emits for selected
   functions of /repo: a direct image of go/ast for the statement and expression forms those
   functions use.  Anything else becomes EOther / SOther, which no interpreter gives a meaning to,
   so an obligation about a function that starts to use such a form fails.  Interpreters live with
   the models they are compared with (Model/GoSize.v, Model/GoLRU.v). *)
From Coq Require Import String.
From PGV Require Import Base.Bytes.

Inductive expr :=
| EId (x : string)                           (* identifier: variable, constant, true, false, nil *)
| ELit (z : Z)                               (* integer or character literal *)
| EStr (s : str)                             (* string literal, unquoted *)
| ECall (f : expr) (args : list expr)        (* f(args); a conversion T(x) is a call of EId "T" *)
| ESel (e : expr) (name : string)            (* e.name *)
| EIndex (e i : expr)                        (* e[i] *)
| ESlice (e : expr) (lo hi : option expr)    (* e[lo:hi] *)
| EBin (op : string) (a b : expr)
| EUn (op : string) (a : expr)
| EFuncRet (params : list string) (ret : expr)   (* func(params) R { return ret } *)
| EOther (what : string).

Inductive stmt :=
| SAssign (define : bool) (lhs rhs : list expr)      (* a, b := x, y   /   a, b = x, y *)
| SOpAssign (op : string) (lhs rhs : expr)           (* a += x *)
| SIncDec (inc : bool) (e : expr)                    (* e++ / e-- *)
| SIf (init : list stmt) (c : expr) (th el : list stmt)
| SSwitch (init : list stmt) (tag : option expr) (cases : list (list expr * list stmt))  (* default: no exprs *)
| STypeSwitch (bind : option string) (x : expr) (cases : list (list string * list stmt))   (* switch v := x.(type); default: no types *)
| SReturn (es : list expr)
| SExpr (e : expr)
| SFor (init : list stmt) (cond : option expr) (post : list stmt) (body : list stmt)
| SRange (k v : option string) (define : bool) (coll : expr) (body : list stmt)
| SBreak
| SContinue
| SDefer (e : expr)
| SVar (names : list string) (ty : string) (vals : list expr)
| SBlock (l : list stmt)
| SFuncDef (name : string) (params : list string) (body : list stmt)     (* name := func(params) R { body } *)
| SOther (what : string).

Record fn := {
  fn_name : string;
  fn_recv : option string;          (* receiver variable *)
  fn_params : list (string * string);    (* name, type text; a variadic parameter has type "...T" *)
  fn_results : list (string * string);   (* named results ("" when unnamed), type text *)
  fn_body : list stmt
}.
