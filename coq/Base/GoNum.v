(* GoNum.v — strconv.Atoi / Itoa / FormatInt / FormatUint and the int64/uint64 conversions
   of Go on a 64-bit platform, over unbounded Z with the wrap written explicitly. *)
From PGV Require Import Base.Bytes.
Open Scope Z_scope.

Definition MaxInt64 : Z := 9223372036854775807.
Definition MinInt64 : Z := -9223372036854775808.
Definition two64 : Z := 18446744073709551616.
Definition in_int64 (z : Z) : bool := (MinInt64 <=? z) && (z <=? MaxInt64).

(* uint64(x) for an int x *)
Definition wrap64 (z : Z) : Z := z mod two64.

Definition is_digit (b : byte) : bool := (48 <=? b)%N && (b <=? 57)%N.

Fixpoint digits_val (acc : Z) (s : str) : option Z :=
  match s with
  | [] => Some acc
  | c :: r => if is_digit c then digits_val (acc * 10 + Z.of_N (c - 48)) r else None
  end.

(* strconv.Atoi: (value, error?).  On a syntax error the value is 0; on a range error the
   value is clamped to the int64 extremes (Atoi returns ParseInt's clamped result). *)
Definition atoi (s : str) : Z * bool :=
  match s with
  | [] => (0, true)
  | c :: r =>
    let '(neg, ds) := if (c =? 45)%N then (true, r) else if (c =? 43)%N then (false, r) else (false, s) in
    match ds with
    | [] => (0, true)
    | _ => match digits_val 0 ds with
           | None => (0, true)
           | Some v => let z := if neg : bool then - v else v in
                       if in_int64 z then (z, false)
                       else (if neg then MinInt64 else MaxInt64, true)
           end
    end
  end.

Fixpoint itoa_pos (fuel : nat) (n : N) (acc : str) : str :=
  match fuel with
  | O => acc
  | S f => let d := (48 + n mod 10)%N in
           if (n <? 10)%N then d :: acc else itoa_pos f (n / 10)%N (d :: acc)
  end.
Definition utoa (n : N) : str := itoa_pos (S (N.to_nat (N.log2 n))) n [].
Definition itoa (z : Z) : str :=
  if z <? 0 then 45%N :: utoa (Z.to_N (- z)) else utoa (Z.to_N z).
