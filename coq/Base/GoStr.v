(* GoStr.v — the functions of Go's package strings that the repository calls, on byte lists.
   Each is checked against the real call by the "stdlib conformance" stream of the harness. *)
From PGV Require Import Base.Bytes.

(* strings.IndexByte *)
Fixpoint index_byte (c : byte) (s : str) : option nat :=
  match s with
  | [] => None
  | x :: r => if N.eqb x c then Some 0 else option_map S (index_byte c r)
  end.

(* strings.LastIndexByte *)
Fixpoint last_index_byte (c : byte) (s : str) : option nat :=
  match s with
  | [] => None
  | x :: r => match last_index_byte c r with
              | Some n => Some (S n)
              | None => if N.eqb x c then Some 0 else None
              end
  end.

(* strings.HasPrefix *)
Fixpoint has_prefix (s p : str) : bool :=
  match p, s with
  | [], _ => true
  | c :: p', x :: s' => N.eqb x c && has_prefix s' p'
  | _ :: _, [] => false
  end.

(* strings.Index (sub may be empty: index 0) *)
Fixpoint index (sub s : str) : option nat :=
  if has_prefix s sub then Some 0 else
  match s with
  | [] => None
  | _ :: r => option_map S (index sub r)
  end.

Definition contains (s sub : str) : bool :=
  match index sub s with Some _ => true | None => false end.

Definition has_suffix (s p : str) : bool := has_prefix (rev s) (rev p).

Definition trim_suffix (s p : str) : str :=
  if has_suffix s p then firstn (length s - length p) s else s.

(* strings.Split(s, sep) for a non-empty separator; len(sep)=0 is outside the model
   (the repository never passes an empty separator: parseTagTo "~", RM.Set ",", Url "&" "=",
   Datetime ",", Unique ",", Ints: the value of the rule or ",") *)
Fixpoint split_go (fuel : nat) (sep : str) (cur : str) (s : str) : list str :=
  match fuel with
  | O => [rev cur ++ s]
  | S f =>
    match s with
    | [] => [rev cur]
    | c :: s' => if has_prefix s sep then rev cur :: split_go f sep [] (skipn (length sep) s)
                 else split_go f sep (c :: cur) s'
    end
  end.
Definition split (s sep : str) : list str := split_go (S (length s)) sep [] s.

(* one-byte separator, structural *)
Fixpoint split1 (sep : byte) (cur : str) (s : str) : list str :=
  match s with
  | [] => [rev cur]
  | c :: s' => if N.eqb c sep then rev cur :: split1 sep [] s'
               else split1 sep (c :: cur) s'
  end.

Fixpoint join1 (sep : byte) (l : list str) : str :=
  match l with
  | [] => []
  | [x] => x
  | x :: l' => x ++ sep :: join1 sep l'
  end.

Fixpoint join (sep : str) (l : list str) : str :=
  match l with
  | [] => []
  | [x] => x
  | x :: l' => x ++ sep ++ join sep l'
  end.

(* strings.Trim(s, cutset) for an ASCII cutset *)
Fixpoint trim_left (cut : list byte) (s : str) : str :=
  match s with
  | [] => []
  | c :: r => if existsb (N.eqb c) cut then trim_left cut r else s
  end.
Definition trim (cut : list byte) (s : str) : str :=
  rev (trim_left cut (rev (trim_left cut s))).

(* Go slicing s[a:b] with its bounds panic; s[a:] is slice_from *)
Definition slice (s : str) (a b : Z) : res str :=
  if (0 <=? a)%Z && (a <=? b)%Z && (b <=? Z.of_nat (length s))%Z
  then Ok (firstn (Z.to_nat (b - a)) (skipn (Z.to_nat a) s))
  else Panic (s2b "slice bounds out of range").
Definition slice_from (s : str) (a : Z) : res str := slice s a (Z.of_nat (length s)).

(* ---- lemmas ---- *)
Lemma join1_cons sep x l : l <> [] -> join1 sep (x :: l) = x ++ sep :: join1 sep l.
Proof. destruct l; [congruence|reflexivity]. Qed.

Lemma split1_nonempty sep cur s : split1 sep cur s <> [].
Proof. revert cur; induction s as [|c s IH]; intros cur; cbn; [congruence|].
  destruct (N.eqb c sep); [congruence|apply IH]. Qed.

Lemma split1_join1 sep cur s : join1 sep (split1 sep cur s) = rev cur ++ s.
Proof.
  revert cur; induction s as [|c s IH]; intros cur; cbn [split1].
  - cbn. now rewrite app_nil_r.
  - destruct (N.eqb_spec c sep) as [->|Hne].
    + rewrite join1_cons by apply split1_nonempty. rewrite IH. reflexivity.
    + rewrite IH. cbn. now rewrite <- app_assoc.
Qed.

Definition nomem (c : byte) (s : str) : bool := forallb (fun x => negb (N.eqb x c)) s.

Lemma index_byte_none c s : nomem c s = true -> index_byte c s = None.
Proof. unfold nomem. induction s as [|x r IH]; cbn; [reflexivity|].
  intros H. apply andb_prop in H as [Hx Hr]. destruct (N.eqb x c); [discriminate|].
  now rewrite IH. Qed.

Lemma index_byte_none_inv c s : index_byte c s = None -> nomem c s = true.
Proof. unfold nomem. induction s as [|x r IH]; cbn; [reflexivity|].
  destruct (N.eqb x c); [discriminate|]. cbn. destruct (index_byte c r); [discriminate|auto]. Qed.

Lemma index_byte_app_hit c a r : nomem c a = true -> index_byte c (a ++ c :: r) = Some (length a).
Proof. unfold nomem. induction a as [|x a IH]; cbn; [now rewrite N.eqb_refl|].
  intros H. apply andb_prop in H as [Hx Hr]. destruct (N.eqb x c); [discriminate|].
  now rewrite IH. Qed.

Lemma index_byte_app_skip c a r : nomem c a = true ->
  index_byte c (a ++ r) = option_map (fun n => length a + n) (index_byte c r).
Proof. unfold nomem. induction a as [|x a IH]; cbn; intros H.
  - destruct (index_byte c r); reflexivity.
  - apply andb_prop in H as [Hx Hr]. destruct (N.eqb x c); [discriminate|].
    rewrite IH by assumption. destruct (index_byte c r); reflexivity. Qed.

Lemma index_byte_some c s n : index_byte c s = Some n ->
  n < length s /\ nomem c (firstn n s) = true /\ nth_error s n = Some c.
Proof.
  revert n; induction s as [|x r IH]; cbn; intros n H; [discriminate|].
  destruct (N.eqb_spec x c) as [->|Hne].
  - inversion H; subst. cbn. repeat split; lia.
  - destruct (index_byte c r) as [m|] eqn:E; [|discriminate]. inversion H; subst.
    destruct (IH m eq_refl) as (Hl & Hn & Hc). cbn. repeat split; [lia| |assumption].
    unfold nomem in *. cbn. rewrite Hn. destruct (N.eqb_spec x c); [contradiction|reflexivity].
Qed.

Lemma firstn_app_len {A} (a b : list A) : firstn (length a) (a ++ b) = a.
Proof. induction a; cbn; congruence. Qed.
Lemma skipn_app_len {A} (a b : list A) n : skipn (length a + n) (a ++ b) = skipn n b.
Proof. induction a; cbn; auto. Qed.
Lemma skipn_app_len0 {A} (a b : list A) : skipn (length a) (a ++ b) = b.
Proof. induction a; cbn; auto. Qed.
