(* SizeSpec.v — what C01 promises: the measure of a value and the eight interval / equality sets,
   stated without reference to the implementation. *)
From PGV Require Import Base.Bytes Base.Utf8 Model.Value.
Open Scope Z_scope.

Inductive srule := RTo | RGe | RLe | ROTo | RGt | RLt | REq | RNoEq.

(* the measure: an integer (rune count, integer value, slice length) or an exact dyadic (float) *)
Inductive meas := MInt (z : Z) | MDyadic (m e : Z).

Definition measure (v : val) : option meas :=
  match v with
  | VStr s => Some (MInt (Z.of_nat (length (decode s))))     (* characters, not bytes *)
  | VInt _ z => Some (MInt z)
  | VUint _ n => Some (MInt n)
  | VFloat _ (FFin m e) _ _ => Some (MDyadic m e)
  | VSlice _ _ _ vs => Some (MInt (Z.of_nat (length vs)))
  | _ => None                                                  (* NaN, infinities, other kinds *)
  end.

(* compare a measure with an integer bound, exactly *)
Definition mcmp (x : meas) (b : Z) : comparison :=
  match x with
  | MInt z => z ?= b
  | MDyadic m e => if 0 <=? e then m * 2 ^ e ?= b else m ?= b * 2 ^ (- e)
  end.
Definition m_lt x b := match mcmp x b with Lt => true | _ => false end.
Definition m_le x b := match mcmp x b with Gt => false | _ => true end.
Definition m_eq x b := match mcmp x b with Eq => true | _ => false end.

(* the stated set: to/ge/le include their bounds, oto/gt/lt exclude them, eq/noeq compare *)
Definition in_set (r : srule) (lo hi : Z) (x : meas) : bool :=
  match r with
  | RTo => m_le x hi && negb (m_lt x lo)
  | RGe => negb (m_lt x lo)
  | RLe => m_le x hi
  | ROTo => m_lt x hi && negb (m_le x lo)
  | RGt => negb (m_le x lo)
  | RLt => m_lt x hi
  | REq => m_eq x lo
  | RNoEq => negb (m_eq x lo)
  end.

(* a value the rules apply to: non-zero, of a sized kind *)
Definition sizeable (v : val) : bool :=
  match v with
  | VStr (_ :: _) => true
  | VInt _ z => negb (z =? 0)
  | VUint _ n => 0 <? n                                       (* unsigned: non-negative by type *)
  | VFloat _ (FFin m _) _ _ => negb (m =? 0)
  | VSlice false _ _ _ => true
  | _ => false
  end.
