(* LRUSpec.v — what C09 promises.  Two layers, both independent of the implementation model:
   (1) the abstract LRU: an association list, most recently used first;
   (2) the timestamp specification: an unordered finite map key -> (value, time of the last store
       or load), where an overflowing insertion removes the entry with the smallest time. *)
From PGV Require Import Base.Bytes.

Notation K := N (only parsing). Notation V := N (only parsing).
Inductive op := OStore (k : K) (v : V) | OLoad (k : K) | ODelete (k : K) | OLen.
Inductive out := RNone | RLoad (r : option V) | RLen (n : Z).

(* ---------- layer 1: abstract LRU ---------- *)
Notation A := (list (N * N)) (only parsing).   (* most recent first *)
Definition a_get (k : K) (a : A) : option V := option_map snd (find (fun p => N.eqb (fst p) k) a).
Definition a_del (k : K) (a : A) : A := filter (fun p => negb (N.eqb (fst p) k)) a.

(* each operation returns the new state and the removal events (key, value) it causes *)
Definition a_store (cap : Z) (k : K) (v : V) (a : A) : A * list (K * V) :=
  match a_get k a with
  | Some _ => ((k, v) :: a_del k a, [])
  | None => let a1 := (k, v) :: a in
            if (cap <? Z.of_nat (length a1))%Z then (removelast a1, [last a1 (k, v)]) else (a1, [])
  end.
Definition a_load (k : K) (a : A) : A * option V :=
  match a_get k a with Some v => ((k, v) :: a_del k a, Some v) | None => (a, None) end.
Definition a_delete (k : K) (a : A) : A * list (K * V) :=
  match a_get k a with Some v => (a_del k a, [(k, v)]) | None => (a, []) end.

Definition a_step (cap : Z) (a : A) (o : op) : A * out * list (K * V) :=
  match o with
  | OStore k v => let '(a', ev) := a_store cap k v a in (a', RNone, ev)
  | OLoad k => let '(a', r) := a_load k a in (a', RLoad r, [])
  | ODelete k => let '(a', ev) := a_delete k a in (a', RNone, ev)
  | OLen => (a, RLen (Z.of_nat (length a)), [])
  end.

Fixpoint a_run (cap : Z) (a : A) (ops : list op) : A * list out * list (K * V) :=
  match ops with
  | [] => (a, [], [])
  | o :: r => let '(a1, x, ev) := a_step cap a o in
              let '(a2, xs, evs) := a_run cap a1 r in (a2, x :: xs, ev ++ evs)
  end.

(* ---------- layer 2: timestamps ---------- *)
Notation T := (list (N * (N * nat))) (only parsing).    (* unordered; keys distinct *)
Definition t_get (k : K) (t : T) : option (V * nat) := option_map snd (find (fun p => N.eqb (fst p) k) t).
Definition t_del (k : K) (t : T) : T := filter (fun p => negb (N.eqb (fst p) k)) t.

(* the entry with the smallest time *)
Fixpoint t_oldest (t : T) : option (K * (V * nat)) :=
  match t with
  | [] => None
  | p :: r => match t_oldest r with
              | Some q => if Nat.ltb (snd (snd q)) (snd (snd p)) then Some q else Some p
              | None => Some p
              end
  end.

Definition t_store (cap : Z) (now : nat) (k : K) (v : V) (t : T) : T * list (K * V) :=
  match t_get k t with
  | Some _ => ((k, (v, now)) :: t_del k t, [])
  | None => let t1 := (k, (v, now)) :: t in
            if (cap <? Z.of_nat (length t1))%Z
            then match t_oldest t1 with
                 | Some (k', (v', _)) => (t_del k' t1, [(k', v')])
                 | None => (t1, [])
                 end
            else (t1, [])
  end.
Definition t_load (now : nat) (k : K) (t : T) : T * option V :=
  match t_get k t with Some (v, _) => ((k, (v, now)) :: t_del k t, Some v) | None => (t, None) end.
Definition t_delete (k : K) (t : T) : T * list (K * V) :=
  match t_get k t with Some (v, _) => (t_del k t, [(k, v)]) | None => (t, []) end.

Definition t_step (cap : Z) (now : nat) (t : T) (o : op) : T * out * list (K * V) :=
  match o with
  | OStore k v => let '(t', ev) := t_store cap now k v t in (t', RNone, ev)
  | OLoad k => let '(t', r) := t_load now k t in (t', RLoad r, [])
  | ODelete k => let '(t', ev) := t_delete k t in (t', RNone, ev)
  | OLen => (t, RLen (Z.of_nat (length t)), [])
  end.

(* operation number n of the history happens at time n *)
Fixpoint t_run (cap : Z) (now : nat) (t : T) (ops : list op) : T * list out * list (K * V) :=
  match ops with
  | [] => (t, [], [])
  | o :: r => let '(t1, x, ev) := t_step cap now t o in
              let '(t2, xs, evs) := t_run cap (S now) t1 r in (t2, x :: xs, ev ++ evs)
  end.
