(* FormatSpec.v — independent recognisers for the languages the documentation gives to the
   format rules (C05).  Written on runes (Go's decoding of the string), no regular expressions. *)
From PGV Require Import Base.Bytes Base.GoStr Base.Utf8.
Open Scope N_scope.

Definition is_digit_r (c : rune) : bool := (48 <=? c) && (c <=? 57).
Definition is_word_r (c : rune) : bool :=          (* \w : [0-9A-Za-z_] *)
  is_digit_r c || ((65 <=? c) && (c <=? 90)) || (c =? 95) || ((97 <=? c) && (c <=? 122)).

(* phone: 11 digits, first 1, second 3..9 *)
Definition phone_spec (s : list rune) : bool :=
  match s with
  | c0 :: c1 :: rest => (c0 =? 49) && ((51 <=? c1) && (c1 <=? 57)) && Nat.eqb (length rest) 9 && forallb is_digit_r rest
  | _ => false
  end.

(* int: a non-empty string of decimal digits *)
Definition digits_spec (s : list rune) : bool :=
  match s with [] => false | _ => forallb is_digit_r s end.

(* float: digits '.' digits *)
Fixpoint index_r (c : rune) (s : list rune) : option nat :=
  match s with
  | [] => None
  | x :: r => if x =? c then Some O else option_map S (index_r c r)
  end.
Definition float_spec (s : list rune) : bool :=
  match index_r 46 s with
  | Some i => digits_spec (firstn i s) && digits_spec (skipn (i + 1) s)
  | None => false
  end.

(* idcard: 15 or 18 digits, or 17 digits followed by a digit, X or x *)
Definition idcard_spec (s : list rune) : bool :=
  (Nat.eqb (length s) 15 && forallb is_digit_r s) ||
  (Nat.eqb (length s) 18 && forallb is_digit_r (firstn 17 s) &&
   forallb (fun c => is_digit_r c || (c =? 88) || (c =? 120)) (skipn 17 s)).

(* words separated by single separator characters: a two-state scanner.
   state true: the last character was a word character; false: a word character is required *)
Fixpoint wordseq_run (isw isc : rune -> bool) (st : bool) (t : list rune) : option bool :=
  match t with
  | [] => Some st
  | c :: r => if isw c then wordseq_run isw isc true r
              else if isc c && st then wordseq_run isw isc false r
              else None
  end.
Definition wordseq (isc : rune -> bool) (t : list rune) : bool :=
  match wordseq_run is_word_r isc false t with Some true => true | _ => false end.

Definition local_sep (c : rune) : bool := (c =? 45) || (c =? 43) || (c =? 46).   (* - + . *)
Definition domain_sep (c : rune) : bool := (c =? 45) || (c =? 46).               (* - . *)

(* email: local@domain; local = words separated by single - + . ; domain = words separated by
   single - . and containing at least one '.' *)
Definition email_spec (s : list rune) : bool :=
  match index_r 64 s with
  | Some i => let l := firstn i s in let d := skipn (i + 1) s in
              wordseq local_sep l && wordseq domain_sep d && existsb (N.eqb 46) d
  | None => false
  end.

(* ---------- the languages of the content rules, over values ---------- *)
From PGV Require Import Model.Value.

Inductive fspec :=
| FPhone | FEmail | FIdCard | FInt | FFloat
| FIn (opts : list str) | FInclude (opts : list str)
| FInts (sep : str) | FUnique
| FPrefix (p : str) | FSuffix (p : str)
| FOracle (ok : bool).       (* ip / ipv4 / ipv6 / dates / re / json / file / dir: the harness's own
                                direct call of the standard library decides membership *)

Definition is_int_kind (v : val) : bool := match v with VInt _ _ | VUint _ _ => true | _ => false end.
Definition is_float_kind (v : val) : bool := match v with VFloat _ _ _ _ => true | _ => false end.

(* the elements of a slice or array, rendered canonically (numbers by their shortest decimal) *)
Definition renderings (v : val) : option (list str) :=
  match v with
  | VSlice _ _ _ vs | VArray _ _ vs => Some (map to_str vs)
  | _ => None
  end.

Fixpoint nodupb (l : list str) : bool :=
  match l with [] => true | x :: r => negb (existsb (str_eqb x) r) && nodupb r end.

(* Some b: the value is / is not in the rule's language; None: the rule does not speak about
   values of this kind (outside the property's domain) *)
Definition in_language (f : fspec) (v : val) : option bool :=
  match f, v with
  | FPhone, VStr s => Some (phone_spec (decode s))
  | FEmail, VStr s => Some (email_spec (decode s))
  | FIdCard, VStr s => Some (idcard_spec (decode s))
  | FInt, VStr s => Some (digits_spec (decode s))
  | FInt, _ => if is_int_kind v then Some true else if is_float_kind v then Some false else None
  | FFloat, VStr s => Some (float_spec (decode s))
  | FFloat, _ => if is_float_kind v then Some true else if is_int_kind v then Some false else None
  | FIn opts, VStr s => Some (existsb (str_eqb s) opts)
  | FIn opts, _ => if is_int_kind v || is_float_kind v then Some (existsb (str_eqb (to_str v)) opts) else None
  | FInclude opts, VStr s => Some (existsb (fun o => contains s o) opts)
  | FInts sep, VStr s => Some (forallb (fun p => digits_spec (decode p)) (split s sep))
  | FInts _, _ => match renderings v with
                  | Some rs => Some (forallb (fun p => digits_spec (decode p)) rs)
                  | None => if is_int_kind v then Some true else None
                  end
  | FUnique, VStr s => Some (nodupb (split1 44%N [] s))
  | FUnique, _ => match renderings v with Some rs => Some (nodupb rs) | None => None end
  | FPrefix p, VStr s => Some (has_prefix s p)
  | FSuffix p, VStr s => Some (has_suffix s p)
  | FOracle ok, VStr _ => Some ok
  | _, _ => None
  end.
