(* ExplainSpec.v — what C15 promises about the explanation extractor: an error is a list of
   clauses; a clause either has an explanation (a prefix, a label, one blank, the explanation) or
   has none; the extractor returns the explanations, in order, joined by the separator. *)
From PGV Require Import Base.Bytes Base.GoStr.

Inductive sclause :=
| Labelled (pre lab msg : str)
| Unlabelled (txt : str).

Definition render1 (c : sclause) : str :=
  match c with
  | Labelled pre lab msg => pre ++ lab ++ 32%N :: msg
  | Unlabelled txt => txt
  end.

Definition explanation (c : sclause) : option str :=
  match c with Labelled _ _ msg => Some msg | Unlabelled _ => None end.

Fixpoint explanations (cs : list sclause) : list str :=
  match cs with
  | [] => []
  | c :: r => match explanation c with Some m => m :: explanations r | None => explanations r end
  end.
