(* InjectSpec.v — what C06 / C07 / C19 promise about the tag injector, stated without reference to
   the implementation's structure (no offsets, no regular expressions, no loops over areas).

   Vocabulary shared with the model: the ABSTRACT Go FILE.  A file is a sequence of elements,
   either raw bytes (package clause, imports, funcs, vars, struct headers, line ends, every field
   the tool does not visit) or one struct field the tool visits, split into the text before its
   tag literal, the items of the literal, the gap, and the trailing comment.  [render] is the
   concrete syntax.  This file imports neither Model/ nor Extracted/. *)
From PGV Require Import Base.Bytes Base.GoStr.
Local Open Scope N_scope.

Definition BT : byte := 96.      (* '`' *)
Definition QUOTE : byte := 34.   (* double quote *)
Definition COLON : byte := 58.
Definition SPACE : byte := 32.
Definition NL : byte := 10.
Definition AT_TAG : str := s2b "@tag ".

(* a tag item key:"body" — here the body is WITHOUT its quotes *)
Notation tagitem := (str * str)%type.
Notation tagitems := (list (str * str)).

Definition keys (l : tagitems) : list str := map fst l.

(* reflect.StructTag.Lookup: first occurrence *)
Fixpoint lookup (k : str) (l : tagitems) : option str :=
  match l with
  | [] => None
  | (k', v) :: r => if str_eqb k' k then Some v else lookup k r
  end.
Definition has_key (k : str) (l : tagitems) : bool :=
  match lookup k l with Some _ => true | None => false end.

(* ---------------- the merge ---------------- *)

(* the property's sentence, clause by clause *)
Record merge_spec (old inj r : tagitems) : Prop := {
  ms_injected  : forall k v, lookup k inj = Some v -> lookup k r = Some v;
     (* for each k of the comment, exactly the value v *)
  ms_untouched : forall k, lookup k inj = None -> lookup k r = lookup k old;
     (* keys the comment does not mention keep their value ... *)
  ms_order     : keys r = keys old ++ filter (fun k => negb (has_key k old)) (keys inj);
     (* ... and position; new keys are appended, in comment order *)
  ms_nodup     : NoDup (keys r)
     (* no key is duplicated *)
}.

(* the function the four clauses determine (uniqueness is proved below) *)
Definition merge (old inj : tagitems) : tagitems :=
  map (fun o => match lookup (fst o) inj with Some v => (fst o, v) | None => o end) old
  ++ filter (fun i => negb (has_key (fst i) old)) inj.

Definition item_eqb (a b : tagitem) : bool := str_eqb (fst a) (fst b) && str_eqb (snd a) (snd b).
Definition merge_specb (old inj r : tagitems) : bool := list_eqb item_eqb r (merge old inj).

(* ---------------- the abstract file ---------------- *)

Inductive comment :=
| CNone                                               (* no trailing comment *)
| CPlain (text : str)                                 (* a comment (with its // or /* */) without "@tag " *)
| CTag (lead : str) (inj : tagitems) (trail : str).   (* lead ++ "@tag " ++ items ++ trail *)

Record field := mkField {
  f_pre : str;                 (* from the field's first byte up to the tag literal: names, type, blanks *)
  f_tag : option tagitems;     (* the items of the `...` literal; None: the field has no tag literal *)
  f_gap : str;                 (* blanks between literal and comment *)
  f_cmt : comment }.

Inductive elem := Raw (b : str) | Fld (fd : field).
Notation gofile := (list elem).

Definition fmt_item (it : tagitem) : str := fst it ++ COLON :: QUOTE :: snd it ++ [QUOTE].
Definition format_items (l : tagitems) : str := join [SPACE] (map fmt_item l).
Definition render_literal (l : tagitems) : str := BT :: format_items l ++ [BT].
Definition render_comment (c : comment) : str :=
  match c with
  | CNone => []
  | CPlain t => t
  | CTag lead inj trail => lead ++ AT_TAG ++ format_items inj ++ trail
  end.
Definition render_field (fd : field) : str :=
  f_pre fd ++ (match f_tag fd with Some l => render_literal l | None => [] end)
           ++ f_gap fd ++ render_comment (f_cmt fd).
Definition render_elem (e : elem) : str := match e with Raw b => b | Fld fd => render_field fd end.
Definition render (f : gofile) : str := flat_map render_elem f.

(* what the injector must do to a file: the items of every field that has a literal AND an @tag
   comment become the merge; nothing else changes *)
Definition inject_field (fd : field) : field :=
  match f_tag fd, f_cmt fd with
  | Some old, CTag _ inj _ => mkField (f_pre fd) (Some (merge old inj)) (f_gap fd) (f_cmt fd)
  | _, _ => fd
  end.
Definition inject_elem (e : elem) : elem := match e with Raw b => Raw b | Fld fd => Fld (inject_field fd) end.
Definition inject_file (f : gofile) : gofile := map inject_elem f.

(* the same, as a relation built from merge_spec (so the statement does not depend on [merge]) *)
Definition field_injected (a a' : field) : Prop :=
  f_pre a' = f_pre a /\ f_gap a' = f_gap a /\ f_cmt a' = f_cmt a /\
  match f_tag a, f_cmt a with
  | Some old, CTag _ inj _ => exists r, f_tag a' = Some r /\ merge_spec old inj r
  | _, _ => f_tag a' = f_tag a
  end.
Definition elem_injected (e e' : elem) : Prop :=
  match e, e' with
  | Raw b, Raw b' => b' = b
  | Fld a, Fld a' => field_injected a a'
  | _, _ => False
  end.
Definition file_injected (f f' : gofile) : Prop := Forall2 elem_injected f f'.

(* ---------------- the property's domain, as boolean predicates ---------------- *)

Definition is_word (c : byte) : bool :=
  ((48 <=? c) && (c <=? 57)) || ((65 <=? c) && (c <=? 90)) || (c =? 95) || ((97 <=? c) && (c <=? 122)).
Definition is_nil {A} (l : list A) : bool := match l with [] => true | _ => false end.

(* conventional key:"value": key \w+, value non-empty, no double quote; and no line break (a value
   with a raw line break is not readable by reflect.StructTag either) *)
Definition conv_key (k : str) : bool := negb (is_nil k) && forallb is_word k.
Definition body_char (c : byte) : bool := negb (c =? QUOTE) && negb (c =? NL).
Definition conv_body (b : str) : bool := negb (is_nil b) && forallb body_char b.
Definition conv_item (it : tagitem) : bool := conv_key (fst it) && conv_body (snd it).

Fixpoint nodup_keysb (l : tagitems) : bool :=
  match l with
  | [] => true
  | (k, _) :: r => negb (has_key k r) && nodup_keysb r
  end.
Definition wf_items (l : tagitems) : bool := forallb conv_item l && nodup_keysb l.

(* text up to the first line break *)
Fixpoint first_line (s : str) : str :=
  match s with
  | [] => []
  | c :: r => if c =? NL then [] else c :: first_line r
  end.

(* the field expression is "... `literal`" with the literal the last back-quoted thing on its line:
   every back quote inside the text before the literal is followed by a line break *)
Fixpoint pre_ok (pre : str) : bool :=
  match pre with
  | [] => true
  | c :: r => (if c =? BT then negb (nomem NL r) else true) && pre_ok r
  end.
(* the designated "@tag " is the first one of the comment *)
Definition lead_ok (lead : str) : bool :=
  match index AT_TAG (lead ++ AT_TAG) with Some n => Nat.eqb n (length lead) | None => false end.
(* nothing tag-like after the items on the comment's line *)
Definition trail_ok (trail : str) : bool := nomem QUOTE (first_line trail).

Definition wf_field (fd : field) : bool :=
  match f_tag fd, f_cmt fd with
  | Some old, CTag lead inj trail =>
      wf_items old && negb (is_nil old) && wf_items inj && pre_ok (f_pre fd) && lead_ok lead && trail_ok trail
  | Some _, CPlain t => negb (contains t AT_TAG)
  | _, _ => true
  end.
Definition wf_elem (e : elem) : bool := match e with Raw _ => true | Fld fd => wf_field fd end.
Definition wf_file (f : gofile) : bool := forallb wf_elem f.

(* "annotated": the fields the property speaks about *)
Definition annotated (fd : field) : bool :=
  match f_tag fd, f_cmt fd with Some _, CTag _ _ _ => true | _, _ => false end.

(* ---------------- facts about the specification itself ---------------- *)

Lemma item_eqb_eq a b : item_eqb a b = true <-> a = b.
Proof.
  destruct a as [k v], b as [k' v']. unfold item_eqb; cbn. split.
  - intros H. apply andb_prop in H as [H1 H2]. apply str_eqb_eq in H1, H2. congruence.
  - intros H. inversion H; subst. now rewrite !str_eqb_refl.
Qed.

Lemma str_eqb_sym a b : str_eqb a b = str_eqb b a.
Proof.
  destruct (str_eqb a b) eqn:E1, (str_eqb b a) eqn:E2; try reflexivity.
  - apply str_eqb_eq in E1. subst. now rewrite str_eqb_refl in E2.
  - apply str_eqb_eq in E2. subst. now rewrite str_eqb_refl in E1.
Qed.

Lemma str_eqb_neq a b : a <> b -> str_eqb a b = false.
Proof. intros H. destruct (str_eqb a b) eqn:E; [apply str_eqb_eq in E; contradiction|reflexivity]. Qed.

Lemma lookup_none_iff k l : lookup k l = None <-> ~ In k (keys l).
Proof.
  induction l as [|[k' v] l IH]; cbn; [tauto|].
  destruct (str_eqb k' k) eqn:E.
  - apply str_eqb_eq in E. subst. split; [discriminate|intros H; exfalso; apply H; now left].
  - rewrite IH. split; [intros H [H1|H1]; [subst; now rewrite str_eqb_refl in E|contradiction]|tauto].
Qed.

Lemma has_key_in k l : has_key k l = true <-> In k (keys l).
Proof.
  unfold has_key. destruct (lookup k l) eqn:E; split; intros H; try reflexivity; try discriminate.
  - destruct (in_dec (list_eq_dec N.eq_dec) k (keys l)) as [Hi|Hn]; [assumption|].
    apply lookup_none_iff in Hn. congruence.
  - apply lookup_none_iff in E. contradiction.
Qed.

Lemma has_key_false k l : has_key k l = false <-> ~ In k (keys l).
Proof. rewrite <- has_key_in. destruct (has_key k l); split; congruence. Qed.

Lemma lookup_in k v l : lookup k l = Some v -> In (k, v) l.
Proof.
  induction l as [|[k' v'] l IH]; cbn; [discriminate|].
  destruct (str_eqb k' k) eqn:E; intros H.
  - apply str_eqb_eq in E. inversion H; subst. now left.
  - right. now apply IH.
Qed.

Lemma nodup_keysb_iff l : nodup_keysb l = true <-> NoDup (keys l).
Proof.
  induction l as [|[k v] l IH]; cbn.
  - split; [constructor|reflexivity].
  - split.
    + intros H. apply andb_prop in H as [H1 H2]. constructor; [|now apply IH].
      apply has_key_false. now destruct (has_key k l).
    + intros H. inversion H as [|? ? Hn Hd]; subst. apply andb_true_intro. split; [|now apply IH].
      apply has_key_false in Hn. now rewrite Hn.
Qed.

Lemma in_lookup_nodup k v l : NoDup (keys l) -> In (k, v) l -> lookup k l = Some v.
Proof.
  induction l as [|[k' v'] l IH]; cbn; [tauto|].
  intros Hd [H|H]; inversion Hd as [|? ? Hn Hd']; subst.
  - inversion H; subst. now rewrite str_eqb_refl.
  - destruct (str_eqb k' k) eqn:E.
    + apply str_eqb_eq in E. subst. exfalso. apply Hn. apply in_map_iff. now exists (k, v).
    + now apply IH.
Qed.

Lemma lookup_app k a b : lookup k (a ++ b) = match lookup k a with Some v => Some v | None => lookup k b end.
Proof. induction a as [|[k' v] a IH]; cbn; [reflexivity|]. destruct (str_eqb k' k); [reflexivity|apply IH]. Qed.

Lemma keys_app a b : keys (a ++ b) = keys a ++ keys b.
Proof. apply map_app. Qed.

Lemma keys_merge_map old inj :
  keys (map (fun o => match lookup (fst o) inj with Some v => (fst o, v) | None => o end) old) = keys old.
Proof.
  unfold keys. rewrite map_map. apply map_ext. intros [k v]; cbn. now destruct (lookup k inj).
Qed.

Lemma keys_filter (p : str -> bool) l : keys (filter (fun i => p (fst i)) l) = filter p (keys l).
Proof. unfold keys. induction l as [|[k v] l IH]; cbn; [reflexivity|]. destruct (p k); cbn; now rewrite IH. Qed.

Lemma keys_merge old inj : keys (merge old inj) = keys old ++ filter (fun k => negb (has_key k old)) (keys inj).
Proof. unfold merge. rewrite keys_app, keys_merge_map. f_equal. exact (keys_filter (fun k => negb (has_key k old)) inj). Qed.

Lemma lookup_merge_map k old inj :
  lookup k (map (fun o => match lookup (fst o) inj with Some v => (fst o, v) | None => o end) old) =
  match lookup k old with
  | Some v0 => match lookup k inj with Some v => Some v | None => Some v0 end
  | None => None
  end.
Proof.
  induction old as [|[k' v'] old IH]; cbn; [reflexivity|].
  destruct (str_eqb k' k) eqn:E.
  - apply str_eqb_eq in E; subst. destruct (lookup k inj); cbn; now rewrite str_eqb_refl.
  - destruct (lookup k' inj); cbn; rewrite E; apply IH.
Qed.

Lemma lookup_filter_other k (p : str -> bool) l : p k = true -> lookup k (filter (fun i => p (fst i)) l) = lookup k l.
Proof.
  intros Hp. induction l as [|[k' v] l IH]; cbn; [reflexivity|].
  destruct (p k') eqn:E; cbn.
  - destruct (str_eqb k' k); [reflexivity|apply IH].
  - destruct (str_eqb k' k) eqn:E2; [apply str_eqb_eq in E2; subst; congruence|apply IH].
Qed.

Lemma nodup_app {A} (a b : list A) :
  NoDup a -> NoDup b -> (forall x, In x a -> In x b -> False) -> NoDup (a ++ b).
Proof.
  induction a as [|x a IH]; cbn; intros Ha Hb Hd; [assumption|].
  inversion Ha as [|? ? Hn Ha']; subst. constructor.
  - intros Hin. apply in_app_or in Hin as [Hin|Hin]; [contradiction|]. apply (Hd x); [now left|assumption].
  - apply IH; [assumption|assumption|]. intros y H1 H2. apply (Hd y); [now right|assumption].
Qed.

(* the function meets the four clauses whenever the keys of the literal and of the comment are distinct *)
Theorem merge_meets_spec old inj : NoDup (keys old) -> NoDup (keys inj) -> merge_spec old inj (merge old inj).
Proof.
  intros Ho Hi. split.
  - intros k v H. unfold merge. rewrite lookup_app, lookup_merge_map, H.
    destruct (lookup k old) eqn:E; [reflexivity|].
    etransitivity; [apply (lookup_filter_other k (fun k => negb (has_key k old)))|assumption].
    unfold has_key. now rewrite E.
  - intros k H. unfold merge. rewrite lookup_app, lookup_merge_map, H.
    destruct (lookup k old) eqn:E; [reflexivity|].
    etransitivity; [apply (lookup_filter_other k (fun k => negb (has_key k old)))|assumption].
    unfold has_key. now rewrite E.
  - apply keys_merge.
  - rewrite keys_merge. apply nodup_app.
    + assumption.
    + now apply NoDup_filter.
    + intros k H1 H2. apply filter_In in H2 as [_ H2]. apply has_key_in in H1. now rewrite H1 in H2.
Qed.

(* two association lists with the same distinct keys and the same lookups are equal *)
Lemma assoc_ext (a b : tagitems) :
  keys a = keys b -> NoDup (keys a) -> (forall k, lookup k a = lookup k b) -> a = b.
Proof.
  revert b; induction a as [|[k v] a IH]; intros [|[k' v'] b]; cbn; intros Hk Hd Hl; try discriminate; [reflexivity|].
  inversion Hk; subst k'. inversion Hd as [|? ? Hn Hd']; subst.
  pose proof (Hl k) as Hk0. rewrite !str_eqb_refl in Hk0. inversion Hk0; subst v'. f_equal.
  apply IH; [assumption|assumption|].
  intros k0. pose proof (Hl k0) as H0.
  destruct (str_eqb k k0) eqn:E; [|assumption].
  apply str_eqb_eq in E; subst k0.
  assert (Ea : lookup k a = None) by now apply lookup_none_iff.
  assert (Eb : lookup k b = None).
  { apply lookup_none_iff. match goal with H : map fst a = map fst b |- _ => unfold keys; rewrite <- H end. exact Hn. }
  congruence.
Qed.

(* ... and they determine the result: merge_spec is a function *)
Theorem merge_spec_unique old inj r : merge_spec old inj r -> NoDup (keys old) -> NoDup (keys inj) -> r = merge old inj.
Proof.
  intros [R1 R2 R3 R4] Ho Hi.
  destruct (merge_meets_spec old inj Ho Hi) as [M1 M2 M3 M4].
  apply assoc_ext; [congruence|assumption|].
  intros k. destruct (lookup k inj) eqn:E.
  - now rewrite (R1 _ _ E), (M1 _ _ E).
  - now rewrite (R2 _ E), (M2 _ E).
Qed.

(* the boolean version is equivalent on the domain *)
Theorem merge_specb_iff old inj r : NoDup (keys old) -> NoDup (keys inj) ->
  merge_specb old inj r = true <-> merge_spec old inj r.
Proof.
  intros Ho Hi. unfold merge_specb. rewrite (list_eqb_eq item_eqb item_eqb_eq). split.
  - intros ->. now apply merge_meets_spec.
  - intros H. now apply merge_spec_unique.
Qed.

(* inject_file is an injected file in the relational sense *)
Lemma inject_field_injected fd : wf_field fd = true -> field_injected fd (inject_field fd).
Proof.
  intros Hwf. unfold field_injected, inject_field, wf_field in *.
  destruct (f_tag fd) as [old|] eqn:Et; [|rewrite Et; auto].
  destruct (f_cmt fd) as [|t|lead inj trail] eqn:Ec; cbn; rewrite ?Et, ?Ec; auto.
  repeat split. exists (merge old inj). split; [reflexivity|].
  repeat (apply andb_prop in Hwf as [Hwf ?]).
  unfold wf_items in *.
  repeat match goal with H : _ && _ = true |- _ => apply andb_prop in H as [? ?] end.
  apply merge_meets_spec; now apply nodup_keysb_iff.
Qed.

Theorem inject_file_injected f : wf_file f = true -> file_injected f (inject_file f).
Proof.
  unfold wf_file, file_injected, inject_file. induction f as [|e f IH]; cbn; intros H; [constructor|].
  apply andb_prop in H as [H1 H2]. constructor; [|now apply IH].
  destruct e as [b|fd]; cbn; [reflexivity|now apply inject_field_injected].
Qed.
