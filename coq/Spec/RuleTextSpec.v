(* RuleTextSpec.v — what C14 promises, stated without reference to the implementation's structure. *)
From PGV Require Import Base.Bytes Base.GoStr Base.Utf8.
Open Scope N_scope.

Definition is_cjk (r : rune) : bool := (19968 <=? r) && (r <=? 40869).   (* U+4E00 .. U+9FA5 *)

(* "the message gaining only its explanation label" *)
Definition label_spec (en zh : str) (m : str) : str :=
  (if existsb is_cjk (decode m) then zh else en) ++ 32 :: m.

(* a rule as the user writes it with the documented helper: key, optional value, optional message *)
Record rule := { r_key : str; r_val : str; r_msg : option str }.

Definition k_in : str := s2b "in".
Definition k_include : str := s2b "include".
Definition k_re : str := s2b "re".

(* the value the parser must give back: in/include values gain their brackets (documented),
   re values are written with their protecting quotes already *)
Definition value_spec (r : rule) : str :=
  match r_val r with
  | [] => []
  | v => if str_eqb (r_key r) k_in || str_eqb (r_key r) k_include then 40 :: v ++ [41] else v
  end.

Definition parsed_spec (en zh : str) (r : rule) : str * str * str :=
  (r_key r, value_spec r, match r_msg r with Some m => label_spec en zh m | None => [] end).

(* the documented text of a rule: key[=value][|message] *)
Definition rule_text (r : rule) : str :=
  r_key r ++ (match r_val r with [] => [] | _ => 61 :: value_spec r end)
          ++ (match r_msg r with Some m => 124 :: m | None => [] end).

(* quote-balance scanner: commas are allowed only inside single-quoted segments *)
Fixpoint commas_quoted (inq : bool) (s : str) : bool :=
  match s with
  | [] => negb inq
  | c :: r => if c =? 39 then commas_quoted (negb inq) r
              else if (c =? 44) && negb inq then false
              else commas_quoted inq r
  end.

(* the property's domain ("written with the documented helpers") as a boolean predicate *)
Definition wf_rule (r : rule) : bool :=
  let k := r_key r in let v := r_val r in
  negb (match k with [] => true | _ => false end) &&
  nomem 61 k && nomem 124 k && nomem 44 k && nomem 39 k &&
  nomem 124 v &&                                     (* '|' inside a value: no escape exists (finding D14) *)
  (match v with c :: _ => negb (c =? 61) | [] => true end) &&
  (if str_eqb k k_re
   then match v with
        | [] => true
        | c :: _ => (c =? 39) && (2 <=? N.of_nat (length v))
        end
   else true) &&
  (match r_msg r with
   | Some m => negb (match m with [] => true | _ => false end)
   | None => true
   end) &&
  commas_quoted false (rule_text r).
