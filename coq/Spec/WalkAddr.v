(* WalkAddr.v — what a struct validation visits, stated without a buffer, without fuel and
   without any traversal order: an ADDRESS (a list of natural numbers) either resolves to a rule
   instance (a "site": object path, field name, field value, rule text) or it does not.

     address  ::=  i j                      rule number j of field number i of the object
               |   i j address              ... whose value is a struct / pointer to one, entered
               |   i j k address            ... whose value is a slice / array / map, element number k entered

   [resolve] is structurally recursive on the address.  A field's value is entered only through a
   built-in required / exist rule on a non-empty value; fields that are unexported, of type
   time.Time, or without rules for the requested tag have no rule instances at all; a sub-object is
   named Parent.Field, Parent.Field[i] or Parent.Field[key].

   [local] is what ONE rule instance contributes by itself (no recursion): its clause (at most one
   for the functions of the rule table) or its membership in a cross-field group.

   Proofs/WalkAddrProofs.v shows that validate (Model/Walk.v) writes exactly
        flat_map local  over  the resolving addresses in lexicographic order,
   each once.  The local notions (function lookup, emptiness, rule functions, path builders) are
   shared with the model; the traversal is what this file specifies independently. *)
From PGV Require Import Base.Bytes Base.GoStr Base.GoNum Base.Utf8.
From PGV Require Import Extracted.SourceConst.
From PGV Require Import Model.RuleText Model.Value Model.Clause Model.Rules Model.Walk.

Record site := { st_obj : str; st_field : str; st_val : val; st_vn : str }.

(* the name under which an object reports, and the programmatic rules that apply to it:
   the outermost object (empty path) goes by its type name and may take the unscoped rule set *)
Definition obj_ctx (c : cfg) (sn : str) (si : sinfo) : str * rm :=
  match sn with
  | [] => (s_name si, match typed_rule c (s_id si) with
                      | [] => match c_unscoped c with Some r => r | None => [] end
                      | r => r
                      end)
  | _ => (sn, typed_rule c (s_id si))
  end.

(* the rule list of a field: none for hidden / time.Time fields; a programmatic rule replaces the tag *)
Definition field_rules (c : cfg) (cus : rm) (fi : finfo) : list str :=
  if f_time fi || negb (is_exported (f_name fi)) then [] else
  match (match rm_get cus (f_name fi) with [] => tag_get (f_tags fi) (c_tag c) | over => over end) with
  | [] => []
  | vns => names_split COMMA vns
  end.

Definition empty_coll (tv : val) : bool :=
  match tv with VSlice _ _ _ [] | VArray _ _ [] | VMap _ _ _ [] => true | _ => false end.

(* the rule instance opens its field's value: built-in required / exist on a non-empty value *)
Definition descends (c : cfg) (vn : str) (fv : val) : bool :=
  match get_fn c (pk_key vn) with
  | FBuiltin => if str_eqb (pk_key vn) Required then negb (empty_coll fv || zero_b fv)
                else if str_eqb (pk_key vn) Exist then negb (zero_b fv)
                else false
  | _ => false
  end.

(* what lies behind a field value, with the path each part is named by *)
Inductive kids := KOne (p : str) (v : val) | KMany (l : list (str * val)) | KNone.

Fixpoint idx_kids (p : str) (i : nat) (vs : list val) : list (str * val) :=
  match vs with [] => [] | x :: r => (idx_path p i, x) :: idx_kids p (S i) r end.
Definition key_kids (p : str) (es : list (val * val)) : list (str * val) :=
  map (fun e => (key_path p (fst e), snd e)) es.

Definition kids_of (p : str) (fv : val) : kids :=
  match fv with
  | VPtr _ | VStruct _ _ => KOne p fv
  | VSlice _ _ _ vs | VArray _ _ vs => KMany (idx_kids p O vs)
  | VMap _ _ _ es => KMany (key_kids p es)
  | _ => KNone
  end.

Fixpoint resolve (c : cfg) (a : list nat) (sn : str) (v : val) {struct a} : option site :=
  match a with
  | i :: j :: rest =>
    match remove_ptr v with
    | VStruct si fs =>
      match nth_error fs i with
      | Some (fi, fv) =>
        match nth_error (field_rules c (snd (obj_ctx c sn si)) fi) j with
        | Some (vb :: vr) =>
          let vn := vb :: vr in
          let sn' := fst (obj_ctx c sn si) in
          match rest with
          | [] => Some {| st_obj := sn'; st_field := f_name fi; st_val := fv; st_vn := vn |}
          | k :: rest' =>
            if descends c vn fv then
              match kids_of (sn' ++ DOT :: f_name fi) fv with
              | KOne p x => resolve c rest p x
              | KMany l => match nth_error l k with Some (p, x) => resolve c rest' p x | None => None end
              | KNone => None
              end
            else None
          end
        | _ => None
        end
      | None => None
      end
    | _ => None
    end
  | _ => None
  end.

(* ---------- what one rule instance writes by itself ---------- *)
Definition exist_local (ivk : bool) (sn field cus : str) (tv : val) : list clause :=
  if zero_b tv then [] else
  let ns := if ivk then [CValid sn field (value_string tv) (req_body cus Exist)] else [] in
  match tv with
  | VTime _ => []
  | VPtr _ | VNilPtr _ | VStruct _ _ =>
    match remove_ptr tv with VInvalid | VStruct _ _ | VTime _ => [] | _ => ns end
  | VSlice _ _ _ _ | VArray _ _ _ | VMap _ _ _ _ => []
  | _ => ns
  end.

Definition local (c : cfg) (s : site) : list clause * list gmember :=
  let sn := st_obj s in let fname := st_field s in let fv := st_val s in let vn := st_vn s in
  let key := pk_key vn in let cus := pk_msg vn in
  match get_fn c key with
  | FErr => ([CField sn fname (FKnown (not_exist_text key))], [])
  | FBuiltin =>
    if str_eqb key Required then
      (if empty_coll fv || zero_b fv then [CValid sn fname [] (req_body cus Required)]
       else exist_local false sn fname cus fv, [])
    else if str_eqb key Exist then (exist_local true sn fname cus fv, [])
    else if str_eqb key Either || str_eqb key BothEq then
      ([], [{| g_key := gkey sn vn; g_vn := vn; g_obj := sn; g_field := fname; g_val := fv |}])
    else ([], [])
  | FRule f => (if zero_b fv then [] else f vn sn fname fv, [])
  | FMark t => (if zero_b fv then [] else [mark_clause sn fname t], [])
  end.

Definition site_clauses (c : cfg) (o : option site) : list clause :=
  match o with Some s => fst (local c s) | None => [] end.
Definition site_members (c : cfg) (o : option site) : list gmember :=
  match o with Some s => snd (local c s) | None => [] end.

(* the one clause that is not a rule instance: the outermost value is not a struct *)
Definition top_clause (sn : str) (v : val) (gather : bool) : list clause :=
  match remove_ptr v with
  | VInvalid | VTime _ | VStruct _ _ => []
  | tv => if gather then [] else [CField sn (type_name tv) (FKnown (s2b "is not struct"))]
  end.

(* lexicographic order on addresses: the order of writing *)
Fixpoint lex_lt (a b : list nat) : Prop :=
  match a, b with
  | _, [] => False
  | [], _ :: _ => True
  | x :: a', y :: b' => (x < y)%nat \/ (x = y /\ lex_lt a' b')
  end.

(* ---------- an enumeration of the resolving addresses (used by the proofs and runnable) ---------- *)
Definition pre (i : nat) (l : list (list nat * site)) : list (list nat * site) :=
  map (fun p => (i :: fst p, snd p)) l.
Fixpoint flat_mapi {A B : Type} (f : nat -> A -> list B) (i : nat) (l : list A) : list B :=
  match l with [] => [] | x :: r => f i x ++ flat_mapi f (S i) r end.

Section Enum.
  Variable c : cfg.
  Variable rec : str -> val -> list (list nat * site).

  Definition enum_kids (k : kids) : list (list nat * site) :=
    match k with
    | KOne p x => rec p x
    | KMany l => flat_mapi (fun k px => pre k (rec (fst px) (snd px))) O l
    | KNone => []
    end.
  Definition enum_rule (sn fname : str) (fv : val) (vn : str) : list (list nat * site) :=
    match vn with
    | [] => []
    | _ => ([], {| st_obj := sn; st_field := fname; st_val := fv; st_vn := vn |}) ::
           (if descends c vn fv then enum_kids (kids_of (sn ++ DOT :: fname) fv) else [])
    end.
  Definition enum_field (sn : str) (cus : rm) (f : finfo * val) : list (list nat * site) :=
    flat_mapi (fun j vn => pre j (enum_rule sn (f_name (fst f)) (snd f) vn)) O (field_rules c cus (fst f)).
  Definition enum_body (sn : str) (v : val) : list (list nat * site) :=
    match remove_ptr v with
    | VStruct si fs =>
      flat_mapi (fun i f => pre i (enum_field (fst (obj_ctx c sn si)) (snd (obj_ctx c sn si)) f)) O fs
    | _ => []
    end.
End Enum.

Fixpoint enum (c : cfg) (fuel : nat) (sn : str) (v : val) : list (list nat * site) :=
  match fuel with O => [] | S f => enum_body c (enum c f) sn v end.

(* ---------- the entry point: a struct, or a slice / array / map of structs ---------- *)
Definition top_kids (rv : val) : kids :=
  match rv with
  | VSlice _ _ et vs | VArray _ et vs => KMany (idx_kids et O vs)
  | VMap _ _ _ es => KMany (key_kids (s2b "map") es)
  | _ => KOne [] rv
  end.
Definition resolve_top (c : cfg) (a : list nat) (rv : val) : option site :=
  match top_kids rv with
  | KOne p x => resolve c a p x
  | KMany l => match a with
               | k :: rest => match nth_error l k with Some (p, x) => resolve c rest p x | None => None end
               | [] => None
               end
  | KNone => None
  end.
Definition top_clause_of (rv : val) : list clause :=
  match top_kids rv with KOne p x => top_clause p x false | _ => [] end.
