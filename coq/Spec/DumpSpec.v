(* DumpSpec.v — what C20 promises, stated without reference to the dumper's control flow:
   the JSON document of a value as the standard encoder (encoding/json, field names as keys, no
   tags) produces it, with the documented deviations of the dumper, and the property's domain.
   Imports the value universe (data) and the JSON grammar; not the model. *)
From PGV Require Import Base.Bytes Base.GoNum Json.Grammar Model.DumpVal.
Open Scope N_scope.

(* a map key as encoding/json writes it: strings as they are, integers in decimal *)
Definition key_of (k : val) : option str :=
  match k with
  | VStr s => Some s
  | VInt z => Some (itoa z)
  | VUint n => Some (utoa n)
  | _ => None
  end.

(* []byte: the standard encoder writes the base64 text (RFC 4648, padded) of the bytes *)
Definition b64_char (i : N) : byte :=
  if i <? 26 then 65 + i else if i <? 52 then 97 + (i - 26) else if i <? 62 then 48 + (i - 52)
  else if i =? 62 then 43 else 47.

Fixpoint b64 (l : list N) : str :=
  match l with
  | [] => []
  | a :: l1 =>
    match l1 with
    | [] => [b64_char (a / 4); b64_char ((a mod 4) * 16); 61; 61]
    | b :: l2 =>
      match l2 with
      | [] => [b64_char (a / 4); b64_char ((a mod 4) * 16 + b / 16); b64_char ((b mod 16) * 4); 61]
      | c :: r => b64_char (a / 4) :: b64_char ((a mod 4) * 16 + b / 16)
                  :: b64_char ((b mod 16) * 4 + c / 64) :: b64_char (c mod 64) :: b64 r
      end
    end
  end.

Fixpoint bytes_of (vs : list val) : option (list N) :=
  match vs with
  | [] => Some []
  | VUint n :: r => match bytes_of r with Some l => Some (n :: l) | None => None end
  | _ :: _ => None
  end.

Section Doc.
  Variable rec : val -> option jdoc.

  Fixpoint docs_of (vs : list val) : option (list jdoc) :=
    match vs with
    | [] => Some []
    | x :: r => match rec x, docs_of r with
                | Some d, Some ds => Some (d :: ds)
                | _, _ => None
                end
    end.

  (* exported fields only (Go's notion of exported), declaration order, field name as key *)
  Fixpoint members_of (fs : list (finfo * val)) : option (list (str * jdoc)) :=
    match fs with
    | [] => Some []
    | (sf, fv) :: r =>
      if fexported sf then
        match rec fv, members_of r with
        | Some d, Some ms => Some ((fname sf, d) :: ms)
        | _, _ => None
        end
      else members_of r
    end.

  (* map entries in the order given (object member order carries no meaning in a JSON document;
     the correspondence compares members as sets where the order is not observable) *)
  Fixpoint entries_of (es : list (val * val)) : option (list (str * jdoc)) :=
    match es with
    | [] => Some []
    | (k, x) :: r =>
      match key_of k, rec x, entries_of r with
      | Some ks, Some d, Some ms => Some ((ks, d) :: ms)
      | _, _, _ => None
      end
    end.
End Doc.

(* documented deviations: booleans are the strings "true"/"false"; a nil slice is [] and a nil
   map is {} (the standard encoder writes null); nil pointer is null; unexported fields omitted.
   None: the standard encoder has no document for the value (func/chan).  A non-nil []byte is
   the base64 string the standard encoder writes (the dumper prints an array of numbers: []byte
   is outside [dumpable], see the C20 findings). *)
Fixpoint doc_of (v : val) : option jdoc :=
  match v with
  | VInvalid => Some JNull
  | VBool b => Some (JStr (if b then s2b "true" else s2b "false"))
  | VInt z => Some (JNum (itoa z))
  | VUint n => Some (JNum (utoa n))
  | VFloat _ repr => Some (JNum repr)
  | VStr s => Some (JStr s)
  | VNilPtr => Some JNull
  | VPtr x => doc_of x
  | VSlice bytes isnil vs =>
    if bytes then (if isnil then Some (JArr []) else option_map (fun l => JStr (b64 l)) (bytes_of vs))
    else option_map JArr (docs_of doc_of vs)
  | VArray vs => option_map JArr (docs_of doc_of vs)
  | VMap _ es => option_map JObj (entries_of doc_of es)
  | VStruct _ fs => option_map JObj (members_of doc_of fs)
  | VIface None => Some JNull
  | VIface (Some x) => doc_of x
  | VOther => None
  end.

(* ---------- the property's domain ---------- *)
(* field names whose first byte is an ASCII capital: for these Go's notion of "exported" is the
   dumper's.  (A field such as  Äb  is exported for Go and the standard encoder but its first
   byte is not in A..Z; such names are outside the domain — see the C20 findings.) *)
Definition ascii_capital_initial (name : str) : bool :=
  match name with
  | [] => false
  | c :: _ => (65 <=? c) && (c <=? 90)
  end.

Definition key_ok (k : val) : bool :=
  match k with
  | VStr s => str_plain s
  | VInt _ | VUint _ => true
  | _ => false
  end.

(* values that may occur below the top level *)
Fixpoint ok_val (v : val) : bool :=
  match v with
  | VBool _ | VInt _ | VUint _ => true
  | VFloat _ repr => jnum_ok repr                  (* finite: NaN / Inf have no number literal *)
  | VStr s => str_plain s                          (* no characters needing escapes *)
  | VNilPtr => true
  | VPtr x => is_struct x && ok_val x              (* pointers to structs only *)
  | VSlice bytes isnil vs =>
    negb bytes && (if isnil then match vs with [] => true | _ => false end else true) && forallb ok_val vs
  | VArray vs => forallb ok_val vs
  | VMap isnil es =>
    (if isnil then match es with [] => true | _ => false end else true)
    && forallb (fun e => key_ok (fst e) && ok_val (snd e)) es
  | VStruct _ fs =>
    forallb (fun f => negb (fanon (fst f)) && negb (ftime (fst f))          (* no embedded fields, no time.Time *)
                      && Bool.eqb (fexported (fst f)) (ascii_capital_initial (fname (fst f)))
                      && (if fexported (fst f) then str_plain (fname (fst f)) && ok_val (snd f) else true)) fs
  | VInvalid | VIface _ | VOther => false          (* interface-typed fields, func/chan *)
  end.

(* the top-level argument: a struct, a pointer to one, or a nil pointer *)
Definition top_shape (v : val) : bool :=
  match v with
  | VStruct _ _ | VNilPtr => true
  | VPtr x => is_struct x
  | _ => false
  end.

Definition dumpable (v : val) : bool := top_shape v && ok_val v.
