(* Grammar.v — JSON documents, a compact printer and an RFC 8259 recogniser/parser.
   [jparse] is a fuelled recursive-descent parser (insignificant white space, escapes and the
   number grammar of RFC 8259 section 6); string contents are returned raw (escapes validated,
   not decoded).  Theorem [jparse_jprint]: printing a well-formed document and parsing it back
   gives the document, hence every printed well-formed document is RFC 8259 JSON. *)
From PGV Require Import Base.Bytes.
Open Scope N_scope.
(* the aliases of Base/Bytes.v are definitions; inside this file they are notations, so that the
   implicit arguments of list operations are syntactically [N] everywhere (rewriting needs it) *)
Local Notation byte := N (only parsing).
Local Notation str := (list N) (only parsing).

Inductive jdoc :=
| JNull
| JBool (b : bool)
| JNum (literal : str)
| JStr (s : str)
| JArr (l : list jdoc)
| JObj (l : list (str * jdoc)).

(* ---------- printer (compact: no white space) ---------- *)
Definition jquote (s : str) : str := 34 :: s ++ [34].

Section Print.
  Variable pr : jdoc -> str.
  Fixpoint print_elems (l : list jdoc) : str :=
    match l with
    | [] => []
    | d :: r => pr d ++ match r with [] => [] | _ => 44 :: print_elems r end
    end.
  Fixpoint print_members (l : list (str * jdoc)) : str :=
    match l with
    | [] => []
    | (k, d) :: r => jquote k ++ 58 :: pr d ++ match r with [] => [] | _ => 44 :: print_members r end
    end.
End Print.

Fixpoint jprint (d : jdoc) : str :=
  match d with
  | JNull => s2b "null"
  | JBool true => s2b "true"
  | JBool false => s2b "false"
  | JNum lit => lit
  | JStr s => jquote s
  | JArr l => 91 :: print_elems jprint l ++ [93]
  | JObj l => 123 :: print_members jprint l ++ [125]
  end.

(* ---------- lexical level ---------- *)
Definition is_ws (c : byte) : bool := (c =? 32) || (c =? 9) || (c =? 10) || (c =? 13).
Fixpoint skip_ws (s : str) : str :=
  match s with
  | c :: r => if is_ws c then skip_ws r else s
  | [] => []
  end.

Definition is_dig (c : byte) : bool := (48 <=? c) && (c <=? 57).
Definition is_dig19 (c : byte) : bool := (49 <=? c) && (c <=? 57).
Definition is_hex (c : byte) : bool :=
  is_dig c || ((65 <=? c) && (c <=? 70)) || ((97 <=? c) && (c <=? 102)).
Definition num_start (c : byte) : bool := (c =? 45) || is_dig c.

(* longest prefix of digits *)
Fixpoint span_digits (s : str) : str * str :=
  match s with
  | c :: r => if is_dig c then let '(ds, r') := span_digits r in (c :: ds, r') else ([], s)
  | [] => ([], [])
  end.

(* int = zero / ( digit1-9 *DIGIT ) *)
Definition scan_int (s : str) : option (str * str) :=
  match s with
  | c :: r => if c =? 48 then Some ([c], r)
              else if is_dig19 c then let '(ds, r') := span_digits r in Some (c :: ds, r')
              else None
  | [] => None
  end.

(* frac = decimal-point 1*DIGIT, optional *)
Definition scan_frac (s : str) : option (str * str) :=
  match s with
  | c :: r => if c =? 46 then
                match span_digits r with
                | ([], _) => None
                | (ds, r') => Some (c :: ds, r')
                end
              else Some ([], s)
  | [] => Some ([], [])
  end.

(* exp = e [ minus / plus ] 1*DIGIT, optional *)
Definition scan_exp (s : str) : option (str * str) :=
  match s with
  | c :: r =>
    if (c =? 101) || (c =? 69) then
      let '(sg, r1) := match r with
                       | c1 :: r1 => if (c1 =? 43) || (c1 =? 45) then ([c1], r1) else ([], r)
                       | [] => ([], r)
                       end in
      match span_digits r1 with
      | ([], _) => None
      | (ds, r') => Some (c :: sg ++ ds, r')
      end
    else Some ([], s)
  | [] => Some ([], [])
  end.

(* number = [ minus ] int [ frac ] [ exp ] : (literal, rest) *)
Definition scan_number (s : str) : option (str * str) :=
  let '(sg, s1) := match s with
                   | c :: r => if c =? 45 then ([c], r) else ([], s)
                   | [] => ([], s)
                   end in
  match scan_int s1 with
  | None => None
  | Some (i, s2) =>
    match scan_frac s2 with
    | None => None
    | Some (f, s3) =>
      match scan_exp s3 with
      | None => None
      | Some (e, s4) => Some (sg ++ i ++ f ++ e, s4)
      end
    end
  end.

(* a whole byte string is one RFC 8259 number literal *)
Definition jnum_ok (lit : str) : bool :=
  match scan_number lit with
  | Some (_, []) => true
  | _ => false
  end.

(* strings that need no escaping: no quote, no backslash, no control byte *)
Definition plain_byte (c : byte) : bool := negb (c =? 34) && negb (c =? 92) && (32 <=? c).
Definition str_plain (s : str) : bool := forallb plain_byte s.

Definition simple_escape (c : byte) : bool :=
  (c =? 34) || (c =? 92) || (c =? 47) || (c =? 98) || (c =? 102) || (c =? 110) || (c =? 114) || (c =? 116).

Definition cons_fst (pre : str) (x : option (str * str)) : option (str * str) :=
  match x with Some (a, r) => Some (pre ++ a, r) | None => None end.

(* after the opening quote: (raw contents, rest after the closing quote) *)
Fixpoint scan_string (s : str) : option (str * str) :=
  match s with
  | [] => None
  | c :: r =>
    if c =? 34 then Some ([], r)
    else if c =? 92 then
      match r with
      | [] => None
      | e :: r1 =>
        if simple_escape e then cons_fst [c; e] (scan_string r1)
        else if e =? 117 then
          match r1 with
          | h1 :: r2 =>
            match r2 with
            | h2 :: r3 =>
              match r3 with
              | h3 :: r4 =>
                match r4 with
                | h4 :: r5 =>
                  if is_hex h1 && is_hex h2 && is_hex h3 && is_hex h4
                  then cons_fst [c; e; h1; h2; h3; h4] (scan_string r5)
                  else None
                | [] => None
                end
              | [] => None
              end
            | [] => None
            end
          | [] => None
          end
        else None
      end
    else if c <? 32 then None
    else cons_fst [c] (scan_string r)
  end.

Fixpoint strip_prefix (p s : str) : option str :=
  match p with
  | [] => Some s
  | a :: p' => match s with
               | b :: s' => if a =? b then strip_prefix p' s' else None
               | [] => None
               end
  end.

(* ---------- parser ---------- *)
Section Parser.
  Variable rec : str -> option (jdoc * str).     (* value parser at smaller fuel; skips leading white space *)

  (* elements after '[' when the array is not empty; [n] bounds the number of elements *)
  Fixpoint p_elems (n : nat) (s : str) : option (list jdoc * str) :=
    match n with
    | O => None
    | S n' =>
      match rec s with
      | None => None
      | Some (d, r) =>
        match skip_ws r with
        | c :: r' =>
          if c =? 44 then
            match p_elems n' r' with
            | Some (ds, r'') => Some (d :: ds, r'')
            | None => None
            end
          else if c =? 93 then Some ([d], r')
          else None
        | [] => None
        end
      end
    end.

  (* members after '{' when the object is not empty *)
  Fixpoint p_members (n : nat) (s : str) : option (list (str * jdoc) * str) :=
    match n with
    | O => None
    | S n' =>
      match skip_ws s with
      | c :: r0 =>
        if c =? 34 then
          match scan_string r0 with
          | None => None
          | Some (k, r1) =>
            match skip_ws r1 with
            | c1 :: r2 =>
              if c1 =? 58 then
                match rec r2 with
                | None => None
                | Some (d, r3) =>
                  match skip_ws r3 with
                  | c2 :: r4 =>
                    if c2 =? 44 then
                      match p_members n' r4 with
                      | Some (ms, r5) => Some ((k, d) :: ms, r5)
                      | None => None
                      end
                    else if c2 =? 125 then Some ([(k, d)], r4)
                    else None
                  | [] => None
                  end
                end
              else None
            | [] => None
            end
          end
        else None
      | [] => None
      end
    end.

  Definition p_value (n : nat) (s : str) : option (jdoc * str) :=
    match skip_ws s with
    | [] => None
    | c :: r =>
      if num_start c then
        match scan_number (c :: r) with
        | Some (lit, r') => Some (JNum lit, r')
        | None => None
        end
      else if c =? 34 then
        match scan_string r with
        | Some (x, r') => Some (JStr x, r')
        | None => None
        end
      else if c =? 91 then
        match skip_ws r with
        | c' :: r' =>
          if c' =? 93 then Some (JArr [], r')
          else match p_elems n r with
               | Some (ds, r'') => Some (JArr ds, r'')
               | None => None
               end
        | [] => None
        end
      else if c =? 123 then
        match skip_ws r with
        | c' :: r' =>
          if c' =? 125 then Some (JObj [], r')
          else match p_members n r with
               | Some (ms, r'') => Some (JObj ms, r'')
               | None => None
               end
        | [] => None
        end
      else
        match strip_prefix (s2b "null") (c :: r) with
        | Some r' => Some (JNull, r')
        | None =>
          match strip_prefix (s2b "true") (c :: r) with
          | Some r' => Some (JBool true, r')
          | None =>
            match strip_prefix (s2b "false") (c :: r) with
            | Some r' => Some (JBool false, r')
            | None => None
            end
          end
        end
    end.
End Parser.

Fixpoint parse (fuel : nat) (s : str) : option (jdoc * str) :=
  match fuel with
  | O => None
  | S f => p_value (parse f) f s
  end.

(* JSON-text = ws value ws *)
Definition jparse (s : str) : option jdoc :=
  match parse (S (length s)) s with
  | Some (d, r) => match skip_ws r with [] => Some d | _ => None end
  | None => None
  end.

Definition jvalidb (s : str) : bool := match jparse s with Some _ => true | None => false end.

(* documents the printer renders faithfully: number literals are RFC 8259 numbers, strings and
   member names need no escaping *)
Fixpoint jwfb (d : jdoc) : bool :=
  match d with
  | JNull | JBool _ => true
  | JNum lit => jnum_ok lit
  | JStr s => str_plain s
  | JArr l => forallb jwfb l
  | JObj l => forallb (fun kv => str_plain (fst kv) && jwfb (snd kv)) l
  end.

(* =================== round trip =================== *)

(* what may follow a value inside a printed document *)
Definition delimb (rest : str) : bool :=
  match rest with
  | [] => true
  | c :: _ => (c =? 44) || (c =? 93) || (c =? 125)
  end.
(* what cannot extend a number literal *)
Definition nonextb (rest : str) : bool :=
  match rest with
  | [] => true
  | c :: _ => negb (is_dig c) && negb (c =? 46) && negb (c =? 101) && negb (c =? 69)
  end.

Lemma delimb_nonextb rest : delimb rest = true -> nonextb rest = true.
Proof.
  destruct rest as [|c r]; [reflexivity|]. cbn [delimb nonextb]. intros H.
  apply orb_prop in H as [H|H]; [apply orb_prop in H as [H|H]|]; apply N.eqb_eq in H; subst c; reflexivity.
Qed.

Lemma span_digits_app s rest ds r :
  span_digits s = (ds, r) -> nonextb rest = true -> span_digits (s ++ rest) = (ds, r ++ rest).
Proof.
  revert ds r. induction s as [|c s IH]; intros ds r Hs Hn.
  - cbn in Hs. inversion Hs; subst. cbn [app].
    destruct rest as [|c r']; [reflexivity|]. cbn [span_digits].
    cbn [nonextb] in Hn. destruct (is_dig c); [discriminate|reflexivity].
  - cbn [span_digits app] in *. destruct (is_dig c).
    + destruct (span_digits s) as [ds0 r0] eqn:E. inversion Hs; subst.
      rewrite (IH ds0 r eq_refl Hn). reflexivity.
    + inversion Hs; subst. reflexivity.
Qed.

Lemma span_digits_split s ds r : span_digits s = (ds, r) -> s = ds ++ r.
Proof.
  revert ds r. induction s as [|c s IH]; intros ds r Hs; cbn [span_digits] in Hs.
  - inversion Hs; reflexivity.
  - destruct (is_dig c).
    + destruct (span_digits s) as [ds0 r0] eqn:E. inversion Hs; subst. cbn. f_equal. now apply IH.
    + inversion Hs; reflexivity.
Qed.

Lemma scan_int_app s rest i r :
  scan_int s = Some (i, r) -> nonextb rest = true -> scan_int (s ++ rest) = Some (i, r ++ rest).
Proof.
  destruct s as [|c s]; [discriminate|]. cbn [scan_int app]. intros Hs Hn.
  destruct (c =? 48); [inversion Hs; subst; reflexivity|].
  destruct (is_dig19 c); [|discriminate].
  destruct (span_digits s) as [ds r0] eqn:E. inversion Hs; subst.
  rewrite (span_digits_app _ _ _ _ E Hn). reflexivity.
Qed.

Lemma scan_frac_app s rest f r :
  scan_frac s = Some (f, r) -> nonextb rest = true -> scan_frac (s ++ rest) = Some (f, r ++ rest).
Proof.
  destruct s as [|c s]; intros Hs Hn.
  - cbn in Hs. inversion Hs; subst. cbn [app].
    destruct rest as [|c r']; [reflexivity|]. cbn [scan_frac]. cbn [nonextb] in Hn.
    destruct (c =? 46); [|reflexivity].
    rewrite andb_false_r in Hn. cbn in Hn. rewrite ?andb_false_r in Hn. discriminate.
  - cbn [scan_frac app] in *. destruct (c =? 46); [|inversion Hs; subst; reflexivity].
    destruct (span_digits s) as [ds r0] eqn:E.
    rewrite (span_digits_app _ _ _ _ E Hn).
    destruct ds; [discriminate|]. inversion Hs; subst. reflexivity.
Qed.

Lemma scan_exp_app s rest e r :
  scan_exp s = Some (e, r) -> nonextb rest = true -> scan_exp (s ++ rest) = Some (e, r ++ rest).
Proof.
  destruct s as [|c s]; intros Hs Hn.
  - cbn in Hs. inversion Hs; subst. cbn [app].
    destruct rest as [|c r']; [reflexivity|]. cbn [scan_exp]. cbn [nonextb] in Hn.
    destruct (c =? 101); [rewrite ?andb_false_r in Hn; cbn in Hn; rewrite ?andb_false_r in Hn; discriminate|].
    destruct (c =? 69); [rewrite ?andb_false_r in Hn; discriminate|]. reflexivity.
  - cbn [scan_exp app] in *. destruct ((c =? 101) || (c =? 69)); [|inversion Hs; subst; reflexivity].
    destruct s as [|c1 s1].
    + cbn in Hs. discriminate.
    + cbn [app]. destruct ((c1 =? 43) || (c1 =? 45)).
      * destruct (span_digits s1) as [ds r0] eqn:E.
        rewrite (span_digits_app _ _ _ _ E Hn).
        destruct ds; [discriminate|]. inversion Hs; subst. reflexivity.
      * destruct (span_digits (c1 :: s1)) as [ds r0] eqn:E.
        change (c1 :: s1 ++ rest) with ((c1 :: s1) ++ rest).
        rewrite (span_digits_app _ _ _ _ E Hn).
        destruct ds; [discriminate|]. inversion Hs; subst. reflexivity.
Qed.

Lemma scan_int_split s i r : scan_int s = Some (i, r) -> s = i ++ r.
Proof.
  destruct s as [|c s]; [discriminate|]. cbn [scan_int]. intros Hs.
  destruct (c =? 48); [inversion Hs; reflexivity|].
  destruct (is_dig19 c); [|discriminate].
  destruct (span_digits s) as [ds r0] eqn:E. inversion Hs; subst.
  cbn. f_equal. now apply span_digits_split.
Qed.

Lemma scan_frac_split s f r : scan_frac s = Some (f, r) -> s = f ++ r.
Proof.
  destruct s as [|c s]; cbn [scan_frac]; intros Hs; [inversion Hs; reflexivity|].
  destruct (c =? 46); [|inversion Hs; reflexivity].
  destruct (span_digits s) as [ds r0] eqn:E. destruct ds; [discriminate|].
  inversion Hs; subst. cbn. f_equal. now apply span_digits_split in E.
Qed.

Lemma scan_exp_split s e r : scan_exp s = Some (e, r) -> s = e ++ r.
Proof.
  destruct s as [|c s]; cbn [scan_exp]; intros Hs; [inversion Hs; reflexivity|].
  destruct ((c =? 101) || (c =? 69)); [|inversion Hs; reflexivity].
  destruct s as [|c1 s1]; [cbn in Hs; discriminate|].
  destruct ((c1 =? 43) || (c1 =? 45)).
  - destruct (span_digits s1) as [ds r0] eqn:E. destruct ds; [discriminate|].
    inversion Hs; subst. apply span_digits_split in E. rewrite E. reflexivity.
  - destruct (span_digits (c1 :: s1)) as [ds r0] eqn:E. destruct ds; [discriminate|].
    inversion Hs; subst. apply span_digits_split in E. rewrite E. reflexivity.
Qed.

Lemma scan_number_split s lit r : scan_number s = Some (lit, r) -> s = lit ++ r.
Proof.
  unfold scan_number. intros Hs.
  assert (Hsg : exists sg s1, (match s with
                   | c :: r => if c =? 45 then ([c], r) else ([], s)
                   | [] => ([], s)
                   end) = (sg, s1) /\ s = sg ++ s1).
  { destruct s as [|c s']; [exists [], []; split; reflexivity|].
    destruct (c =? 45); [exists [c], s'|exists [], (c :: s')]; split; reflexivity. }
  destruct Hsg as (sg & s1 & Hsg & Hsplit). rewrite Hsg in Hs.
  destruct (scan_int s1) as [[i s2]|] eqn:Ei; [|discriminate].
  destruct (scan_frac s2) as [[f s3]|] eqn:Ef; [|discriminate].
  destruct (scan_exp s3) as [[e s4]|] eqn:Ee; [|discriminate].
  inversion Hs; subst lit r.
  apply scan_int_split in Ei. apply scan_frac_split in Ef. apply scan_exp_split in Ee.
  rewrite Hsplit, Ei, Ef, Ee. now rewrite <- !app_assoc.
Qed.

Lemma scan_number_app s rest lit r :
  scan_number s = Some (lit, r) -> nonextb rest = true -> s <> [] ->
  scan_number (s ++ rest) = Some (lit, r ++ rest).
Proof.
  unfold scan_number. intros Hs Hn Hne.
  destruct s as [|c s']; [congruence|]. cbn [app].
  destruct (c =? 45).
  - destruct (scan_int s') as [[i s2]|] eqn:Ei; [|discriminate].
    destruct (scan_frac s2) as [[f s3]|] eqn:Ef; [|discriminate].
    destruct (scan_exp s3) as [[e s4]|] eqn:Ee; [|discriminate].
    rewrite (scan_int_app _ _ _ _ Ei Hn), (scan_frac_app _ _ _ _ Ef Hn), (scan_exp_app _ _ _ _ Ee Hn).
    inversion Hs; subst. reflexivity.
  - destruct (scan_int (c :: s')) as [[i s2]|] eqn:Ei; [|discriminate].
    destruct (scan_frac s2) as [[f s3]|] eqn:Ef; [|discriminate].
    destruct (scan_exp s3) as [[e s4]|] eqn:Ee; [|discriminate].
    change (c :: s' ++ rest) with ((c :: s') ++ rest).
    rewrite (scan_int_app _ _ _ _ Ei Hn), (scan_frac_app _ _ _ _ Ef Hn), (scan_exp_app _ _ _ _ Ee Hn).
    inversion Hs; subst. reflexivity.
Qed.

(* a number literal followed by a delimiter is scanned back exactly *)
Lemma jnum_ok_scan lit rest :
  jnum_ok lit = true -> delimb rest = true -> scan_number (lit ++ rest) = Some (lit, rest).
Proof.
  unfold jnum_ok. intros Hok Hd.
  destruct (scan_number lit) as [[l r]|] eqn:E; [|discriminate].
  destruct r; [|discriminate].
  pose proof (scan_number_split _ _ _ E) as Hsp. rewrite app_nil_r in Hsp. subst l.
  assert (Hne : lit <> []) by (intros ->; cbn in E; discriminate).
  rewrite (scan_number_app _ _ _ _ E (delimb_nonextb _ Hd) Hne). reflexivity.
Qed.

Lemma jnum_ok_head lit : jnum_ok lit = true -> exists c r, lit = c :: r /\ num_start c = true.
Proof.
  unfold jnum_ok, scan_number. destruct lit as [|c r]; [cbn; discriminate|].
  intros H. exists c, r. split; [reflexivity|]. unfold num_start.
  destruct (c =? 45); [reflexivity|]. cbn [orb].
  cbn [scan_int] in H. unfold is_dig, is_dig19 in *.
  destruct (c =? 48) eqn:E0; [apply N.eqb_eq in E0; subst c; reflexivity|].
  destruct ((49 <=? c) && (c <=? 57)) eqn:E1; [|discriminate].
  apply andb_prop in E1 as [Ha Hb]. apply N.leb_le in Ha. rewrite Hb, andb_true_r. apply N.leb_le. lia.
Qed.

Lemma num_start_facts c : num_start c = true -> is_ws c = false.
Proof.
  unfold num_start, is_dig, is_ws. intros H.
  apply orb_prop in H as [H|H].
  - apply N.eqb_eq in H. subst c. reflexivity.
  - apply andb_prop in H as [Ha Hb]. apply N.leb_le in Ha. apply N.leb_le in Hb.
    repeat (apply orb_false_intro); apply N.eqb_neq; lia.
Qed.

(* strings *)
Lemma scan_string_plain s rest : str_plain s = true -> scan_string (s ++ 34 :: rest) = Some (s, rest).
Proof.
  induction s as [|c s IH]; intros Hp.
  - reflexivity.
  - cbn [str_plain forallb] in Hp. apply andb_prop in Hp as [Hc Hs].
    unfold plain_byte in Hc. apply andb_prop in Hc as [Hc H32]. apply andb_prop in Hc as [H34 H92].
    cbn [app scan_string].
    destruct (c =? 34); [discriminate|]. destruct (c =? 92); [discriminate|].
    apply N.leb_le in H32. destruct (c <? 32) eqn:E; [apply N.ltb_lt in E; lia|].
    rewrite (IH Hs). reflexivity.
Qed.

(* the first byte of a printed well-formed document *)
Definition first_ok (c : byte) : bool := negb (is_ws c) && negb (c =? 93) && negb (c =? 125).

Lemma jprint_first d : jwfb d = true -> exists c r, jprint d = c :: r /\ first_ok c = true.
Proof.
  destruct d as [|[|]|lit|s|l|l]; cbn [jwfb jprint]; intros Hw;
    try (eexists; eexists; split; [reflexivity|reflexivity]).
  destruct (jnum_ok_head _ Hw) as (c & r & -> & Hc). exists c, r. split; [reflexivity|].
  unfold first_ok. rewrite (num_start_facts _ Hc). cbn [negb andb].
  unfold num_start, is_dig in Hc. apply orb_prop in Hc as [Hc|Hc].
  - apply N.eqb_eq in Hc; subst c; reflexivity.
  - apply andb_prop in Hc as [Ha Hb]. apply N.leb_le in Ha. apply N.leb_le in Hb.
    replace (c =? 93) with false by (symmetry; apply N.eqb_neq; lia).
    replace (c =? 125) with false by (symmetry; apply N.eqb_neq; lia). reflexivity.
Qed.

Lemma skip_ws_first c r : first_ok c = true -> skip_ws (c :: r) = c :: r.
Proof.
  unfold first_ok. intros H. cbn [skip_ws]. destruct (is_ws c); [discriminate|reflexivity].
Qed.

Lemma first_ok_not c k : first_ok c = true -> (k = 93 \/ k = 125) -> (c =? k) = false.
Proof.
  unfold first_ok. intros H [-> | ->].
  - destruct (c =? 93); [rewrite andb_false_r in H; discriminate|reflexivity].
  - destruct (c =? 125); [rewrite andb_false_r in H; discriminate|reflexivity].
Qed.

(* lengths: every element prints at least one byte *)
Lemma print_elems_len l :
  forallb jwfb l = true ->
  (length l <= length (print_elems jprint l))%nat /\
  Forall (fun d => (length (jprint d) <= length (print_elems jprint l))%nat) l.
Proof.
  induction l as [|d r IH]; intros Hw; [split; [cbn; lia|constructor]|].
  cbn [forallb] in Hw. apply andb_prop in Hw as [Hd Hr]. destruct (IH Hr) as [IH1 IH2].
  destruct (jprint_first d Hd) as (c & t & Ec & _).
  cbn [print_elems length]. rewrite app_length.
  destruct r as [|d' r'].
  - cbn [length]. rewrite Ec. cbn [length]. split; [lia|]. constructor; [rewrite Ec; cbn [length]; lia|constructor].
  - cbn [length] in *. split; [rewrite Ec; cbn [length]; lia|].
    constructor; [lia|].
    eapply Forall_impl; [|exact IH2]. cbn beta. intros a Ha. lia.
Qed.

Lemma print_members_len l :
  forallb (fun kv => str_plain (fst kv) && jwfb (snd kv)) l = true ->
  (length l <= length (print_members jprint l))%nat /\
  Forall (fun kv => (length (jprint (snd kv)) <= length (print_members jprint l))%nat) l.
Proof.
  induction l as [|[k d] r IH]; intros Hw; [split; [cbn; lia|constructor]|].
  cbn [forallb] in Hw. apply andb_prop in Hw as [Hd Hr]. destruct (IH Hr) as [IH1 IH2].
  cbn [print_members length]. unfold jquote. cbn [length app]. rewrite !app_length. cbn [length snd].
  rewrite app_length.
  destruct r as [|kd' r'].
  - cbn [length]. split; [lia|]. constructor; [cbn [snd]; lia|constructor].
  - cbn [length] in *. split; [lia|].
    constructor; [cbn [snd]; lia|].
    eapply Forall_impl; [|exact IH2]. cbn beta. intros a Ha. lia.
Qed.

Definition rt_at (f : nat) : Prop :=
  forall d rest, jwfb d = true -> (length (jprint d) <= f)%nat -> delimb rest = true ->
                 parse f (jprint d ++ rest) = Some (d, rest).

Lemma p_elems_print f (Hf : rt_at f) :
  forall l d n rest,
    forallb jwfb (d :: l) = true ->
    Forall (fun x => (length (jprint x) <= f)%nat) (d :: l) ->
    (length (d :: l) <= n)%nat ->
    p_elems (parse f) n (print_elems jprint (d :: l) ++ 93 :: rest) = Some (d :: l, rest).
Proof.
  induction l as [|d' l IH]; intros d n rest Hw Hlen Hn.
  - cbn [forallb] in Hw. apply andb_prop in Hw as [Hd _].
    inversion Hlen as [|? ? Hld _]; subst.
    destruct n as [|n]; [cbn in Hn; lia|].
    cbn [print_elems p_elems]. rewrite app_nil_r.
    rewrite (Hf d (93 :: rest) Hd Hld eq_refl). reflexivity.
  - cbn [forallb] in Hw. apply andb_prop in Hw as [Hd Hr].
    inversion Hlen as [|? ? Hld Hlr]; subst.
    destruct n as [|n]; [cbn in Hn; lia|].
    change (print_elems jprint (d :: d' :: l)) with (jprint d ++ 44 :: print_elems jprint (d' :: l)).
    rewrite <- app_assoc. cbn [app p_elems].
    match goal with |- context [parse f (jprint d ++ ?r)] => rewrite (Hf d r Hd Hld eq_refl) end.
    cbn [skip_ws is_ws N.eqb Pos.eqb orb].
    change (44 =? 44) with true. cbn iota.
    rewrite (IH d' n rest Hr Hlr); [reflexivity|]. cbn [length] in *. lia.
Qed.

Lemma p_members_print f (Hf : rt_at f) :
  forall l k d n rest,
    forallb (fun kv => str_plain (fst kv) && jwfb (snd kv)) ((k, d) :: l) = true ->
    Forall (fun kv => (length (jprint (snd kv)) <= f)%nat) ((k, d) :: l) ->
    (length ((k, d) :: l) <= n)%nat ->
    p_members (parse f) n (print_members jprint ((k, d) :: l) ++ 125 :: rest) = Some ((k, d) :: l, rest).
Proof.
  induction l as [|[k' d'] l IH]; intros k d n rest Hw Hlen Hn.
  - cbn [forallb fst snd] in Hw. apply andb_prop in Hw as [Hd _]. apply andb_prop in Hd as [Hk Hd].
    inversion Hlen as [|? ? Hld _]; subst. cbn [snd] in Hld.
    destruct n as [|n]; [cbn in Hn; lia|].
    cbn [print_members]. rewrite app_nil_r. unfold jquote.
    cbn [app p_members skip_ws is_ws N.eqb Pos.eqb orb]. change (34 =? 34) with true. cbn iota.
    rewrite <- !app_assoc. cbn [app].
    rewrite (scan_string_plain k _ Hk).
    cbn [skip_ws is_ws N.eqb Pos.eqb orb]. change (58 =? 58) with true. cbn iota.
    rewrite (Hf d (125 :: rest) Hd Hld eq_refl). reflexivity.
  - cbn [forallb fst snd] in Hw. apply andb_prop in Hw as [Hd Hr]. apply andb_prop in Hd as [Hk Hd].
    inversion Hlen as [|? ? Hld Hlr]; subst. cbn [snd] in Hld.
    destruct n as [|n]; [cbn in Hn; lia|].
    change (print_members jprint ((k, d) :: (k', d') :: l))
      with (jquote k ++ 58 :: jprint d ++ 44 :: print_members jprint ((k', d') :: l)).
    unfold jquote at 1.
    cbn [app p_members skip_ws is_ws N.eqb Pos.eqb orb]. change (34 =? 34) with true. cbn iota.
    rewrite <- !app_assoc. cbn [app].
    rewrite (scan_string_plain k _ Hk).
    cbn [skip_ws is_ws N.eqb Pos.eqb orb]. change (58 =? 58) with true. cbn iota.
    rewrite <- app_assoc. cbn [app].
    match goal with |- context [parse f (jprint d ++ ?r)] => rewrite (Hf d r Hd Hld eq_refl) end.
    cbn [skip_ws is_ws N.eqb Pos.eqb orb]. change (44 =? 44) with true. cbn iota.
    rewrite (IH k' d' n rest Hr Hlr); [reflexivity|]. cbn [length] in *. lia.
Qed.

Lemma parse_print : forall f, rt_at f.
Proof.
  induction f as [|f IH]; intros d rest Hw Hlen Hd.
  - destruct (jprint_first d Hw) as (c & r & Ec & _). rewrite Ec in Hlen. cbn in Hlen. lia.
  - cbn [parse]. unfold p_value.
    destruct d as [|[|]|lit|s|l|l]; cbn [jwfb] in Hw.
    + reflexivity.
    + reflexivity.
    + reflexivity.
    + cbn [jprint].
      destruct (jnum_ok_head _ Hw) as (c & r & El & Hc).
      rewrite El. cbn [app]. cbn [skip_ws]. rewrite (num_start_facts _ Hc). rewrite Hc.
      change (c :: r ++ rest) with ((c :: r) ++ rest). rewrite <- El.
      rewrite (jnum_ok_scan _ _ Hw Hd). reflexivity.
    + cbn [jprint]. unfold jquote. cbn [app skip_ws is_ws N.eqb Pos.eqb orb num_start is_dig N.leb N.compare Pos.compare Pos.compare_cont andb].
      change (34 =? 34) with true. cbn iota.
      rewrite <- app_assoc. cbn [app]. rewrite (scan_string_plain s rest Hw). reflexivity.
    + cbn [jprint]. cbn [jprint length] in Hlen. rewrite app_length in Hlen. cbn [length] in Hlen.
      cbn [app skip_ws is_ws N.eqb Pos.eqb orb num_start is_dig N.leb N.compare Pos.compare Pos.compare_cont andb].
      change (91 =? 91) with true. change (91 =? 34) with false. cbn iota.
      rewrite <- app_assoc. cbn [app].
      destruct l as [|d l].
      * reflexivity.
      * destruct (print_elems_len _ Hw) as [Hn Hall].
        assert (Hw' := Hw). cbn [forallb] in Hw'. apply andb_prop in Hw' as [Hwd _].
        destruct (jprint_first d Hwd) as (c & t & Ec & Hc).
        assert (Ehd : exists t', print_elems jprint (d :: l) ++ 93 :: rest = c :: t').
        { cbn [print_elems]. rewrite Ec. cbn [app]. eexists. reflexivity. }
        destruct Ehd as [t' Ehd]. rewrite Ehd. rewrite (skip_ws_first _ _ Hc).
        rewrite (first_ok_not c 93 Hc (or_introl eq_refl)). rewrite <- Ehd.
        rewrite (p_elems_print f IH l d f rest Hw); [reflexivity| |lia].
        eapply Forall_impl; [|exact Hall]. cbn beta. intros a Ha. lia.
    + cbn [jprint]. cbn [jprint length] in Hlen. rewrite app_length in Hlen. cbn [length] in Hlen.
      cbn [app skip_ws is_ws N.eqb Pos.eqb orb num_start is_dig N.leb N.compare Pos.compare Pos.compare_cont andb].
      change (123 =? 123) with true. change (123 =? 34) with false. change (123 =? 91) with false. cbn iota.
      rewrite <- app_assoc. cbn [app].
      destruct l as [|[k d] l].
      * reflexivity.
      * destruct (print_members_len _ Hw) as [Hn Hall].
        assert (Ehd : exists t', print_members jprint ((k, d) :: l) ++ 125 :: rest = 34 :: t').
        { cbn [print_members]. unfold jquote. cbn [app]. eexists. reflexivity. }
        destruct Ehd as [t' Ehd]. rewrite Ehd.
        cbn [skip_ws is_ws N.eqb Pos.eqb orb]. change (34 =? 125) with false. cbn iota. rewrite <- Ehd.
        rewrite (p_members_print f IH l k d f rest Hw); [reflexivity| |lia].
        eapply Forall_impl; [|exact Hall]. cbn beta. intros a Ha. lia.
Qed.

(* printing a well-formed document and parsing it back gives the document *)
Theorem jparse_jprint d : jwfb d = true -> jparse (jprint d) = Some d.
Proof.
  intros Hw. unfold jparse.
  pose proof (parse_print (S (length (jprint d))) d [] Hw (Nat.le_succ_diag_r _) eq_refl) as H.
  rewrite app_nil_r in H. rewrite H. reflexivity.
Qed.

Corollary jvalidb_jprint d : jwfb d = true -> jvalidb (jprint d) = true.
Proof. intros Hw. unfold jvalidb. now rewrite jparse_jprint. Qed.
