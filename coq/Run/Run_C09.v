(* Run_C09.v — case records and evaluators for the C09 correspondence check. *)
From PGV Require Import Base.Bytes Spec.LRUSpec Model.LRU.
From PGV Require Import Extracted.SourceConst.
Open Scope Z_scope.

(* op alphabet of the bounded-exhaustive stream: keys 0..2, values 1..2 *)
Definition alphabet : list op :=
  [OStore 0 1; OStore 0 2; OStore 1 1; OStore 1 2; OStore 2 1; OStore 2 2;
   OLoad 0; OLoad 1; OLoad 2; ODelete 0; ODelete 1; ODelete 2; OLen]%N.

(* all sequences of length n, lexicographic in alphabet order, first op most significant *)
Fixpoint seqs (n : nat) : list (list op) :=
  match n with
  | O => [[]]
  | S m => flat_map (fun o => map (cons o) (seqs m)) alphabet
  end.

(* observation of one run, as base-100 digits: step outputs, 99, callback log, 99, dump *)
Definition enc_out (x : out) : list Z :=
  match x with
  | RNone => []
  | RLoad None => [0]
  | RLoad (Some v) => [1 + Z.of_N v]
  | RLen n => [if n <? 0 then 98 else 50 + n]
  end.
Definition enc_obs (outs : list out) (lg : list (K * V)) (dmp : list V) : list Z :=
  flat_map enc_out outs ++ [99] ++ map (fun p => Z.of_N (fst p) * 10 + Z.of_N (snd p)) lg ++ [99] ++ map Z.of_N dmp.
Fixpoint pack (ds : list Z) : Z := match ds with [] => 0 | d :: r => d + 100 * pack r end.

Definition obs_model (cap : Z) (ops : list op) : Z :=
  let '(s, outs) := run (init cap) ops in pack (enc_obs outs (log s) (dump s)).
Definition obs_spec (cap : Z) (ops : list op) : Z :=
  let '(a, outs, evs) := a_run cap [] ops in pack (enc_obs outs evs (map snd a)).
(* the timestamp specification has no order: its dump is not compared *)
Definition obs_nodump (outs : list out) (lg : list (K * V)) : Z := pack (enc_obs outs lg []).
Definition obs_tspec (cap : Z) (ops : list op) : Z :=
  let '(_, outs, evs) := t_run cap 0 [] ops in obs_nodump outs evs.
Definition obs_spec_nodump (cap : Z) (ops : list op) : Z :=
  let '(_, outs, evs) := a_run cap [] ops in obs_nodump outs evs.

(* explicit sequences: op code = kind*1000000 + key*100 + value *)
Definition dec_op (c : Z) : op :=
  let kind := c / 1000000 in let k := Z.to_N ((c / 100) mod 10000) in let v := Z.to_N (c mod 100) in
  if kind =? 0 then OStore k v else if kind =? 1 then OLoad k else if kind =? 2 then ODelete k else OLen.

Inductive case :=
| CExh (cap : Z) (len : nat) (first : option nat) (obs : list Z)
    (* all sequences of length len (restricted to those starting with alphabet[first]) *)
| CRun (cap : option Z) (ops : list Z) (outs : list Z) (lg : list Z) (dmp : list Z).
    (* cap = None: NewLRU() with the default capacity lruSize from the source *)

Definition exh_seqs (len : nat) (first : option nat) : list (list op) :=
  match first with
  | None => seqs len
  | Some i => match len with
              | O => []
              | S m => match nth_error alphabet i with
                       | Some o => map (cons o) (seqs m)
                       | None => []
                       end
              end
  end.

Fixpoint cmp_idx (f : list op -> Z) (i : N) (ss : list (list op)) (obs : list Z) : list N :=
  match ss, obs with
  | s :: ss', o :: obs' => if f s =? o then cmp_idx f (i + 1)%N ss' obs' else i :: cmp_idx f (i + 1)%N ss' obs'
  | [], [] => []
  | _, _ => [i]     (* length mismatch *)
  end.

Definition run_obs (outs lg dmp : list Z) : list Z := outs ++ [99] ++ lg ++ [99] ++ dmp.
Definition obsl_model (cap : Z) (ops : list op) : list Z :=
  let '(s, outs) := run (init cap) ops in enc_obs outs (log s) (dump s).
Definition obsl_spec (cap : Z) (ops : list op) : list Z :=
  let '(a, outs, evs) := a_run cap [] ops in enc_obs outs evs (map snd a).

Definition bad_case (model : bool) (c : case) : list N :=
  match c with
  | CExh cap len first obs =>
    cmp_idx (if model then obs_model cap else obs_spec cap) 0%N (exh_seqs len first) obs
  | CRun cap ops outs lg dmp =>
    let c' := match cap with Some z => z | None => lruSize end in
    let ops' := map dec_op ops in
    if list_eqb Z.eqb (if model then obsl_model c' ops' else obsl_spec c' ops') (run_obs outs lg dmp) then [] else [0%N]
  end.

Fixpoint bad_all (model : bool) (i : N) (cs : list case) : list N :=
  match cs with
  | [] => []
  | c :: r => map (fun j => (i * 10000000 + j)%N) (bad_case model c) ++ bad_all model (i + 1)%N r
  end.
Definition mismatches_model (cs : list case) : list N := bad_all true 0%N cs.
Definition mismatches_spec (cs : list case) : list N := bad_all false 0%N cs.

(* sanity: the timestamp specification and the abstract LRU agree on every short history
   (evaluated in Properties/C09.v as a finite check; the unbounded statement is a theorem) *)
Definition tspec_agrees (cap : Z) (len : nat) : bool :=
  forallb (fun s => obs_tspec cap s =? obs_spec_nodump cap s) (seqs len).
