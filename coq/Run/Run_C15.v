(* Run_C15.v — exact clause text of custom-message clauses; the explanation extractor. *)
From PGV Require Export Base.Bytes Base.GoStr Base.GoNum Base.Utf8.
From PGV Require Export Extracted.SourceConst.
From PGV Require Export Model.RuleText Model.Value Model.Clause Model.Rules Model.Walk Model.Explain.
From PGV Require Export Spec.RuleTextSpec Spec.ExplainSpec Run.Run_Walk.

Inductive case :=
| CW (w : Run_Walk.case)
| CText (e : entry) (text : str)                    (* a call that produced exactly one clause: its full text *)
| CCustom (msg text : str)                          (* a rule with the custom message msg (no label inside) produced this one-clause text *)
| COnly (s : str) (out : str)                       (* GetOnlyExplainErr s = out *)
| CExtract (cs : list sclause) (out : str).         (* GetOnlyExplainErr (render cs) = out *)

Definition model_text (e : entry) : option str :=
  match run_entry e with
  | Ok (OClauses [c]) => clause_text c
  | _ => None
  end.

Definition render (cs : list sclause) : str := join ErrEndFlag (map render1 cs).

Definition check_model (c : case) : bool :=
  match c with
  | CW w => Run_Walk.check_model w
  | CText e text => match model_text e with Some t => str_eqb t text | None => false end
  | CCustom _ _ => true
  | COnly s out => str_eqb (only_explain s) out
  | CExtract cs out => str_eqb (only_explain (render cs)) out
  end.

(* the property's own words: the message verbatim, behind the Chinese label if it contains a CJK character
   (U+4E00..U+9FA5) and the English label otherwise — decided on the message alone *)
Definition custom_ending (msg : str) : str :=
  (if existsb Spec.RuleTextSpec.is_cjk (decode msg) then ExplainZh else ExplainEn) ++ 32%N :: msg.

(* the spec for a custom-message clause: path, echo, then label and message verbatim; the case
   carries them as a one-clause Labelled list and the same text must come back from the extractor *)
Definition check_spec (c : case) : bool :=
  match c with
  | CW w => Run_Walk.check_spec w
  | CText _ _ => true
  | CCustom msg text => has_suffix text (custom_ending msg)
  | COnly _ _ => true
  | CExtract cs out => str_eqb (join ErrEndFlag (explanations cs)) out
  end.

Fixpoint bad_idx (f : case -> bool) (i : N) (cs : list case) : list N :=
  match cs with
  | [] => []
  | c :: r => if f c then bad_idx f (i + 1)%N r else i :: bad_idx f (i + 1)%N r
  end.
Definition mismatches_model (cs : list case) : list N := bad_idx check_model 0%N cs.
Definition mismatches_spec (cs : list case) : list N := bad_idx check_spec 0%N cs.
