(* Run_C01.v — the C01 cases: generic walker cases plus the complete 8-bit sweep. *)
From PGV Require Export Base.Bytes Base.GoStr Base.GoNum Base.Utf8.
From PGV Require Export Model.RuleText Model.Value Model.Clause Model.Rules Model.Walk.
From PGV Require Export Spec.SizeSpec Run.Run_Walk.
Open Scope Z_scope.

Definition rule_name (r : srule) : str :=
  match r with
  | RTo => s2b "to" | RGe => s2b "ge" | RLe => s2b "le" | ROTo => s2b "oto"
  | RGt => s2b "gt" | RLt => s2b "lt" | REq => s2b "eq" | RNoEq => s2b "noeq"
  end.
Definition two_bounds (r : srule) : bool := match r with RTo | ROTo => true | _ => false end.
(* the bound a one-sided rule reads, as the spec's (lo, hi) pair *)
Definition bounds_of (r : srule) (b : Z) : Z * Z := match r with RLe | RLt => (0, b) | _ => (b, 0) end.

Definition rule_text (r : srule) (lo hi : Z) : str :=
  rule_name r ++ 61%N :: (if two_bounds r then itoa lo ++ 126%N :: itoa hi
                          else itoa (match r with RLe | RLt => hi | _ => lo end)).

Definition model_fn (r : srule) : rulefn :=
  match r with
  | RTo => rTo | RGe => rGe | RLe => rLe | ROTo => rOTo | RGt => rGt | RLt => rLt | REq => rEq | RNoEq => rNoEq
  end.

(* all non-zero 8-bit values *)
Definition values8 (signed : bool) : list Z :=
  filter (fun z => negb (z =? 0)) (map (fun n => if signed then Z.of_nat n - 128 else Z.of_nat n) (seq 0 256)).
Definition mkval (signed : bool) (z : Z) : val := if signed then VInt W8 z else VUint W8 z.

Definition pairs (r : srule) (window : list Z) : list (Z * Z) :=
  if two_bounds r then flat_map (fun lo => map (fun hi => (lo, hi)) window) window
  else map (bounds_of r) window.

Definition verdicts (f : srule -> Z -> Z -> val -> bool) (signed : bool) (r : srule) (window : list Z) : list bool :=
  let vals := map (mkval signed) (values8 signed) in
  flat_map (fun p => let g := f r (fst p) (snd p) in map g vals) (pairs r window).

(* the rule text is parsed once per bound pair (the rule functions return a closure over the value) *)
Definition model_verdict (r : srule) (lo hi : Z) : val -> bool :=
  let g := model_fn r (rule_text r lo hi) [] [] in
  fun v => match g v with [] => false | _ => true end.
Definition spec_verdict (r : srule) (lo hi : Z) (v : val) : bool :=
  match measure v with Some x => negb (in_set r lo hi x) | None => false end.

(* 60 verdicts per number, first verdict = least significant bit *)
Fixpoint pack_bits (n : nat) (acc : Z) (w : Z) (bs : list bool) : list Z :=
  match bs with
  | [] => match n with O => [] | _ => [acc] end
  | b :: r => let acc' := if b then acc + w else acc in
              match n with
              | 59%nat => acc' :: pack_bits O 0 1 r
              | _ => pack_bits (S n) acc' (2 * w) r
              end
  end.
Definition packed (bs : list bool) : list Z := pack_bits O 0 1 bs.

Inductive case :=
| CW (w : Run_Walk.case)
| CSweep (signed : bool) (r : srule) (window : list Z) (bits : list Z).

Definition check_model (c : case) : bool :=
  match c with
  | CW w => Run_Walk.check_model w
  | CSweep sg r win bits => list_eqb Z.eqb (packed (verdicts model_verdict sg r win)) bits
  end.
Definition check_spec (c : case) : bool :=
  match c with
  | CW w => Run_Walk.check_spec w
  | CSweep sg r win bits => list_eqb Z.eqb (packed (verdicts spec_verdict sg r win)) bits
  end.

Fixpoint bad_idx (f : case -> bool) (i : N) (cs : list case) : list N :=
  match cs with
  | [] => []
  | c :: r => if f c then bad_idx f (i + 1)%N r else i :: bad_idx f (i + 1)%N r
  end.
Definition mismatches_model (cs : list case) : list N := bad_idx check_model 0%N cs.
Definition mismatches_spec (cs : list case) : list N := bad_idx check_spec 0%N cs.
