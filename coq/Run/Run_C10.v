(* Run_C10.v — recorded concurrent histories: linearizability against the sequential LRU model
   (and against the abstract LRU of the specification), quiescent invariants. *)
From PGV Require Import Base.Bytes Spec.LRUSpec Model.LRU Model.ConcLRU.
From Coq Require Import Permutation.
Open Scope Z_scope.

Record hev := { h_op : cop; h_res : cres; h_inv : Z; h_ret : Z }.

(* each element together with the others *)
Fixpoint picks {X} (pre : list X) (l : list X) : list (X * list X) :=
  match l with
  | [] => []
  | x :: r => (x, rev_append pre r) :: picks (x :: pre) r
  end.

(* e may be linearized first: no other pending call returned before e was invoked *)
Definition minimal (e : hev) (rest : list hev) : bool :=
  forallb (fun e' => negb (h_ret e' <? h_inv e)) rest.

(* existsb, but the rest of the list is looked at only when needed (the evaluation of case files is call by value:
   a || b and a && b written as functions would evaluate both sides, i.e. explore every order) *)
Fixpoint lazy_exists {X} (f : X -> bool) (l : list X) : bool :=
  match l with [] => false | x :: r => if f x then true else lazy_exists f r end.

Section Lin.
  Context {S : Type}.
  Variable sem : S -> cop -> S * cres.

  Fixpoint lin (fuel : nat) (s : S) (pending : list hev) : bool :=
    match fuel with
    | O => false
    | Datatypes.S f =>
      match pending with
      | [] => true
      | _ => lazy_exists (fun p => let '(e, rest) := p in
                                   if minimal e rest
                                   then (let '(s', r) := sem s (h_op e) in if cres_eqb r (h_res e) then lin f s' rest else false)
                                   else false)
                         (picks [] pending)
      end
    end.

  (* a witness order *)
  Fixpoint legal (s : S) (l : list hev) : Prop :=
    match l with
    | [] => True
    | e :: r => cres_eqb (snd (sem s (h_op e))) (h_res e) = true /\ legal (fst (sem s (h_op e))) r
    end.
  Fixpoint rt_ok (l : list hev) : Prop :=
    match l with
    | [] => True
    | e :: r => (forall e', In e' r -> ~ (h_ret e' < h_inv e)) /\ rt_ok r
    end.
  Definition linearizable (s : S) (h : list hev) : Prop :=
    exists l, Permutation l h /\ legal s l /\ rt_ok l.
End Lin.

(* abstract-LRU semantics of a call (specification side) *)
Definition astep (cap : Z) (a : A) (o : cop) : A * cres :=
  match o with
  | COp o' => let '(a', x, _) := a_step cap a o' in (a', ROut x)
  | CDump => (a, RDump (map snd a))
  end.

Definition linearizableb_model (cap : Z) (h : list hev) : bool := lin cstep (Datatypes.S (length h)) (init cap) h.
Definition linearizableb_spec (cap : Z) (h : list hev) : bool := lin (astep cap) (Datatypes.S (length h)) [] h.

(* compact event encoding written by the harness: kind*1000000 + key*100 + value *)
Definition dec_cop (c : Z) : cop :=
  let kind := c / 1000000 in let k := Z.to_N ((c / 100) mod 10000) in let v := Z.to_N (c mod 100) in
  if kind =? 0 then COp (OStore k v) else if kind =? 1 then COp (OLoad k)
  else if kind =? 2 then COp (ODelete k) else if kind =? 3 then COp OLen else CDump.
(* result: Store/Delete: [] ; Load miss: [0] ; Load hit v: [1+v] ; Len n: [n] ; Dump: values *)
Definition dec_res (o : cop) (r : list Z) : cres :=
  match o with
  | COp (OLoad _) => match r with
                     | x :: _ => if x =? 0 then ROut (RLoad None) else ROut (RLoad (Some (Z.to_N (x - 1))))
                     | [] => ROut RNone
                     end
  | COp OLen => match r with x :: _ => ROut (RLen x) | [] => ROut RNone end
  | COp _ => ROut RNone
  | CDump => RDump (map Z.to_N r)
  end.
Definition mk (c : Z) (r : list Z) (i t : Z) : hev :=
  let o := dec_cop c in {| h_op := o; h_res := dec_res o r; h_inv := i; h_ret := t |}.

Inductive case :=
| CLin (cap : Z) (evs : list (Z * list Z * Z * Z))     (* small recorded history *)
| CQuiesce (cap : Z) (len : Z) (dump_lines : Z).        (* after all goroutines joined *)

Definition ok_case (model : bool) (c : case) : bool :=
  match c with
  | CLin cap evs =>
    let h := map (fun e => let '(c, r, i, t) := e in mk c r i t) evs in
    if model then linearizableb_model cap h else linearizableb_spec cap h
  | CQuiesce cap len lines => (0 <=? len) && (len <=? cap) && (lines =? len)
  end.

Fixpoint bad_idx (f : case -> bool) (i : N) (cs : list case) : list N :=
  match cs with
  | [] => []
  | c :: r => if f c then bad_idx f (i + 1)%N r else i :: bad_idx f (i + 1)%N r
  end.
Definition mismatches_model (cs : list case) : list N := bad_idx (ok_case true) 0%N cs.
Definition mismatches_spec (cs : list case) : list N := bad_idx (ok_case false) 0%N cs.
