(* Run_C19.v — case records and evaluators for the C19 correspondence check: one CLI run over a
   directory tree. *)
From PGV Require Import Base.Bytes Base.GoStr.
From PGV Require Export Spec.InjectSpec Model.Inject.   (* case files name their constructors *)

Inductive mode :=
| MFile (name : str)                              (* -f name *)
| MDir (dir : str) (entries : list (str * bool))  (* -d dir ; os.ReadDir(dir): (name, IsDir) *)
| MPattern (names : list str).                    (* -p pattern ; filepath.Glob(pattern) *)

Inductive case :=
| CTree (m : mode)
        (before : list (str * str))                     (* every regular file of the tree, sub-directories included *)
        (parse : list (str * option (list area)))       (* file.ParseFile on each .go file before the run; None: error *)
        (abs : list (str * gofile))                     (* generated files of C06's shape: path -> abstract file *)
        (after : list (str * str)).                     (* every regular file after the run, same order *)

Fixpoint table_get {A} (t : list (str * A)) (p : str) : option A :=
  match t with
  | [] => None
  | (q, a) :: r => if str_eqb q p then Some a else table_get r p
  end.

Definition oracle (t : list (str * option (list area))) (p : str) (_ : str) : option (list area) :=
  match table_get t p with Some (Some a) => Some a | _ => None end.

Definition pair_eqb (a b : str * str) : bool := str_eqb (fst a) (fst b) && str_eqb (snd a) (snd b).

Definition run_model (m : mode) (parse : list (str * option (list area))) (fs : list (str * str)) : res (list (str * str)) :=
  match m with
  | MFile n => x <- handle_file (oracle parse) fs n ;; Ok (fst x)
  | MDir d es => x <- handle_dir (oracle parse) fs d es ;; Ok (fst x)
  | MPattern ns => x <- handle_pattern (oracle parse) fs ns ;; Ok (fst x)
  end.

Definition check_model (c : case) : bool :=
  match c with
  | CTree m before parse _ after =>
      match run_model m parse before with
      | Ok fs' => list_eqb pair_eqb fs' after
      | _ => false
      end
  end.

(* ---- the specification side, written without the model's functions ---- *)
Definition dot_go : str := s2b ".go".
Definition is_go (p : str) : bool := has_suffix p dot_go.
Definition with_slash (d : str) : str := if has_suffix d [47%N] then d else d ++ [47%N].

(* the paths the tool is asked to process *)
Definition asked (m : mode) : list str :=
  match m with
  | MFile n => [n]
  | MDir d es => map (fun e => with_slash d ++ fst e) (filter (fun e => negb (snd e)) es)
  | MPattern ns => ns
  end.

Definition check_file (m : mode) (parse : list (str * option (list area))) (abs : list (str * gofile))
           (after : list (str * str)) (pb : str * str) : bool :=
  let '(p, b) := pb in
  match table_get after p with
  | None => false                                         (* the file disappeared *)
  | Some b' =>
    let unchanged := str_eqb b' b in
    if negb (is_go p) then unchanged                      (* not a .go file: byte-identical *)
    else if negb (existsb (str_eqb p) (asked m)) then unchanged   (* not asked for (sub-directory, other file) *)
    else match table_get parse p with
         | Some None | None => unchanged                  (* does not parse: byte-identical *)
         | Some (Some _) =>
           match table_get abs p with
           | Some f => wf_file f && str_eqb b (render f) && str_eqb b' (render (inject_file f))
                                                          (* still processed, whatever else is in the directory *)
           | None => true                                 (* valid Go outside C06's shape: only "no crash" is claimed *)
           end
         end
  end.

Definition check_spec (c : case) : bool :=
  match c with
  | CTree m before parse abs after =>
      Nat.eqb (length before) (length after) && forallb (check_file m parse abs after) before
  end.

Fixpoint bad_idx (f : case -> bool) (i : N) (cs : list case) : list N :=
  match cs with
  | [] => []
  | c :: r => if f c then bad_idx f (i + 1)%N r else i :: bad_idx f (i + 1)%N r
  end.
Definition mismatches_model (cs : list case) : list N := bad_idx check_model 0%N cs.
Definition mismatches_spec (cs : list case) : list N := bad_idx check_spec 0%N cs.
