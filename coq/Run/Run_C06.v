(* Run_C06.v — case records and evaluators for the C06 / C07 correspondence checks. *)
From PGV Require Import Base.Bytes Base.GoStr.
From PGV Require Export Spec.InjectSpec Model.Inject.   (* case files name their constructors *)

Inductive case :=
| CFile (f : gofile) (areas : list area) (outs : list str)
   (* render f was written to disk; file.ParseFile reported [areas]; [outs] are the bytes found after
      ONE run of the tool on a fresh copy through each entry point (library, CLI -f, -d, -p; equal
      outputs are listed once) *)
| CRepeat (f : gofile) (steps : list (list area * str))
   (* C07: run n = 1..k on the SAME file: the areas ParseFile reported just before run n, and the
      bytes after it *)
| CBytes (contents : str) (areas : list area) (out : str).
   (* a Go file outside the abstract shape (irregular blanks inside the literal, several comments on a
      field, the recorded finding regions): only the byte-level model is compared *)

Definition res_str_eqb (r : res str) (o : str) : bool :=
  match r with Ok b => str_eqb b o | _ => false end.
Definition res_areas_eqb (r : res (list area)) (l : list area) : bool :=
  match r with Ok a => list_eqb area_eqb a l | _ => false end.

(* replay the runs: every run starts from what the previous one left *)
Fixpoint replay (contents : str) (steps : list (list area * str)) : bool :=
  match steps with
  | [] => true
  | (areas, out) :: r => res_str_eqb (write_file contents areas) out && replay out r
  end.

Definition check_model (c : case) : bool :=
  match c with
  | CFile f areas outs =>
      res_areas_eqb (areas_of f) areas &&
      forallb (res_str_eqb (write_file (render f) areas)) outs
  | CRepeat f steps =>
      match steps with
      | [] => true
      | (a1, _) :: later =>
          res_areas_eqb (areas_of f) a1 &&
          (* what go/parser sees in the output of run 1 is the abstract file after injection *)
          forallb (fun st => res_areas_eqb (areas_of (inject_file f)) (fst st)) later &&
          replay (render f) steps
      end
  | CBytes contents areas out => res_str_eqb (write_file contents areas) out
  end.

(* the specification side uses nothing of the model: the domain predicate, the merge, render *)
Definition check_spec (c : case) : bool :=
  match c with
  | CFile f _ outs =>
      wf_file f && forallb (str_eqb (render (inject_file f))) outs
  | CRepeat f steps =>
      (* idempotence: every run, the first included, leaves exactly the bytes the first run must leave *)
      wf_file f && forallb (fun st => str_eqb (render (inject_file f)) (snd st)) steps
  | CBytes _ _ _ => true
  end.

Fixpoint bad_idx (f : case -> bool) (i : N) (cs : list case) : list N :=
  match cs with
  | [] => []
  | c :: r => if f c then bad_idx f (i + 1)%N r else i :: bad_idx f (i + 1)%N r
  end.
Definition mismatches_model (cs : list case) : list N := bad_idx check_model 0%N cs.
Definition mismatches_spec (cs : list case) : list N := bad_idx check_spec 0%N cs.
