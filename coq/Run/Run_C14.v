(* Run_C14.v — case records and evaluators for the C14 correspondence check. *)
From PGV Require Import Base.Bytes Base.GoStr Base.Utf8 Model.RuleText Spec.RuleTextSpec.
From PGV Require Import Extracted.SourceConst.

Inductive case :=
| CParse (s : str) (k v m : str)                        (* ParseValidNameKV s = (k, v, m) observed *)
| CSplit (s : str) (sep : byte) (out : list str)        (* ValidNamesSplit s sep *)
| CGen (key : str) (vals : list str) (out : str)        (* GenValidKV key vals... *)
| CRm (sets : list (str * list str)) (gets : list (str * str))   (* RM.Set ... ; Get f = v *)
| CRound (field : str) (rules : list (str * str * option str)) (out : list (str * str * str)).
   (* builder -> RM.Set (one call per rule) -> Get -> ValidNamesSplit -> ParseValidNameKV, observed *)

Definition triple_eqb (a b : str * str * str) : bool :=
  str_eqb (fst (fst a)) (fst (fst b)) && str_eqb (snd (fst a)) (snd (fst b)) && str_eqb (snd a) (snd b).

Definition gen_of (r : str * str * option str) : str :=
  let '(k, v, m) := r in
  match v, m with
  | [], None => gen_kv k []
  | _, None => gen_kv k [v]
  | _, Some m' => gen_kv k [v; m']
  end.

Definition round_model (field : str) (rules : list (str * str * option str)) : list (str * str * str) :=
  let r := fold_left (fun acc x => rm_set acc field [gen_of x]) rules [] in
  map parse_kv (names_split COMMA (rm_get r field)).

Definition check_model (c : case) : bool :=
  match c with
  | CParse s k v m => triple_eqb (parse_kv s) (k, v, m)
  | CSplit s sep out => list_eqb str_eqb (names_split sep s) out
  | CGen key vals out => str_eqb (gen_kv key vals) out
  | CRm sets gets =>
    let r := fold_left (fun acc x => rm_set acc (fst x) (snd x)) sets [] in
    forallb (fun g => str_eqb (rm_get r (fst g)) (snd g)) gets
  | CRound field rules out => list_eqb triple_eqb (round_model field rules) out
  end.

Definition to_rule (x : str * str * option str) : rule :=
  let '(k, v, m) := x in {| r_key := k; r_val := v; r_msg := m |}.

Definition check_spec (c : case) : bool :=
  match c with
  | CSplit s sep out =>
    if N.eqb sep QUOTE then true
    else str_eqb (join1 sep out) s || str_eqb (join1 sep out ++ [sep]) s
  | CRound field rules out =>
    forallb (fun x => wf_rule (to_rule x)) rules &&
    list_eqb triple_eqb (map (fun x => parsed_spec ExplainEn ExplainZh (to_rule x)) rules) out
  | _ => true
  end.

Fixpoint bad_idx (f : case -> bool) (i : N) (cs : list case) : list N :=
  match cs with
  | [] => []
  | c :: r => if f c then bad_idx f (i + 1)%N r else i :: bad_idx f (i + 1)%N r
  end.
Definition mismatches_model (cs : list case) : list N := bad_idx check_model 0%N cs.
Definition mismatches_spec (cs : list case) : list N := bad_idx check_spec 0%N cs.
