(* Run_C20.v — case records and evaluators for the C20 correspondence check. *)
From PGV Require Import Base.Bytes Base.GoNum Json.Grammar Model.Dump Spec.DumpSpec.
From PGV Require Export Model.DumpVal.   (* case files write [val] terms *)
Open Scope N_scope.

Inductive case :=
| CDump (v : val) (obs : str) (json_agrees : bool) (in_domain : bool)
    (* GetDumpStructStr(v) = obs, byte for byte (maps have at most one entry, so the iteration
       order is determined); json_agrees: the harness decoded obs and GetDumpStructStrForJson(v)
       with encoding/json and found the same document up to the documented deviations;
       in_domain: the generator claims the value lies in the property's domain — then [dumpable]
       must hold, so a generator that leaves the domain cannot make the check vacuous *)
| CPerm (v : val) (obs : str) (json_agrees : bool) (in_domain : bool).
    (* the same with multi-entry maps: Go's iteration order is not observable, so obs is compared
       as a document with object members taken as a set *)

(* ---- documents up to member order ---- *)
Fixpoint str_leb (a b : str) : bool :=
  match a, b with
  | [], _ => true
  | _ :: _, [] => false
  | x :: a', y :: b' => if x <? y then true else if y <? x then false else str_leb a' b'
  end.

Fixpoint insert_member (m : str * jdoc) (l : list (str * jdoc)) : list (str * jdoc) :=
  match l with
  | [] => [m]
  | x :: r => if str_leb (fst m) (fst x) then m :: l else x :: insert_member m r
  end.
Definition sort_members (l : list (str * jdoc)) : list (str * jdoc) := fold_right insert_member [] l.

Fixpoint jnorm (d : jdoc) : jdoc :=
  match d with
  | JArr l => JArr (map jnorm l)
  | JObj l => JObj (sort_members (map (fun kv => (fst kv, jnorm (snd kv))) l))
  | _ => d
  end.

Fixpoint jdoc_eqb (a b : jdoc) : bool :=
  match a, b with
  | JNull, JNull => true
  | JBool x, JBool y => Bool.eqb x y
  | JNum x, JNum y => str_eqb x y
  | JStr x, JStr y => str_eqb x y
  | JArr l, JArr m =>
    (fix go (l m : list jdoc) : bool :=
       match l, m with
       | [], [] => true
       | x :: l', y :: m' => jdoc_eqb x y && go l' m'
       | _, _ => false
       end) l m
  | JObj l, JObj m =>
    (fix go (l m : list (str * jdoc)) : bool :=
       match l, m with
       | [], [] => true
       | (k, x) :: l', (k', y) :: m' => str_eqb k k' && jdoc_eqb x y && go l' m'
       | _, _ => false
       end) l m
  | _, _ => false
  end.

Definition same_doc (a b : jdoc) : bool := jdoc_eqb (jnorm a) (jnorm b).

(* the runner's fuel *)
Definition run_dump (v : val) : res str := dump (S (depth v)) v.

Definition check_model (c : case) : bool :=
  match c with
  | CDump v obs _ _ =>
    match run_dump v with Ok s => str_eqb s obs | _ => false end
  | CPerm v obs _ _ =>
    match run_dump v with
    | Ok s => match jparse s, jparse obs with
              | Some a, Some b => same_doc a b
              | _, _ => false
              end
    | _ => false
    end
  end.

(* the specification applies inside the property's domain only; quirk cases outside it are
   generated to tie the model (check_model) and are skipped here *)
Definition check_spec (c : case) : bool :=
  match c with
  | CDump v obs agrees in_domain =>
    if dumpable v then
      match doc_of v with
      | Some d => str_eqb obs (jprint d) && jvalidb obs && agrees
      | None => false
      end
    else negb in_domain
  | CPerm v obs agrees in_domain =>
    if dumpable v then
      match doc_of v, jparse obs with
      | Some d, Some o => same_doc d o && agrees
      | _, _ => false
      end
    else negb in_domain
  end.

Fixpoint bad_idx (f : case -> bool) (i : N) (cs : list case) : list N :=
  match cs with
  | [] => []
  | c :: r => if f c then bad_idx f (i + 1) r else i :: bad_idx f (i + 1) r
  end.
Definition mismatches_model (cs : list case) : list N := bad_idx check_model 0 cs.
Definition mismatches_spec (cs : list case) : list N := bad_idx check_spec 0 cs.
