(* Run_Walk.v — case records and evaluators shared by the validator properties
   (C01-C05, C13, C15-C18): an entry point with its arguments, the observation projected from the
   implementation's error, and the specification questions asked of that observation. *)
From PGV Require Export Base.Bytes Base.GoStr Base.GoNum Base.Utf8.
From PGV Require Export Extracted.SourceConst.
From PGV Require Export Model.RuleText Model.Value Model.Clause Model.Rules Model.Walk.
From PGV Require Export Spec.SizeSpec Spec.FormatSpec.
Open Scope Z_scope.

Inductive entry :=
| EStruct (c : cfg) (src : option val)
| EVar (c : cfg) (rules : list str) (src : option val)
| EMap (c : cfg) (rules : rm) (src : option val)
| EUrl (c : cfg) (rules : rm) (src : option val).

(* what the harness saw: nil, a panic, or the canonical clauses of the error text *)
Inductive obs := ObsNil | ObsPanic | ObsErr (canon : list str).

Definition fuel_of (src : option val) : nat := match src with Some v => S (S (depth v)) | None => 2%nat end.

Definition run_entry (e : entry) : res outcome :=
  match e with
  | EStruct c src => struct_valid c (fuel_of src) src
  | EVar c rules src => var_valid c rules src
  | EMap c rules src => map_valid c rules src
  | EUrl c rules src => url_valid c rules src
  end.

Definition obs_of (r : res outcome) : obs :=
  match r with
  | Ok ONil => ObsNil
  | Ok (OErrText s) => ObsErr [canon (CField [] [] (FKnown s))]
  | Ok (OClauses cs) => ObsErr (map canon cs)
  | Panic _ => ObsPanic
  | OutOfFuel => ObsErr [s2b "OUT-OF-FUEL"]
  end.

(* ordering of byte strings, insertion sort *)
Fixpoint str_leb (a b : str) : bool :=
  match a, b with
  | [], _ => true
  | _ :: _, [] => false
  | x :: a', y :: b' => if (x <? y)%N then true else if (y <? x)%N then false else str_leb a' b'
  end.
Fixpoint insert_sorted (x : str) (l : list str) : list str :=
  match l with
  | [] => [x]
  | y :: r => if str_leb x y then x :: l else y :: insert_sorted x r
  end.
Definition sort_strs (l : list str) : list str := fold_right insert_sorted [] l.

(* group clauses (Go map order) are always compared as a set; the rest in order unless the input
   contains a multi-entry Go map *)
Definition is_group (s : str) : bool := has_prefix s (US :: s2b "-" ++ US :: s2b "G:").
Definition obs_eqb (ordered : bool) (a b : obs) : bool :=
  match a, b with
  | ObsNil, ObsNil => true
  | ObsPanic, ObsPanic => true
  | ObsErr x, ObsErr y =>
    if ordered then
      list_eqb str_eqb (filter (fun s => negb (is_group s)) x) (filter (fun s => negb (is_group s)) y)
      && list_eqb str_eqb (sort_strs (filter is_group x)) (sort_strs (filter is_group y))
    else list_eqb str_eqb (sort_strs x) (sort_strs y)
  | _, _ => false
  end.

(* ---------- specification questions ---------- *)
Definition has_marker (o : obs) (m : str) : bool :=
  match o with
  | ObsErr cs => existsb (fun s => contains s m) cs
  | _ => false
  end.
Definition count_marker (o : obs) (m : str) : nat :=
  match o with
  | ObsErr cs => length (filter (fun s => contains s m) cs)
  | _ => O
  end.

Inductive specq :=
| SNone
| SNoPanic                                                   (* C13 *)
| SSize (r : srule) (lo hi : Z) (v : val) (marker : str)     (* C01: marker clause present iff measure outside *)
| SFmt (f : fspec) (v : val) (marker : str)                  (* C05: marker clause present iff v outside the language *)
| SVerdict (expect_violated : bool) (marker : str).          (* a verdict fixed by the case *)

Definition spec_ok (q : specq) (o : obs) : bool :=
  match q with
  | SNone => true
  | SNoPanic => match o with ObsPanic => false | _ => true end
  | SSize r lo hi v marker =>
    match measure v with
    | Some x => sizeable v && Bool.eqb (has_marker o marker) (negb (in_set r lo hi x))
                && (count_marker o marker <=? 1)%nat
    | None => false     (* the generator must stay inside the property's domain *)
    end
  | SFmt f v marker =>
    match in_language f v with
    | Some b => Bool.eqb (has_marker o marker) (negb b) && (count_marker o marker <=? 1)%nat
    | None => false
    end
  | SVerdict b marker => Bool.eqb (has_marker o marker) b && (count_marker o marker <=? 1)%nat
  end.

Inductive case := CWalk (e : entry) (ordered : bool) (o : obs) (qs : list specq).

Definition check_model (c : case) : bool :=
  match c with CWalk e ordered o _ => obs_eqb ordered (obs_of (run_entry e)) o end.
Definition check_spec (c : case) : bool :=
  match c with CWalk _ _ o qs => forallb (fun q => spec_ok q o) qs end.

Fixpoint bad_idx (f : case -> bool) (i : N) (cs : list case) : list N :=
  match cs with
  | [] => []
  | c :: r => if f c then bad_idx f (i + 1)%N r else i :: bad_idx f (i + 1)%N r
  end.
Definition mismatches_model (cs : list case) : list N := bad_idx check_model 0%N cs.
Definition mismatches_spec (cs : list case) : list N := bad_idx check_spec 0%N cs.

(* short constructors for generated files *)
Definition cfg0 (tag : str) (orc : oracles) : cfg :=
  {| c_tag := tag; c_typed := []; c_unscoped := None; c_local := []; c_global := []; c_orc := orc |}.
Definition FI (n : str) (tags : list (str * str)) (t : bool) : finfo := {| f_name := n; f_tags := tags; f_time := t |}.
Definition SI (n t : str) : sinfo := {| s_name := n; s_tstr := t |}.
