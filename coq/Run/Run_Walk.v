(* Run_Walk.v — case records and evaluators shared by the validator properties
   (C01-C05, C13, C15-C18): an entry point with its arguments, the observation projected from the
   implementation's error, and the specification questions asked of that observation. *)
From PGV Require Export Base.Bytes Base.GoStr Base.GoNum Base.Utf8.
From PGV Require Export Extracted.SourceConst.
From PGV Require Export Model.RuleText Model.Value Model.Clause Model.Rules Model.Walk.
From PGV Require Export Spec.SizeSpec Spec.FormatSpec.
Open Scope Z_scope.

Inductive entry :=
| EStruct (c : cfg) (src : option val)
| EVar (c : cfg) (rules : list str) (src : option val)
| EMap (c : cfg) (rules : rm) (src : option val)
| EUrl (c : cfg) (rules : rm) (src : option val).

(* what the harness saw: nil, a panic, or the canonical clauses of the error text *)
Inductive obs := ObsNil | ObsPanic | ObsErr (canon : list str).

Definition fuel_of (src : option val) : nat := match src with Some v => S (S (depth v)) | None => 2%nat end.

Definition run_entry (e : entry) : res outcome :=
  match e with
  | EStruct c src => struct_valid c (fuel_of src) src
  | EVar c rules src => var_valid c rules src
  | EMap c rules src => map_valid c rules src
  | EUrl c rules src => url_valid c rules src
  end.

Definition obs_of (r : res outcome) : obs :=
  match r with
  | Ok ONil => ObsNil
  | Ok (OErrText s) => ObsErr [canon (CField [] [] (FKnown s))]
  | Ok (OClauses cs) => ObsErr (map canon cs)
  | Panic _ => ObsPanic
  | OutOfFuel => ObsErr [s2b "OUT-OF-FUEL"]
  end.

(* ordering of byte strings, insertion sort *)
Fixpoint str_leb (a b : str) : bool :=
  match a, b with
  | [], _ => true
  | _ :: _, [] => false
  | x :: a', y :: b' => if (x <? y)%N then true else if (y <? x)%N then false else str_leb a' b'
  end.
Fixpoint insert_sorted (x : str) (l : list str) : list str :=
  match l with
  | [] => [x]
  | y :: r => if str_leb x y then x :: l else y :: insert_sorted x r
  end.
Definition sort_strs (l : list str) : list str := fold_right insert_sorted [] l.

(* group clauses (Go map order) are always compared as a set; the rest in order unless the input
   contains a multi-entry Go map *)
(* clauses written by the group evaluation (Go map order): the group clauses themselves and the
   rule-writing errors of single-member groups *)
Definition group_kind (k : str) : bool :=
  has_prefix k (s2b "G:") || str_eqb k (s2b "W:either") || str_eqb k (s2b "W:botheq").
Definition is_group (s : str) : bool := group_kind (last (split s [US]) []).
Definition obs_eqb (ordered : bool) (a b : obs) : bool :=
  match a, b with
  | ObsNil, ObsNil => true
  | ObsPanic, ObsPanic => true
  | ObsErr x, ObsErr y =>
    if ordered then
      list_eqb str_eqb (filter (fun s => negb (is_group s)) x) (filter (fun s => negb (is_group s)) y)
      && list_eqb str_eqb (sort_strs (filter is_group x)) (sort_strs (filter is_group y))
    else list_eqb str_eqb (sort_strs x) (sort_strs y)
  | _, _ => false
  end.

(* ---------- specification questions ---------- *)
Definition has_marker (o : obs) (m : str) : bool :=
  match o with
  | ObsErr cs => existsb (fun s => contains s m) cs
  | _ => false
  end.
Definition count_marker (o : obs) (m : str) : nat :=
  match o with
  | ObsErr cs => length (filter (fun s => contains s m) cs)
  | _ => O
  end.

(* every clause of the observation belongs to the marker's rule instance (the case has one rule instance only) *)
Definition no_foreign (o : obs) (m : str) : bool :=
  match o with
  | ObsErr cs => forallb (fun s => contains s m) cs
  | _ => true
  end.

(* a clause as the generator expects it: custom-message clause at a path, default-wording clause at
   a path, a fixed text, a group clause *)
Inductive exp :=
| XC (path marker : str)
| XD (path : str)
| XF (path text : str)        (* text = the kind part of the canonical form: F:..., W:..., A *)
| XG (kind_and_members : str).

Definition exp_key (e : exp) : str :=
  match e with
  | XC p m => s2b "C" ++ US :: p ++ US :: m
  | XD p => s2b "D" ++ US :: p
  | XF p t => s2b "F" ++ US :: p ++ US :: t
  | XG g => s2b "G" ++ US :: g
  end.

(* last blank-separated token *)
Definition last_token (s : str) : str :=
  match last_index_byte 32%N s with Some i => skipn (i + 1) s | None => s end.

(* the message of a custom clause without its explanation label (messages may contain blanks) *)
Definition marker_of (k : str) : str :=
  let m := skipn 2 k in
  if has_prefix m (ExplainEn ++ [32%N]) then skipn (length ExplainEn + 1) m
  else if has_prefix m (ExplainZh ++ [32%N]) then skipn (length ExplainZh + 1) m
  else last_token m.

Definition exp_of_canon (s : str) : exp :=
  match split s [US] with
  | [p; e; k] =>
    if has_prefix k (s2b "C:") then XC p (marker_of k)
    else if str_eqb k (s2b "D") then XD p
    else if has_prefix k (s2b "G:") then XG (skipn 2 k)
    else XF p k
  | _ => XF [] s
  end.

Definition markers_of (o : obs) : list str :=
  match o with
  | ObsErr cs => sort_strs (flat_map (fun s => match exp_of_canon s with XC _ m => [m] | _ => [] end) cs)
  | _ => []
  end.

Inductive specq :=
| SNone
| SNoPanic                                                   (* C13 *)
| SSize (r : srule) (lo hi : Z) (v : val) (marker : str)     (* C01: marker clause present iff measure outside *)
| SFmt (f : fspec) (v : val) (marker : str)                  (* C05: marker clause present iff v outside the language *)
| SVerdict (expect_violated : bool) (marker : str)           (* a verdict fixed by the case *)
| SExpect (ordered : bool) (expected : list exp)             (* the clauses the generator built the input to produce *)
| SNil                                                       (* the call must return nil *)
| SSame (other : obs).                                       (* C18/C08/C12: same marker set as another observation *)

Definition spec_ok (q : specq) (o : obs) : bool :=
  match q with
  | SNone => true
  | SNoPanic => match o with ObsPanic => false | _ => true end
  | SSize r lo hi v marker =>
    match measure v with
    | Some x => sizeable v && Bool.eqb (has_marker o marker) (negb (in_set r lo hi x))
                && (count_marker o marker <=? 1)%nat && no_foreign o marker
    | None => false     (* the generator must stay inside the property's domain *)
    end
  | SFmt f v marker =>
    match in_language f v with
    | Some b => Bool.eqb (has_marker o marker) (negb b) && (count_marker o marker <=? 1)%nat
    | None => false
    end
  | SVerdict b marker => Bool.eqb (has_marker o marker) b && (count_marker o marker <=? 1)%nat
  | SExpect ordered expected =>
    match o with
    | ObsPanic => false
    | ObsNil => match expected with [] => true | _ => false end
    | ObsErr cs =>
      let got := map (fun s => exp_key (exp_of_canon s)) cs in
      let want := map exp_key expected in
      let isg (k : str) := has_prefix k (s2b "G") || group_kind (last (split k [US]) []) in
      negb (match expected with [] => true | _ => false end) &&
      (if ordered
       then list_eqb str_eqb (filter (fun k => negb (isg k)) got) (filter (fun k => negb (isg k)) want)
            && list_eqb str_eqb (sort_strs (filter isg got)) (sort_strs (filter isg want))
            (* group clauses come last *)
            && (match find isg got with
                | Some _ => forallb isg (skipn (length (filter (fun k => negb (isg k)) got)) got)
                | None => true
                end)
       else list_eqb str_eqb (sort_strs got) (sort_strs want))
    end
  | SNil => match o with ObsNil => true | _ => false end
  | SSame other => list_eqb str_eqb (markers_of o) (markers_of other)
  end.

Inductive case :=
| CWalk (e : entry) (ordered : bool) (o : obs) (qs : list specq)
| CTotal (e : entry) (panicked : bool).     (* hostile input: only "did it return normally" is compared *)

Definition check_model (c : case) : bool :=
  match c with
  | CWalk e ordered o _ => obs_eqb ordered (obs_of (run_entry e)) o
  | CTotal e p => Bool.eqb (is_panic (run_entry e)) p && negb (match run_entry e with OutOfFuel => true | _ => false end)
  end.
Definition check_spec (c : case) : bool :=
  match c with
  | CWalk _ _ o qs => forallb (fun q => spec_ok q o) qs
  | CTotal _ p => negb p
  end.

Fixpoint bad_idx (f : case -> bool) (i : N) (cs : list case) : list N :=
  match cs with
  | [] => []
  | c :: r => if f c then bad_idx f (i + 1)%N r else i :: bad_idx f (i + 1)%N r
  end.
Definition mismatches_model (cs : list case) : list N := bad_idx check_model 0%N cs.
Definition mismatches_spec (cs : list case) : list N := bad_idx check_spec 0%N cs.

(* short constructors for generated files *)
Definition cfg0 (tag : str) (orc : oracles) : cfg :=
  {| c_tag := tag; c_typed := []; c_unscoped := None; c_local := []; c_global := []; c_orc := orc |}.
Definition FI (n : str) (tags : list (str * str)) (t : bool) : finfo := {| f_name := n; f_tags := tags; f_time := t |}.
Definition SI (n t : str) : sinfo := {| s_name := n; s_tstr := t; s_id := t |}.
Definition SI3 (n t i : str) : sinfo := {| s_name := n; s_tstr := t; s_id := i |}.
