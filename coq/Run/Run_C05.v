(* Run_C05.v — C05 cases: walker cases with SFmt questions, plus GetTimeFmt itself. *)
From PGV Require Export Base.Bytes Base.GoStr Base.GoNum Base.Utf8.
From PGV Require Export Model.RuleText Model.Value Model.Clause Model.Rules Model.Walk.
From PGV Require Export Spec.FormatSpec Run.Run_Walk.
Open Scope Z_scope.

(* the documented layout: the selected date parts joined by s0, the selected time parts joined by
   s2, the two groups joined by s1 *)
Definition layout_spec (mask : Z) (s0 s1 s2 : str) : str :=
  let pick (n : Z) (t : str) := if Z.testbit mask n then [t] else [] in
  let d := join s0 (pick 0 (s2b "2006") ++ pick 1 (s2b "01") ++ pick 2 (s2b "02")) in
  let t := join s2 (pick 3 (s2b "15") ++ pick 4 (s2b "04") ++ pick 5 (s2b "05")) in
  match d, t with [], _ => t | _, [] => d | _, _ => d ++ s1 ++ t end.

Definition seps3 (splits : list str) : str * str * str :=
  match splits with
  | [a] => (a, s2b " ", s2b ":")
  | [a; b] => (a, b, s2b ":")
  | [a; b; c] => (a, b, c)
  | _ => (s2b "-", s2b " ", s2b ":")
  end.

Inductive case :=
| CW (w : Run_Walk.case)
| CTimeFmt (mask : Z) (splits : list str) (out : str).     (* valid.GetTimeFmt(mask, splits...) *)

Definition check_model (c : case) : bool :=
  match c with
  | CW w => Run_Walk.check_model w
  | CTimeFmt mask splits out => str_eqb (get_time_fmt mask splits) out
  end.
Definition check_spec (c : case) : bool :=
  match c with
  | CW w => Run_Walk.check_spec w
  | CTimeFmt mask splits out => let '(a, b, c') := seps3 splits in str_eqb (layout_spec mask a b c') out
  end.

Fixpoint bad_idx (f : case -> bool) (i : N) (cs : list case) : list N :=
  match cs with
  | [] => []
  | c :: r => if f c then bad_idx f (i + 1)%N r else i :: bad_idx f (i + 1)%N r
  end.
Definition mismatches_model (cs : list case) : list N := bad_idx check_model 0%N cs.
Definition mismatches_spec (cs : list case) : list N := bad_idx check_spec 0%N cs.
