(* GoSize.v — a semantics for the MiniGo syntax tree of validInputSize (valid/common.go), the
   function that decides every size / comparison rule.  The tree is regenerated from /repo on every
   run (Extracted/SourceFns.v); Proofs/GoSizeProofs.v shows that it computes, for every bound, every
   value and both modes, what the hand-written model valid_input_size computes.  So the model of C01
   is not only compared with the code on generated inputs: it is re-derived from the source text.

   The semantics is staged.  Stage 1 (this file, [sym_run]) executes the statements on SYMBOLIC
   values: the kind of tv and the shape of the variadic argument are fixed, the numbers are not; a
   condition that is not a constant forks the execution, giving a decision tree whose leaves hold
   the results.  Stage 1 is a closed computation (vm_compute).  Stage 2 ([tree_den]) reads the tree
   for concrete bounds and a concrete value.  What is given a meaning (anything else evaluates to
   SBad and the run is Stuck):
     identifiers, integer literals, true / false
     tv.Kind() tv.String() tv.Float() tv.Int() tv.Uint() tv.Len()
     len(x)  []rune(x)  int64(x) uint64(x) float64(x)  ToStr(x)  x[0]
     < <= > >= == != on equal-typed operands, && || !
     := and = to a variable, if / else, switch on tv.Kind() with lists of reflect kinds, return
   Go typing is respected as far as the function uses it: int / int64 are Z, uint64(i) of an int i
   is i mod 2^64 (the wrap of a negative bound is written out), float64 is the exact dyadic of [fl],
   float64(i) of an int is exact (the model's stated domain: bounds within 2^53). *)
From Coq Require Import String.
From PGV Require Import Base.Bytes Base.GoStr Base.GoNum Base.Utf8 Base.MiniGo.
From PGV Require Import Model.RuleText Model.Value Model.Clause Model.Rules.
Open Scope Z_scope.

(* ---------- symbolic values ---------- *)
Inductive itm :=                     (* integer terms *)
| IMin | IMax | ILit (z : Z)
| IRuneLen                           (* len([]rune(tv.String())) *)
| IIntVal | IUintVal | ILen          (* tv.Int(), tv.Uint(), tv.Len() *)
| IWrap (t : itm)                    (* uint64(t) of an int t *)
| ILenHe (nonempty : bool).          (* len(isHasEqual): only its comparison with 0 is given a meaning *)

Inductive cmpop := OLt | OLe | OGt | OGe | OEq | ONe.

Inductive cond :=
| CInt (op : cmpop) (a b : itm)      (* int / int64 / uint64 comparison (operands already of one type) *)
| CFlt (op : cmpop) (b : itm)        (* tv.Float() op float64(b) *)
| CAnd (a b : cond) | COr (a b : cond) | CNot (a : cond).

Inductive stm :=                     (* string terms *)
| TEmpty | TString                   (* "", tv.String() *)
| TOfInt (t : itm)                   (* ToStr of an int64 / uint64 *)
| TOfFloat.                          (* ToStr(tv.Float()) *)

Inductive sv :=
| VI (t : itm)                       (* int, int64 *)
| VU (t : itm)                       (* uint64 *)
| VF                                 (* tv.Float() *)
| VFI (t : itm)                      (* float64(t) *)
| VB (b : bool) | VC (c : cond)      (* a constant / a symbolic bool *)
| VS (s : stm)
| VRunes                             (* []rune(tv.String()) *)
| VTv                                (* the reflect.Value *)
| VKinds (ks : list string)          (* tv.Kind(), reflect.X *)
| VBools (hd : option bool)          (* the variadic argument: empty, or its first element (fixed per run) *)
| VUnit                              (* a value never inspected (unit strings) *)
| SBad.

(* what is known about tv in one run *)
Inductive tvclass := KStr | KFlt (is32 : bool) | KIntW (w : width) | KUintW (w : width) | KSlc | KOtherKind (name : string).

Definition class_kind (k : tvclass) : string :=
  match k with
  | KStr => "String"
  | KFlt is32 => if is32 then "Float32" else "Float64"
  | KIntW w => match w with W8 => "Int8" | W16 => "Int16" | W32 => "Int32" | W64 => "Int64" | WInt => "Int" end
  | KUintW w => match w with W8 => "Uint8" | W16 => "Uint16" | W32 => "Uint32" | W64 => "Uint64" | WInt => "Uint" end
  | KSlc => "Slice"
  | KOtherKind n => n
  end%string.

Definition senv := list (string * sv).
Fixpoint get (x : string) (e : senv) : sv :=
  match e with [] => SBad | (y, v) :: r => if String.eqb x y then v else get x r end.
Fixpoint set (x : string) (v : sv) (e : senv) : senv :=
  match e with
  | [] => [(x, v)]
  | (y, w) :: r => if String.eqb x y then (y, v) :: r else (y, w) :: set x v r
  end.

Definition op_of (s : string) : option cmpop :=
  if String.eqb s "<" then Some OLt else if String.eqb s "<=" then Some OLe
  else if String.eqb s ">" then Some OGt else if String.eqb s ">=" then Some OGe
  else if String.eqb s "==" then Some OEq else if String.eqb s "!=" then Some ONe else None.

Definition as_cond (v : sv) : option cond :=
  match v with VC c => Some c | _ => None end.

Definition zcmp (op : cmpop) (a b : Z) : bool :=
  (* written so that the results are syntactically the model's comparisons *)
  match op with
  | OLt => a <? b | OLe => a <=? b | OGt => b <? a | OGe => b <=? a | OEq => a =? b | ONe => negb (a =? b)
  end.

Definition sbin (op : string) (a b : sv) : sv :=
  match a, b with
  | VI (ILit x), VI (ILit y) => match op_of op with Some o => VB (zcmp o x y) | None => SBad end
  | VI (ILenHe ne), VI (ILit 0) => match op_of op with Some OGt => VB ne | Some ONe => VB ne | _ => SBad end
  | VI x, VI y => match op_of op with Some o => VC (CInt o x y) | None => SBad end
  | VU x, VU y => match op_of op with Some o => VC (CInt o x y) | None => SBad end
  | VF, VFI y => match op_of op with Some o => VC (CFlt o y) | None => SBad end
  | VB x, VB y => if String.eqb op "&&" then VB (x && y) else if String.eqb op "||" then VB (x || y) else SBad
  | VC x, VC y => if String.eqb op "&&" then VC (CAnd x y) else if String.eqb op "||" then VC (COr x y) else SBad
  | VB x, VC y => if String.eqb op "&&" then (if x then VC y else VB false)
                  else if String.eqb op "||" then (if x then VB true else VC y) else SBad
  | VC x, VB y => if String.eqb op "&&" then (if y then VC x else VB false)     (* no side effects: order irrelevant *)
                  else if String.eqb op "||" then (if y then VB true else VC x) else SBad
  | _, _ => SBad
  end.

Definition smethod (k : tvclass) (recv : sv) (name : string) : sv :=
  match recv with
  | VTv =>
    if String.eqb name "Kind" then VKinds [class_kind k]
    else if String.eqb name "String" then match k with KStr => VS TString | _ => SBad end
    else if String.eqb name "Float" then match k with KFlt _ => VF | _ => SBad end
    else if String.eqb name "Int" then match k with KIntW _ => VI IIntVal | _ => SBad end
    else if String.eqb name "Uint" then match k with KUintW _ => VU IUintVal | _ => SBad end
    else if String.eqb name "Len" then match k with KSlc => VI ILen | _ => SBad end
    else SBad
  | _ => SBad
  end.

Definition scall (f : string) (args : list sv) : sv :=
  match args with
  | [a] =>
    if String.eqb f "len" then
      match a with VRunes => VI IRuneLen | VBools o => VI (ILenHe (match o with Some _ => true | None => false end)) | _ => SBad end
    else if String.eqb f "[]rune" then match a with VS TString => VRunes | _ => SBad end
    else if String.eqb f "int64" then match a with VI t => VI t | _ => SBad end
    else if String.eqb f "uint64" then match a with VI t => VU (IWrap t) | VU t => VU t | _ => SBad end
    else if String.eqb f "float64" then match a with VI t => VFI t | _ => SBad end
    else if String.eqb f "ToStr" then
      match a with VI t => VS (TOfInt t) | VU t => VS (TOfInt t) | VF => VS TOfFloat | VS s => VS s | _ => SBad end
    else SBad
  | _ => SBad
  end.

(* ParseValidNameKV(validName) -> (key, value, message): none is inspected by the size functions;
   strconv.Atoi(value) -> (the bound, err): the bound is the symbolic IMin *)
Definition multi_call (f : expr) : option (list sv) :=
  match f with
  | EId n => if String.eqb n "ParseValidNameKV" then Some [VUnit; VUnit; VUnit] else None
  | ESel (EId p) n => if String.eqb p "strconv" && String.eqb n "Atoi" then Some [VI IMin; VUnit] else None
  | _ => None
  end.

Definition unit_names : list string := ["numUnitStr"; "strUnitStr"; "sliceLenUnitStr"]%string.

Fixpoint seval (k : tvclass) (e : senv) (x : expr) {struct x} : sv :=
  match x with
  | EId n => if String.eqb n "true" then VB true else if String.eqb n "false" then VB false
             else if existsb (String.eqb n) unit_names then VUnit else get n e
  | ELit z => VI (ILit z)
  | ECall (ESel r m) [] => smethod k (seval k e r) m
  | ECall (EId f) args => scall f (map (seval k e) args)
  | ESel (EId pkg) name => if String.eqb pkg "reflect" then VKinds [name] else SBad
  | EIndex a i =>
    match seval k e a, seval k e i with
    | VBools o, VI (ILit 0) => match o with Some b => VB b | None => SBad end     (* index out of range: panic *)
    | _, _ => SBad
    end
  | EBin op a b => sbin op (seval k e a) (seval k e b)
  | EUn op a => if String.eqb op "!" then match seval k e a with VB b => VB (negb b) | VC c => VC (CNot c) | _ => SBad end else SBad
  | _ => SBad
  end.

(* ---------- stage 1: symbolic execution into a decision tree ---------- *)
Inductive tree :=
| Leaf (e : senv) (returned : bool)
| Fork (c : cond) (t f : tree)
| Stuck.

(* continue every leaf that has not returned *)
Fixpoint extend (t : tree) (k : senv -> tree) : tree :=
  match t with
  | Leaf e false => k e
  | Leaf e true => t
  | Fork c a b => Fork c (extend a k) (extend b k)
  | Stuck => Stuck
  end.

Fixpoint sexec (k : tvclass) (s : stmt) (e : senv) {struct s} : tree :=
  let run := fix run (l : list stmt) (e : senv) {struct l} : tree :=
    match l with
    | [] => Leaf e false
    | s :: r => extend (sexec k s e) (run r)
    end in
  match s with
  | SAssign _ [EId x] [rhs] =>
    match seval k e rhs with SBad => Stuck | v => Leaf (set x v e) false end
  | SAssign _ lhs [ECall f _] =>
    (* a call with several results: only the two the size functions make are given a meaning *)
    match multi_call f with
    | Some vs =>
      (fix assign (l : list expr) (vs : list sv) (e : senv) : tree :=
         match l, vs with
         | [], [] => Leaf e false
         | EId x :: l', v :: vs' => assign l' vs' (if String.eqb x "_" then e else set x v e)
         | _, _ => Stuck
         end) lhs vs e
    | None => Stuck
    end
  | SIf [] c th el =>
    match seval k e c with
    | VB true => run th e
    | VB false => run el e
    | VC c' => Fork c' (run th e) (run el e)
    | _ => Stuck
    end
  | SSwitch [] (Some tag) cases =>
    match seval k e tag with
    | VKinds [kn] =>
      (fix pick (cs : list (list expr * list stmt)) : tree :=
         match cs with
         | [] => (* no case matched: the default clause, wherever it stands *)
                 (fix dflt (ds : list (list expr * list stmt)) : tree :=
                    match ds with
                    | [] => Leaf e false
                    | ([], body) :: _ => run body e
                    | _ :: r => dflt r
                    end) cases
         | (vals, body) :: r =>
           (fix any (vs : list expr) : tree :=
              match vs with
              | [] => pick r      (* also skips a default clause (no values) *)
              | v :: vr => match seval k e v with
                           | VKinds [c] => if String.eqb c kn then run body e else any vr
                           | _ => Stuck
                           end
              end) vals
         end) cases
    | _ => Stuck
    end
  | SReturn [] => Leaf e true
  | SBlock l => run l e
  | _ => Stuck
  end.

Fixpoint sexec_list (k : tvclass) (l : list stmt) (e : senv) : tree :=
  match l with
  | [] => Leaf e false
  | s :: r => extend (sexec k s e) (sexec_list k r)
  end.

Definition sym_run (f : fn) (k : tvclass) (he : option bool) : tree :=
  sexec_list k (fn_body f)
    [("min", VI IMin); ("max", VI IMax); ("tv", VTv); ("isHasEqual", VBools he);
     ("isLessThan", VB false); ("isMoreThan", VB false); ("valStr", VS TEmpty); ("unitStr", VUnit)]%string.

(* ---------- stage 2: reading a tree for concrete bounds and a concrete value ---------- *)
Section Den.
  Variables mn mx : Z.
  Variable v : val.

  Fixpoint iden (t : itm) : Z :=
    match t with
    | IMin => mn | IMax => mx | ILit z => z
    | IRuneLen => match v with VStr s => Z.of_nat (rune_count s) | _ => 0 end
    | IIntVal => match v with VInt _ z => z | _ => 0 end
    | IUintVal => match v with VUint _ n => n | _ => 0 end
    | ILen => match v with VSlice _ _ _ vs => Z.of_nat (List.length vs) | _ => 0 end
    | IWrap t => wrap64 (iden t)
    | ILenHe ne => if ne then 1 else 0
    end.

  Definition fden (op : cmpop) (z : Z) : bool :=
    match v with
    | VFloat _ f _ _ =>
      match op with
      | OLt => c_lt (fl_cmp_z f z) | OLe => c_le (fl_cmp_z f z) | OGt => c_gt (fl_cmp_z f z)
      | OGe => c_ge (fl_cmp_z f z) | OEq => c_eq (fl_cmp_z f z) | ONe => negb (c_eq (fl_cmp_z f z))
      end
    | _ => false
    end.

  Fixpoint cden (c : cond) : bool :=
    match c with
    | CInt op a b => zcmp op (iden a) (iden b)
    | CFlt op b => fden op (iden b)
    | CAnd a b => cden a && cden b
    | COr a b => cden a || cden b
    | CNot a => negb (cden a)
    end.

  Definition sden (s : stm) : str :=
    match s with
    | TEmpty => []
    | TString => match v with VStr s => s | _ => [] end
    | TOfInt t => itoa (iden t)
    | TOfFloat => match v with VFloat _ _ _ r64 => r64 | _ => [] end
    end.

  Definition bden (x : sv) : option bool :=
    match x with VB b => Some b | VC c => Some (cden c) | _ => None end.

  Fixpoint tree_den (t : tree) : option (bool * bool * str) :=
    match t with
    | Leaf e _ =>
      match bden (get "isLessThan" e), bden (get "isMoreThan" e), get "valStr" e with
      | Some a, Some b, VS s => Some (a, b, sden s)
      | _, _, _ => None
      end
    | Fork c a b => if cden c then tree_den a else tree_den b
    | Stuck => None
    end.
End Den.

(* the class of a concrete value *)
Definition class_of (v : val) : tvclass :=
  match v with
  | VStr _ => KStr
  | VFloat is32 _ _ _ => KFlt is32
  | VInt w _ => KIntW w
  | VUint w _ => KUintW w
  | VSlice _ _ _ _ => KSlc
  | VArray _ _ _ => KOtherKind "Array"
  | VMap _ _ _ _ => KOtherKind "Map"
  | VStruct _ _ | VTime _ => KOtherKind "Struct"
  | VPtr _ | VNilPtr _ => KOtherKind "Ptr"
  | VBool _ => KOtherKind "Bool"
  | VIface _ => KOtherKind "Interface"
  | VOther _ => KOtherKind "Func"
  | VInvalid => KOtherKind "Invalid"
  end.

(* validInputSize(min, max, tv, isHasEqual...) as the source text says *)
(* eq(validName, tv): isEq, with the bound Atoi read from the rule text as the symbolic IMin *)
Definition sym_run_eq (f : fn) (k : tvclass) : tree :=
  sexec_list k (fn_body f)
    [("validName", VUnit); ("tv", VTv); ("eqStr", VUnit); ("uintStr", VUnit); ("cusMsg", VUnit); ("isEq", VB false)]%string.

Fixpoint tree_bool (mn : Z) (v : val) (x : string) (t : tree) : option bool :=
  match t with
  | Leaf e _ => bden mn 0 v (get x e)
  | Fork c a b => if cden mn 0 v c then tree_bool mn v x a else tree_bool mn v x b
  | Stuck => None
  end.
Definition run_eq (f : fn) (n : Z) (v : val) : option bool := tree_bool n v "isEq" (sym_run_eq f (class_of v)).

Definition run_size (f : fn) (mn mx : Z) (v : val) (he : list bool) : option (bool * bool * str) :=
  tree_den mn mx v (sym_run f (class_of v) (match he with [] => None | b :: _ => Some b end)).
