(* Explain.v — GetOnlyExplainErr (valid/init.go, after the repair): clause by clause, the text
   after the earliest explanation label. *)
From PGV Require Import Base.Bytes Base.GoStr.
From PGV Require Import Extracted.SourceConst.

(* (index, length) of the label that occurs first in the clause *)
Definition first_label (cl : str) : option (nat * nat) :=
  match index ExplainZh cl, index ExplainEn cl with
  | Some z, Some e => if Nat.ltb e z then Some (e, length ExplainEn) else Some (z, length ExplainZh)
  | Some z, None => Some (z, length ExplainZh)
  | None, Some e => Some (e, length ExplainEn)
  | None, None => None
  end.

Definition trim_one_space (s : str) : str := match s with 32%N :: r => r | _ => s end.

Definition explain1 (cl : str) : option str :=
  match first_label cl with
  | Some (i, n) => Some (trim_one_space (skipn (i + n) cl))
  | None => None
  end.

Fixpoint filter_map {A B} (f : A -> option B) (l : list A) : list B :=
  match l with [] => [] | x :: r => match f x with Some y => y :: filter_map f r | None => filter_map f r end end.

Definition only_explain (msg : str) : str :=
  match msg with
  | [] => []
  | _ => join ErrEndFlag (filter_map explain1 (split msg ErrEndFlag))
  end.
