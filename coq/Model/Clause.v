(* Clause.v — what a validator writes into its error buffer: one clause per violated rule
   instance, as data (GetJoinValidErrStr / GetJoinFieldErr of valid/common.go, the group
   clauses of valid/abstract.go), its text, and the canonical projection both sides compare. *)
From PGV Require Import Base.Bytes Base.GoStr.
From PGV Require Import Extracted.SourceConst.

Inductive vbody :=
| VCustom (msg : str)        (* the rule's custom message, label included: shown verbatim *)
| VDefault (rule : str)      (* the default wording of a rule (not predicted word by word) *)
| VText (txt : str).         (* a text without label (os.Stat error): the English label is injected *)

Inductive ftext :=
| FKnown (txt : str)         (* short fixed texts, modelled verbatim *)
| FRuleErr (rule : str)      (* the long "valid \"to\" is not ok, eg: ..." rule-writing errors *)
| FAtoi.                     (* a strconv.Atoi error text *)

Inductive gkind := GEither | GBothEq.

Inductive clause :=
| CValid (obj field echo : str) (b : vbody)          (* GetJoinValidErrStr *)
| CField (obj field : str) (t : ftext)               (* GetJoinFieldErr *)
| CGroup (g : gkind) (members : list (str * str)).   (* "o.f1", "o.f2" explain: they ... *)

Definition DQ : byte := 34%N.
Definition DOT : byte := 46%N.
Definition US : byte := 31%N.     (* unit separator of the canonical form *)

Definition nonempty (s : str) : bool := match s with [] => false | _ => true end.

(* the path as it appears between the first pair of double quotes *)
Definition valid_path (obj field : str) : str :=
  if nonempty obj && nonempty field then obj ++ DOT :: field
  else if negb (nonempty obj) && nonempty field then field
  else [].
Definition field_path (obj field : str) : str :=
  if nonempty obj && nonempty field then obj ++ DOT :: field else [].

Definition quoted_prefix (p : str) : str :=
  match p with [] => [] | _ => DQ :: p ++ [DQ; 32%N] end.

Definition has_label (s : str) : bool := contains s ExplainEn || contains s ExplainZh.

(* the text of a clause without its trailing separator; None where the wording is not modelled *)
Definition clause_text (c : clause) : option str :=
  match c with
  | CValid obj field echo b =>
    let head := quoted_prefix (valid_path obj field) ++ s2b "input """ ++ echo ++ [DQ] in
    match b with
    | VCustom msg => Some (head ++ s2b ", " ++ (if has_label msg then [] else ExplainEn ++ [32%N]) ++ msg)
    | VText t => Some (head ++ s2b ", " ++ (if has_label t then [] else ExplainEn ++ [32%N]) ++ t)
    | VDefault _ => None
    end
  | CField obj field (FKnown t) => Some (quoted_prefix (field_path obj field) ++ t)
  | CField _ _ _ => None
  | CGroup _ _ => None
  end.

(* GetJoinValidErrStr(obj, field, echo, others...) as a whole, separator included (the clauses above are the calls with
   one further argument); Proofs/GoMsgProofs.v derives it from the source text *)
Definition join_valid_err (obj field echo : str) (others : list str) : str :=
  quoted_prefix (valid_path obj field) ++ s2b "input """ ++ echo ++ [DQ] ++
  match others with
  | [] => ErrEndFlag
  | o0 :: _ => s2b ", " ++ (if has_label o0 then [] else ExplainEn ++ [32%N]) ++ join [32%N] others ++ ErrEndFlag
  end.

(* echoes that come out of fmt's %v (slices, maps, structs, pointers) are not predicted *)
Definition echo_filter (e : str) : str :=
  match e with
  | 91%N :: _ | 123%N :: _ | 38%N :: _ | 60%N :: _ => s2b "?"      (* [ { & < *)
  | 109%N :: 97%N :: 112%N :: 91%N :: _ => s2b "?"                 (* map[ *)
  | 48%N :: 120%N :: _ => s2b "?"                                  (* 0x *)
  | _ => e
  end.

Definition member_text (m : str * str) : str :=
  DQ :: (if nonempty (fst m) then fst m ++ [DOT] else []) ++ snd m ++ [DQ].

(* canonical projection: path US echo US kind *)
Definition canon (c : clause) : str :=
  match c with
  | CValid obj field echo b =>
    valid_path obj field ++ US :: echo_filter echo ++ US ::
    match b with
    | VCustom msg => s2b "C:" ++ msg
    | VDefault _ => s2b "D"
    | VText _ => s2b "D"
    end
  | CField obj field t =>
    field_path obj field ++ US :: s2b "-" ++ US ::
    match t with
    | FKnown txt => s2b "F:" ++ txt
    | FRuleErr r => s2b "W:" ++ r
    | FAtoi => s2b "A"
    end
  | CGroup g ms =>
    US :: s2b "-" ++ US :: (match g with GEither => s2b "G:either:" | GBothEq => s2b "G:botheq:" end)
       ++ join (s2b ", ") (map member_text ms)
  end.
