(* Shared.v — the state validation calls share: the struct-type cache (validstruct.go:226-250,
   init.go:126) and the object pools (init.go:122-131, validstruct.go:36-54, validvar.go:20-36).
   Executable model only. *)
From PGV Require Import Base.Bytes Base.GoStr.
From PGV Require Import Model.RuleText Model.Value Model.Clause Model.Rules Model.Walk.
From PGV Require Import Spec.LRUSpec.

(* ---------- what getCacheStructType computes for one struct type and one tag name ---------- *)
Record ainfo := { a_export : bool; a_name : str; a_rules : str }.
Definition analyse (tag : str) (fis : list finfo) : list ainfo :=
  map (fun fi => if f_time fi then {| a_export := false; a_name := []; a_rules := [] |}   (* the time.Time hole *)
                 else {| a_export := is_exported (f_name fi); a_name := f_name fi; a_rules := tag_get (f_tags fi) tag |}) fis.

(* the field loop of validate over an analysis (what the code runs after the cache lookup) *)
Section Fields.
  Variable c : cfg.
  Variable rec : str -> val -> bool -> buf -> res buf.
  Fixpoint on_fields_a (sn : str) (cus : rm) (infos : list ainfo) (vals : list val) (b : buf) : res buf :=
    match infos, vals with
    | ai :: infos', fv :: vals' =>
      b1 <- (if negb (a_export ai) then Ok b
             else let over := rm_get cus (a_name ai) in
                  let vns := match over with [] => a_rules ai | _ => over end in   (* override on a COPY of the info *)
                  match vns with
                  | [] => Ok b
                  | _ => on_rules c rec sn (a_name ai) fv (names_split COMMA vns) b
                  end) ;;
      on_fields_a sn cus infos' vals' b1
    | _, _ => Ok b
    end.
End Fields.

(* ---------- the cache: any implementation of CacheEr ---------- *)
Definition ckey := (str * str)%type.            (* (Type.String(), tag name): the repaired key *)
Definition ckey_eqb (a b : ckey) : bool := str_eqb (fst a) (fst b) && str_eqb (snd a) (snd b).

Record cache_impl := {
  cst : Type;
  c_init : cst;
  c_load : cst -> ckey -> cst * option (list ainfo);
  c_store : cst -> ckey -> list ainfo -> cst
}.

(* getCacheStructType against a cache *)
Definition get_cached (C : cache_impl) (s : cst C) (k : ckey) (fis : list finfo) : cst C * list ainfo :=
  match c_load C s k with
  | (s1, Some a) => (s1, a)
  | (s1, None) => let a := analyse (snd k) fis in (c_store C s1 k a, a)
  end.

(* three implementations the property names *)
Definition always_miss : cache_impl :=
  {| cst := unit; c_init := tt; c_load := fun s _ => (s, None); c_store := fun s _ _ => s |}.

Definition assoc := list (ckey * list ainfo).
Fixpoint assoc_get (m : assoc) (k : ckey) : option (list ainfo) :=
  match m with [] => None | (k', v) :: r => if ckey_eqb k k' then Some v else assoc_get r k end.
Definition unbounded_map : cache_impl :=      (* sync.Map *)
  {| cst := assoc; c_init := []; c_load := fun s k => (s, assoc_get s k); c_store := fun s k v => (k, v) :: s |}.

(* an LRU of capacity cap over association entries, most recent first (the abstract LRU of C09,
   which cache.go refines, with analyses as values) *)
Definition lru_load (s : assoc) (k : ckey) : assoc * option (list ainfo) :=
  match assoc_get s k with
  | Some v => ((k, v) :: filter (fun p => negb (ckey_eqb k (fst p))) s, Some v)
  | None => (s, None)
  end.
Definition lru_store (cap : nat) (s : assoc) (k : ckey) (v : list ainfo) : assoc :=
  match assoc_get s k with
  | Some _ => (k, v) :: filter (fun p => negb (ckey_eqb k (fst p))) s
  | None => let s1 := (k, v) :: s in if Nat.ltb cap (length s1) then removelast s1 else s1
  end.
Definition lru_cache (cap : nat) : cache_impl :=
  {| cst := assoc; c_init := []; c_load := lru_load; c_store := lru_store cap |}.

(* ---------- pooled validator objects ---------- *)
Record vobj := { o_tag : str; o_rules_set : bool (* ruleMap != nil *); o_has_vc : bool; o_buf_len : nat }.
Definition clean (o : vobj) : bool := negb (o_rules_set o) && negb (o_has_vc o) && Nat.eqb (o_buf_len o) 0.

(* NewVStruct: take an object from the pool (or a new one), set tag, fresh buffer, fresh vc;
   ruleMap is whatever the object carries *)
Definition new_vstruct (pool : list vobj) (tag : str) : list vobj * vobj :=
  match pool with
  | o :: rest => (rest, {| o_tag := tag; o_rules_set := o_rules_set o; o_has_vc := true; o_buf_len := 0 |})
  | [] => ([], {| o_tag := tag; o_rules_set := false; o_has_vc := true; o_buf_len := 0 |})
  end.
(* free: putStrBuf (reset), ruleMap = nil, vc = nil, Put *)
Definition free_vstruct (pool : list vobj) (o : vobj) : list vobj :=
  {| o_tag := o_tag o; o_rules_set := false; o_has_vc := false; o_buf_len := 0 |} :: pool.

(* what a call observes of the object it got: does it start with a rule map left by someone else? *)
Definition stale_rules (o : vobj) : bool := o_rules_set o.
