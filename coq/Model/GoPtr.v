(* GoPtr.v — a semantics for the MiniGo syntax tree of RemoveValuePtr (valid/common.go), the loop every walker uses to
   look through pointers:  for t.Kind() == reflect.Ptr { t = t.Elem() }; return t.
   A reflect.Value is the model's val; Kind() tells pointers (set or nil) from everything else; Elem() of a set pointer
   is what it points to, Elem() of a nil pointer is the invalid Value.  The loop runs on fuel (one more than the
   number of pointer levels); out of fuel, or any other form, is stuck. *)
From Coq Require Import String.
From PGV Require Import Base.Bytes Base.MiniGo Model.Value.

Definition is_ptr (v : val) : bool := match v with VPtr _ | VNilPtr _ => true | _ => false end.
Definition elem (v : val) : option val :=
  match v with VPtr v' => Some v' | VNilPtr _ => Some VInvalid | _ => None end.     (* Elem of a non-pointer panics *)

Definition pcond (x : string) (c : expr) (v : val) : option bool :=
  match c with
  | EBin op (ECall (ESel (EId y) m) []) (ESel (EId pkg) k) =>
    if String.eqb op "==" && String.eqb y x && String.eqb m "Kind" && String.eqb pkg "reflect" && String.eqb k "Ptr"
    then Some (is_ptr v) else None
  | _ => None
  end.
Definition pbody (x : string) (b : list stmt) (v : val) : option val :=
  match b with
  | [SAssign false [EId y] [ECall (ESel (EId z) m) []]] =>
    if String.eqb y x && String.eqb z x && String.eqb m "Elem" then elem v else None
  | _ => None
  end.

Fixpoint ploop (fuel : nat) (x : string) (c : expr) (b : list stmt) (v : val) : option val :=
  match fuel with
  | O => None
  | S f => match pcond x c v with
           | Some true => match pbody x b v with Some v' => ploop f x c b v' | None => None end
           | Some false => Some v
           | None => None
           end
  end.

Fixpoint ptr_depth (v : val) : nat := match v with VPtr v' => S (ptr_depth v') | VNilPtr _ => 1 | _ => 0 end.

Definition run_remove_ptr (f : fn) (v : val) : option val :=
  match fn_params f, fn_body f with
  | [(x, _)], [SFor [] (Some c) [] b; SReturn [EId y]] =>
    if String.eqb y x then ploop (S (ptr_depth v)) x c b v else None
  | _, _ => None
  end.
