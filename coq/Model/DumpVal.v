(* DumpVal.v — the value universe of the struct dumper (C20): a first-order image of what
   [reflect] shows valid/dump.go.  Self-contained (the validators use a different universe).
   Data only: no behaviour of the dumper is described here. *)
From PGV Require Import Base.Bytes.

(* what reflect.StructField tells the dumper and the standard encoder about one field *)
Record finfo := mkf {
  fname : str;          (* StructField.Name *)
  fexported : bool;     (* Go's notion: StructField.PkgPath == "" (what encoding/json uses) *)
  fanon : bool;         (* StructField.Anonymous (embedded field) *)
  ftime : bool          (* StructField.Type == reflect.TypeOf(time.Time{}) *)
}.

Inductive val :=
| VInvalid                                        (* the zero reflect.Value *)
| VBool (b : bool)
| VInt (z : Z)                                    (* Int, Int8 .. Int64 *)
| VUint (n : N)                                   (* Uint, Uint8 .. Uint64, Uintptr *)
| VFloat (is32 : bool) (repr : str)               (* repr = strconv.AppendFloat(_, x, 'f', -1, 32|64): oracle
                                                     supplied by the harness, never computed in Coq *)
| VStr (s : str)
| VNilPtr                                         (* nil pointer of any pointer type *)
| VPtr (v : val)                                  (* non-nil pointer *)
| VSlice (bytes : bool) (isnil : bool) (vs : list val)   (* bytes: the element type is uint8 ([]byte) *)
| VArray (vs : list val)
| VMap (isnil : bool) (es : list (val * val))     (* entries in the order the iteration produced them *)
| VStruct (name : str) (fs : list (finfo * val))  (* type name, fields in declaration order *)
| VIface (inner : option val)                     (* a value of interface kind (a field/element of interface type) *)
| VOther.                                         (* func, chan, complex, unsafe pointer *)

Definition is_struct (v : val) : bool := match v with VStruct _ _ => true | _ => false end.

(* fuel measure: three per constructor level (the dumper alternates between its two functions) *)
Definition max_list (l : list nat) : nat := fold_right Nat.max 0%nat l.

Fixpoint depth (v : val) : nat :=
  match v with
  | VPtr x => 3 + depth x
  | VSlice _ _ vs => 3 + max_list (map depth vs)
  | VArray vs => 3 + max_list (map depth vs)
  | VMap _ es => 3 + max_list (map (fun e => Nat.max (depth (fst e)) (depth (snd e))) es)
  | VStruct _ fs => 3 + max_list (map (fun f => depth (snd f)) fs)
  | VIface (Some x) => 3 + depth x
  | _ => 3
  end.
