(* Inject.v — the tag injector: file/handletag.go, file/witre.go:12-35 (WriteFile), the loop of
   file/parse.go:49-98 (ParseFile after go/parser returned), main.go:51-108 (handleDir,
   handlePatternFiles, handleFile).  Executable model only; proofs live in Proofs/InjectProofs.v.

   Domain of the byte-level functions: ALL byte strings.  Go's regexp works on UTF-8 runes, the
   three expressions of parse.go only mention ASCII characters, classes closed under "any other
   rune" and '.', so a match can only start and end at an ASCII byte and a byte-wise scan is exact
   (an invalid byte is one rune U+FFFD of width 1, which '.' and the negated class accept).

   go/parser is NOT modelled: the model starts from what it returns (field position, end, tag
   literal, comment texts) — [afield] — and from the abstract file of Spec/InjectSpec.v, whose
   [fields_from] states what go/parser is expected to return for it (checked on every generated
   file by the harness). *)
From PGV Require Import Base.Bytes Base.GoStr.
From PGV Require Export Spec.InjectSpec.     (* only the abstract-file vocabulary is used here *)
Local Open Scope N_scope.

(* ---------------- handletag.go ---------------- *)

(* tagItem{key, value}: the value KEEPS its quotes, as in the Go code *)
Definition quote_item (it : tagitem) : tagitem := (fst it, QUOTE :: snd it ++ [QUOTE]).

Fixpoint span (p : byte -> bool) (s : str) : str * str :=
  match s with
  | [] => ([], [])
  | c :: r => if p c then let '(a, b) := span p r in (c :: a, b) else ([], s)
  end.

Definition is_nq (c : byte) : bool := negb (c =? QUOTE).

(* one attempt of rTags = \w+:Q[^Q]+Q (Q the double quote) at the head of s: the matched text and what follows.
   Both + are greedy and what must follow each (':' resp. the quote) is outside its class, so the
   longest run is the only candidate: leftmost-first matching needs no backtracking here. *)
Definition match_tag_here (s : str) : option (str * str) :=
  let '(w, r1) := span is_word s in
  match w, r1 with
  | _ :: _, c1 :: c2 :: r2 =>
    if (c1 =? COLON) && (c2 =? QUOTE) then
      let '(v, r3) := span is_nq r2 in
      match v, r3 with
      | _ :: _, _ :: r4 => Some (w ++ COLON :: QUOTE :: v ++ [QUOTE], r4)
      | _, _ => None
      end
    else None
  | _, _ => None
  end.

(* rTags.FindAllString(tag, -1): leftmost match, then continue after it *)
Fixpoint find_all_tags (fuel : nat) (s : str) : list str :=
  match fuel with
  | O => []
  | S f =>
    match s with
    | [] => []
    | _ :: r =>
      match match_tag_here s with
      | Some (m, rest) => m :: find_all_tags f rest
      | None => find_all_tags f r
      end
    end
  end.
Definition find_tags (s : str) : list str := find_all_tags (S (length s)) s.

(* sepPos := strings.Index(t, ":"); key: t[:sepPos], value: t[sepPos+1:].  Every match of rTags
   contains ':' (InjectProofs.match_tag_here_shape), so the -1 branch — which would panic in Go —
   is dead; it is mapped to an item no conventional text produces. *)
Definition cut_colon (t : str) : tagitem :=
  match index_byte COLON t with
  | Some n => (firstn n t, skipn (n + 1) t)
  | None => (t, [])
  end.

(* newTagItems *)
Definition scan_tags (tag : str) : tagitems := map cut_colon (find_tags tag).

(* tagItems.format *)
Definition format (t : tagitems) : str := join [SPACE] (map (fun it => fst it ++ COLON :: snd it) t).

(* tagItems.override: the loop state is (overridEd, inTags); `inTags = append(inTags[:dup],
   inTags[dup+1:]...)` deletes in place — the copy appended to overridEd before it is a value
   (two strings), and the caller never reads its own slice again, so the aliasing is unobservable *)
Fixpoint find_dup (k : str) (inTags : tagitems) : option nat :=
  match inTags with
  | [] => None
  | it :: r => if str_eqb k (fst it) then Some O else option_map S (find_dup k r)
  end.
Fixpoint remove_at {A} (n : nat) (l : list A) : list A :=
  match l, n with
  | [], _ => []
  | _ :: r, O => r
  | x :: r, S m => x :: remove_at m r
  end.
Fixpoint override_loop (t inTags overridEd : tagitems) : tagitems :=
  match t with
  | [] => overridEd ++ inTags
  | ti :: t' =>
    match find_dup (fst ti) inTags with
    | None => override_loop t' inTags (overridEd ++ [ti])
    | Some dup => override_loop t' (remove_at dup inTags) (overridEd ++ [nth dup inTags ti])
    end
  end.
Definition override (t inTags : tagitems) : tagitems := override_loop t inTags [].

(* rInject = "`.+`$" tried at the head of s: a back quote, then at least one byte, no line break,
   and the last byte of the text is a back quote ('$' without (?m) is the end of the text) *)
Definition inject_match_here (s : str) : bool :=
  match s with
  | c :: t => (c =? BT) && Nat.leb 2 (length t) && (last t 0 =? BT) && nomem NL t
  | [] => false
  end.
(* rInject.ReplaceAllLiteral(expr, repl): the leftmost match reaches the end, so there is at most one *)
Fixpoint replace_trailing_literal (expr repl : str) : str :=
  if inject_match_here expr then repl
  else match expr with
       | [] => []
       | c :: r => c :: replace_trailing_literal r repl
       end.

(* textArea; Go ints are Z *)
Record area := mkArea { a_start : Z; a_end : Z; a_cur : str; a_inj : str }.

Definition area_eqb (a b : area) : bool :=
  Z.eqb (a_start a) (a_start b) && Z.eqb (a_end a) (a_end b) &&
  str_eqb (a_cur a) (a_cur b) && str_eqb (a_inj a) (a_inj b).

(* injectTag(contents, area): slice expressions panic when out of range *)
Definition inject_tag (contents : str) (a : area) : res str :=
  expr <- slice contents (a_start a - 1) (a_end a - 1) ;;
  let final := override (scan_tags (a_cur a)) (scan_tags (a_inj a)) in
  let expr' := replace_trailing_literal expr (BT :: format final ++ [BT]) in
  pre <- slice contents 0 (a_start a - 1) ;;
  post <- slice_from contents (a_end a - 1) ;;
  Ok (pre ++ expr' ++ post).

(* ---------------- witre.go: WriteFile's loop, areas from the last to the first ---------------- *)
Fixpoint write_loop (contents : str) (ras : list area) : res str :=
  match ras with
  | [] => Ok contents
  | a :: r => c <- inject_tag contents a ;; write_loop c r
  end.
Definition write_file (contents : str) (areas : list area) : res str := write_loop contents (rev areas).

(* ---------------- parse.go ---------------- *)

(* tagFromComment: rComment = [@tag ] followed by a capture of [.] star — the text after the first "@tag " up to the end of the line *)
Definition tag_from_comment (c : str) : str :=
  match index AT_TAG c with
  | Some n => first_line (skipn (n + 5) c)
  | None => []
  end.

(* what go/parser hands to the loop for one struct field *)
Record afield := mkAField {
  af_pos : Z;                  (* int(field.Pos()) *)
  af_end : Z;                  (* int(field.End()) *)
  af_tag : option str;         (* field.Tag.Value, delimiters included; None: field.Tag == nil *)
  af_comments : list str }.    (* field.Comment.List[i].Text *)

Fixpoint collect_comments (fd : afield) (tagv : str) (cs : list str) : res (list area) :=
  match cs with
  | [] => Ok []
  | c :: r =>
    match tag_from_comment c with
    | [] => collect_comments fd tagv r
    | tag =>
      cur <- slice tagv 1 (Z.of_nat (length tagv) - 1) ;;        (* currentTag[1 : len(currentTag)-1] *)
      rest <- collect_comments fd tagv r ;;
      Ok (mkArea (af_pos fd) (af_end fd) cur tag :: rest)
    end
  end.

(* the field loop, parse.go:77-97, with the nil check of the repaired tree *)
Fixpoint collect_fields (fs : list afield) : res (list area) :=
  match fs with
  | [] => Ok []
  | fd :: r =>
    match af_tag fd with
    | None => collect_fields r
    | Some tagv =>
      a <- collect_comments fd tagv (af_comments fd) ;;
      b <- collect_fields r ;;
      Ok (a ++ b)
    end
  end.

(* the same loop WITHOUT the nil check (the tree before commit 73b4c2d): field.Tag.Value on a nil
   Tag is a nil dereference as soon as one comment carries a tag *)
Fixpoint collect_fields_nocheck (fs : list afield) : res (list area) :=
  match fs with
  | [] => Ok []
  | fd :: r =>
    a <- match af_tag fd with
         | Some tagv => collect_comments fd tagv (af_comments fd)
         | None => if forallb (fun c => is_nil (tag_from_comment c)) (af_comments fd) then Ok []
                   else Panic (s2b "invalid memory address or nil pointer dereference")
         end ;;
    b <- collect_fields_nocheck r ;;
    Ok (a ++ b)
  end.

(* the declaration loop, parse.go:49-75: only GenDecls, only the FIRST TypeSpec of each, only structs *)
Inductive atype := TStruct (fields : list afield) | TOther.
Inductive aspec := SType (t : atype) | SOther.          (* TypeSpec | ImportSpec/ValueSpec *)
Inductive adecl := DFunc | DGen (specs : list aspec).

Fixpoint first_type_spec (specs : list aspec) : option atype :=
  match specs with
  | [] => None
  | SType t :: _ => Some t
  | SOther :: r => first_type_spec r
  end.

Fixpoint collect_decls (ds : list adecl) : res (list area) :=
  match ds with
  | [] => Ok []
  | DFunc :: r => collect_decls r
  | DGen specs :: r =>
    match first_type_spec specs with
    | Some (TStruct fs) => a <- collect_fields fs ;; b <- collect_decls r ;; Ok (a ++ b)
    | _ => collect_decls r
    end
  end.

(* ---------------- the abstract file as go/parser sees it ---------------- *)

(* positions are 1-based offsets (token.Pos in a fresh FileSet: base 1) *)
Fixpoint fields_from (off : nat) (f : gofile) : list afield :=
  match f with
  | [] => []
  | Raw b :: r => fields_from (off + length b) r
  | Fld fd :: r =>
    let lit := match f_tag fd with Some l => render_literal l | None => [] end in
    mkAField (Z.of_nat off + 1) (Z.of_nat (off + (length (f_pre fd) + length lit)) + 1)
             (option_map render_literal (f_tag fd))
             (match f_cmt fd with CNone => [] | c => [render_comment c] end)
    :: fields_from (off + length (render_field fd)) r
  end.

Definition areas_of (f : gofile) : res (list area) := collect_fields (fields_from 0 f).

(* one run of the tool on a file whose parse is described by f *)
Definition tool_run (f : gofile) : res str := areas <- areas_of f ;; write_file (render f) areas.

(* ---------------- main.go over a finite map path -> bytes ---------------- *)
Notation fsys := (list (str * str)).

Fixpoint fs_get (fs : fsys) (p : str) : option str :=
  match fs with
  | [] => None
  | (q, b) :: r => if str_eqb q p then Some b else fs_get r p
  end.
Fixpoint fs_put (fs : fsys) (p b : str) : fsys :=
  match fs with
  | [] => [(p, b)]
  | (q, b0) :: r => if str_eqb q p then (q, b) :: r else (q, b0) :: fs_put r p b
  end.

Definition GO_SUFFIX : str := s2b ".go".
Definition SLASH : byte := 47.

(* file.HandlePath on a non-Windows system *)
Definition handle_path (p : str) : str :=
  match last_index_byte SLASH p with
  | Some n => if Nat.eqb (S n) (length p) then p else p ++ [SLASH]
  | None => p ++ [SLASH]
  end.

Section Handle.
  (* file.ParseFile up to its return: the areas, or None for an error (unreadable, a directory,
     not Go).  It is an ORACLE: go/parser is outside the model. *)
  Variable parse : str -> str -> option (list area).

  (* handleFile; a path that is not a file of the map is an open/parse error *)
  Definition handle_file (fs : fsys) (name : str) : res (fsys * bool) :=
    if negb (has_suffix name GO_SUFFIX) then Ok (fs, false)
    else match fs_get fs name with
         | None => Ok (fs, true)
         | Some b =>
           match parse name b with
           | None => Ok (fs, true)                       (* log, return before any write *)
           | Some areas => b' <- write_file b areas ;; Ok (fs_put fs name b', true)
           end
         end.

  (* the loops of handleDir / handlePatternFiles: results of handleFile are ignored, a panic ends the run *)
  Fixpoint handle_list (fs : fsys) (names : list str) : res fsys :=
    match names with
    | [] => Ok fs
    | n :: r => x <- handle_file fs n ;; handle_list (fst x) r
    end.

  (* handleDir: entries = os.ReadDir's listing (name, IsDir) *)
  Definition handle_dir (fs : fsys) (dir : str) (entries : list (str * bool)) : res (fsys * bool) :=
    let files := filter (fun e => negb (snd e)) entries in
    fs' <- handle_list fs (map (fun e => handle_path dir ++ fst e) files) ;;
    Ok (fs', negb (is_nil files)).

  (* handlePatternFiles: names = filepath.Glob's result *)
  Definition handle_pattern (fs : fsys) (names : list str) : res (fsys * bool) :=
    fs' <- handle_list fs names ;; Ok (fs', negb (is_nil names)).
End Handle.
