(* GoWalk.v — a semantics for the MiniGo syntax trees of the three flat walkers and the function lookup, regenerated
   from /repo on every run:
     validCommon.getValidFn (valid/abstract.go)      VVar.getValidFn / VMap.getValidFn / VUrl.getValidFn (delegations)
     VVar.validate (valid/validvar.go)   VMap.validate, VMap.getKey (valid/validmap.go)   VUrl.validate (valid/validurl.go)
   Proofs/GoWalkProofs.v shows that what these trees compute under this semantics IS the hand model of Model/Walk.v
   (get_fn, var_rules, map_validate, map_get_key, url_params / url_valid) — for every configuration, rule map, value,
   URL text and buffer.  The walkers are glue: they split the rule text, look the function up, decide on required /
   either / botheq / unknown names, skip zero values and call the rule function.  What is given a meaning (anything
   else is stuck, so an obligation about a function that starts to use another form fails):

     variables live in a list of bindings; x := e adds one, x = e changes the nearest one, a block ({ } of an if, a
     switch case, a loop iteration) drops the bindings made inside it when it ends (Go's block scoping); `_` binds nothing
     identifiers, string and integer literals, nil, true, false, the constants Required Exist Either BothEq ExplainEn
     validVarFieldName (from Extracted/SourceConst.v), the receiver v
     == != on strings, integers, kinds, an error or a function against nil;  > on integers;  + on strings and integers;
     unary - and !;  && and || (right operand only when needed);  a[i] on a slice of strings and a[i:] on a string, both
     with their run-time bound (out of range: a panic)
     len, strings.Index, strings.Split, errors.New, err.Error(), reflect.ValueOf of a string,
     tv.Kind(), tv.Len(), tv.IsZero() (the model's is_zero with its panic), tv.Type().Key().Kind(), tv.MapRange(),
     it.Key().String(), it.Value(), reflect.<Kind>
     if / else, switch on a string or a kind (cases tried in order, default last, no fall-through), return, continue,
     var x, y string;   for _, x := range <slice of strings> { };   for it.Next() { } over the entries of the map in the
     order the model lists them (Go leaves it unspecified; the harness records the order it observed)
   and calls that MEAN a model function which has its own from-source theorem:
     ParseValidNameKV -> parse_kv (C14_parser_from_source)      ValidNamesSplit(s) -> names_split ',' (C14_splitter_from_source)
     v.ruleObj.Get -> rm_get (C14_rule_map_from_source)         v.getKey -> map_get_key (here)
     v.getValidFn -> get_fn_pair (here: validCommon.getValidFn from its text, the three wrappers syntactically)
     GetJoinValidErrStr(o, f, echo, m) -> the clause CValid o f echo (VCustom m);  with several further texts the
        default wording of the rule named last (clause_of_join; its text is join_valid_err: C15_formatter_from_source)
     GetJoinFieldErr(o, f, text | error) -> CField o f (FKnown text)   (C15_field_error_from_source)
     url.QueryUnescape -> query_unescape (hand model of the standard library call)
   and three effects:
     v.errBuf.WriteString(<clause>)      appends the clause to the buffer
     fn(v.errBuf, name, obj, field, tv)   appends what the rule function of the model writes (a registered function
                                          writes its marker clause); calling the nil function is stuck
     v.vc.initValid2FieldsMap(&name2Value{..})   records a group member under groupObj \x00 validName (put_group) *)
From Coq Require Import String.
From PGV Require Import Base.Bytes Base.GoStr Base.GoNum Base.Utf8 Base.Url Base.MiniGo.
From PGV Require Import Extracted.SourceConst Extracted.SourceTable.
From PGV Require Import Model.RuleText Model.Value Model.Clause Model.Rules Model.Walk.
Open Scope Z_scope.

Inductive wv :=
| WS (s : str) | WZ (z : Z) | WB (b : bool) | WL (l : list str)
| WVal (v : val)                       (* a reflect.Value *)
| WFnv (r : fnres)                     (* a CommonValidFn as getValidFn hands it out; FBuiltin is the nil function *)
| WErr (t : option str)                (* an error: nil, or its text *)
| WKind (k : string)                   (* a reflect.Kind, by name *)
| WIter (es : list (val * val)) (cur : option (val * val))     (* a *reflect.MapIter *)
| WClause (c : clause)                 (* the text GetJoinValidErrStr / GetJoinFieldErr return, as the clause it words *)
| WMember (m : gmember)                (* a name2Value *)
| WSelf                                (* the receiver *)
| WNil
| WAbort (why : option str)            (* a run-time panic (None: the model's fuel ran out) *)
| WBad.

Definition wenv := list (string * wv).
Fixpoint wget (x : string) (e : wenv) : wv :=
  match e with [] => WBad | (y, v) :: r => if String.eqb y x then v else wget x r end.
Fixpoint wupd (x : string) (v : wv) (e : wenv) : option wenv :=
  match e with
  | [] => None
  | (y, w) :: r => if String.eqb y x then Some ((y, v) :: r) else option_map (cons (y, w)) (wupd x v r)
  end.
Definition wdecl (x : string) (v : wv) (e : wenv) : wenv := if String.eqb x "_" then e else (x, v) :: e.
Fixpoint pop_to (m : string) (e : wenv) : wenv :=
  match e with [] => [] | (y, _) :: r => if String.eqb y m then r else pop_to m r end.
Definition open_scope (m : string) (e : wenv) : wenv := (m, WBad) :: e.

Inductive wflow :=
| FNext (e : wenv) (b : buf) | FCont (e : wenv) (b : buf) | FBrk (e : wenv) (b : buf)
| FRet (vs : list wv) (b : buf) | FAbort (why : option str) | FStuck.

(* reflect.Kind of a key type *)
Definition kd_name (k : kd) : string :=
  match k with
  | KInvalid => "Invalid" | KBool => "Bool" | KInt => "Int" | KUint => "Uint" | KFloat => "Float64" | KString => "String"
  | KSlice _ => "Slice" | KArray _ => "Array" | KMap => "Map" | KStruct => "Struct" | KPtr => "Ptr" | KIface => "Interface"
  | KOther => "Func"
  end%string.
Definition wkind (v : val) : string :=
  match v with
  | VStr _ => "String" | VSlice _ _ _ _ => "Slice" | VArray _ _ _ => "Array" | VMap _ _ _ _ => "Map"
  | _ => kd_name (kind v)
  end%string.

Definition of_res_bool (r : res bool) : wv :=
  match r with Ok b => WB b | Panic w => WAbort (Some w) | OutOfFuel => WAbort None end.
Definition of_res_z (r : res Z) : wv :=
  match r with Ok z => WZ z | Panic w => WAbort (Some w) | OutOfFuel => WAbort None end.

Definition of_reg (r : fnreg) : fnres := match r with FnNil => FBuiltin | FnMark t => FMark t end.
(* validName2FnMap[name]: SetCustomerValidFn writes into the table the built-ins live in *)
Definition global_fn (c : cfg) (name : str) : option fnres :=
  match lookup1 name (c_global c) with
  | Some r => Some (of_reg r)
  | None =>
    match lookup1 name rule_table with
    | Some None => Some FBuiltin
    | Some (Some fname) => option_map FRule (fn_by_name (c_orc c) fname)
    | None => None
    end
  end.
Definition is_ferr (r : fnres) : bool := match r with FErr => true | _ => false end.
(* v.getValidFn(name) as the walkers see it: (fn, err) *)
Definition get_fn_pair (c : cfg) (name : str) : wv * wv :=
  if is_ferr (get_fn c name) then (WNil, WErr (Some (not_exist_text name)))
  else (WFnv (get_fn c name), WNil).

(* GetJoinValidErrStr(obj, field, echo, others...) as the clause it words *)
Definition clause_of_join (obj field echo : str) (others : list str) : wv :=
  match others with
  | [] => WBad
  | [m] => WClause (CValid obj field echo (VCustom m))
  | _ => WClause (CValid obj field echo (VDefault (last others [])))
  end.

Definition INDEX_PANIC : str := s2b "runtime error: index out of range".
Definition SLICE_PANIC : str := s2b "runtime error: slice bounds out of range".

Definition weq (a b : wv) : wv :=
  match a, b with
  | WS x, WS y => WB (str_eqb x y)
  | WZ x, WZ y => WB (x =? y)
  | WKind x, WKind y => WB (String.eqb x y)
  | WErr t, WNil => WB (match t with None => true | Some _ => false end)
  | WFnv r, WNil => WB (match r with FBuiltin => true | _ => false end)
  | WNil, WNil => WB true
  | WAbort w, _ => WAbort w
  | _, WAbort w => WAbort w
  | _, _ => WBad
  end.
Definition wnot (a : wv) : wv := match a with WB b => WB (negb b) | WAbort w => WAbort w | _ => WBad end.

Fixpoint strs_of (l : list wv) : option (list str) :=
  match l with
  | [] => Some []
  | WS s :: r => option_map (cons s) (strs_of r)
  | _ => None
  end.
Fixpoint first_abort (l : list wv) : option (option str) :=
  match l with [] => None | WAbort w :: _ => Some w | _ :: r => first_abort r end.

Fixpoint kv_get (k : string) (l : list (string * wv)) : option wv :=
  match l with [] => None | (y, v) :: r => if String.eqb y k then Some v else kv_get k r end.
Definition member_of (kvs : list (string * wv)) : wv :=
  let strf := fun k => match kv_get k kvs with None => Some [] | Some (WS s) => Some s | _ => None end in
  match strf "groupObj"%string, strf "validName"%string, strf "objName"%string, strf "fieldName"%string,
        strf "cusMsg"%string, kv_get "reflectVal"%string kvs with
  | Some g, Some vn, Some o, Some f, Some _, Some (WVal x) =>
    WMember {| g_key := gkey g vn; g_vn := vn; g_obj := o; g_field := f; g_val := x |}
  | _, _, _, _, _, _ => WBad
  end.

(* a loop over the elements of l (for _, x := range l { body };  for it.Next() { body }): continue goes on, break ends
   the loop, the iteration's bindings end with it *)
Fixpoint gen_loop {A} (iter : A -> wenv -> buf -> wflow) (l : list A) (e : wenv) (b : buf) : wflow :=
  match l with
  | [] => FNext e b
  | x :: r => match iter x e b with
              | FNext e1 b1 | FCont e1 b1 => gen_loop iter r (pop_to "{loop" e1) b1
              | FBrk e1 b1 => FNext (pop_to "{loop" e1) b1
              | other => other
              end
  end.
Definition range_loop := @gen_loop str.
Definition iter_loop := @gen_loop (val * val).

Section Sem.
  Variable c : cfg.          (* the call's configuration: per-call and global functions, oracles *)
  Variable rules : rm.       (* v.ruleObj *)

  Fixpoint weval (e : wenv) (x : expr) {struct x} : wv :=
    let evs := fix evs (l : list expr) : list wv := match l with [] => [] | a :: r => weval e a :: evs r end in
    match x with
    | EId n => if String.eqb n "true" then WB true else if String.eqb n "false" then WB false
               else if String.eqb n "nil" then WNil else wget n e
    | EStr s => WS s
    | ELit z => WZ z
    | EUn op a =>
      if String.eqb op "!" then wnot (weval e a)
      else if String.eqb op "-" then match weval e a with WZ z => WZ (- z) | WAbort w => WAbort w | _ => WBad end
      else if String.eqb op "&" then match weval e a with WMember m => WMember m | WAbort w => WAbort w | _ => WBad end
      else WBad
    | EBin op a b =>
      if String.eqb op "==" then weq (weval e a) (weval e b)
      else if String.eqb op "!=" then wnot (weq (weval e a) (weval e b))
      else if String.eqb op "&&" then
        match weval e a with
        | WB false => WB false
        | WB true => match weval e b with WB y => WB y | WAbort w => WAbort w | _ => WBad end
        | WAbort w => WAbort w
        | _ => WBad
        end
      else if String.eqb op "||" then
        match weval e a with
        | WB true => WB true
        | WB false => match weval e b with WB y => WB y | WAbort w => WAbort w | _ => WBad end
        | WAbort w => WAbort w
        | _ => WBad
        end
      else if String.eqb op "+" then
        match weval e a, weval e b with
        | WS x, WS y => WS (x ++ y)
        | WZ x, WZ y => WZ (x + y)
        | WAbort w, _ => WAbort w
        | _, WAbort w => WAbort w
        | _, _ => WBad
        end
      else if String.eqb op ">" then
        match weval e a, weval e b with
        | WZ x, WZ y => WB (y <? x)
        | WAbort w, _ => WAbort w
        | _, WAbort w => WAbort w
        | _, _ => WBad
        end
      else WBad
    | EIndex a i =>
      match weval e a, weval e i with
      | WL l, WZ z => if 0 <=? z then match nth_error l (Z.to_nat z) with Some s => WS s | None => WAbort (Some INDEX_PANIC) end
                      else WAbort (Some INDEX_PANIC)
      | WAbort w, _ => WAbort w
      | _, WAbort w => WAbort w
      | _, _ => WBad
      end
    | ESlice a (Some lo) None =>
      match weval e a, weval e lo with
      | WS s, WZ z => if (0 <=? z) && (z <=? Z.of_nat (List.length s)) then WS (skipn (Z.to_nat z) s) else WAbort (Some SLICE_PANIC)
      | WAbort w, _ => WAbort w
      | _, WAbort w => WAbort w
      | _, _ => WBad
      end
    | ESel (EId pkg) k => if String.eqb pkg "reflect" then WKind k else WBad
    (* it.Key().String() *)
    | ECall (ESel (ECall (ESel (EId it) m1) []) m2) [] =>
      if String.eqb m1 "Key" && String.eqb m2 "String" then
        match wget it e with WIter _ (Some (k, _)) => WS (value_string k) | _ => WBad end
      else WBad
    (* tv.Type().Key().Kind() *)
    | ECall (ESel (ECall (ESel (ECall (ESel (EId t) m1) []) m2) []) m3) [] =>
      if String.eqb m1 "Type" && String.eqb m2 "Key" && String.eqb m3 "Kind" then
        match wget t e with WVal (VMap _ kk _ _) => WKind (kd_name kk) | _ => WBad end
      else WBad
    (* v.ruleObj.Get(key) *)
    | ECall (ESel (ESel (EId r) f) m) [a] =>
      if String.eqb f "ruleObj" && String.eqb m "Get" then
        match wget r e, weval e a with
        | WSelf, WS k => WS (rm_get rules k)
        | _, WAbort w => WAbort w
        | _, _ => WBad
        end
      else WBad
    | ECall (ESel (EId t) m) [] =>
      match wget t e with
      | WVal v =>
        if String.eqb m "Kind" then WKind (wkind v)
        else if String.eqb m "Len" then of_res_z (vlen v)
        else if String.eqb m "IsZero" then of_res_bool (is_zero v)
        else if String.eqb m "MapRange" then match v with VMap _ _ _ es => WIter es None | _ => WBad end
        else WBad
      | WErr (Some text) => if String.eqb m "Error" then WS text else WBad
      | WIter _ (Some (_, x)) => if String.eqb m "Value" then WVal x else WBad
      | _ => WBad
      end
    | ECall (ESel (EId t) m) [a] =>
      if String.eqb t "errors" && String.eqb m "New" then
        match weval e a with WS x => WErr (Some x) | WAbort w => WAbort w | _ => WBad end
      else if String.eqb t "reflect" && String.eqb m "ValueOf" then
        match weval e a with WS x => WVal (VStr x) | WAbort w => WAbort w | _ => WBad end
      else WBad
    | ECall (ESel (EId t) m) [a; b] =>
      if String.eqb t "strings" then
        match weval e a, weval e b with
        | WS x, WS y =>
          if String.eqb m "Index" then WZ (match index y x with Some n => Z.of_nat n | None => -1 end)
          else if String.eqb m "Split" then match y with [] => WBad | _ => WL (split x y) end
          else WBad
        | WAbort w, _ => WAbort w
        | _, WAbort w => WAbort w
        | _, _ => WBad
        end
      else if String.eqb m "getKey" then
        match wget t e, weval e a, weval e b with
        | WSelf, WS p, WS k => WS (map_get_key p k)
        | _, WAbort w, _ => WAbort w
        | _, _, WAbort w => WAbort w
        | _, _, _ => WBad
        end
      else WBad
    | ECall (EId f) args =>
      if String.eqb f "name2Value{:}" then
        let kvs := (fix kvs (l : list expr) : list (string * wv) :=
                      match l with
                      | [] => []
                      | EBin _ (EId k) v :: r => (k, weval e v) :: kvs r
                      | _ :: r => ("?"%string, WBad) :: kvs r
                      end) args in
        match first_abort (map snd kvs) with Some w => WAbort w | None => member_of kvs end
      else
      let vs := evs args in
      match first_abort vs with
      | Some w => WAbort w
      | None =>
        if String.eqb f "len" then
          match vs with [WL l] => WZ (Z.of_nat (List.length l)) | [WS s] => WZ (Z.of_nat (List.length s)) | _ => WBad end
        else if String.eqb f "ValidNamesSplit" then
          match vs with [WS s] => WL (names_split COMMA s) | _ => WBad end
        else if String.eqb f "GetJoinFieldErr" then
          match vs with
          | [WS o; WS fl; WS t] => WClause (CField o fl (FKnown t))
          | [WS o; WS fl; WErr (Some t)] => WClause (CField o fl (FKnown t))
          | _ => WBad
          end
        else if String.eqb f "GetJoinValidErrStr" then
          match strs_of vs with
          | Some (o :: fl :: echo :: others) => clause_of_join o fl echo others
          | _ => WBad
          end
        else WBad
      end
    | _ => WBad
    end.

  (* the calls with two or three results *)
  Definition wcall (e : wenv) (x : expr) : option (list wv) :=
    match x with
    | ECall (EId f) [a] =>
      if String.eqb f "ParseValidNameKV" then
        match weval e a with WS vn => Some [WS (pk_key vn); WS (pk_val vn); WS (pk_msg vn)] | _ => None end
      else None
    | ECall (ESel (EId t) m) [a] =>
      if String.eqb m "getValidFn" then
        match wget t e, weval e a with
        | WSelf, WS k => Some [fst (get_fn_pair c k); snd (get_fn_pair c k)]
        | _, _ => None
        end
      else if String.eqb t "url" && String.eqb m "QueryUnescape" then
        match weval e a with
        | WS s => match query_unescape s with
                  | inl dec => Some [WS dec; WErr None]
                  | inr bad => Some [WS []; WErr (Some (s2b "invalid URL escape """ ++ bad ++ [DQ]))]
                  end
        | _ => None
        end
      else None
    (* fn, ok := v.validFn[name]   /   validName2FnMap[name]: the zero value and false when absent *)
    | EIndex (ESel (EId r) f) k =>
      if String.eqb f "validFn" then
        match wget r e, weval e k with
        | WSelf, WS name => match lookup1 name (c_local c) with
                            | Some reg => Some [WFnv (of_reg reg); WB true]
                            | None => Some [WFnv FBuiltin; WB false]
                            end
        | _, _ => None
        end
      else None
    | EIndex (EId tbl) k =>
      if String.eqb tbl "validName2FnMap" then
        match weval e k with
        | WS name => match global_fn c name with
                     | Some r => Some [WFnv r; WB true]
                     | None => Some [WFnv FBuiltin; WB false]
                     end
        | _ => None
        end
      else None
    | _ => None
    end.

  Fixpoint wbind (define : bool) (lhs : list expr) (vs : list wv) (e : wenv) : option wenv :=
    match lhs, vs with
    | [], [] => Some e
    | EId x :: l, v :: r =>
      if String.eqb x "_" then wbind define l r e
      else if define then wbind define l r ((x, v) :: e)
      else match wupd x v e with Some e1 => wbind define l r e1 | None => None end
    | _, _ => None
    end.

  Fixpoint decl_strings (names : list string) (e : wenv) : wenv :=
    match names with [] => e | x :: r => decl_strings r (wdecl x (WS []) e) end.

  Fixpoint wexec (s : stmt) (e : wenv) (b : buf) {struct s} : wflow :=
    let run := fix run (l : list stmt) (e : wenv) (b : buf) {struct l} : wflow :=
      match l with
      | [] => FNext e b
      | x :: r => match wexec x e b with FNext e1 b1 => run r e1 b1 | other => other end
      end in
    let block := fun (l : list stmt) (e : wenv) (b : buf) =>
      match run l (open_scope "{" e) b with FNext e1 b1 => FNext (pop_to "{" e1) b1 | other => other end in
    match s with
    | SAssign define [EId x] [rhs] =>
      match wcall e rhs with
      | Some _ => FStuck
      | None =>
        match weval e rhs with
        | WBad => FStuck
        | WAbort w => FAbort w
        | v => if define then FNext (wdecl x v e) b
               else match wupd x v e with Some e1 => FNext e1 b | None => FStuck end
        end
      end
    | SAssign define lhs [rhs] =>
      match wcall e rhs with
      | Some vs => match wbind define lhs vs e with Some e1 => FNext e1 b | None => FStuck end
      | None => FStuck
      end
    | SVar names ty [] => if String.eqb ty "string" then FNext (decl_strings names e) b else FStuck
    | SIf [] cnd th el =>
      match weval e cnd with
      | WB true => block th e b
      | WB false => block el e b
      | WAbort w => FAbort w
      | _ => FStuck
      end
    | SSwitch [] (Some tag) cases =>
      match weval e tag with
      | WAbort w => FAbort w
      | WBad => FStuck
      | tv =>
        let body_of := fun (l : list stmt) => match block l e b with FBrk _ _ => FStuck | other => other end in
        (fix pick (cs : list (list expr * list stmt)) : wflow :=
           match cs with
           | [] => (fix dflt (ds : list (list expr * list stmt)) : wflow :=
                      match ds with
                      | [] => FNext e b
                      | ([], body) :: _ => body_of body
                      | _ :: r => dflt r
                      end) cases
           | (vals, body) :: r =>
             (fix any (vs : list expr) : wflow :=
                match vs with
                | [] => pick r
                | v :: vr => match weq tv (weval e v) with
                             | WB true => body_of body
                             | WB false => any vr
                             | WAbort w => FAbort w
                             | _ => FStuck
                             end
                end) vals
           end) cases
      end
    | SRange (Some k) (Some x) true coll body =>
      if String.eqb k "_" then
        match weval e coll with
        | WL l => range_loop (fun s e b => run body (wdecl x (WS s) (open_scope "{loop" e)) b) l e b
        | WAbort w => FAbort w
        | _ => FStuck
        end
      else FStuck
    | SFor [] (Some (ECall (ESel (EId it) m) [])) [] body =>
      if String.eqb m "Next" then
        match wget it e with
        | WIter es _ =>
          iter_loop (fun kx e b => match wupd it (WIter es (Some kx)) e with
                                   | Some e1 => run body (open_scope "{loop" e1) b
                                   | None => FStuck
                                   end) es e b
        | _ => FStuck
        end
      else FStuck
    | SReturn es =>
      let vs := (fix evs (l : list expr) : list wv := match l with [] => [] | a :: r => weval e a :: evs r end) es in
      match first_abort vs with
      | Some w => FAbort w
      | None => if existsb (fun v => match v with WBad => true | _ => false end) vs then FStuck else FRet vs b
      end
    | SContinue => FCont e b
    | SBreak => FBrk e b
    (* v.errBuf.WriteString(<clause>)   v.vc.initValid2FieldsMap(&name2Value{...}) *)
    | SExpr (ECall (ESel (ESel (EId r) f) m) [a]) =>
      match wget r e with
      | WSelf =>
        if String.eqb f "errBuf" && String.eqb m "WriteString" then
          match weval e a with
          | WClause cl => FNext e (put b [cl])
          | WAbort w => FAbort w
          | _ => FStuck
          end
        else if String.eqb f "vc" && String.eqb m "initValid2FieldsMap" then
          match weval e a with
          | WMember mb => FNext e (put_group b mb)
          | WAbort w => FAbort w
          | _ => FStuck
          end
        else FStuck
      | _ => FStuck
      end
    (* fn(v.errBuf, validName, objName, fieldName, tv) *)
    | SExpr (ECall (EId f) [ESel (EId r) fb; a1; a2; a3; a4]) =>
      match wget r e with
      | WSelf =>
        if String.eqb fb "errBuf" then
          match wget f e, weval e a1, weval e a2, weval e a3, weval e a4 with
          | WFnv (FRule g), WS vn, WS obj, WS field, WVal x => FNext e (put b (g vn obj field x))
          | WFnv (FMark t), WS vn, WS obj, WS field, WVal x => FNext e (put b [mark_clause obj field t])
          | _, _, _, _, _ => FStuck
          end
        else FStuck
      | _ => FStuck
      end
    | _ => FStuck
    end.

  Fixpoint wexec_list (l : list stmt) (e : wenv) (b : buf) : wflow :=
    match l with
    | [] => FNext e b
    | x :: r => match wexec x e b with FNext e1 b1 => wexec_list r e1 b1 | other => other end
    end.

  Definition base_env : wenv :=
    [("v"%string, WSelf); ("Required"%string, WS Required); ("Exist"%string, WS Exist); ("Either"%string, WS Either);
     ("BothEq"%string, WS BothEq); ("ExplainEn"%string, WS ExplainEn); ("validVarFieldName"%string, WS validVarFieldName)].

  (* a walker returns its receiver: what counts is the buffer *)
  Definition flow_res (f : wflow) : option (res buf) :=
    match f with
    | FRet [WSelf] b => Some (Ok b)
    | FAbort (Some w) => Some (Panic w)
    | FAbort None => Some OutOfFuel
    | _ => None
    end.

  Definition run_var_validate (f : fn) (tv : val) (b : buf) : option (res buf) :=
    flow_res (wexec_list (fn_body f) (("tv"%string, WVal tv) :: base_env) b).
  Definition run_map_validate (f : fn) (prefix : str) (tv : val) (b : buf) : option (res buf) :=
    flow_res (wexec_list (fn_body f) (("tv"%string, WVal tv) :: ("prefix"%string, WS prefix) :: base_env) b).
  Definition run_url_validate (f : fn) (value : str) (b : buf) : option (res buf) :=
    flow_res (wexec_list (fn_body f) (("value"%string, WS value) :: base_env) b).
  Definition run_get_key (f : fn) (prefix key : str) : option str :=
    match wexec_list (fn_body f) (("key"%string, WS key) :: ("prefix"%string, WS prefix) :: base_env) empty_buf with
    | FRet [WS s] _ => Some s
    | _ => None
    end.
  Definition run_get_valid_fn (f : fn) (name : str) : option (wv * wv) :=
    match wexec_list (fn_body f) (("validName"%string, WS name) :: base_env) empty_buf with
    | FRet [a; b] _ => Some (a, b)
    | _ => None
    end.
End Sem.
