(* RuleText.v — the rule mini-language: ParseValidNameKV (valid/common.go), ValidNamesSplit
   (common.go + internal/stack.go), GenValidKV and RM.Set/Get (valid/rule.go).
   Executable model only; proofs live in Proofs/RuleTextProofs.v. *)
From PGV Require Import Base.Bytes Base.GoStr Base.Utf8 Regex.Re Regex.Rx.
From PGV Require Import Extracted.SourceConst Extracted.SourceRegex.

Definition EQ : byte := 61%N.     (* '=' *)
Definition BAR : byte := 124%N.   (* '|' *)
Definition QUOTE : byte := 39%N.  (* '\'' *)
Definition COMMA : byte := 44%N.
Definition SPACE : byte := 32%N.
Definition LPAREN : byte := 40%N.
Definition RPAREN : byte := 41%N.

(* IncludeZhRe.MatchString *)
Definition zh_patterns : list pattern :=
  match patterns 8 IncludeZhRe with Some ps => ps | None => [] end.
Definition has_zh (s : str) : bool := match_string zh_patterns s.

(* the label a custom message gains *)
Definition label (msg : str) : str :=
  (if has_zh msg then ExplainZh else ExplainEn) ++ SPACE :: msg.

(* ParseValidNameKV, common.go:16-55 (after the repair of the one-byte-message and
   '='-inside-message defects) *)
Definition parse_kv (s : str) : str * str * str :=
  let split_index := index_byte EQ s in
  let msg_index := index_byte BAR s in
  let valueless :=
    match msg_index with
    | Some b => if Nat.ltb (b + 1) (length s) then (firstn b s, [], label (skipn (b + 1) s)) else (s, [], [])
    | None => (s, [], [])
    end in
  match split_index with
  | None => valueless
  | Some e =>
    if (match msg_index with Some b => Nat.ltb b e | None => false end) then valueless
    else
      let key := firstn e s in
      let value := skipn (e + 1) s in
      match index_byte BAR value with
      | Some b' => if Nat.ltb (b' + 1) (length value)
                   then (key, firstn b' value, label (skipn (b' + 1) value))
                   else (key, value, [])
      | None => (key, value, [])
      end
  end.

Definition pk_key (s : str) : str := fst (fst (parse_kv s)).
Definition pk_val (s : str) : str := snd (fst (parse_kv s)).
Definition pk_msg (s : str) : str := snd (parse_kv s).

(* ---- internal/stack.go: the byte stack, with its Pop exactly as written ---- *)
Definition stack := list byte.             (* bottom first, as the Go slice *)
Definition st_append (s : stack) (b : byte) : stack := s ++ [b].
Definition st_is_empty (s : stack) : bool := match s with [] => true | _ => false end.
Definition st_last (s : stack) : byte := last s SPACE.
Definition st_pop (s : stack) : stack :=
  match s with
  | [] => []
  | _ => let last_index := (length s - 1)%nat in
         if Nat.leb 1 last_index then firstn (last_index - 1) s   (* drops two: the code's defect *)
         else []
  end.

(* ValidNamesSplit slow path, common.go:352-392; state = (stack, inQuote, tmp reversed) *)
Fixpoint slow (sep : byte) (stk : stack) (inq : bool) (tmp : str) (s : str) : list str :=
  match s with
  | [] => match tmp with [] => [] | _ => [rev tmp] end
  | v :: s' =>
    let tmp1 := if negb inq && negb (N.eqb v sep) then v :: tmp
                else if inq then v :: tmp else tmp in
    if negb inq && N.eqb v QUOTE then slow sep (st_append stk v) true tmp1 s'
    else if inq && N.eqb (st_last stk) v then slow sep (st_pop stk) false tmp1 s'
    else if N.eqb v sep && st_is_empty stk then rev tmp1 :: slow sep stk inq [] s'
    else slow sep stk inq tmp1 s'
  end.

Definition has_quote (s : str) : bool := existsb (N.eqb QUOTE) s.

Definition names_split (sep : byte) (s : str) : list str :=
  match s with
  | [] => []
  | _ => if has_quote s then slow sep [] false [] s
         else if (sep <? 128)%N then split1 sep [] s
         else split s (encode1 sep)     (* string(byte) is the UTF-8 encoding of the rune *)
  end.

(* ---- rule.go ---- *)
Definition is_in_key (k : str) : bool := str_eqb k VIn || str_eqb k VInclude.
Definition is_re_key (k : str) : bool := str_eqb k VRe.

(* GenValidKV(key, values...) ; values = [] | [v] | [v; m] (more are ignored by the code) *)
Definition gen_kv (key : str) (values : list str) : str :=
  match values with
  | [] => key
  | v :: rest =>
    key ++
    (match v with
     | [] => []
     | c0 :: _ =>
       (if N.eqb c0 EQ then [] else [EQ]) ++
       (if is_in_key key then LPAREN :: v ++ [RPAREN]
        else if is_re_key key then
          (if Nat.ltb 1 (length v) && (N.eqb c0 QUOTE || N.eqb (nth 1 v 0%N) QUOTE) then v
           else QUOTE :: v ++ [QUOTE])
        else v)
     end) ++
    (match rest with
     | m :: _ => BAR :: m
     | [] => []
     end)
  end.

(* RM as an association list in insertion order (Go map: unordered; only Get is observable) *)
Definition rm := list (str * str).
Fixpoint rm_get_raw (r : rm) (f : str) : option str :=
  match r with
  | [] => None
  | (k, v) :: r' => if str_eqb k f then Some v else rm_get_raw r' f
  end.
Fixpoint rm_put (r : rm) (f v : str) : rm :=
  match r with
  | [] => [(f, v)]
  | (k, v0) :: r' => if str_eqb k f then (k, v) :: r' else (k, v0) :: rm_put r' f v
  end.
Definition rm_set1 (r : rm) (field : str) (rules : list str) : rm :=
  let joined := join1 COMMA rules in
  match rm_get_raw r field with
  | Some old => rm_put r field (old ++ COMMA :: joined)
  | None => rm_put r field joined
  end.
(* RM.Set(fieldNames, rules...) *)
Definition rm_set (r : rm) (fields : str) (rules : list str) : rm :=
  fold_left (fun acc f => rm_set1 acc f rules) (split1 COMMA [] fields) r.
(* RM.Get *)
Definition rm_get (r : rm) (f : str) : str :=
  match r, f with
  | [], _ => []
  | _, [] => []
  | _, _ => match rm_get_raw r f with Some v => v | None => [] end
  end.
