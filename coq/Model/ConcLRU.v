(* ConcLRU.v — threads calling the LRU methods concurrently under one reader/writer lock.
   A method body takes a SNAPSHOT of the shared state when it gets past its lock acquisition and
   COMMITS the state computed from that snapshot when it leaves (bodies that write nothing commit
   nothing).  Without mutual exclusion this machine exhibits lost updates and stale reads; the
   lock modes are those the translator extracts from cache.go. *)
From PGV Require Import Base.Bytes Spec.LRUSpec Model.LRU Model.Conc.

Inductive cop := COp (o : op) | CDump.
Inductive cres := ROut (x : out) | RDump (vs : list N).

Definition method_name (o : cop) : str :=
  match o with
  | COp (OStore _ _) => s2b "Store" | COp (OLoad _) => s2b "Load"
  | COp (ODelete _) => s2b "Delete" | COp OLen => s2b "Len" | CDump => s2b "Dump"
  end.

(* sequential meaning of one call *)
Definition cstep (s : st) (o : cop) : st * cres :=
  match o with
  | COp o' => let '(s', x) := LRU.step s o' in (s', ROut x)
  | CDump => (s, RDump (dump s))
  end.

Inductive cstate := CIdle | CWait (m : msum) (o : cop) | CInside (m : msum) (o : cop) (snap : st).
Record event := { e_thread : nat; e_op : cop; e_res : cres }.
Record ccfg := { c_th : nat -> cstate; c_shared : st; c_hist : list event (* in commit order *) }.

Definition cupd (th : nat -> cstate) (t : nat) (x : cstate) : nat -> cstate :=
  fun u => if Nat.eqb u t then x else th u.

Definition writer (m : msum) : bool := match m_writes m with [] => false | _ => true end.

Definition ccan_enter (th : nat -> cstate) (t : nat) (m : msum) : Prop :=
  match m_lock m with
  | MNone => True
  | MRead => forall u m' o s, u <> t -> th u = CInside m' o s -> is_w m' = false
  | MWrite => forall u m' o s, u <> t -> th u = CInside m' o s -> holds m' = false
  end.

Section Machine.
  Variable ms : list msum.
  Variable cap : Z.

  Inductive cstep_rel : ccfg -> ccfg -> Prop :=
  | cs_call c t m o : c_th c t = CIdle -> In m ms -> m_name m = method_name o ->
      cstep_rel c {| c_th := cupd (c_th c) t (CWait m o); c_shared := c_shared c; c_hist := c_hist c |}
  | cs_enter c t m o : c_th c t = CWait m o -> ccan_enter (c_th c) t m ->
      cstep_rel c {| c_th := cupd (c_th c) t (CInside m o (c_shared c)); c_shared := c_shared c; c_hist := c_hist c |}
  | cs_exit c t m o snap : c_th c t = CInside m o snap ->
      cstep_rel c {| c_th := cupd (c_th c) t CIdle;
                     c_shared := if writer m then fst (cstep snap o) else c_shared c;
                     c_hist := c_hist c ++ [{| e_thread := t; e_op := o; e_res := snd (cstep snap o) |}] |}.

  Definition cinit : ccfg := {| c_th := fun _ => CIdle; c_shared := init cap; c_hist := [] |}.
  Inductive creach : ccfg -> Prop :=
  | cr_init : creach cinit
  | cr_step c c' : creach c -> cstep_rel c c' -> creach c'.
End Machine.

Definition cres_eqb (x y : cres) : bool :=
  match x, y with
  | ROut a, ROut b => match a, b with
                      | RNone, RNone => true
                      | RLoad None, RLoad None => true
                      | RLoad (Some v), RLoad (Some w) => N.eqb v w
                      | RLen n, RLen n' => Z.eqb n n'
                      | _, _ => false
                      end
  | RDump a, RDump b => list_eqb N.eqb a b
  | _, _ => false
  end.

(* sequential replay of a history *)
Fixpoint replay (s : st) (h : list event) : st * bool :=
  match h with
  | [] => (s, true)
  | e :: r => let '(s1, x) := cstep s (e_op e) in
              let '(s2, ok) := replay s1 r in
              (s2, cres_eqb x (e_res e) && ok)
  end.
