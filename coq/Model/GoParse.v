(* GoParse.v — a semantics for the MiniGo syntax tree of ParseValidNameKV (valid/common.go), the
   function every rule passes through, regenerated from /repo on every run.  Proofs/GoParseProofs.v
   shows that running it on any byte string gives the model's parse_kv.
   What is given a meaning (anything else is PBad and the run is stuck):
     identifiers, the constants ExplainZh / ExplainEn, integer and string literals, -e
     strings.Index(s, sub) (-1 when absent)   len(s)   IncludeZhRe.MatchString(s)
     s[:i]  s[i:]  s[i:j]   (a slice out of range is a run-time panic: PBad)
     == != < > on integers, + on integers and on strings, && || on booleans
     := and = to a variable, if (with an init statement) / else, return (named results) *)
From Coq Require Import String.
From PGV Require Import Base.Bytes Base.GoStr Base.Utf8 Base.MiniGo.
From PGV Require Import Extracted.SourceConst Model.RuleText.
(* also IsExported (valid/common.go): string comparison, s[i] (a byte, with its run-time bound), <= >=, return e;
   and GenValidKV (valid/rule.go): the variadic values, a pooled strings.Builder (newStrBuf / WriteString / WriteByte /
   Grow / String / deferred putStrBuf), switch on a string with value lists and a default;
   and GetJoinValidErrStr (valid/common.go): strings.Contains, !, integer -, for i, v := range over the variadic
   values with continue;
   and RM.Set / RM.Get (valid/rule.go): a map of strings as the model's association list (v, ok := m[k], m[k] = x,
   m[k] += x, len(m)), strings.Split and strings.Join on a one-byte separator *)
Open Scope Z_scope.

Inductive pv := PS (s : str) | PZ (z : Z) | PB (b : bool) | PL (l : list str) | PM (m : rm)
               | PE (text : str)        (* an error value: what its Error() returns *)
               | PO                     (* an interface value of some other dynamic type *)
               | PBad.
Definition penv := string -> pv.
Definition pset (x : string) (v : pv) (e : penv) : penv := fun y => if String.eqb y x then v else e y.
Definition pempty : penv :=
  fun y => if String.eqb y "ExplainZh" then PS ExplainZh else if String.eqb y "ExplainEn" then PS ExplainEn
           else if String.eqb y "VIn" then PS VIn else if String.eqb y "VInclude" then PS VInclude
           else if String.eqb y "VRe" then PS VRe else if String.eqb y "ErrEndFlag" then PS ErrEndFlag else PBad.

Definition index1 (s sub : str) : pv :=
  match sub with
  | [] => PBad
  | [c] => PZ (match index_byte c s with Some n => Z.of_nat n | None => -1 end)
  | _ => PZ (match index sub s with Some n => Z.of_nat n | None => -1 end)
  end.
Definition trim_prefix (s p : str) : str := if has_prefix s p then skipn (List.length p) s else s.

Definition slice_of (s : str) (lo hi : option Z) : pv :=
  let n := Z.of_nat (List.length s) in
  match lo, hi with
  | None, None => PS s
  | None, Some h => if (0 <=? h) && (h <=? n) then PS (firstn (Z.to_nat h) s) else PBad
  | Some l, None => if (0 <=? l) && (l <=? n) then PS (skipn (Z.to_nat l) s) else PBad
  | Some l, Some h => if (0 <=? l) && (l <=? h) && (h <=? n) then PS (firstn (Z.to_nat (h - l)) (skipn (Z.to_nat l) s)) else PBad
  end.

Fixpoint peval (e : penv) (x : expr) {struct x} : pv :=
  match x with
  | EId n => if String.eqb n "true" then PB true else if String.eqb n "false" then PB false else e n
  | ELit z => PZ z
  | EStr s => PS s
  | EUn op a => if String.eqb op "-" then match peval e a with PZ z => PZ (- z) | _ => PBad end
                else if String.eqb op "!" then match peval e a with PB b => PB (negb b) | _ => PBad end else PBad
  | ECall (ESel (EId pkg) f) [a; b] =>
    if String.eqb pkg "strings" && String.eqb f "Index" then
      match peval e a, peval e b with PS s, PS sub => index1 s sub | _, _ => PBad end
    else if String.eqb pkg "strings" && String.eqb f "Contains" then
      match peval e a, peval e b with PS s, PS sub => PB (contains s sub) | _, _ => PBad end
    else if String.eqb pkg "strings" && String.eqb f "Split" then       (* one-byte separators only *)
      match peval e a, peval e b with
      | PS s, PS [c] => PL (split1 c [] s)
      | PS s, PS (c :: d :: r) => PL (split s (c :: d :: r))
      | _, _ => PBad
      end
    else if String.eqb pkg "strings" && String.eqb f "TrimPrefix" then
      match peval e a, peval e b with PS s, PS p => PS (trim_prefix s p) | _, _ => PBad end
    else if String.eqb pkg "strings" && String.eqb f "Join" then
      match peval e a, peval e b with PL l, PS [c] => PS (join1 c l) | _, _ => PBad end
    else PBad
  | ECall (ESel (EId r) f) [a] =>
    if String.eqb r "IncludeZhRe" && String.eqb f "MatchString" then
      match peval e a with PS s => PB (has_zh s) | _ => PBad end
    else PBad
  | ECall (EId f) [a] =>
    if String.eqb f "len" then
      match peval e a with
      | PS s => PZ (Z.of_nat (List.length s)) | PL l => PZ (Z.of_nat (List.length l)) | PM m => PZ (Z.of_nat (List.length m))
      | _ => PBad
      end
    else PBad
  | ECall (ESel (EId b) f) [] =>     (* a strings.Builder: its text *)
    if String.eqb f "String" then match e b with PS s => PS s | _ => PBad end
    else if String.eqb f "Error" then match e b with PE t => PS t | _ => PBad end else PBad
  | EIndex a i =>
    match peval e a, peval e i with
    | PS s, PZ z => if 0 <=? z then match nth_error s (Z.to_nat z) with Some c => PZ (Z.of_N c) | None => PBad end else PBad
    | PL l, PZ z => if 0 <=? z then match nth_error l (Z.to_nat z) with Some x => PS x | None => PBad end else PBad
    | PM m, PS k => PS (match rm_get_raw m k with Some v => v | None => [] end)      (* a missing key reads as "" *)
    | _, _ => PBad
    end
  | ESlice a lo hi =>
    match peval e a with
    | PS s =>
      let ev := fun o => match o with
                         | None => Some None
                         | Some y => match peval e y with PZ z => Some (Some z) | _ => None end
                         end in
      match ev lo, ev hi with
      | Some l, Some h => slice_of s l h
      | _, _ => PBad
      end
    | _ => PBad
    end
  | EBin op a b =>
    match peval e a, peval e b with
    | PZ x, PZ y =>
      if String.eqb op "==" then PB (x =? y) else if String.eqb op "!=" then PB (negb (x =? y))
      else if String.eqb op "<" then PB (x <? y) else if String.eqb op ">" then PB (y <? x)
      else if String.eqb op "<=" then PB (x <=? y) else if String.eqb op ">=" then PB (y <=? x)
      else if String.eqb op "+" then PZ (x + y) else if String.eqb op "-" then PZ (x - y) else PBad
    | PS x, PS y => if String.eqb op "+" then PS (x ++ y)
                    else if String.eqb op "==" then PB (str_eqb x y) else if String.eqb op "!=" then PB (negb (str_eqb x y))
                    else PBad
    | PB x, PB y => if String.eqb op "&&" then PB (x && y) else if String.eqb op "||" then PB (x || y) else PBad
    (* && and || evaluate their right operand only when needed: a panic there (PBad) does not happen when the
       left operand decides; expressions have no other effect *)
    | PB x, PBad => if String.eqb op "&&" then (if x then PBad else PB false)
                    else if String.eqb op "||" then (if x then PB true else PBad) else PBad
    | _, _ => PBad
    end
  | _ => PBad
  end.

Inductive pflow := PNext (e : penv) | PCont (e : penv) | PRet (e : penv) (v : option pv) | PStuck.

(* for i, v := range l { body }: the loop itself, on a body already given a meaning; continue ends one iteration *)
Fixpoint range_loop (l : list str) (idx : Z) (body : Z -> str -> penv -> pflow) (e : penv) : pflow :=
  match l with
  | [] => PNext e
  | c :: r => match body idx c e with
              | PNext e1 | PCont e1 => range_loop r (idx + 1) body e1
              | other => other
              end
  end.

Fixpoint pexec (s : stmt) (e : penv) {struct s} : pflow :=
  let run := fix run (l : list stmt) (e : penv) {struct l} : pflow :=
    match l with
    | [] => PNext e
    | x :: r => match pexec x e with PNext e1 => run r e1 | other => other end
    end in
  match s with
  | SAssign _ [EId x] [rhs] =>
    match rhs with
    | ECall (EId f) _ => if String.eqb f "newStrBuf" then PNext (pset x (PS []) e)    (* the argument is a capacity *)
                         else match peval e rhs with PBad => PStuck | v => PNext (pset x v e) end
    | _ => match peval e rhs with PBad => PStuck | v => PNext (pset x v e) end
    end
  (* a map of strings (RM): v, ok := m[k]   m[k] = x   m[k] += x *)
  | SAssign _ [EId a; EId b] [EIndex (EId m) k] =>
    match e m, peval e k with
    | PM mm, PS kk =>
      PNext (pset b (PB (match rm_get_raw mm kk with Some _ => true | None => false end))
            (pset a (PS (match rm_get_raw mm kk with Some v => v | None => [] end)) e))
    | _, _ => PStuck
    end
  | SAssign false [EIndex (EId m) k] [rhs] =>
    match e m, peval e k, peval e rhs with
    | PM mm, PS kk, PS x => PNext (pset m (PM (rm_put mm kk x)) e)
    | _, _, _ => PStuck
    end
  | SOpAssign op (EIndex (EId m) k) rhs =>
    if String.eqb op "+" then
      match e m, peval e k, peval e rhs with
      | PM mm, PS kk, PS x => PNext (pset m (PM (rm_put mm kk ((match rm_get_raw mm kk with Some v => v | None => [] end) ++ x))) e)
      | _, _, _ => PStuck
      end
    else PStuck
  | SIf init c th el =>
    match run init e with
    | PNext e1 =>
      match peval e1 c with
      | PB true => run th e1
      | PB false => run el e1
      | _ => PStuck
      end
    | other => other
    end
  (* switch v := x.(type) { case string: ... case error: ... }: the first case naming x's dynamic type; none: nothing *)
  | STypeSwitch (Some v) x cases =>
    let dyn := match peval e x with PS _ => Some "string"%string | PE _ => Some "error"%string | PO => Some ""%string | _ => None end in
    match dyn with
    | Some d =>
      (fix pick (cs : list (list string * list stmt)) : pflow :=
         match cs with
         | [] => PNext e
         | (tys, body) :: r => if existsb (String.eqb d) tys then run body (pset v (peval e x) e) else pick r
         end) cases
    | None => PStuck
    end
  | SContinue => PCont e
  | SRange (Some i) (Some v) _ coll body =>
    match peval e coll with
    | PL l => range_loop l 0 (fun idx c e' => run body (pset v (PS c) (pset i (PZ idx) e'))) e
    | _ => PStuck
    end
  | SReturn [] => PRet e None
  | SReturn [x] => match peval e x with PBad => PStuck | v => PRet e (Some v) end
  (* a pooled strings.Builder: the variable holds the text written so far *)
  | SDefer (ECall (EId f) _) => if String.eqb f "putStrBuf" then PNext e else PStuck
  | SExpr (ECall (ESel (EId b) m) [a]) =>
    match e b with
    | PS acc =>
      if String.eqb m "WriteString" then match peval e a with PS x => PNext (pset b (PS (acc ++ x)) e) | _ => PStuck end
      else if String.eqb m "WriteByte" then
        match peval e a with PZ c => if (0 <=? c) && (c <? 256) then PNext (pset b (PS (acc ++ [Z.to_N c])) e) else PStuck | _ => PStuck end
      else if String.eqb m "Grow" then PNext e
      else PStuck
    | _ => PStuck
    end
  | SSwitch [] (Some tag) cases =>
    match peval e tag with
    | PS t =>
      (fix pick (cs : list (list expr * list stmt)) : pflow :=
         match cs with
         | [] => (fix dflt (ds : list (list expr * list stmt)) : pflow :=
                    match ds with
                    | [] => PNext e
                    | ([], body) :: _ => run body e
                    | _ :: r => dflt r
                    end) cases
         | (vals, body) :: r =>
           (fix any (vs : list expr) : pflow :=
              match vs with
              | [] => pick r
              | v :: vr => match peval e v with
                           | PS c => if str_eqb t c then run body e else any vr
                           | _ => PStuck
                           end
              end) vals
         end) cases
    | _ => PStuck
    end
  | _ => PStuck
  end.

Fixpoint pexec_list (l : list stmt) (e : penv) : pflow :=
  match l with
  | [] => PNext e
  | x :: r => match pexec x e with PNext e1 => pexec_list r e1 | other => other end
  end.

(* ParseValidNameKV(validName): named results key, value, cusMsg start empty *)
Definition run_parse (f : fn) (s : str) : option (str * str * str) :=
  let e0 := pset "validName" (PS s) (pset "key" (PS []) (pset "value" (PS []) (pset "cusMsg" (PS []) pempty))) in
  match pexec_list (fn_body f) e0 with
  | PNext e | PRet e None =>
    match e "key"%string, e "value"%string, e "cusMsg"%string with
    | PS k, PS v, PS m => Some (k, v, m)
    | _, _, _ => None
    end
  | _ => None
  end.

(* IsExported(fieldName) *)
Definition run_bool (f : fn) (arg : str) : option bool :=
  match fn_params f with
  | [(p, _)] => match pexec_list (fn_body f) (pset p (PS arg) pempty) with
                | PRet _ (Some (PB b)) => Some b
                | _ => None
                end
  | _ => None
  end.

(* GenValidKV(key, values...) (valid/rule.go) *)
Definition run_gen (f : fn) (key : str) (values : list str) : option str :=
  match pexec_list (fn_body f) (pset "key" (PS key) (pset "values" (PL values) pempty)) with
  | PRet _ (Some (PS s)) => Some s
  | _ => None
  end.

(* GetJoinValidErrStr(objName, fieldName, inputVal, others...) (valid/common.go) *)
Definition run_join (f : fn) (obj field input : str) (others : list str) : option str :=
  match pexec_list (fn_body f)
          (pset "objName" (PS obj) (pset "fieldName" (PS field) (pset "inputVal" (PS input) (pset "others" (PL others) pempty)))) with
  | PRet _ (Some (PS s)) => Some s
  | _ => None
  end.

(* (r RM) Set(filedNames, rules...) and (r RM) Get(fieldName) (valid/rule.go); the map is the model's association list *)
Definition run_rm_set (f : fn) (r : rm) (fields : str) (rules : list str) : option rm :=
  match pexec_list (fn_body f) (pset "r" (PM r) (pset "filedNames" (PS fields) (pset "rules" (PL rules) pempty))) with
  | PRet _ (Some (PM m)) => Some m
  | _ => None
  end.
Definition run_rm_get (f : fn) (r : rm) (field : str) : option str :=
  match pexec_list (fn_body f) (pset "r" (PM r) (pset "fieldName" (PS field) pempty)) with
  | PRet _ (Some (PS s)) => Some s
  | _ => None
  end.

(* GetJoinFieldErr(objName, fieldName, err interface{}) (valid/common.go): err is a string, an error, or something else *)
Definition run_field_err (f : fn) (obj field : str) (err : pv) : option str :=
  match pexec_list (fn_body f) (pset "objName" (PS obj) (pset "fieldName" (PS field) (pset "err" err pempty))) with
  | PRet _ (Some (PS s)) => Some s
  | _ => None
  end.

(* GetOnlyExplainErr(errMsg) (valid/init.go) *)
Definition run_explain (f : fn) (msg : str) : option str :=
  match pexec_list (fn_body f) (pset "errMsg" (PS msg) pempty) with
  | PRet _ (Some (PS s)) => Some s
  | _ => None
  end.
