(* GoParse.v — a semantics for the MiniGo syntax tree of ParseValidNameKV (valid/common.go), the
   function every rule passes through, regenerated from /repo on every run.  Proofs/GoParseProofs.v
   shows that running it on any byte string gives the model's parse_kv.
   What is given a meaning (anything else is PBad and the run is stuck):
     identifiers, the constants ExplainZh / ExplainEn, integer and string literals, -e
     strings.Index(s, "c") for a one-byte c (-1 when absent)   len(s)   IncludeZhRe.MatchString(s)
     s[:i]  s[i:]  s[i:j]   (a slice out of range is a run-time panic: PBad)
     == != < > on integers, + on integers and on strings, && || on booleans
     := and = to a variable, if (with an init statement) / else, return (named results) *)
From Coq Require Import String.
From PGV Require Import Base.Bytes Base.GoStr Base.Utf8 Base.MiniGo.
From PGV Require Import Extracted.SourceConst Model.RuleText.
(* also IsExported (valid/common.go): string comparison, s[i] (a byte, with its run-time bound), <= >=, return e *)
Open Scope Z_scope.

Inductive pv := PS (s : str) | PZ (z : Z) | PB (b : bool) | PBad.
Definition penv := string -> pv.
Definition pset (x : string) (v : pv) (e : penv) : penv := fun y => if String.eqb y x then v else e y.
Definition pempty : penv :=
  fun y => if String.eqb y "ExplainZh" then PS ExplainZh else if String.eqb y "ExplainEn" then PS ExplainEn
           else PBad.

Definition index1 (s sub : str) : pv :=
  match sub with
  | [c] => PZ (match index_byte c s with Some n => Z.of_nat n | None => -1 end)
  | _ => PBad
  end.

Definition slice_of (s : str) (lo hi : option Z) : pv :=
  let n := Z.of_nat (List.length s) in
  match lo, hi with
  | None, None => PS s
  | None, Some h => if (0 <=? h) && (h <=? n) then PS (firstn (Z.to_nat h) s) else PBad
  | Some l, None => if (0 <=? l) && (l <=? n) then PS (skipn (Z.to_nat l) s) else PBad
  | Some l, Some h => if (0 <=? l) && (l <=? h) && (h <=? n) then PS (firstn (Z.to_nat (h - l)) (skipn (Z.to_nat l) s)) else PBad
  end.

Fixpoint peval (e : penv) (x : expr) {struct x} : pv :=
  match x with
  | EId n => if String.eqb n "true" then PB true else if String.eqb n "false" then PB false else e n
  | ELit z => PZ z
  | EStr s => PS s
  | EUn op a => if String.eqb op "-" then match peval e a with PZ z => PZ (- z) | _ => PBad end else PBad
  | ECall (ESel (EId pkg) f) [a; b] =>
    if String.eqb pkg "strings" && String.eqb f "Index" then
      match peval e a, peval e b with PS s, PS sub => index1 s sub | _, _ => PBad end
    else PBad
  | ECall (ESel (EId r) f) [a] =>
    if String.eqb r "IncludeZhRe" && String.eqb f "MatchString" then
      match peval e a with PS s => PB (has_zh s) | _ => PBad end
    else PBad
  | ECall (EId f) [a] =>
    if String.eqb f "len" then
      match peval e a with PS s => PZ (Z.of_nat (List.length s)) | _ => PBad end
    else PBad
  | EIndex a i =>
    match peval e a, peval e i with
    | PS s, PZ z => if 0 <=? z then match nth_error s (Z.to_nat z) with Some c => PZ (Z.of_N c) | None => PBad end else PBad
    | _, _ => PBad
    end
  | ESlice a lo hi =>
    match peval e a with
    | PS s =>
      let ev := fun o => match o with
                         | None => Some None
                         | Some y => match peval e y with PZ z => Some (Some z) | _ => None end
                         end in
      match ev lo, ev hi with
      | Some l, Some h => slice_of s l h
      | _, _ => PBad
      end
    | _ => PBad
    end
  | EBin op a b =>
    match peval e a, peval e b with
    | PZ x, PZ y =>
      if String.eqb op "==" then PB (x =? y) else if String.eqb op "!=" then PB (negb (x =? y))
      else if String.eqb op "<" then PB (x <? y) else if String.eqb op ">" then PB (y <? x)
      else if String.eqb op "<=" then PB (x <=? y) else if String.eqb op ">=" then PB (y <=? x)
      else if String.eqb op "+" then PZ (x + y) else PBad
    | PS x, PS y => if String.eqb op "+" then PS (x ++ y)
                    else if String.eqb op "==" then PB (str_eqb x y) else if String.eqb op "!=" then PB (negb (str_eqb x y))
                    else PBad
    | PB x, PB y => if String.eqb op "&&" then PB (x && y) else if String.eqb op "||" then PB (x || y) else PBad
    (* && and || evaluate their right operand only when needed: a panic there (PBad) does not happen when the
       left operand decides; expressions have no other effect *)
    | PB x, PBad => if String.eqb op "&&" then (if x then PBad else PB false)
                    else if String.eqb op "||" then (if x then PB true else PBad) else PBad
    | _, _ => PBad
    end
  | _ => PBad
  end.

Inductive pflow := PNext (e : penv) | PRet (e : penv) (v : option pv) | PStuck.

Fixpoint pexec (s : stmt) (e : penv) {struct s} : pflow :=
  let run := fix run (l : list stmt) (e : penv) {struct l} : pflow :=
    match l with
    | [] => PNext e
    | x :: r => match pexec x e with PNext e1 => run r e1 | other => other end
    end in
  match s with
  | SAssign _ [EId x] [rhs] =>
    match peval e rhs with PBad => PStuck | v => PNext (pset x v e) end
  | SIf init c th el =>
    match run init e with
    | PNext e1 =>
      match peval e1 c with
      | PB true => run th e1
      | PB false => run el e1
      | _ => PStuck
      end
    | other => other
    end
  | SReturn [] => PRet e None
  | SReturn [x] => match peval e x with PBad => PStuck | v => PRet e (Some v) end
  | _ => PStuck
  end.

Fixpoint pexec_list (l : list stmt) (e : penv) : pflow :=
  match l with
  | [] => PNext e
  | x :: r => match pexec x e with PNext e1 => pexec_list r e1 | other => other end
  end.

(* ParseValidNameKV(validName): named results key, value, cusMsg start empty *)
Definition run_parse (f : fn) (s : str) : option (str * str * str) :=
  let e0 := pset "validName" (PS s) (pset "key" (PS []) (pset "value" (PS []) (pset "cusMsg" (PS []) pempty))) in
  match pexec_list (fn_body f) e0 with
  | PNext e | PRet e None =>
    match e "key"%string, e "value"%string, e "cusMsg"%string with
    | PS k, PS v, PS m => Some (k, v, m)
    | _, _, _ => None
    end
  | _ => None
  end.

(* IsExported(fieldName) *)
Definition run_bool (f : fn) (arg : str) : option bool :=
  match fn_params f with
  | [(p, _)] => match pexec_list (fn_body f) (pset p (PS arg) pempty) with
                | PRet _ (Some (PB b)) => Some b
                | _ => None
                end
  | _ => None
  end.
