(* LRU.v — valid/cache.go line by line.  container/list is a list of (element id, value), front
   first; the Go map nodeMap is an association list key -> element id (unordered in Go: only
   lookups, deletes and the search by element identity in delete() are used).  Keys and values
   are numbers (the harness numbers the Go keys/values it uses). *)
From PGV Require Import Base.Bytes Spec.LRUSpec.

Notation id := N (only parsing).

Record st := {
  maxsz : Z;                      (* maxSize, an int: the comparison Len() > maxSize is on Z *)
  delcnt : Z;                     (* delMapCount *)
  nmap : list (K * id);           (* nodeMap *)
  lst : list (id * V);            (* list, front first *)
  next : id;                      (* allocation counter for new list elements *)
  log : list (K * V)              (* calls of deleteCallBackFn, in order *)
}.

Definition init (c : Z) : st := {| maxsz := c; delcnt := 0; nmap := []; lst := []; next := 0%N; log := [] |}.

Definition lookup (k : K) (m : list (K * id)) : option id :=
  option_map snd (find (fun p => N.eqb (fst p) k) m).
(* for k, v := range l.nodeMap { if v == node { key = k; break } } *)
Definition key_of (i : id) (m : list (K * id)) : option K :=
  option_map fst (find (fun p => N.eqb (snd p) i) m).
Definition map_del (k : K) (m : list (K * id)) := filter (fun p => negb (N.eqb (fst p) k)) m.
Definition lst_val (i : id) (l : list (id * V)) : option V :=
  option_map snd (find (fun p => N.eqb (fst p) i) l).
Definition lst_del (i : id) (l : list (id * V)) := filter (fun p => negb (N.eqb (fst p) i)) l.

Definition upd s c m l n lg := {| maxsz := maxsz s; delcnt := c; nmap := m; lst := l; next := n; log := lg |}.

(* l.delete(node), cache.go:81-107 *)
Definition delete_node (i : id) (v : V) (s : st) : st :=
  let c' := if (2 * maxsz s <? delcnt s)%Z then 0%Z else (delcnt s + 1)%Z in   (* rebuild copies the map *)
  match key_of i (nmap s) with
  | Some k => upd s c' (map_del k (nmap s)) (lst_del i (lst s)) (next s) (log s ++ [(k, v)])
  | None => (* key stays nil: delete(map, nil) is a no-op, the callback gets a nil key;
               unreachable under the invariant *)
            upd s c' (nmap s) (lst_del i (lst s)) (next s) (log s)
  end.

(* Store, cache.go:38-56 (after the repair: an existing key gets the new value) *)
Definition store (k : K) (v : V) (s : st) : st :=
  match lookup k (nmap s) with
  | Some i => upd s (delcnt s) (nmap s) ((i, v) :: lst_del i (lst s)) (next s) (log s)
  | None =>
    let i := next s in
    let s1 := upd s (delcnt s) ((k, i) :: nmap s) ((i, v) :: lst s) (N.succ i) (log s) in
    if (maxsz s <? Z.of_nat (length (lst s1)))%Z then
      match last (lst s1) (i, v) with (j, w) => delete_node j w s1 end
    else s1
  end.

(* Load, cache.go:58-69 *)
Definition load (k : K) (s : st) : st * option V :=
  match lookup k (nmap s) with
  | Some i => match lst_val i (lst s) with
              | Some v => (upd s (delcnt s) (nmap s) ((i, v) :: lst_del i (lst s)) (next s) (log s), Some v)
              | None => (s, None)   (* unreachable under the invariant *)
              end
  | None => (s, None)
  end.

(* Delete, cache.go:71-79 *)
Definition del (k : K) (s : st) : st :=
  match lookup k (nmap s) with
  | Some i => match lst_val i (lst s) with Some v => delete_node i v s | None => s end
  | None => s
  end.

(* Len, cache.go:111-118 *)
Definition len (s : st) : Z :=
  if Nat.eqb (length (lst s)) (length (nmap s)) then Z.of_nat (length (lst s)) else (-1)%Z.

(* Dump order: the values front to back *)
Definition dump (s : st) : list V := map snd (lst s).

Definition step (s : st) (o : op) : st * out :=
  match o with
  | OStore k v => (store k v s, RNone)
  | OLoad k => let '(s', r) := load k s in (s', RLoad r)
  | ODelete k => (del k s, RNone)
  | OLen => (s, RLen (len s))
  end.

Fixpoint run (s : st) (ops : list op) : st * list out :=
  match ops with
  | [] => (s, [])
  | o :: r => let '(s1, x) := step s o in let '(s2, xs) := run s1 r in (s2, x :: xs)
  end.
