(* Walk.v — the four validators: validstruct.go, validvar.go, validmap.go, validurl.go, the
   function lookup and the either/botheq groups of abstract.go, the entry points of valid.go.
   Recursion is on explicit depth fuel; helpers are top-level and parameterised by the recursive
   call.  Mirrors the repaired code (nil pointers skipped, groups per object, ...). *)
From PGV Require Import Base.Bytes Base.GoStr Base.GoNum Base.Utf8 Base.Url.
From PGV Require Import Extracted.SourceConst Extracted.SourceTable.
From PGV Require Import Model.RuleText Model.Value Model.Clause Model.Rules.
Open Scope Z_scope.

(* ---------- configuration of one call ---------- *)
Inductive fnreg := FnNil | FnMark (tag : str).     (* a registered function: nil, or one that always
                                                      writes the clause  input "", explain: FN<tag> *)
Record cfg := {
  c_tag : str;                               (* target tag name *)
  c_typed : list (str * rm);                 (* SetRule(rule, obj): keyed by the type's String() *)
  c_unscoped : option rm;                    (* SetRule(rule): validOnlyOuterObj *)
  c_local : list (str * fnreg);              (* SetValidFn for this call *)
  c_global : list (str * fnreg);             (* SetCustomerValidFn, registered before *)
  c_orc : oracles
}.

Inductive fnres := FErr | FBuiltin | FRule (f : rulefn) | FMark (tag : str).

(* validCommon.getValidFn: per-call, then the global table (custom registrations shadow built-ins) *)
Definition get_fn (c : cfg) (name : str) : fnres :=
  let of_reg r := match r with FnNil => FBuiltin | FnMark t => FMark t end in
  match lookup1 name (c_local c) with
  | Some r => of_reg r
  | None =>
    match lookup1 name (c_global c) with
    | Some r => of_reg r
    | None =>
      match lookup1 name rule_table with
      | Some None => FBuiltin
      | Some (Some fname) => match fn_by_name (c_orc c) fname with Some f => FRule f | None => FErr end
      | None => FErr
      end
    end
  end.

Definition not_exist_text (name : str) : str :=
  s2b "valid """ ++ name ++ s2b """ is not exist, You can call SetValidFn".
Definition no_support_text (vn : str) : str := s2b "valid """ ++ vn ++ s2b """ is no support".
Definition mark_clause (obj field tag : str) : clause :=
  CValid obj field [] (VCustom (ExplainEn ++ s2b " FN" ++ tag)).

(* ---------- groups ---------- *)
Record gmember := { g_key : str; g_vn : str; g_obj : str; g_field : str; g_val : val }.

Definition gkey (obj vn : str) : str := obj ++ 0%N :: vn.

(* reflect.DeepEqual on the kinds the group rules are used with *)
Definition fl_eqb (a b : fl) : bool :=
  match a, b with
  | FFin m e, FFin m' e' => ((m =? 0) && (m' =? 0)) || ((m =? m') && (e =? e'))
  | FInf x, FInf y => Bool.eqb x y
  | _, _ => false
  end.
Definition width_eqb (a b : width) : bool :=
  match a, b with W8, W8 | W16, W16 | W32, W32 | W64, W64 | WInt, WInt => true | _, _ => false end.
Fixpoint val_eqb (a b : val) {struct a} : bool :=
  match a, b with
  | VBool x, VBool y => Bool.eqb x y
  | VInt w x, VInt w' y => width_eqb w w' && (x =? y)
  | VUint w x, VUint w' y => width_eqb w w' && (x =? y)
  | VFloat s f _ _, VFloat s' g _ _ => Bool.eqb s s' && fl_eqb f g
  | VStr x, VStr y => str_eqb x y
  (* containers: same type, same nil-ness, same length, elements deeply equal *)
  | VSlice n1 _ t1 l1, VSlice n2 _ t2 l2 =>
    str_eqb t1 t2 && Bool.eqb n1 n2 &&
    (fix go (l1 l2 : list val) {struct l1} : bool :=
       match l1, l2 with
       | [], [] => true
       | x :: r, y :: s => val_eqb x y && go r s
       | _, _ => false
       end) l1 l2
  | VArray _ t1 l1, VArray _ t2 l2 =>
    str_eqb t1 t2 &&
    (fix go (l1 l2 : list val) {struct l1} : bool :=
       match l1, l2 with
       | [], [] => true
       | x :: r, y :: s => val_eqb x y && go r s
       | _, _ => false
       end) l1 l2
  | VMap n1 _ t1 e1, VMap n2 _ t2 e2 =>
    str_eqb t1 t2 && Bool.eqb n1 n2 && (length e1 =? length e2)%nat &&
    (fix go (e1 : list (val * val)) {struct e1} : bool :=
       match e1 with
       | [] => true
       | (k, x) :: r => existsb (fun e => val_eqb k (fst e) && val_eqb x (snd e)) e2 && go r
       end) e1
  | VStruct s1 f1, VStruct s2 f2 =>
    str_eqb (s_id s1) (s_id s2) &&
    (fix go (f1 f2 : list (finfo * val)) {struct f1} : bool :=
       match f1, f2 with
       | [], [] => true
       | (_, x) :: r, (_, y) :: s => val_eqb x y && go r s
       | _, _ => false
       end) f1 f2
  | VPtr x, VPtr y => val_eqb x y
  | VNilPtr t1, VNilPtr t2 => str_eqb t1 t2
  | VIface (Some x), VIface (Some y) => val_eqb x y
  | VIface None, VIface None => true
  | VTime z1, VTime z2 => z1 && z2
  | _, _ => false
  end.

Definition zero_b (v : val) : bool := match is_zero v with Ok b => b | _ => false end.

(* validCommon.either / bothEq on one group (members in insertion order) *)
Definition eval_group (ms : list gmember) : list clause :=
  match ms with
  | [] => []
  | m0 :: rest =>
    let names := map (fun m => (g_obj m, g_field m)) ms in
    let key := pk_key (g_vn m0) in
    if str_eqb key Either then
      match rest with
      | [] => [CField (g_obj m0) (g_field m0) (FRuleErr Either)]
      | _ => if forallb (fun m => zero_b (g_val m)) ms then [CGroup GEither names] else []
      end
    else if str_eqb key BothEq then
      match rest with
      | [] => [CField (g_obj m0) (g_field m0) (FRuleErr BothEq)]
      | _ => if forallb (fun m => val_eqb (g_val m0) (g_val m)) rest then [] else [CGroup GBothEq names]
      end
    else []
  end.

(* group the members by key, keys in order of first insertion (Go: map order, compared sorted) *)
Fixpoint group_keys (ms : list gmember) (seen : list str) : list str :=
  match ms with
  | [] => rev seen
  | m :: r => if existsb (str_eqb (g_key m)) seen then group_keys r seen else group_keys r (g_key m :: seen)
  end.
Definition eval_groups (ms : list gmember) : list clause :=
  flat_map (fun k => eval_group (filter (fun m => str_eqb (g_key m) k) ms)) (group_keys ms []).

(* ---------- the error buffer ---------- *)
Record buf := { b_cl : list clause; b_gr : list gmember }.   (* both in reverse order of writing *)
Definition empty_buf : buf := {| b_cl := []; b_gr := [] |}.
Definition put (b : buf) (cs : list clause) : buf := {| b_cl := rev_append cs (b_cl b); b_gr := b_gr b |}.
Definition put_group (b : buf) (m : gmember) : buf := {| b_cl := b_cl b; b_gr := m :: b_gr b |}.

Inductive outcome := ONil | OErrText (s : str) | OClauses (cs : list clause).

(* getError: groups last, nil iff nothing was written *)
Definition get_error (b : buf) : outcome :=
  match rev (b_cl b) ++ eval_groups (rev (b_gr b)) with
  | [] => ONil
  | cs => OClauses cs
  end.

(* ---------- VStruct ---------- *)
Definition is_exported (name : str) : bool :=
  match name with c :: _ => (65 <=? c)%N && (c <=? 90)%N | [] => false end.

Definition tag_get (tags : list (str * str)) (tag : str) : str :=
  match lookup1 tag tags with Some v => v | None => [] end.

Definition type_name (v : val) : str :=   (* reflect.Type.Name(): empty for unnamed composite types *)
  match v with
  | VStruct si _ => s_name si
  | VTime _ => s2b "Time"
  | VBool _ | VInt _ _ | VUint _ _ | VFloat _ _ _ _ | VStr _ => type_string v
  | _ => []
  end.

Definition req_body (cus : str) (rule : str) : vbody := body_of cus rule.

Definition LBR : byte := 91%N.  Definition RBR : byte := 93%N.
Definition idx_path (p : str) (i : nat) : str := p ++ LBR :: itoa (Z.of_nat i) ++ [RBR].
Definition key_path (p : str) (k : val) : str := p ++ LBR :: to_str k ++ [RBR].

Section Struct.
  Variable c : cfg.
  (* the recursive call: validate structName value isGather *)
  Variable rec : str -> val -> bool -> buf -> res buf.

  Fixpoint on_elems (p : str) (i : nat) (vs : list val) (b : buf) : res buf :=
    match vs with
    | [] => Ok b
    | x :: r => b1 <- rec (idx_path p i) x true b ;; on_elems p (S i) r b1
    end.
  Fixpoint on_entries (p : str) (es : list (val * val)) (b : buf) : res buf :=
    match es with
    | [] => Ok b
    | (k, x) :: r => b1 <- rec (key_path p k) x true b ;; on_entries p r b1
    end.

  (* exist, validstruct.go:278-320 *)
  Definition exist (is_valid_kind : bool) (sn field cus : str) (tv : val) (b : buf) : res buf :=
    z <- is_zero tv ;;
    if z then Ok b else
    let nonsupport := if is_valid_kind
                      then put b [CValid sn field (value_string tv) (req_body cus Exist)] else b in
    match tv with
    | VTime _ => Ok b
    | VPtr _ | VNilPtr _ | VStruct _ _ =>
      match remove_ptr tv with
      | VInvalid => rec (sn ++ DOT :: field) tv false b
      | VStruct _ _ | VTime _ => rec (sn ++ DOT :: field) tv false b
      | _ => Ok nonsupport
      end
    | VSlice _ _ _ vs | VArray _ _ vs => on_elems (sn ++ DOT :: field) O vs b
    | VMap _ _ _ es => on_entries (sn ++ DOT :: field) es b
    | _ => Ok nonsupport
    end.

  (* required, validstruct.go:253-275 *)
  Definition required (sn field cus : str) (tv : val) (b : buf) : res buf :=
    let empty_coll := match tv with
                      | VSlice _ _ _ [] | VArray _ _ [] | VMap _ _ _ [] => true
                      | _ => false
                      end in
    z <- is_zero tv ;;
    if empty_coll || z then Ok (put b [CValid sn field [] (req_body cus Required)])
    else exist false sn field cus tv b.

  (* one rule of one field *)
  Definition on_rule (sn : str) (fname : str) (fv : val) (vn : str) (b : buf) : res buf :=
    match vn with
    | [] => Ok b
    | _ =>
      let key := pk_key vn in let cus := pk_msg vn in
      match get_fn c key with
      | FErr => Ok (put b [CField sn fname (FKnown (not_exist_text key))])
      | FBuiltin =>
        if str_eqb key Required then required sn fname cus fv b
        else if str_eqb key Exist then exist true sn fname cus fv b
        else if str_eqb key Either || str_eqb key BothEq then
          Ok (put_group b {| g_key := gkey sn vn; g_vn := vn; g_obj := sn; g_field := fname; g_val := fv |})
        else Ok b
      | FRule f => z <- is_zero fv ;; if z then Ok b else Ok (put b (f vn sn fname fv))
      | FMark t => z <- is_zero fv ;; if z then Ok b else Ok (put b [mark_clause sn fname t])
      end
    end.

  Fixpoint on_rules (sn fname : str) (fv : val) (vns : list str) (b : buf) : res buf :=
    match vns with
    | [] => Ok b
    | vn :: r => b1 <- on_rule sn fname fv vn b ;; on_rules sn fname fv r b1
    end.

  Fixpoint on_fields (sn : str) (cus : rm) (fs : list (finfo * val)) (b : buf) : res buf :=
    match fs with
    | [] => Ok b
    | (fi, fv) :: r =>
      b1 <- (if f_time fi || negb (is_exported (f_name fi)) then Ok b
             else let over := rm_get cus (f_name fi) in
                  let vns := match over with [] => tag_get (f_tags fi) (c_tag c) | _ => over end in
                  match vns with
                  | [] => Ok b
                  | _ => on_rules sn (f_name fi) fv (names_split COMMA vns) b
                  end) ;;
      on_fields sn cus r b1
    end.

  Definition typed_rule (tstr : str) : rm := match lookup1 tstr (c_typed c) with Some r => r | None => [] end.

  (* validate, validstruct.go:135-230 *)
  Definition validate_body (sn : str) (value : val) (gather : bool) (b : buf) : res buf :=
    match remove_ptr value with
    | VInvalid => Ok b                                      (* nil pointer: nothing to validate *)
    | VTime _ => Ok b                                       (* a struct without exported fields *)
    | VStruct si fs =>
      let '(sn', cus) :=
        match sn with
        | [] => (s_name si, match typed_rule (s_id si) with
                            | [] => match c_unscoped c with Some r => r | None => [] end
                            | r => r
                            end)
        | _ => (sn, typed_rule (s_id si))
        end in
      on_fields sn' cus fs b
    | tv => if gather then Ok b else Ok (put b [CField sn (type_name tv) (FKnown (s2b "is not struct"))])
    end.
End Struct.

Fixpoint validate (c : cfg) (fuel : nat) (sn : str) (value : val) (gather : bool) (b : buf) : res buf :=
  match fuel with
  | O => OutOfFuel
  | S f => validate_body c (validate c f) sn value gather b
  end.

(* VStruct.Valid *)
Fixpoint strip_top (v : val) : val + str :=   (* inr: the type string of a nil pointer on the way *)
  match v with
  | VPtr v' => strip_top v'
  | VNilPtr t => inr t
  | _ => inl v
  end.

Definition struct_valid (c : cfg) (fuel : nat) (src : option val) : res outcome :=
  match src with
  | None => Ok (OErrText (s2b "src is nil"))
  | Some v =>
    match strip_top v with
    | inr t => Ok (OErrText (s2b "src """ ++ t ++ s2b """ is nil"))
    | inl rv =>
      b <- match rv with
           | VSlice _ _ et vs | VArray _ et vs => on_elems (validate c fuel) et O vs empty_buf
           | VMap _ _ _ es => on_entries (validate c fuel) (s2b "map") es empty_buf
           | _ => validate c fuel [] rv false empty_buf
           end ;;
      Ok (get_error b)
    end
  end.

(* ---------- VVar ---------- *)
Fixpoint var_supported (k : kd) : bool :=
  match k with
  | KString => true
  | KSlice e | KArray e => var_supported e
  | _ => is_num_kind k true
  end.

Definition var_rule (c : cfg) (tv : val) (vn : str) (b : buf) : res buf :=
  match vn with
  | [] => Ok b
  | _ =>
    let key := pk_key vn in let cus := pk_msg vn in
    match get_fn c key with
    | FErr => Ok (put b [CField [] [] (FKnown (not_exist_text key))])
    | FBuiltin =>
      if str_eqb key Required then
        let empty_coll := match tv with VSlice _ _ _ [] | VArray _ _ [] => true | _ => false end in
        z <- is_zero tv ;;
        if negb empty_coll && negb z then Ok b else Ok (put b [CValid [] [] [] (req_body cus Required)])
      else Ok (put b [CField [] [] (FKnown (no_support_text vn))])
    | FRule f => z <- is_zero tv ;; if z then Ok b else Ok (put b (f vn [] [] tv))
    | FMark t => z <- is_zero tv ;; if z then Ok b else Ok (put b [mark_clause [] [] t])
    end
  end.

Fixpoint var_rules (c : cfg) (tv : val) (vns : list str) (b : buf) : res buf :=
  match vns with
  | [] => Ok b
  | vn :: r => b1 <- var_rule c tv vn b ;; var_rules c tv r b1
  end.

Definition var_valid (c : cfg) (rules : list str) (src : option val) : res outcome :=
  match src with
  | None => Ok (OErrText (s2b "src is nil"))
  | Some v =>
    match remove_ptr v with
    | VInvalid => Ok (OErrText (s2b "src is nil"))
    | tv =>
      if negb (var_supported (kind tv)) then Ok (OErrText (s2b "src no support")) else
      let vns := rm_get (rm_set [] validVarFieldName rules) validVarFieldName in
      match vns with
      | [] => Ok (OClauses [CField [] [] (FKnown (s2b "have no set rule"))])
      | _ => b <- var_rules c tv (names_split COMMA vns) empty_buf ;; Ok (get_error b)
      end
    end
  end.

(* ---------- VMap ---------- *)
Definition map_get_key (prefix key : str) : str :=
  match prefix, key with
  | [], [] => []
  | _, [] => prefix ++ s2b "map"
  | _, _ => prefix ++ s2b "map[" ++ key ++ [RBR]
  end.

Definition map_rule (c : cfg) (prefix key : str) (v : val) (vn : str) (b : buf) : res buf :=
  match vn with
  | [] => Ok b
  | _ =>
    let k := pk_key vn in let cus := pk_msg vn in
    match get_fn c k with
    | FErr => Ok (put b [CField [] key (FKnown (not_exist_text k))])
    | FBuiltin =>
      if str_eqb k Required then
        z <- is_zero v ;;
        if negb z then Ok b else Ok (put b [CValid [] (map_get_key prefix key) [] (req_body cus Required)])
      else if str_eqb k Either || str_eqb k BothEq then
        Ok (put_group b {| g_key := gkey prefix vn; g_vn := vn; g_obj := []; g_field := key; g_val := v |})
      else Ok (put b [CField [] (map_get_key prefix key) (FKnown (no_support_text vn))])
    | FRule f => z <- is_zero v ;; if z then Ok b else Ok (put b (f vn [] (map_get_key prefix key) v))
    | FMark t => z <- is_zero v ;; if z then Ok b else Ok (put b [mark_clause [] (map_get_key prefix key) t])
    end
  end.

Fixpoint map_rules (c : cfg) (prefix key : str) (v : val) (vns : list str) (b : buf) : res buf :=
  match vns with
  | [] => Ok b
  | vn :: r => b1 <- map_rule c prefix key v vn b ;; map_rules c prefix key v r b1
  end.

Fixpoint map_entries (c : cfg) (rules : rm) (prefix : str) (es : list (val * val)) (b : buf) : res buf :=
  match es with
  | [] => Ok b
  | (k, v) :: r =>
    let key := str_of k in
    b1 <- match rm_get rules key with
          | [] => Ok b
          | vns => map_rules c prefix key v (names_split COMMA vns) b
          end ;;
    map_entries c rules prefix r b1
  end.

Definition map_validate (c : cfg) (rules : rm) (prefix : str) (tv : val) (b : buf) : res buf :=
  match tv with
  | VMap _ kk _ es =>
    match kk with
    | KString => map_entries c rules prefix es b
    | _ => Ok (put b [CField [] prefix (FKnown (s2b "map key must string"))])
    end
  | _ => Ok (put b [CField [] prefix (FKnown (s2b "val must map"))])
  end.

Fixpoint map_elems (c : cfg) (rules : rm) (i : nat) (vs : list val) (b : buf) : res buf :=
  match vs with
  | [] => Ok b
  | x :: r => b1 <- map_validate c rules (LBR :: itoa (Z.of_nat i) ++ [RBR]) x b ;; map_elems c rules (S i) r b1
  end.

Definition map_valid (c : cfg) (rules : rm) (src : option val) : res outcome :=
  match src with
  | None => Ok (OErrText (s2b "src is nil"))
  | Some v =>
    match rules with
    | [] => Ok (OErrText (s2b "have no set rules"))
    | _ =>
      b <- match remove_ptr v with
           | VSlice _ _ _ vs | VArray _ _ vs => map_elems c rules O vs empty_buf
           | tv => map_validate c rules [] tv empty_buf
           end ;;
      Ok (get_error b)
    end
  end.

(* ---------- VUrl ---------- *)
Definition QMARK : str := [63%N].  Definition AMP : str := [38%N].  Definition EQS : str := [61%N].

Definition url_rule (c : cfg) (key val_ : str) (vn : str) (b : buf) : res buf :=
  match vn with
  | [] => Ok b
  | _ =>
    let k := pk_key vn in let cus := pk_msg vn in
    match get_fn c k with
    | FErr => Ok (put b [CField [] key (FKnown (not_exist_text k))])
    | FBuiltin =>
      if str_eqb k Required then
        match val_ with
        | [] => Ok (put b [CValid [] key [] (req_body cus Required)])
        | _ => Ok b
        end
      else if str_eqb k Either || str_eqb k BothEq then
        Ok (put_group b {| g_key := gkey [] vn; g_vn := vn; g_obj := []; g_field := key; g_val := VStr val_ |})
      else Ok (put b [CField [] key (FKnown (no_support_text vn))])
    | FRule f => match val_ with [] => Ok b | _ => Ok (put b (f vn [] key (VStr val_))) end
    | FMark t => match val_ with [] => Ok b | _ => Ok (put b [mark_clause [] key t]) end
    end
  end.

Fixpoint url_rules (c : cfg) (key val_ : str) (vns : list str) (b : buf) : res buf :=
  match vns with
  | [] => Ok b
  | vn :: r => b1 <- url_rule c key val_ vn b ;; url_rules c key val_ r b1
  end.

Fixpoint url_params (c : cfg) (rules : rm) (qs : list str) (b : buf) : res buf :=
  match qs with
  | [] => Ok b
  | q :: r =>
    let kv := split q EQS in
    let key := nth 0 kv [] in let v := nth 1 kv [] in
    b1 <- match rm_get rules key with
          | [] => Ok b
          | vns => url_rules c key v (names_split COMMA vns) b
          end ;;
    url_params c rules r b1
  end.

Definition url_valid (c : cfg) (rules : rm) (src : option val) : res outcome :=
  match src with
  | None => Ok (OErrText (s2b "src is nil"))
  | Some (VStr s) | Some (VPtr (VStr s)) =>
    match query_unescape s with
    | inr bad => Ok (OClauses [CField [] [] (FKnown (s2b "url unescape is failed, err: invalid URL escape """ ++ bad ++ [DQ]))])
    | inl dec =>
      let query := match index QMARK dec with Some i => skipn (i + 1) dec | None => [] end in
      match query with
      | [] => Ok ONil
      | _ => b <- url_params c rules (split query AMP) empty_buf ;; Ok (get_error b)
      end
    end
  | Some (VNilPtr _) => Ok (OErrText (s2b "src is nil"))    (* nil *string, after the repair *)
  | Some _ => Ok (OErrText (s2b "src must is string/*string"))
  end.
