(* GoRule.v — a semantics for the MiniGo syntax trees of the size rule functions To, OTo, Ge, Gt, Le, Lt, Eq and NoEq
   (valid/validfn.go), regenerated from /repo on every run.  These functions are glue: they call the parser, the
   bound reader, the size comparison and the message formatter and decide what is written to the error buffer.  A call
   is given the meaning of the callee's model — each of which has its own theorem from the source text:
     ParseValidNameKV   parse_kv             (C14_parser_from_source)
     validInputSize     valid_input_size     (C01_size_from_source), the unit text left abstract (unit_of)
     eq                 eq_holds on fst (atoi value), value and message of the rule text   (C01_eq_from_source)
     GetJoinValidErrStr join_valid_err       (C15_formatter_from_source)
     ToStr              to_str / itoa        (C05_tostr_from_source)
   and of the hand model for strconv.Atoi (atoi), parseTagTo (parse_tag_to) and GetJoinFieldErr (its text left
   abstract: field_err).  What is given a meaning (anything else is RBad and the run is stuck):
     identifiers, true false nil ExplainEn, string literals, != on strings and on an error against nil, !e
     a, b, c := f(args) with _ ignored     if / else     errBuf.WriteString(e)     return     tv.Interface() *)
From Coq Require Import String.
From PGV Require Import Base.Bytes Base.GoStr Base.GoNum Base.Utf8 Base.MiniGo.
From PGV Require Import Extracted.SourceConst Model.RuleText Model.Value Model.Clause Model.Rules.
Open Scope Z_scope.

Inductive rv := RS (s : str) | RZ (z : Z) | RB (b : bool) | RErr (e : option ftext) | RVal (v : val) | RBad.
Definition renv := string -> rv.
Definition rset (x : string) (v : rv) (e : renv) : renv := fun y => if String.eqb y x then v else e y.
Definition rempty : renv := fun y => if String.eqb y "ExplainEn" then RS ExplainEn else RBad.

Section Sem.
  Variable unit_of : val -> str.           (* the unit text validInputSize / eq hand back ("length", "size", ...) *)
  Variable field_err : str -> str -> ftext -> str.     (* GetJoinFieldErr(obj, field, err) *)

  Fixpoint strs (l : list rv) : option (list str) :=
    match l with
    | [] => Some []
    | RS s :: r => match strs r with Some t => Some (s :: t) | None => None end
    | _ => None
    end.

  Fixpoint reval (e : renv) (x : expr) {struct x} : rv :=
    match x with
    | EId n => if String.eqb n "true" then RB true else if String.eqb n "false" then RB false
               else if String.eqb n "nil" then RErr None else e n
    | EStr s => RS s
    | ELit z => RZ z
    | EUn op a => if String.eqb op "!" then match reval e a with RB b => RB (negb b) | _ => RBad end else RBad
    | EBin op a b =>
      if String.eqb op "!=" then
        match reval e a, reval e b with
        | RS x, RS y => RB (negb (str_eqb x y))
        | RErr x, RErr None => RB (match x with Some _ => true | None => false end)
        | _, _ => RBad
        end
      else RBad
    | ECall (ESel (EId t) m) [] =>
      if String.eqb m "Interface" then match e t with RVal v => RVal v | _ => RBad end else RBad
    | ECall (EId f) args =>
      let vs := (fix evs (l : list expr) : list rv := match l with [] => [] | a :: r => reval e a :: evs r end) args in
      if String.eqb f "GetJoinValidErrStr" then
        match strs vs with
        | Some (obj :: field :: echo :: others) => RS (join_valid_err obj field echo others)
        | _ => RBad
        end
      else if String.eqb f "GetJoinFieldErr" then
        match vs with
        | [RS obj; RS field; RErr (Some t)] => RS (field_err obj field t)
        | _ => RBad
        end
      else if String.eqb f "ToStr" then
        match vs with
        | [RZ z] => RS (itoa z)
        | [RVal v] => RS (to_str v)
        | _ => RBad
        end
      else RBad
    | _ => RBad
    end.

  (* the calls with several results *)
  Definition rcall (e : renv) (f : string) (args : list rv) : option (list rv) :=
    if String.eqb f "ParseValidNameKV" then
      match args with
      | [RS vn] => Some [RS (pk_key vn); RS (pk_val vn); RS (pk_msg vn)]
      | _ => None
      end
    else if String.eqb f "parseTagTo" then
      match args with
      | [RS tv; RB he] =>
        match parse_tag_to tv (if he then s2b "to" else s2b "oto") with
        | inl (mn, mx) => Some [RZ mn; RZ mx; RErr None]
        | inr t => Some [RBad; RBad; RErr (Some t)]      (* the bounds are not to be used *)
        end
      | _ => None
      end
    else if String.eqb f "validInputSize" then
      match args with
      | [RZ mn; RZ mx; RVal v] =>
        let '(lt, gt, vs) := valid_input_size mn mx v true in Some [RB lt; RB gt; RS vs; RS (unit_of v)]
      | [RZ mn; RZ mx; RVal v; RB he] =>
        let '(lt, gt, vs) := valid_input_size mn mx v he in Some [RB lt; RB gt; RS vs; RS (unit_of v)]
      | _ => None
      end
    else if String.eqb f "eq" then
      match args with
      | [RS vn; RVal v] => Some [RS (pk_val vn); RS (unit_of v); RS (pk_msg vn); RB (eq_holds (fst (atoi (pk_val vn))) v)]
      | _ => None
      end
    else None.

  Fixpoint bind (lhs : list expr) (vs : list rv) (e : renv) : option renv :=
    match lhs, vs with
    | [], [] => Some e
    | EId x :: l, v :: r => bind l r (if String.eqb x "_" then e else rset x v e)
    | _, _ => None
    end.

  Inductive rflow := RNext (e : renv) | RRet (e : renv) | RStuck.

  Fixpoint rexec (s : stmt) (e : renv) {struct s} : rflow :=
    let run := fix run (l : list stmt) (e : renv) {struct l} : rflow :=
      match l with
      | [] => RNext e
      | x :: r => match rexec x e with RNext e1 => run r e1 | other => other end
      end in
    match s with
    | SAssign true lhs [ECall (ESel (EId pkg) f) [a]] =>          (* n, _ := strconv.Atoi(s) *)
      if String.eqb pkg "strconv" && String.eqb f "Atoi" then
        match reval e a with
        | RS x => match bind lhs [RZ (fst (atoi x)); RErr (if snd (atoi x) then Some FAtoi else None)] e with
                  | Some e1 => RNext e1
                  | None => RStuck
                  end
        | _ => RStuck
        end
      else RStuck
    | SAssign true lhs [ECall (EId f) args] =>
      let vs := (fix evs (l : list expr) : list rv := match l with [] => [] | a :: r => reval e a :: evs r end) args in
      match rcall e f vs with
      | Some rs => match bind lhs rs e with Some e1 => RNext e1 | None => RStuck end
      | None => RStuck
      end
    | SIf [] c th el =>
      match reval e c with
      | RB true => run th e
      | RB false => run el e
      | _ => RStuck
      end
    | SExpr (ECall (ESel (EId b) m) [a]) =>
      if String.eqb m "WriteString" then
        match e b, reval e a with
        | RS acc, RS x => RNext (rset b (RS (acc ++ x)) e)
        | _, _ => RStuck
        end
      else RStuck
    | SReturn [] => RRet e
    | _ => RStuck
    end.

  Fixpoint rexec_list (l : list stmt) (e : renv) : rflow :=
    match l with
    | [] => RNext e
    | x :: r => match rexec x e with RNext e1 => rexec_list r e1 | other => other end
    end.

  (* fn(errBuf, validName, objName, fieldName, tv): what has been written to the (empty) buffer at the end *)
  Definition run_rule (f : fn) (vn obj field : str) (v : val) : option str :=
    let e0 := rset "errBuf" (RS []) (rset "validName" (RS vn) (rset "objName" (RS obj) (rset "fieldName" (RS field)
              (rset "tv" (RVal v) rempty)))) in
    match rexec_list (fn_body f) e0 with
    | RNext e | RRet e => match e "errBuf"%string with RS s => Some s | _ => None end
    | RStuck => None
    end.
End Sem.
