(* GoRule.v — a semantics for the MiniGo syntax trees of the size rule functions To, OTo, Ge, Gt, Le, Lt, Eq and NoEq
   (valid/validfn.go), regenerated from /repo on every run.  These functions are glue: they call the parser, the
   bound reader, the size comparison and the message formatter and decide what is written to the error buffer.  A call
   is given the meaning of the callee's model — each of which has its own theorem from the source text:
     ParseValidNameKV   parse_kv             (C14_parser_from_source)
     validInputSize     valid_input_size     (C01_size_from_source), the unit text left abstract (unit_of)
     eq                 eq_holds on fst (atoi value), value and message of the rule text   (C01_eq_from_source)
     GetJoinValidErrStr join_valid_err       (C15_formatter_from_source)
     ToStr              to_str / itoa        (C05_tostr_from_source)
   and of the hand model for strconv.Atoi (atoi), parseTagTo (parse_tag_to) and GetJoinFieldErr (its text left
   abstract: field_err).  What is given a meaning (anything else is RBad and the run is stuck):
     identifiers, true false nil ExplainEn, string literals, != on strings and on an error against nil, !e
     a, b, c := f(args) with _ ignored     if / else     errBuf.WriteString(e)     return     tv.Interface()
   and, for the string rules Phone, Email, IDCard, Ip, Ipv4, Ipv6, Year, Year2Month, Date, Prefix, Suffix and for
   CheckFieldIsStr itself:
     x := e   x = e   if init; cond   == nil   && || (right operand only when needed)   + on strings   | on integers
     tv.String()  tv.Kind()  reflect.String  switch on a kind   err.Error()   fmt.Errorf(text) (a text without verbs)
     PhoneRe / EmailRe / IdCardRe .MatchString (the translated patterns, Brzozowski matcher)
     net.ParseIP, ip.To4(), time.Parse (oracle tables)   GetTimeFmt (get_time_fmt)   strings.Trim / HasPrefix / HasSuffix
   and, for Int, Float, Json, File, Dir:
     switch init; tag   len(s)  >  <<   IntRe / FloatRe   ReflectKindIsNum (on the kind's name)   json.Valid (oracle)
     internal.UnsafeStr2Bytes (the same bytes)   StrEscape (str_escape)   dir(path) (os.Stat oracle; error text abstract) *)
From Coq Require Import String.
From PGV Require Import Base.Bytes Base.GoStr Base.GoNum Base.Utf8 Base.MiniGo Regex.Re Regex.Rx Extracted.SourceRegex.
From PGV Require Import Extracted.SourceConst Model.RuleText Model.Value Model.Clause Model.Rules.
Open Scope Z_scope.

Inductive rv :=
| RS (s : str) | RZ (z : Z) | RB (b : bool) | RVal (v : val)
| RErr (e : option ftext)        (* nil, or one of parseTagTo's errors *)
| RErrS (text : str)             (* an error made by fmt.Errorf: its text *)
| RErrO                          (* some other non-nil error (time.Parse) *)
| RIp (ok is4 : bool)            (* net.ParseIP's result: nil or not, with a 4-byte form or not *)
| RKind (k : string)             (* a reflect.Kind, by name *)
| RBad.
Definition renv := string -> rv.
Definition rset (x : string) (v : rv) (e : renv) : renv := fun y => if String.eqb y x then v else e y.
Definition rempty : renv :=
  fun y => if String.eqb y "ExplainEn" then RS ExplainEn
           else if String.eqb y "YearFmt" then RZ YearFmt else if String.eqb y "MonthFmt" then RZ MonthFmt
           else if String.eqb y "DateFmt" then RZ DateFmt else if String.eqb y "DateTimeFmt" then RZ DateTimeFmt
           else RBad.

(* tv.String(): the text of a string, "<T Value>" otherwise;  tv.Kind(): only String is told apart *)
Definition width_name (w : width) : string :=
  match w with W8 => "8" | W16 => "16" | W32 => "32" | W64 => "64" | WInt => "" end%string.
Definition rkind (v : val) : string :=
  match v with
  | VInvalid => "Invalid" | VBool _ => "Bool" | VInt w _ => "Int" ++ width_name w | VUint w _ => "Uint" ++ width_name w
  | VFloat is32 _ _ _ => if is32 then "Float32" else "Float64" | VStr _ => "String"
  | VNilPtr _ | VPtr _ => "Ptr" | VSlice _ _ _ _ => "Slice" | VArray _ _ _ => "Array" | VMap _ _ _ _ => "Map"
  | VStruct _ _ | VTime _ => "Struct" | VIface _ => "Interface" | VOther _ => "Func"
  end%string.
(* ReflectKindIsNum(kind) (valid/common.go), on the name of the kind, floats not allowed *)
Definition kind_name_is_int (k : string) : bool :=
  existsb (String.eqb k) ["Int"; "Int8"; "Int16"; "Int32"; "Int64"; "Uint"; "Uint8"; "Uint16"; "Uint32"; "Uint64"]%string.
Definition MUST_STR : str := s2b "it must is string".
(* CheckFieldIsStr(obj, field, tv) (valid/common.go); fmt.Errorf is given a text without verbs *)
Definition check_str_err (obj field : str) (v : val) : rv :=
  match v with
  | VStr _ => RErr None
  | _ => RErrS (join_valid_err obj field (value_string v) [ExplainEn; MUST_STR])
  end.

Section Sem.
  Variable orc : oracles.                  (* net.ParseIP and time.Parse, as tables the harness fills *)
  Variable unit_of : val -> str.           (* the unit text validInputSize / eq hand back ("length", "size", ...) *)
  Variable field_err : str -> str -> ftext -> str.     (* GetJoinFieldErr(obj, field, err) *)
  Variable stat_text : str -> str.         (* the text of os.Stat's error for a path *)

  Fixpoint strs (l : list rv) : option (list str) :=
    match l with
    | [] => Some []
    | RS s :: r => match strs r with Some t => Some (s :: t) | None => None end
    | _ => None
    end.

  Fixpoint reval (e : renv) (x : expr) {struct x} : rv :=
    match x with
    | EId n => if String.eqb n "true" then RB true else if String.eqb n "false" then RB false
               else if String.eqb n "nil" then RErr None else e n
    | EStr s => RS s
    | ELit z => RZ z
    | EUn op a => if String.eqb op "!" then match reval e a with RB b => RB (negb b) | _ => RBad end else RBad
    | EBin op a b =>
      let ne := fun x y =>
        match x, y with
        | RS x, RS y => Some (negb (str_eqb x y))
        | RErr x, RErr None => Some (match x with Some _ => true | None => false end)
        | RErrS _, RErr None | RErrO, RErr None => Some true
        | RIp ok _, RErr None => Some ok
        | _, _ => None
        end in
      if String.eqb op "!=" then match ne (reval e a) (reval e b) with Some r => RB r | None => RBad end
      else if String.eqb op "==" then match ne (reval e a) (reval e b) with Some r => RB (negb r) | None => RBad end
      else if String.eqb op "&&" then
        match reval e a with RB false => RB false | RB true => match reval e b with RB y => RB y | _ => RBad end | _ => RBad end
      else if String.eqb op "||" then
        match reval e a with RB true => RB true | RB false => match reval e b with RB y => RB y | _ => RBad end | _ => RBad end
      else if String.eqb op "+" then match reval e a, reval e b with RS x, RS y => RS (x ++ y) | _, _ => RBad end
      else if String.eqb op "|" then match reval e a, reval e b with RZ x, RZ y => RZ (Z.lor x y) | _, _ => RBad end
      else if String.eqb op "<<" then match reval e a, reval e b with RZ x, RZ y => RZ (Z.shiftl x y) | _, _ => RBad end
      else if String.eqb op ">" then match reval e a, reval e b with RZ x, RZ y => RB (y <? x) | _, _ => RBad end
      else RBad
    | ESel (EId pkg) k => if String.eqb pkg "reflect" then RKind k else RBad
    | ECall (ESel (EId t) m) [] =>
      match e t with
      | RVal v =>
        if String.eqb m "Interface" then RVal v
        else if String.eqb m "String" then RS (value_string v)
        else if String.eqb m "Kind" then RKind (rkind v)
        else RBad
      | RErrS text => if String.eqb m "Error" then RS text else RBad
      | RIp ok is4 => if String.eqb m "To4" then RIp (ok && is4) is4 else RBad      (* To4 of a nil IP is nil *)
      | _ => RBad
      end
    | ECall (ESel (EId t) m) [a] =>
      if String.eqb m "MatchString" then
        match reval e a with
        | RS x => if String.eqb t "PhoneRe" then RB (match_string (pats PhoneRe) x)
                  else if String.eqb t "EmailRe" then RB (match_string (pats EmailRe) x)
                  else if String.eqb t "IdCardRe" then RB (match_string (pats IdCardRe) x)
                  else if String.eqb t "IntRe" then RB (match_string (pats IntRe) x)
                  else if String.eqb t "FloatRe" then RB (match_string (pats FloatRe) x)
                  else RBad
        | _ => RBad
        end
      else if String.eqb t "net" && String.eqb m "ParseIP" then
        match reval e a with RS x => RIp (fst (ip_lookup orc x)) (snd (ip_lookup orc x)) | _ => RBad end
      else if String.eqb t "fmt" && String.eqb m "Errorf" then
        match reval e a with RS x => RErrS x | _ => RBad end
      else if String.eqb t "json" && String.eqb m "Valid" then
        match reval e a with RS x => RB (json_ok orc x) | _ => RBad end
      else if String.eqb t "internal" && String.eqb m "UnsafeStr2Bytes" then      (* the same bytes *)
        match reval e a with RS x => RS x | _ => RBad end
      else RBad
    | ECall (ESel (EId t) m) [a; b] =>
      if String.eqb t "strings" then
        match reval e a, reval e b with
        | RS x, RS y =>
          if String.eqb m "Trim" then RS (trim y x)
          else if String.eqb m "HasPrefix" then RB (has_prefix x y)
          else if String.eqb m "HasSuffix" then RB (has_suffix x y)
          else RBad
        | _, _ => RBad
        end
      else RBad
    | ECall (EId f) args =>
      let vs := (fix evs (l : list expr) : list rv := match l with [] => [] | a :: r => reval e a :: evs r end) args in
      if String.eqb f "GetJoinValidErrStr" then
        match strs vs with
        | Some (obj :: field :: echo :: others) => RS (join_valid_err obj field echo others)
        | _ => RBad
        end
      else if String.eqb f "GetJoinFieldErr" then
        match vs with
        | [RS obj; RS field; RErr (Some t)] => RS (field_err obj field t)
        | _ => RBad
        end
      else if String.eqb f "CheckFieldIsStr" then
        match vs with
        | [RS obj; RS field; RVal v] => check_str_err obj field v
        | _ => RBad
        end
      else if String.eqb f "len" then match vs with [RS x] => RZ (Z.of_nat (List.length x)) | _ => RBad end
      else if String.eqb f "StrEscape" then match vs with [RS x] => RS (str_escape x) | _ => RBad end
      else if String.eqb f "ReflectKindIsNum" then match vs with [RKind k] => RB (kind_name_is_int k) | _ => RBad end
      else if String.eqb f "GetTimeFmt" then
        match vs with
        | RZ mask :: splits => match strs splits with Some l => RS (get_time_fmt mask l) | None => RBad end
        | _ => RBad
        end
      else if String.eqb f "ToStr" then
        match vs with
        | [RZ z] => RS (itoa z)
        | [RVal v] => RS (to_str v)
        | _ => RBad
        end
      else RBad
    | _ => RBad
    end.

  (* the calls with several results *)
  Definition rcall (e : renv) (f : string) (args : list rv) : option (list rv) :=
    if String.eqb f "ParseValidNameKV" then
      match args with
      | [RS vn] => Some [RS (pk_key vn); RS (pk_val vn); RS (pk_msg vn)]
      | _ => None
      end
    else if String.eqb f "parseTagTo" then
      match args with
      | [RS tv; RB he] =>
        match parse_tag_to tv (if he then s2b "to" else s2b "oto") with
        | inl (mn, mx) => Some [RZ mn; RZ mx; RErr None]
        | inr t => Some [RBad; RBad; RErr (Some t)]      (* the bounds are not to be used *)
        end
      | _ => None
      end
    else if String.eqb f "validInputSize" then
      match args with
      | [RZ mn; RZ mx; RVal v] =>
        let '(lt, gt, vs) := valid_input_size mn mx v true in Some [RB lt; RB gt; RS vs; RS (unit_of v)]
      | [RZ mn; RZ mx; RVal v; RB he] =>
        let '(lt, gt, vs) := valid_input_size mn mx v he in Some [RB lt; RB gt; RS vs; RS (unit_of v)]
      | _ => None
      end
    else if String.eqb f "dir" then        (* dir(path): os.Stat through the oracle table *)
      match args with
      | [RS path] => match stat_lookup orc path with
                     | Some (is_dir, _) => Some [RB is_dir; RErr None]
                     | None => Some [RB false; RErrS (stat_text path)]
                     end
      | _ => None
      end
    else if String.eqb f "eq" then
      match args with
      | [RS vn; RVal v] => Some [RS (pk_val vn); RS (unit_of v); RS (pk_msg vn); RB (eq_holds (fst (atoi (pk_val vn))) v)]
      | _ => None
      end
    else None.

  Fixpoint bind (lhs : list expr) (vs : list rv) (e : renv) : option renv :=
    match lhs, vs with
    | [], [] => Some e
    | EId x :: l, v :: r => bind l r (if String.eqb x "_" then e else rset x v e)
    | _, _ => None
    end.

  Inductive rflow := RNext (e : renv) | RRet (e : renv) | RStuck.

  Fixpoint rexec (s : stmt) (e : renv) {struct s} : rflow :=
    let run := fix run (l : list stmt) (e : renv) {struct l} : rflow :=
      match l with
      | [] => RNext e
      | x :: r => match rexec x e with RNext e1 => run r e1 | other => other end
      end in
    match s with
    | SAssign _ [EId x] [rhs] => match reval e rhs with RBad => RStuck | v => RNext (rset x v e) end
    | SAssign true lhs [ECall (ESel (EId pkg) f) [a; b]] =>       (* _, err := time.Parse(layout, s) *)
      if String.eqb pkg "time" && String.eqb f "Parse" then
        match reval e a, reval e b with
        | RS layout, RS x => match bind lhs [RBad; if time_ok orc layout x then RErr None else RErrO] e with
                             | Some e1 => RNext e1
                             | None => RStuck
                             end
        | _, _ => RStuck
        end
      else RStuck
    | SAssign true lhs [ECall (ESel (EId pkg) f) [a]] =>          (* n, _ := strconv.Atoi(s) *)
      if String.eqb pkg "strconv" && String.eqb f "Atoi" then
        match reval e a with
        | RS x => match bind lhs [RZ (fst (atoi x)); RErr (if snd (atoi x) then Some FAtoi else None)] e with
                  | Some e1 => RNext e1
                  | None => RStuck
                  end
        | _ => RStuck
        end
      else RStuck
    | SAssign true lhs [ECall (EId f) args] =>
      let vs := (fix evs (l : list expr) : list rv := match l with [] => [] | a :: r => reval e a :: evs r end) args in
      match rcall e f vs with
      | Some rs => match bind lhs rs e with Some e1 => RNext e1 | None => RStuck end
      | None => RStuck
      end
    | SIf init c th el =>
      match run init e with
      | RNext e1 =>
        match reval e1 c with
        | RB true => run th e1
        | RB false => run el e1
        | _ => RStuck
        end
      | other => other
      end
    | SSwitch init (Some tag) cases =>        (* switch k := tv.Kind(); k { case reflect.String: ... default: ... } *)
      match run init e with
      | RNext e =>
      match reval e tag with
      | RKind k =>
        (fix pick (cs : list (list expr * list stmt)) : rflow :=
           match cs with
           | [] => (fix dflt (ds : list (list expr * list stmt)) : rflow :=
                      match ds with
                      | [] => RNext e
                      | ([], body) :: _ => run body e
                      | _ :: r => dflt r
                      end) cases
           | (vals, body) :: r =>
             (fix any (vs : list expr) : rflow :=
                match vs with
                | [] => pick r
                | v :: vr => match reval e v with
                             | RKind c => if String.eqb k c then run body e else any vr
                             | _ => RStuck
                             end
                end) vals
           end) cases
      | _ => RStuck
      end
      | other => other
      end
    | SExpr (ECall (ESel (EId b) m) [a]) =>
      if String.eqb m "WriteString" then
        match e b, reval e a with
        | RS acc, RS x => RNext (rset b (RS (acc ++ x)) e)
        | _, _ => RStuck
        end
      else RStuck
    | SReturn [] => RRet e
    | _ => RStuck
    end.

  Fixpoint rexec_list (l : list stmt) (e : renv) : rflow :=
    match l with
    | [] => RNext e
    | x :: r => match rexec x e with RNext e1 => rexec_list r e1 | other => other end
    end.

  (* fn(errBuf, validName, objName, fieldName, tv): what has been written to the (empty) buffer at the end *)
  Definition run_rule (f : fn) (vn obj field : str) (v : val) : option str :=
    let e0 := rset "errBuf" (RS []) (rset "validName" (RS vn) (rset "objName" (RS obj) (rset "fieldName" (RS field)
              (rset "tv" (RVal v) rempty)))) in
    match rexec_list (fn_body f) e0 with
    | RNext e | RRet e => match e "errBuf"%string with RS s => Some s | _ => None end
    | RStuck => None
    end.
End Sem.

(* CheckFieldIsStr(objName, fieldName, tv) (err error): the named result starts nil *)
Definition run_check_str (orc : oracles) (f : fn) (obj field : str) (v : val) : option rv :=
  let e0 := rset "err" (RErr None) (rset "objName" (RS obj) (rset "fieldName" (RS field) (rset "tv" (RVal v) rempty))) in
  match rexec_list orc (fun _ => []) (fun _ _ _ => []) (fun _ => []) (fn_body f) e0 with
  | RNext e | RRet e => Some (e "err"%string)
  | RStuck => None
  end.
