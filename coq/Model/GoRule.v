(* GoRule.v — a semantics for the MiniGo syntax trees of the size rule functions To, OTo, Ge, Gt, Le, Lt, Eq and NoEq
   (valid/validfn.go), regenerated from /repo on every run.  These functions are glue: they call the parser, the
   bound reader, the size comparison and the message formatter and decide what is written to the error buffer.  A call
   is given the meaning of the callee's model — each of which has its own theorem from the source text:
     ParseValidNameKV   parse_kv             (C14_parser_from_source)
     validInputSize     valid_input_size     (C01_size_from_source), the unit text left abstract (unit_of)
     eq                 eq_holds on fst (atoi value), value and message of the rule text   (C01_eq_from_source)
     GetJoinValidErrStr join_valid_err       (C15_formatter_from_source)
     ToStr              to_str / itoa        (C05_tostr_from_source)
   and of the hand model for strconv.Atoi (atoi), parseTagTo (parse_tag_to) and GetJoinFieldErr (its text left
   abstract: field_err).  What is given a meaning (anything else is RBad and the run is stuck):
     identifiers, true false nil ExplainEn, string literals, != on strings and on an error against nil, !e
     a, b, c := f(args) with _ ignored     if / else     errBuf.WriteString(e)     return     tv.Interface()
   and, for the string rules Phone, Email, IDCard, Ip, Ipv4, Ipv6, Year, Year2Month, Date, Prefix, Suffix and for
   CheckFieldIsStr itself:
     x := e   x = e   if init; cond   == nil   && || (right operand only when needed)   + on strings   | on integers
     tv.String()  tv.Kind()  reflect.String  switch on a kind   err.Error()   fmt.Errorf(text) (a text without verbs)
     PhoneRe / EmailRe / IdCardRe .MatchString (the translated patterns, Brzozowski matcher)
     net.ParseIP, ip.To4(), time.Parse (oracle tables)   GetTimeFmt (get_time_fmt)   strings.Trim / HasPrefix / HasSuffix
   and, for Int, Float, Json, File, Dir:
     switch init; tag   len(s)  >  <<   IntRe / FloatRe   ReflectKindIsNum (on the kind's name)   json.Valid (oracle)
     internal.UnsafeStr2Bytes (the same bytes)   StrEscape (str_escape)   dir(path) (os.Stat oracle; error text abstract)
   and, for In, Include and in:
     func(a, b string) bool { return e } (a value: a function from two strings to e's value)   f(x, y) on such a value
     var ( ... ) groups with zero values   s[i:j] with its run-time bound   strings.Index / LastIndex (one byte) / Contains
     == < + - on integers   for _, v := range ValidNamesSplit(s, '/') (names_split) with break
     in(errBuf, ...) called from In / Include means in_text
   and, for Ints:
     tv.Len()  tv.Index(i).Interface() (slices and arrays, with the run-time bound)   x += e on strings
     for i := 0; i < l; i++ { body } when the body assigns neither i nor l (a counted loop: l read once)
   and, for Re (bytes are a string here):
     for ; i < l; i++ { body } from the current i (same condition)   s[i] (a byte)   s[:j]  s[i:]   integer -
     make([]byte, 0, n)  append(bytes, byte)  string(bytes)   matched, _ := regexp.MatchString(pattern, s) (oracle) *)
From Coq Require Import String.
From PGV Require Import Base.Bytes Base.GoStr Base.GoNum Base.Utf8 Base.MiniGo Regex.Re Regex.Rx Extracted.SourceRegex.
From PGV Require Import Extracted.SourceConst Model.RuleText Model.Value Model.Clause Model.Rules.
Open Scope Z_scope.

Inductive rv :=
| RS (s : str) | RZ (z : Z) | RB (b : bool) | RVal (v : val)
| RErr (e : option ftext)        (* nil, or one of parseTagTo's errors *)
| RErrS (text : str)             (* an error made by fmt.Errorf: its text *)
| RErrO                          (* some other non-nil error (time.Parse) *)
| RIp (ok is4 : bool)            (* net.ParseIP's result: nil or not, with a 4-byte form or not *)
| RKind (k : string)             (* a reflect.Kind, by name *)
| RL (l : list str)              (* a slice of strings *)
| RLB (l : list bool)            (* a slice of booleans (a variadic ...bool) *)
| RSet (l : list str)            (* a map[string]struct{}: its keys, each once, in the order they were first added *)
| RFn (f : str -> str -> option bool)     (* a function literal func(a, b string) bool { return e }: None when e is stuck *)
| RBad.
Definition renv := string -> rv.
Definition rset (x : string) (v : rv) (e : renv) : renv := fun y => if String.eqb y x then v else e y.
Definition rempty : renv :=
  fun y => if String.eqb y "ExplainEn" then RS ExplainEn
           else if String.eqb y "YearFmt" then RZ YearFmt else if String.eqb y "MonthFmt" then RZ MonthFmt
           else if String.eqb y "DateFmt" then RZ DateFmt else if String.eqb y "DateTimeFmt" then RZ DateTimeFmt
           else if String.eqb y "toValErr" then RErr (Some (FRuleErr (s2b "to")))
           else if String.eqb y "otoValErr" then RErr (Some (FRuleErr (s2b "oto")))
           else if String.eqb y "intsErr" then RErr (Some (FRuleErr (s2b "ints")))
           else if String.eqb y "uniqueErr" then RErr (Some (FRuleErr (s2b "unique")))
           else if String.eqb y "reErr" then RErr (Some (FRuleErr (s2b "re")))
           else if String.eqb y "inValErr" then RErr (Some (FRuleErr (s2b "in")))
           else if String.eqb y "includeErr" then RErr (Some (FRuleErr (s2b "include")))
           else RBad.

Definition sadd (l : list str) (x : str) : list str := if existsb (str_eqb x) l then l else l ++ [x].

(* fmt.Sprintf with %s verbs only: each %s takes the next argument; any other verb, or a wrong number of arguments, is
   not given a meaning *)
Fixpoint sprintf_s (f : str) (args : list str) : option str :=
  match f with
  | [] => match args with [] => Some [] | _ => None end
  | 37%N :: 115%N :: r => match args with a :: rest => option_map (app a) (sprintf_s r rest) | [] => None end
  | 37%N :: _ => None
  | c :: r => option_map (cons c) (sprintf_s r args)
  end.
Fixpoint set_nth {X} (n : nat) (x : X) (l : list X) : list X :=
  match l, n with
  | [], _ => []
  | _ :: r, O => x :: r
  | a :: r, S m => a :: set_nth m x r
  end.

Definition rslice (s : str) (lo hi : Z) : rv :=
  if (0 <=? lo) && (lo <=? hi) && (hi <=? Z.of_nat (List.length s))
  then RS (firstn (Z.to_nat (hi - lo)) (skipn (Z.to_nat lo) s)) else RBad.     (* out of range: a run-time panic *)

(* the loop of in(): the first option the comparison accepts ends it *)
Fixpoint find_hit (g : str -> str -> option bool) (tv : str) (opts : list str) : option bool :=
  match opts with
  | [] => Some false
  | o :: r => match g tv (trim [QUOTE] o) with
              | Some true => Some true
              | Some false => find_hit g tv r
              | None => None
              end
  end.

(* tv.String(): the text of a string, "<T Value>" otherwise;  tv.Kind(): only String is told apart *)
Definition width_name (w : width) : string :=
  match w with W8 => "8" | W16 => "16" | W32 => "32" | W64 => "64" | WInt => "" end%string.
Definition rkind (v : val) : string :=
  match v with
  | VInvalid => "Invalid" | VBool _ => "Bool" | VInt w _ => "Int" ++ width_name w | VUint w _ => "Uint" ++ width_name w
  | VFloat is32 _ _ _ => if is32 then "Float32" else "Float64" | VStr _ => "String"
  | VNilPtr _ | VPtr _ => "Ptr" | VSlice _ _ _ _ => "Slice" | VArray _ _ _ => "Array" | VMap _ _ _ _ => "Map"
  | VStruct _ _ | VTime _ => "Struct" | VIface _ => "Interface" | VOther _ => "Func"
  end%string.
Definition kind_is (k c : string) : bool := String.eqb k c.      (* the comparison a switch on a kind makes *)
(* ReflectKindIsNum(kind) (valid/common.go), on the name of the kind, floats not allowed *)
Definition kind_name_is_float (k : string) : bool := String.eqb k "Float32" || String.eqb k "Float64".
Definition kind_name_is_int (k : string) : bool :=
  existsb (String.eqb k) ["Int"; "Int8"; "Int16"; "Int32"; "Int64"; "Uint"; "Uint8"; "Uint16"; "Uint32"; "Uint64"]%string.
Definition MUST_STR : str := s2b "it must is string".
(* CheckFieldIsStr(obj, field, tv) (valid/common.go); fmt.Errorf is given a text without verbs *)
Definition check_str_err (obj field : str) (v : val) : rv :=
  match v with
  | VStr _ => RErr None
  | _ => RErrS (join_valid_err obj field (value_string v) [ExplainEn; MUST_STR])
  end.

Inductive rflow := RNext (e : renv) | RBrk (e : renv) | RRet (e : renv) | RStuck.

(* for i, v := range l { body }: break ends the loop, return ends the function *)
Fixpoint range_brk (l : list str) (idx : Z) (body : Z -> str -> renv -> rflow) (e : renv) : rflow :=
  match l with
  | [] => RNext e
  | c :: r => match body idx c e with
              | RNext e1 => range_brk r (idx + 1) body e1
              | RBrk e1 => RNext e1
              | other => other
              end
  end.

(* for i := 0; i < l; i++ { body } where the body assigns neither i nor l: l iterations, i counting up; break ends it *)
Fixpoint counted_loop (n : nat) (k : Z) (i : string) (body : renv -> rflow) (e : renv) : rflow :=
  match n with
  | O => RNext (rset i (RZ k) e)
  | S m => match body (rset i (RZ k) e) with
           | RNext e1 => counted_loop m (k + 1) i body e1
           | RBrk e1 => RNext e1
           | other => other
           end
  end.

(* does a statement (list) assign the variable x?  (:=, =, op=, ++ / --, var, range variables) *)
Fixpoint assigns (x : string) (s : stmt) {struct s} : bool :=
  let any := fix any (l : list stmt) : bool := match l with [] => false | a :: r => assigns x a || any r end in
  let names := fix names (l : list expr) : bool :=
    match l with [] => false | EId y :: r => String.eqb y x || names r | _ :: r => names r end in
  match s with
  | SAssign _ lhs _ => names lhs
  | SOpAssign _ (EId y) _ => String.eqb y x
  | SIncDec _ (EId y) => String.eqb y x
  | SVar ns _ _ => existsb (String.eqb x) ns
  | SIf init _ th el => any init || any th || any el
  | SFor init _ post body => any init || any post || any body
  | SRange k v _ _ body =>
    (match k with Some y => String.eqb y x | None => false end) || (match v with Some y => String.eqb y x | None => false end) || any body
  | SBlock l => any l
  | SSwitch init _ cases => any init || (fix cs (l : list (list expr * list stmt)) : bool := match l with [] => false | (_, b) :: r => any b || cs r end) cases
  | STypeSwitch _ _ cases => (fix cs (l : list (list string * list stmt)) : bool := match l with [] => false | (_, b) :: r => any b || cs r end) cases
  | _ => false
  end.
Definition assigns_any (x : string) (l : list stmt) : bool := existsb (assigns x) l.

Section Sem.
  Variable orc : oracles.                  (* net.ParseIP and time.Parse, as tables the harness fills *)
  Variable unit_of : val -> str.           (* the unit text validInputSize / eq hand back ("length", "size", ...) *)
  Variable field_err : str -> str -> ftext -> str.     (* GetJoinFieldErr(obj, field, err) *)
  Variable stat_text : str -> str.         (* the text of os.Stat's error for a path *)

  Fixpoint strs (l : list rv) : option (list str) :=
    match l with
    | [] => Some []
    | RS s :: r => match strs r with Some t => Some (s :: t) | None => None end
    | _ => None
    end.

  Fixpoint reval (e : renv) (x : expr) {struct x} : rv :=
    match x with
    | EId n => if String.eqb n "true" then RB true else if String.eqb n "false" then RB false
               else if String.eqb n "nil" then RErr None else e n
    | EStr s => RS s
    | ELit z => RZ z
    | EUn op a => if String.eqb op "!" then match reval e a with RB b => RB (negb b) | _ => RBad end
                  else if String.eqb op "-" then match reval e a with RZ z => RZ (- z) | _ => RBad end
                  else if String.eqb op "..." then match reval e a with RL l => RL l | _ => RBad end     (* f(xs...) *)
                  else RBad
    | EIndex a i =>
      match reval e a, reval e i with
      | RS x, RZ z => if 0 <=? z then match nth_error x (Z.to_nat z) with Some c => RZ (Z.of_N c) | None => RBad end else RBad
      | RL l, RZ z => if 0 <=? z then match nth_error l (Z.to_nat z) with Some x => RS x | None => RBad end else RBad
      | RLB l, RZ z => if 0 <=? z then match nth_error l (Z.to_nat z) with Some x => RB x | None => RBad end else RBad
      | _, _ => RBad
      end
    | EFuncRet [a; b] ret =>
      RFn (fun x y => match reval (rset b (RS y) (rset a (RS x) e)) ret with RB r => Some r | _ => None end)
    | ESlice a (Some lo) (Some hi) =>
      match reval e a, reval e lo, reval e hi with RS x, RZ l, RZ h => rslice x l h | _, _, _ => RBad end
    | ESlice a None (Some hi) =>
      match reval e a, reval e hi with RS x, RZ h => rslice x 0 h | _, _ => RBad end
    | ESlice a (Some lo) None =>
      match reval e a, reval e lo with RS x, RZ l => rslice x l (Z.of_nat (List.length x)) | _, _ => RBad end
    | EBin op a b =>
      let ne := fun x y =>
        match x, y with
        | RS x, RS y => Some (negb (str_eqb x y))
        | RZ x, RZ y => Some (negb (x =? y))
        | RErr x, RErr None => Some (match x with Some _ => true | None => false end)
        | RErrS _, RErr None | RErrO, RErr None => Some true
        | RIp ok _, RErr None => Some ok
        | _, _ => None
        end in
      if String.eqb op "!=" then match ne (reval e a) (reval e b) with Some r => RB r | None => RBad end
      else if String.eqb op "==" then match ne (reval e a) (reval e b) with Some r => RB (negb r) | None => RBad end
      else if String.eqb op "&&" then
        match reval e a with RB false => RB false | RB true => match reval e b with RB y => RB y | _ => RBad end | _ => RBad end
      else if String.eqb op "||" then
        match reval e a with RB true => RB true | RB false => match reval e b with RB y => RB y | _ => RBad end | _ => RBad end
      else if String.eqb op "+" then
        match reval e a, reval e b with RS x, RS y => RS (x ++ y) | RZ x, RZ y => RZ (x + y) | _, _ => RBad end
      else if String.eqb op "<" then match reval e a, reval e b with RZ x, RZ y => RB (x <? y) | _, _ => RBad end
      else if String.eqb op "-" then match reval e a, reval e b with RZ x, RZ y => RZ (x - y) | _, _ => RBad end
      else if String.eqb op ">=" then match reval e a, reval e b with RZ x, RZ y => RB (y <=? x) | _, _ => RBad end
      else if String.eqb op "|" then match reval e a, reval e b with RZ x, RZ y => RZ (Z.lor x y) | _, _ => RBad end
      else if String.eqb op "<<" then match reval e a, reval e b with RZ x, RZ y => RZ (Z.shiftl x y) | _, _ => RBad end
      else if String.eqb op ">" then match reval e a, reval e b with RZ x, RZ y => RB (y <? x) | _, _ => RBad end
      else RBad
    | ESel (EId pkg) k => if String.eqb pkg "reflect" then RKind k else RBad
    | ECall (ESel (ECall (ESel (EId t) m1) [i]) m2) [] =>       (* tv.Index(i).Interface() *)
      if String.eqb m1 "Index" && String.eqb m2 "Interface" then
        match e t, reval e i with
        | RVal v, RZ z =>
          match v with
          | VSlice _ _ _ _ | VArray _ _ _ =>
            if 0 <=? z then match nth_error (elems_of v) (Z.to_nat z) with Some x => RVal x | None => RBad end else RBad
          | _ => RBad
          end
        | _, _ => RBad
        end
      else RBad
    | ECall (ESel (EId t) m) [] =>
      match e t with
      | RVal v =>
        if String.eqb m "Interface" then RVal v
        else if String.eqb m "Len" then
          match v with VSlice _ _ _ _ | VArray _ _ _ => RZ (Z.of_nat (List.length (elems_of v))) | _ => RBad end
        else if String.eqb m "String" then RS (value_string v)
        else if String.eqb m "Kind" then RKind (rkind v)
        else RBad
      | RErrS text => if String.eqb m "Error" then RS text else RBad
      | RIp ok is4 => if String.eqb m "To4" then RIp (ok && is4) is4 else RBad      (* To4 of a nil IP is nil *)
      | _ => RBad
      end
    | ECall (ESel (EId t) m) [a] =>
      if String.eqb m "MatchString" then
        match reval e a with
        | RS x => if String.eqb t "PhoneRe" then RB (match_string (pats PhoneRe) x)
                  else if String.eqb t "EmailRe" then RB (match_string (pats EmailRe) x)
                  else if String.eqb t "IdCardRe" then RB (match_string (pats IdCardRe) x)
                  else if String.eqb t "IntRe" then RB (match_string (pats IntRe) x)
                  else if String.eqb t "FloatRe" then RB (match_string (pats FloatRe) x)
                  else RBad
        | _ => RBad
        end
      else if String.eqb t "net" && String.eqb m "ParseIP" then
        match reval e a with RS x => RIp (fst (ip_lookup orc x)) (snd (ip_lookup orc x)) | _ => RBad end
      else if String.eqb t "fmt" && String.eqb m "Errorf" then
        match reval e a with RS x => RErrS x | _ => RBad end
      else if String.eqb t "json" && String.eqb m "Valid" then
        match reval e a with RS x => RB (json_ok orc x) | _ => RBad end
      else if String.eqb t "internal" && String.eqb m "UnsafeStr2Bytes" then      (* the same bytes *)
        match reval e a with RS x => RS x | _ => RBad end
      else RBad
    | ECall (ESel (EId t) m) [a; b] =>
      if String.eqb t "strings" then
        match reval e a, reval e b with
        | RS x, RS y =>
          if String.eqb m "Trim" then RS (trim y x)
          else if String.eqb m "Split" then match y with [] => RBad | _ => RL (split x y) end
          else if String.eqb m "Contains" then RB (contains x y)
          else if String.eqb m "Index" then
            match y with [c] => RZ (match index_byte c x with Some n => Z.of_nat n | None => -1 end) | _ => RBad end
          else if String.eqb m "LastIndex" then
            match y with [c] => RZ (match last_index_byte c x with Some n => Z.of_nat n | None => -1 end) | _ => RBad end
          else if String.eqb m "HasPrefix" then RB (has_prefix x y)
          else if String.eqb m "HasSuffix" then RB (has_suffix x y)
          else RBad
        | _, _ => RBad
        end
      else RBad
    | ECall (ESel (EId t) m) (a :: args) =>           (* fmt.Sprintf(format, args...) *)
      if String.eqb t "fmt" && String.eqb m "Sprintf" then
        let vs := (fix evs (l : list expr) : list rv := match l with [] => [] | x :: r => reval e x :: evs r end) args in
        match reval e a, strs vs with
        | RS f, Some l => match sprintf_s f l with Some r => RS r | None => RBad end
        | _, _ => RBad
        end
      else RBad
    | ECall (EId f) args =>
      let vs := (fix evs (l : list expr) : list rv := match l with [] => [] | a :: r => reval e a :: evs r end) args in
      match e f with
      | RFn g => match vs with [RS x; RS y] => match g x y with Some r => RB r | None => RBad end | _ => RBad end
      | _ =>
      if String.eqb f "ValidNamesSplit" then       (* with a one-byte ASCII separator *)
        match vs with [RS x; RZ c] => if (0 <=? c) && (c <? 128) then RL (names_split (Z.to_N c) x) else RBad | _ => RBad end
      else if String.eqb f "GetJoinValidErrStr" then
        match strs vs with
        | Some (obj :: field :: echo :: others) => RS (join_valid_err obj field echo others)
        | _ => RBad
        end
      else if String.eqb f "GetJoinFieldErr" then
        match vs with
        | [RS obj; RS field; RErr (Some t)] => RS (field_err obj field t)
        | _ => RBad
        end
      else if String.eqb f "CheckFieldIsStr" then
        match vs with
        | [RS obj; RS field; RVal v] => check_str_err obj field v
        | _ => RBad
        end
      else if String.eqb f "len" then
        match vs with
        | [RS x] => RZ (Z.of_nat (List.length x)) | [RL x] => RZ (Z.of_nat (List.length x)) | [RLB x] => RZ (Z.of_nat (List.length x))
        | [RSet x] => RZ (Z.of_nat (List.length x))
        | _ => RBad
        end
      else if String.eqb f "[]string{...}" then match strs vs with Some l => RL l | None => RBad end
      else if String.eqb f "make" then        (* make(map[string]struct{}, n): an empty set; n is a capacity *)
        match args with
        | [EId ty; _] => if String.eqb ty "map[string]struct{}" then RSet [] else RBad
        | [EId ty; ELit 0; _] => if String.eqb ty "[]byte" then RS [] else RBad      (* make([]byte, 0, n): no bytes yet *)
        | _ => RBad
        end
      else if String.eqb f "append" then       (* append(bytes, byte) *)
        match vs with
        | [RS x; RZ c] => if (0 <=? c) && (c <? 256) then RS (x ++ [Z.to_N c]) else RBad
        | _ => RBad
        end
      else if String.eqb f "string" then match vs with [RS x] => RS x | _ => RBad end      (* string(bytes) *)
      else if String.eqb f "StrEscape" then match vs with [RS x] => RS (str_escape x) | _ => RBad end
      else if String.eqb f "ReflectKindIsNum" then match vs with [RKind k] => RB (kind_name_is_int k) | _ => RBad end
      else if String.eqb f "GetTimeFmt" then
        match vs with
        | [RZ mask; RL l] => RS (get_time_fmt mask l)             (* GetTimeFmt(mask, splits...) *)
        | RZ mask :: splits => match strs splits with Some l => RS (get_time_fmt mask l) | None => RBad end
        | _ => RBad
        end
      else if String.eqb f "ToStr" then
        match vs with
        | [RZ z] => RS (itoa z)
        | [RVal v] => RS (to_str v)
        | _ => RBad
        end
      else RBad
      end
    | _ => RBad
    end.

  (* the calls with several results *)
  Definition rcall (e : renv) (f : string) (args : list rv) : option (list rv) :=
    if String.eqb f "ParseValidNameKV" then
      match args with
      | [RS vn] => Some [RS (pk_key vn); RS (pk_val vn); RS (pk_msg vn)]
      | _ => None
      end
    else if String.eqb f "parseTagTo" then
      match args with
      | [RS tv; RB he] =>
        match parse_tag_to tv (if he then s2b "to" else s2b "oto") with
        | inl (mn, mx) => Some [RZ mn; RZ mx; RErr None]
        | inr t => Some [RBad; RBad; RErr (Some t)]      (* the bounds are not to be used *)
        end
      | _ => None
      end
    else if String.eqb f "validInputSize" then
      match args with
      | [RZ mn; RZ mx; RVal v] =>
        let '(lt, gt, vs) := valid_input_size mn mx v true in Some [RB lt; RB gt; RS vs; RS (unit_of v)]
      | [RZ mn; RZ mx; RVal v; RB he] =>
        let '(lt, gt, vs) := valid_input_size mn mx v he in Some [RB lt; RB gt; RS vs; RS (unit_of v)]
      | _ => None
      end
    else if String.eqb f "dir" then        (* dir(path): os.Stat through the oracle table *)
      match args with
      | [RS path] => match stat_lookup orc path with
                     | Some (is_dir, _) => Some [RB is_dir; RErr None]
                     | None => Some [RB false; RErrS (stat_text path)]
                     end
      | _ => None
      end
    else if String.eqb f "eq" then
      match args with
      | [RS vn; RVal v] => Some [RS (pk_val vn); RS (unit_of v); RS (pk_msg vn); RB (eq_holds (fst (atoi (pk_val vn))) v)]
      | _ => None
      end
    else None.

  (* in(errBuf, validName, objName, fieldName, tv, fn) (valid/validfn.go): what it appends to the buffer; its own body is
     tied to this text by Proofs/GoInProofs.v, for every comparison function fn *)
  Definition in_text (g : str -> str -> option bool) (vn obj field : str) (v : val) : option str :=
    let key := pk_key vn in
    let err := field_err obj field (FRuleErr (if str_eqb key (s2b "include") then s2b "include" else s2b "in")) in
    match in_vals (pk_val vn) with
    | None => Some err
    | Some iv =>
      match (match v with VStr x => Some x | _ => if str_eqb key (s2b "include") then None else Some (to_str v) end) with
      | None => Some err
      | Some t =>
        match find_hit g t (names_split SLASH iv) with
        | None => None
        | Some true => Some []
        | Some false =>
          Some (match pk_msg vn with
                | [] => join_valid_err obj field t [ExplainEn; s2b "it should " ++ key ++ s2b " (" ++ iv ++ s2b ")"]
                | cus => join_valid_err obj field t [cus]
                end)
        end
      end
    end.

  Fixpoint bind (lhs : list expr) (vs : list rv) (e : renv) : option renv :=
    match lhs, vs with
    | [], [] => Some e
    | EId x :: l, v :: r => bind l r (if String.eqb x "_" then e else rset x v e)
    | _, _ => None
    end.


  Fixpoint rexec (s : stmt) (e : renv) {struct s} : rflow :=
    let run := fix run (l : list stmt) (e : renv) {struct l} : rflow :=
      match l with
      | [] => RNext e
      | x :: r => match rexec x e with RNext e1 => run r e1 | other => other end
      end in
    match s with
    | SAssign _ [EId x] [rhs] => match reval e rhs with RBad => RStuck | v => RNext (rset x v e) end
    | SAssign true lhs [ECall (ESel (EId pkg) f) [a; b]] =>       (* _, err := time.Parse(layout, s) *)
      if String.eqb pkg "regexp" && String.eqb f "MatchString" then      (* matched, _ := regexp.MatchString(pattern, s): oracle *)
        match reval e a, reval e b with
        | RS pat, RS x => match bind lhs [RB (re_ok orc pat x); RBad] e with
                          | Some e1 => RNext e1
                          | None => RStuck
                          end
        | _, _ => RStuck
        end
      else if String.eqb pkg "time" && String.eqb f "Parse" then
        match reval e a, reval e b with
        | RS layout, RS x => match bind lhs [RBad; if time_ok orc layout x then RErr None else RErrO] e with
                             | Some e1 => RNext e1
                             | None => RStuck
                             end
        | _, _ => RStuck
        end
      else RStuck
    | SAssign _ lhs [ECall (ESel (EId pkg) f) [a]] =>             (* n, _ := strconv.Atoi(s)   n, err = strconv.Atoi(s) *)
      if String.eqb pkg "strconv" && String.eqb f "Atoi" then
        match reval e a with
        | RS x => match bind lhs [RZ (fst (atoi x)); RErr (if snd (atoi x) then Some FAtoi else None)] e with
                  | Some e1 => RNext e1
                  | None => RStuck
                  end
        | _ => RStuck
        end
      else RStuck
    | SAssign true lhs [ECall (EId f) args] =>
      let vs := (fix evs (l : list expr) : list rv := match l with [] => [] | a :: r => reval e a :: evs r end) args in
      match rcall e f vs with
      | Some rs => match bind lhs rs e with Some e1 => RNext e1 | None => RStuck end
      | None => RStuck
      end
    | SIf init c th el =>
      match run init e with
      | RNext e1 =>
        match reval e1 c with
        | RB true => run th e1
        | RB false => run el e1
        | _ => RStuck
        end
      | other => other
      end
    | SSwitch init (Some tag) cases =>        (* switch k := tv.Kind(); k { case reflect.String: ... default: ... } *)
      match run init e with
      | RNext e =>
      match reval e tag with
      | RKind k =>
        (fix pick (cs : list (list expr * list stmt)) : rflow :=
           match cs with
           | [] => (fix dflt (ds : list (list expr * list stmt)) : rflow :=
                      match ds with
                      | [] => RNext e
                      | ([], body) :: _ => run body e
                      | _ :: r => dflt r
                      end) cases
           | (vals, body) :: r =>
             (fix any (vs : list expr) : rflow :=
                match vs with
                | [] => pick r
                | v :: vr => match reval e v with
                             | RKind c => if kind_is k c then run body e else any vr
                             | _ => RStuck
                             end
                end) vals
           end) cases
      | _ => RStuck
      end
      | other => other
      end
    | SExpr (ECall (ESel (EId b) m) [a]) =>
      if String.eqb m "WriteString" then
        match e b, reval e a with
        | RS acc, RS x => RNext (rset b (RS (acc ++ x)) e)
        | _, _ => RStuck
        end
      else RStuck
    | SOpAssign op (EId x) rhs =>
      if String.eqb op "+" then
        match e x, reval e rhs with RS a, RS b => RNext (rset x (RS (a ++ b)) e) | _, _ => RStuck end
      else RStuck
    | SFor [SAssign true [EId i] [ELit 0]] (Some (EBin op (EId i1) (EId l))) [SIncDec true (EId i2)] body =>
      if String.eqb op "<" && String.eqb i1 i && String.eqb i2 i && negb (assigns_any i body) && negb (assigns_any l body) then
        match e l with
        | RZ n => if 0 <=? n then counted_loop (Z.to_nat n) 0 i (run body) e else RStuck
        | _ => RStuck
        end
      else RStuck
    | SFor [] (Some (EBin op (EId i1) (EId l))) [SIncDec true (EId i2)] body =>      (* for ; i < l; i++ : from the current i *)
      if String.eqb op "<" && String.eqb i2 i1 && negb (assigns_any i1 body) && negb (assigns_any l body) then
        match e i1, e l with
        | RZ i0, RZ n => if i0 <=? n then counted_loop (Z.to_nat (n - i0)) i0 i1 (run body) e else RStuck
        | _, _ => RStuck
        end
      else RStuck
    | SReturn [] => RRet e
    | SBreak => RBrk e
    | SBlock l => run l e           (* a var ( ... ) group: its names stay in scope *)
    | SVar [x] ty [] =>
      if String.eqb ty "bool" then RNext (rset x (RB false) e)
      else if String.eqb ty "string" then RNext (rset x (RS []) e)
      else if String.eqb ty "map[string]struct{}" then RNext (rset x (RSet []) e) else RStuck
    | SAssign false [EIndex (EId m) k] [EId lit] =>          (* m[k] = struct{}{} on a set;  a[i] = x on a slice of strings *)
      match e m, reval e k with
      | RSet l, RS x => if String.eqb lit "struct{}{}" then RNext (rset m (RSet (sadd l x)) e) else RStuck
      | RL l, RZ z =>
        match e lit with
        | RS x => if (0 <=? z) && (z <? Z.of_nat (List.length l)) then RNext (rset m (RL (set_nth (Z.to_nat z) x l)) e) else RStuck
        | _ => RStuck
        end
      | _, _ => RStuck
      end
    | SVar [x] _ [rhs] => match reval e rhs with RBad => RStuck | v => RNext (rset x v e) end
    | SRange (Some i) (Some v) _ coll body =>
      match reval e coll with
      | RL l => range_brk l 0 (fun idx c e' => run body (rset v (RS c) (rset i (RZ idx) e'))) e
      | _ => RStuck
      end
    | SExpr (ECall (EId f) [EId b; a1; a2; a3; a4; a5]) =>       (* in(errBuf, validName, objName, fieldName, tv, fn) *)
      if String.eqb f "in" then
        match e b, reval e a1, reval e a2, reval e a3, reval e a4, reval e a5 with
        | RS acc, RS vn, RS obj, RS field, RVal v, RFn g =>
          match in_text g vn obj field v with Some t => RNext (rset b (RS (acc ++ t)) e) | None => RStuck end
        | _, _, _, _, _, _ => RStuck
        end
      else RStuck
    | _ => RStuck
    end.

  Fixpoint rexec_list (l : list stmt) (e : renv) : rflow :=
    match l with
    | [] => RNext e
    | x :: r => match rexec x e with RNext e1 => rexec_list r e1 | other => other end
    end.

  (* fn(errBuf, validName, objName, fieldName, tv): what has been written to the (empty) buffer at the end *)
  Definition run_rule (f : fn) (vn obj field : str) (v : val) : option str :=
    let e0 := rset "errBuf" (RS []) (rset "validName" (RS vn) (rset "objName" (RS obj) (rset "fieldName" (RS field)
              (rset "tv" (RVal v) rempty)))) in
    match rexec_list (fn_body f) e0 with
    | RNext e | RRet e => match e "errBuf"%string with RS s => Some s | _ => None end
    | _ => None
    end.

  (* in(...) itself, with an arbitrary comparison function *)
  Definition run_in (f : fn) (g : str -> str -> option bool) (vn obj field : str) (v : val) : option str :=
    let e0 := rset "errBuf" (RS []) (rset "validName" (RS vn) (rset "objName" (RS obj) (rset "fieldName" (RS field)
              (rset "tv" (RVal v) (rset "fn" (RFn g) rempty))))) in
    match rexec_list (fn_body f) e0 with
    | RNext e | RRet e => match e "errBuf"%string with RS s => Some s | _ => None end
    | _ => None
    end.
End Sem.

(* CheckFieldIsStr(objName, fieldName, tv) (err error): the named result starts nil *)
Definition run_check_str (orc : oracles) (f : fn) (obj field : str) (v : val) : option rv :=
  let e0 := rset "err" (RErr None) (rset "objName" (RS obj) (rset "fieldName" (RS field) (rset "tv" (RVal v) rempty))) in
  match rexec_list orc (fun _ => []) (fun _ _ _ => []) (fun _ => []) (fn_body f) e0 with
  | RNext e | RRet e => Some (e "err"%string)
  | _ => None
  end.

(* parseTagTo(toVal, isHasEqual) (min, max int, err error): the named results start at 0, 0, nil *)
Definition run_parse_to (f : fn) (to_val : str) (he : bool) : option ((Z * Z) + ftext) :=
  let e0 := rset "toVal" (RS to_val) (rset "isHasEqual" (RB he) (rset "min" (RZ 0) (rset "max" (RZ 0) (rset "err" (RErr None) rempty)))) in
  match rexec_list no_oracles (fun _ => []) (fun _ _ _ => []) (fun _ => []) (fn_body f) e0 with
  | RNext e | RRet e =>
    match e "min"%string, e "max"%string, e "err"%string with
    | RZ mn, RZ mx, RErr None => Some (inl (mn, mx))
    | _, _, RErr (Some t) => Some (inr t)
    | _, _, _ => None
    end
  | _ => None
  end.

(* ReflectKindIsNum(kind, isCanFloat...) (is bool), on the name of the kind *)
Definition run_kind_is_num (f : fn) (k : string) (flags : list bool) : option bool :=
  let e0 := rset "kind" (RKind k) (rset "isCanFloat" (RLB flags) (rset "is" (RB false) rempty)) in
  match rexec_list no_oracles (fun _ => []) (fun _ _ _ => []) (fun _ => []) (fn_body f) e0 with
  | RNext e | RRet e => match e "is"%string with RB b => Some b | _ => None end
  | _ => None
  end.
