(* GoSplit.v — a semantics for the MiniGo syntax tree of ValidNamesSplit (valid/common.go),
   regenerated from /repo on every run; Proofs/GoSplitProofs.v shows that running it on any text and
   any one-byte separator gives the model's names_split (fast path and quote-aware slow path, the
   for loop with its continue statements included).
   What is given a meaning (anything else is SBad / the run is stuck):
     identifiers, true / false / nil (an empty []string), integer, character and string literals, -e, !e
     byte(x)  len(x)  x[i] on a string and on the variadic []byte  string(b) of a byte (its UTF-8 encoding)
     string(t) of a []byte   strings.IndexByte  strings.Split   make([]byte,..)  make([]string,..)
     append(t, b)  append(list, s)  t[:0]   internal.NewStackByte / UnsafeBytes2Str
     stack.Append / Pop / IsEmpty / IsEqualLastVal (internal/stack.go as modelled in Model/RuleText.v) / deferred Reset
     == != < > on integers, == on strings, && || on booleans
     := = i++ if / else for (init; cond; post) continue return e
   internal.UnsafeBytes2Str(t) is read as string(t): the sharing of memory it creates is not visible here (C12). *)
From Coq Require Import String.
From PGV Require Import Base.Bytes Base.GoStr Base.Utf8 Base.MiniGo.
From PGV Require Import Extracted.SourceConst Model.RuleText.
Open Scope Z_scope.

Inductive sv :=
| SS (s : str)              (* a string or a []byte *)
| SZ (z : Z)                (* int, byte *)
| SB (b : bool)
| SL (l : list str)         (* []string *)
| SK (k : stack)            (* *stackByte *)
| SVar (l : list byte)      (* the variadic sep *)
| SBad.
Definition senv := string -> sv.
Definition sset (x : string) (v : sv) (e : senv) : senv := fun y => if String.eqb y x then v else e y.
Definition sempty : senv := fun _ => SBad.

Definition byte_string (b : Z) : str := if b <? 128 then [Z.to_N b] else encode1 (Z.to_N b).
Definition go_split (s sep : str) : list str := match sep with [c] => split1 c [] s | _ => split s sep end.

Fixpoint seval (e : senv) (x : expr) {struct x} : sv :=
  match x with
  | EId n => if String.eqb n "true" then SB true else if String.eqb n "false" then SB false
             else if String.eqb n "nil" then SL [] else e n
  | ELit z => SZ z
  | EStr s => SS s
  | EUn op a =>
    if String.eqb op "-" then match seval e a with SZ z => SZ (- z) | _ => SBad end
    else if String.eqb op "!" then match seval e a with SB b => SB (negb b) | _ => SBad end
    else SBad
  | EIndex a i =>
    match seval e a, seval e i with
    | SS s, SZ z => if 0 <=? z then match nth_error s (Z.to_nat z) with Some c => SZ (Z.of_N c) | None => SBad end else SBad
    | SVar l, SZ z => if 0 <=? z then match nth_error l (Z.to_nat z) with Some c => SZ (Z.of_N c) | None => SBad end else SBad
    | _, _ => SBad
    end
  | ESlice a None (Some (ELit 0)) => match seval e a with SS _ => SS [] | _ => SBad end
  | ECall (EId f) [a] =>
    if String.eqb f "byte" then match seval e a with SZ z => SZ z | _ => SBad end
    else if String.eqb f "len" then
      match seval e a with SS s => SZ (Z.of_nat (List.length s)) | SVar l => SZ (Z.of_nat (List.length l)) | _ => SBad end
    else if String.eqb f "string" then
      match seval e a with SZ b => SS (byte_string b) | SS t => SS t | _ => SBad end
    else SBad
  | ECall (EId f) [a; b] =>
    if String.eqb f "append" then
      match seval e a, seval e b with
      | SS t, SZ v => if (0 <=? v) && (v <? 256) then SS (t ++ [Z.to_N v]) else SBad
      | SL l, SS x => SL (l ++ [x])
      | _, _ => SBad
      end
    else SBad
  | ECall (EId f) [EId ty; _; _] =>
    if String.eqb f "make" then
      if String.eqb ty "[]byte" then SS [] else if String.eqb ty "[]string" then SL [] else SBad
    else SBad
  | ECall (ESel (EId p) f) [a] =>
    if String.eqb p "internal" then
      if String.eqb f "NewStackByte" then SK []
      else if String.eqb f "UnsafeBytes2Str" then match seval e a with SS t => SS t | _ => SBad end
      else SBad
    else match e p with
         | SK k => if String.eqb f "IsEqualLastVal" then
                     match seval e a with SZ v => SB (N.eqb (st_last k) (Z.to_N v)) | _ => SBad end
                   else SBad
         | _ => SBad
         end
  | ECall (ESel (EId p) f) [] =>
    match e p with
    | SK k => if String.eqb f "IsEmpty" then SB (st_is_empty k) else SBad
    | _ => SBad
    end
  | ECall (ESel (EId p) f) [a; b] =>
    if String.eqb p "strings" then
      match seval e a, seval e b with
      | SS s, SZ c => if String.eqb f "IndexByte" then
                        SZ (match index_byte (Z.to_N c) s with Some n => Z.of_nat n | None => -1 end)
                      else SBad
      | SS s, SS sep => if String.eqb f "Split" then SL (go_split s sep) else SBad
      | _, _ => SBad
      end
    else SBad
  | EBin op a b =>
    match seval e a, seval e b with
    | SZ x, SZ y =>
      if String.eqb op "==" then SB (x =? y) else if String.eqb op "!=" then SB (negb (x =? y))
      else if String.eqb op "<" then SB (x <? y) else if String.eqb op ">" then SB (y <? x) else SBad
    | SS x, SS y => if String.eqb op "==" then SB (str_eqb x y) else SBad
    | SB x, SB y => if String.eqb op "&&" then SB (x && y) else if String.eqb op "||" then SB (x || y) else SBad
    | _, _ => SBad
    end
  | _ => SBad
  end.

Inductive sflow := FNext (e : senv) | FCont (e : senv) | FRet (v : sv) | FStuck.

(* for init; cond; post { body }: the loop itself, on a body already given a meaning *)
Fixpoint for_loop (fuel : nat) (cond : senv -> sv) (post body : senv -> sflow) (e : senv) : sflow :=
  match fuel with
  | O => FStuck
  | S f =>
    match cond e with
    | SB true =>
      match body e with
      | FNext e1 | FCont e1 => match post e1 with FNext e2 => for_loop f cond post body e2 | _ => FStuck end
      | other => other
      end
    | SB false => FNext e
    | _ => FStuck
    end
  end.

Section Exec.
  Variable fuel : nat.          (* bound on the iterations of one loop: the length of the text + 1 *)

  Fixpoint sexec (s : stmt) (e : senv) {struct s} : sflow :=
    let run := fix run (l : list stmt) (e : senv) {struct l} : sflow :=
      match l with
      | [] => FNext e
      | x :: r => match sexec x e with FNext e1 => run r e1 | other => other end
      end in
    match s with
    | SAssign _ [EId x] [rhs] => match seval e rhs with SBad => FStuck | v => FNext (sset x v e) end
    | SIncDec true (EId x) => match e x with SZ z => FNext (sset x (SZ (z + 1)) e) | _ => FStuck end
    | SIf [] c th el =>
      match seval e c with
      | SB true => run th e
      | SB false => run el e
      | _ => FStuck
      end
    | SExpr (ECall (ESel (EId p) f) args) =>
      match e p, args with
      | SK k, [a] => if String.eqb f "Append" then
                       match seval e a with SZ v => FNext (sset p (SK (st_append k (Z.to_N v))) e) | _ => FStuck end
                     else FStuck
      | SK k, [] => if String.eqb f "Pop" then FNext (sset p (SK (st_pop k)) e) else FStuck
      | _, _ => FStuck
      end
    | SDefer (ECall (ESel (EId p) f) []) =>
      match e p with SK _ => if String.eqb f "Reset" then FNext e else FStuck | _ => FStuck end
    | SFor init (Some c) post body =>
      match run init e with
      | FNext e0 => for_loop fuel (fun e => seval e c) (run post) (run body) e0
      | other => other
      end
    | SContinue => FCont e
    | SReturn [x] => match seval e x with SBad => FStuck | v => FRet v end
    | _ => FStuck
    end.

  Fixpoint sexec_list (l : list stmt) (e : senv) : sflow :=
    match l with
    | [] => FNext e
    | x :: r => match sexec x e with FNext e1 => sexec_list r e1 | other => other end
    end.
End Exec.

(* ValidNamesSplit(s, sep...) *)
Definition run_split (f : fn) (s : str) (seps : list byte) : option (list str) :=
  match sexec_list (S (List.length s)) (fn_body f) (sset "s" (SS s) (sset "sep" (SVar seps) sempty)) with
  | FRet (SL l) => Some l
  | _ => None
  end.
