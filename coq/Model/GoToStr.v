(* GoToStr.v — a semantics for the MiniGo syntax tree of ToStr (valid/common.go), the rendering every
   echo, every in / unique comparison and every numeric option goes through; regenerated from /repo
   on every run.  Proofs/GoToStrProofs.v shows that on every scalar it returns the model's to_str.
   What is given a meaning (anything else: TBad / stuck):
     src == nil            switch value := src.(type) with lists of type names and a default clause
     int(x) uint64(x) float64(x) int64(x)   on typed numbers (int64 of an unsigned number wraps at 2^63)
     strconv.Itoa / FormatInt(x, 10) / FormatUint(x, 10) / FormatBool
     strconv.FormatFloat(x, 'f', -1, 32 | 64): the decimal rendering carried by the value (an oracle: the
       harness prints strconv's own text for both precisions into every float)
     string(x) of a string      fmt.Sprintf("%v", x): the opaque echo of the model      return e *)
From Coq Require Import String.
From PGV Require Import Base.Bytes Base.GoStr Base.GoNum Base.Utf8 Base.MiniGo.
From PGV Require Import Model.Value.
Open Scope Z_scope.

(* a typed scalar on its way through conversions *)
Inductive tv :=
| TStr (s : str)
| TSigned (z : Z)                     (* int, int8..int64 *)
| TUnsigned (n : Z)                   (* uint, uint8..uint64 *)
| TFloat (repr32 : option str) (repr64 : str)   (* a float64 value: its text at precision 32 when it came from a float32 *)
| TBool (b : bool)
| TLit (z : Z)
| TOpaque                             (* a value of another kind *)
| TBad.

Definition width_name (signed : bool) (w : width) : string :=
  ((if signed then "int" else "uint") ++
   match w with W8 => "8" | W16 => "16" | W32 => "32" | W64 => "64" | WInt => "" end)%string.

(* the dynamic type name of a value, and the value as the switch binds it *)
Definition dyn (v : val) : string * tv :=
  match v with
  | VStr s => ("string", TStr s)
  | VInt w z => (width_name true w, TSigned z)
  | VUint w n => (width_name false w, TUnsigned n)
  | VFloat true _ r32 r64 => ("float32", TFloat (Some r32) r64)
  | VFloat false _ r _ => ("float64", TFloat None r)
  | VBool b => ("bool", TBool b)
  | _ => ("?", TOpaque)
  end%string.

Definition tenv := string -> tv.
Definition tset (x : string) (v : tv) (e : tenv) : tenv := fun y => if String.eqb y x then v else e y.

Definition two63 : Z := 9223372036854775808.

Fixpoint teval (e : tenv) (x : expr) {struct x} : tv :=
  match x with
  | EId n => e n
  | ELit z => TLit z
  | EStr s => TStr s
  | EUn op a => if String.eqb op "-" then match teval e a with TLit z => TLit (- z) | _ => TBad end else TBad
  | ECall (EId f) [a] =>
    let va := teval e a in
    if String.eqb f "int" then match va with TSigned z => TSigned z | _ => TBad end
    else if String.eqb f "int64" then
      match va with TSigned z => TSigned z | TUnsigned n => TSigned (if n <? two63 then n else n - 2 * two63) | _ => TBad end
    else if String.eqb f "uint64" then match va with TUnsigned n => TUnsigned n | _ => TBad end
    else if String.eqb f "float64" then match va with TFloat r32 r64 => TFloat r32 r64 | _ => TBad end
    else if String.eqb f "string" then match va with TStr s => TStr s | _ => TBad end
    else TBad
  | ECall (ESel (EId p) f) args =>
    if String.eqb p "strconv" then
      match map (teval e) args with
      | [TSigned z] => if String.eqb f "Itoa" then TStr (itoa z) else TBad
      | [TSigned z; TLit 10] => if String.eqb f "FormatInt" then TStr (itoa z) else TBad
      | [TUnsigned n; TLit 10] => if String.eqb f "FormatUint" then TStr (itoa n) else TBad
      | [TBool b] => if String.eqb f "FormatBool" then TStr (if b then s2b "true" else s2b "false") else TBad
      | [TFloat r32 r64; TLit 102; TLit (-1); TLit bits] =>
        if String.eqb f "FormatFloat" then
          if bits =? 64 then TStr r64
          else if bits =? 32 then match r32 with Some r => TStr r | None => TBad end
          else TBad
        else TBad
      | _ => TBad
      end
    else if String.eqb p "fmt" && String.eqb f "Sprintf" then
      match args with
      | [EStr [37%N; 118%N]; _] => TStr opaque_echo      (* "%v" *)
      | _ => TBad
      end
    else TBad
  | _ => TBad
  end.

Inductive tflow := TNext (e : tenv) | TRet (v : tv) | TStuck.

Fixpoint texec (tyname : string) (is_nil : bool) (s : stmt) (e : tenv) {struct s} : tflow :=
  let run := fix run (l : list stmt) (e : tenv) {struct l} : tflow :=
    match l with
    | [] => TNext e
    | x :: r => match texec tyname is_nil x e with TNext e1 => run r e1 | other => other end
    end in
  match s with
  | SIf [] (EBin op (EId x) (EId n)) th [] =>
    if String.eqb op "==" && String.eqb x "src" && String.eqb n "nil" then (if is_nil then run th e else TNext e) else TStuck
  | STypeSwitch (Some bind) (EId x) cases =>
    if String.eqb x "src" then
      (fix pick (cs : list (list string * list stmt)) : tflow :=
         match cs with
         | [] => (fix dflt (ds : list (list string * list stmt)) : tflow :=
                    match ds with
                    | [] => TNext e
                    | ([], body) :: _ => run body (tset bind (e "src"%string) e)
                    | _ :: r => dflt r
                    end) cases
         | (tys, body) :: r => if existsb (String.eqb tyname) tys then run body (tset bind (e "src"%string) e) else pick r
         end) cases
    else TStuck
  | SReturn [x] => match teval e x with TBad => TStuck | v => TRet v end
  | _ => TStuck
  end.

Fixpoint texec_list (tyname : string) (is_nil : bool) (l : list stmt) (e : tenv) : tflow :=
  match l with
  | [] => TNext e
  | x :: r => match texec tyname is_nil x e with TNext e1 => texec_list tyname is_nil r e1 | other => other end
  end.

(* ToStr(src) for src = the interface value holding v *)
Definition run_tostr (f : fn) (v : val) : option str :=
  let '(ty, x) := dyn v in
  match texec_list ty false (fn_body f) (tset "src" x (fun _ => TBad)) with
  | TRet (TStr s) => Some s
  | _ => None
  end.
