(* GoTimeFmt.v — a semantics for the MiniGo syntax tree of GetTimeFmt (valid/init.go), the layout builder behind the year /
   year2month / date / datetime rules.
   What is given a meaning (anything else is FBad and the run is stuck):
     identifiers, the mask constants YearFmt .. SecFmt, string and integer literals, len(xs) and xs[i] on the variadic
     strings (run-time bound), == on strings and integers, > & on integers, + on strings,
     := =, if, switch on an integer (no default: nothing), return e,
     f := func(a, b, c string) string { body } — a local function: a value, the Coq function its body computes — and f(x, y, z). *)
From Coq Require Import String.
From PGV Require Import Base.Bytes Base.GoStr Base.MiniGo Extracted.SourceConst.
Open Scope Z_scope.

Inductive fv := FS (s : str) | FZ (z : Z) | FB (b : bool) | FL (l : list str)
              | FFn (f : str -> str -> str -> option str) | FBad.
Definition fenv := string -> fv.
Definition fset (x : string) (v : fv) (e : fenv) : fenv := fun y => if String.eqb y x then v else e y.
Definition fempty : fenv :=
  fun y => if String.eqb y "YearFmt" then FZ YearFmt else if String.eqb y "MonthFmt" then FZ MonthFmt
           else if String.eqb y "DayFmt" then FZ DayFmt else if String.eqb y "HourFmt" then FZ HourFmt
           else if String.eqb y "MinFmt" then FZ MinFmt else if String.eqb y "SecFmt" then FZ SecFmt else FBad.

Fixpoint feval (e : fenv) (x : expr) {struct x} : fv :=
  match x with
  | EId n => e n
  | EStr s => FS s
  | ELit z => FZ z
  | EIndex a i =>
    match feval e a, feval e i with
    | FL l, FZ z => if 0 <=? z then match nth_error l (Z.to_nat z) with Some s => FS s | None => FBad end else FBad
    | _, _ => FBad
    end
  | EBin op a b =>
    match feval e a, feval e b with
    | FS x, FS y => if String.eqb op "==" then FB (str_eqb x y) else if String.eqb op "+" then FS (x ++ y) else FBad
    | FZ x, FZ y => if String.eqb op "==" then FB (x =? y) else if String.eqb op ">" then FB (y <? x)
                    else if String.eqb op "&" then FZ (Z.land x y) else FBad
    | _, _ => FBad
    end
  | ECall (EId f) [a] => if String.eqb f "len" then match feval e a with FL l => FZ (Z.of_nat (List.length l)) | _ => FBad end else FBad
  | ECall (EId f) [a; b; c] =>
    match e f, feval e a, feval e b, feval e c with
    | FFn g, FS x, FS y, FS z => match g x y z with Some r => FS r | None => FBad end
    | _, _, _, _ => FBad
    end
  | _ => FBad
  end.

Inductive fflow := FNext (e : fenv) | FRet (v : fv) | FStuck.

Fixpoint fexec (s : stmt) (e : fenv) {struct s} : fflow :=
  let run := fix run (l : list stmt) (e : fenv) {struct l} : fflow :=
    match l with
    | [] => FNext e
    | x :: r => match fexec x e with FNext e1 => run r e1 | other => other end
    end in
  match s with
  | SAssign _ [EId x] [rhs] => match feval e rhs with FBad => FStuck | v => FNext (fset x v e) end
  | SIf [] c th el =>
    match feval e c with
    | FB true => run th e
    | FB false => run el e
    | _ => FStuck
    end
  | SSwitch [] (Some tag) cases =>
    match feval e tag with
    | FZ t =>
      (fix pick (cs : list (list expr * list stmt)) : fflow :=
         match cs with
         | [] => FNext e
         | ([ELit c], body) :: r => if t =? c then run body e else pick r
         | _ => FStuck
         end) cases
    | _ => FStuck
    end
  | SFuncDef f [a; b; c] body =>
    FNext (fset f (FFn (fun x y z =>
             match run body (fset c (FS z) (fset b (FS y) (fset a (FS x) e))) with
             | FRet (FS r) => Some r
             | _ => None
             end)) e)
  | SReturn [x] => match feval e x with FBad => FStuck | v => FRet v end
  | _ => FStuck
  end.

Fixpoint fexec_list (l : list stmt) (e : fenv) : fflow :=
  match l with
  | [] => FNext e
  | x :: r => match fexec x e with FNext e1 => fexec_list r e1 | other => other end
  end.

(* GetTimeFmt(fmtType, splits...) *)
Definition run_timefmt (f : fn) (mask : Z) (splits : list str) : option str :=
  match fexec_list (fn_body f) (fset "fmtType" (FZ mask) (fset "splits" (FL splits) fempty)) with
  | FRet (FS s) => Some s
  | _ => None
  end.
