(* Dump.v — executable model of valid/dump.go (HandleDumpStruct, loopHandleKV, GetDumpStructStr),
   line by line.  Each call returns the text it appends to the shared buffer.  No proofs here.
   The branch  s.Name == "Time" && s.Type == timeReflectType  is modelled with the [ftime] flag of
   the field (the property itself excludes time.Time, see Spec/DumpSpec.v). *)
From PGV Require Import Base.Bytes Base.GoNum Model.DumpVal.
Open Scope N_scope.

(* common.go:135-141 *)
Definition is_exported (name : str) : bool :=
  match name with
  | [] => false
  | first :: _ => (65 <=? first) && (first <=? 90)
  end.

(* reflect.Indirect: one level, only for pointer kind; a nil pointer gives the zero Value *)
Definition indirect (v : val) : val :=
  match v with
  | VPtr x => x
  | VNilPtr => VInvalid
  | _ => v
  end.

Definition is_valid (v : val) : bool := match v with VInvalid => false | _ => true end.
Definition is_str_kind (v : val) : bool := match v with VStr _ => true | _ => false end.

Definition DQ : byte := 34.
Definition quoted (s : str) : str := DQ :: s ++ [DQ].
Definition TIME_NAME : str := s2b "Time".

Section Bodies.
  (* the two mutually recursive methods at smaller fuel *)
  Variable hds : val -> bool -> res str.                 (* HandleDumpStruct(v, isSlice) *)
  Variable lkv : str -> bool -> val -> bool -> res str.  (* loopHandleKV(s{Name, Type==time}, tv, isNeedFileName) *)

  (* dump.go:56-67  for i := 1; i < maxIndex; i++ *)
  Fixpoint fields_from1 (need_add_comma : bool) (fs : list (finfo * val)) : res str :=
    match fs with
    | [] => Ok []
    | (sf, fv) :: rest =>
      if negb (is_exported (fname sf)) then fields_from1 need_add_comma rest      (* continue *)
      else
        a <- lkv (fname sf) (ftime sf) fv true ;;
        b <- fields_from1 true rest ;;
        Ok ((if need_add_comma then [44] else []) ++ a ++ b)
    end.

  (* dump.go:25-70 *)
  Definition handle_body (v : val) (is_slice : bool) : res str :=
    let tv := indirect v in
    if negb (is_valid tv) then Ok (s2b "null")
    else
      match tv with
      | VStruct _ fs =>
        match fs with
        | [] => Ok [123; 125]                                      (* maxIndex == 0 *)
        | (sf0, fv0) :: rest =>
          first <- (if is_exported (fname sf0)
                    then a <- lkv (fname sf0) (ftime sf0) fv0 true ;; Ok (a, true)
                    else Ok ([], false)) ;;
          b <- fields_from1 (snd first) rest ;;
          Ok (123 :: fst first ++ b ++ [125])
        end
      | _ => if is_slice then lkv [] false tv false else Ok []     (* not a struct *)
      end.

  (* dump.go:118-127  for i := 0; i < sliceLen; i++ *)
  Fixpoint elems_from (slice_len : nat) (i : nat) (vs : list val) : res str :=
    match vs with
    | [] => Ok []
    | x :: rest =>
      a <- hds x true ;;
      b <- elems_from slice_len (S i) rest ;;
      Ok (a ++ (if (Z.of_nat i <? Z.of_nat slice_len - 1)%Z then [44] else []) ++ b)
    end.

  (* dump.go:128-150  for mapObj.Next() *)
  Fixpoint entries_from (map_len : nat) (tmp_index : nat) (es : list (val * val)) : res str :=
    match es with
    | [] => Ok []
    | (k, x) :: rest =>
      let is_str_key := is_str_kind k in
      kt <- lkv [] false k false ;;
      vt <- lkv [] false x false ;;
      b <- entries_from map_len (S tmp_index) rest ;;
      Ok ((if is_str_key then [] else [DQ]) ++ kt ++ (if is_str_key then [] else [DQ]) ++ 58 :: vt
          ++ (if (Z.of_nat tmp_index <? Z.of_nat map_len - 1)%Z then [44] else []) ++ b)
    end.

  (* dump.go:79-154 *)
  Definition kv_body (name : str) (type_is_time : bool) (tv : val) (need_field_name : bool) : res str :=
    let pre := if need_field_name then quoted name ++ [58] else [] in
    if str_eqb name TIME_NAME && type_is_time then Ok (pre ++ s2b """time is not handle""")
    else
      match tv with
      | VStr s => Ok (pre ++ quoted s)
      | VBool b => Ok (pre ++ quoted (if b then s2b "true" else s2b "false"))
      | VInt z => Ok (pre ++ itoa z)
      | VUint n => Ok (pre ++ utoa n)
      | VFloat _ repr => Ok (pre ++ repr)
      | VPtr _ | VNilPtr | VStruct _ _ | VIface _ =>
        a <- hds tv false ;; Ok (pre ++ a)
      | VSlice _ _ vs | VArray vs =>
        a <- elems_from (length vs) 0 vs ;; Ok (pre ++ 91 :: a ++ [93])
      | VMap _ es =>
        a <- entries_from (length es) 0 es ;; Ok (pre ++ 123 :: a ++ [125])
      | VOther | VInvalid => Ok (pre ++ s2b """unknown""")
      end.
End Bodies.

Fixpoint handle (fuel : nat) (v : val) (is_slice : bool) : res str :=
  match fuel with
  | O => OutOfFuel
  | S n => handle_body (loop_kv n) v is_slice
  end
with loop_kv (fuel : nat) (name : str) (type_is_time : bool) (tv : val) (need_field_name : bool) : res str :=
  match fuel with
  | O => OutOfFuel
  | S n => kv_body (handle n) (loop_kv n) name type_is_time tv need_field_name
  end.

(* GetDumpStructStr(v) = NewDumpStruct().HandleDumpStruct(reflect.ValueOf(v)).Get() *)
Definition dump (fuel : nat) (v : val) : res str := handle fuel v false.
