(* GoLRU.v — a semantics for the MiniGo syntax trees of the LRUCache methods of valid/cache.go
   (Store, Load, Delete, delete, Len), regenerated from /repo on every run (Extracted/SourceFns.v).
   Proofs/GoLRUProofs.v shows that running a method body on any state that satisfies the cache
   invariant gives exactly the step of the hand-written model (Model/LRU.v): the model of C09 is
   re-derived from the source text, not only compared with the code on generated histories.

   The data are those of Model/LRU.v: container/list is a list of (element id, value), the Go map an
   association list key -> element id.  What is given a meaning (anything else stops with FStuck):
     l.rwMu.Lock() / RLock() and the deferred unlocks        no effect here (lock discipline: Extracted/SourceLRU.v, C10)
     node, ok := l.nodeMap[key]      l.nodeMap[key] = e      delete(l.nodeMap, key)     len(l.nodeMap)
     l.nodeMap = make(...)           tmp := l.nodeMap        for k, v := range m { ... } with break
     l.list.PushFront(v)  MoveToFront(e)  Remove(e)  Back()  Len()        e.Value  (read and write)
     l.maxSize  l.delMapCount (read, write, ++)      l.deleteCallBackFn != nil      l.deleteCallBackFn(k, v)
     l.delete(e)                     var key interface{}     := = if/else return, > != == * on these values
   Go leaves the iteration order of a map unspecified; the association list is a representation whose
   order is not observable, and [range] visits it from its far end (so that re-inserting every
   entry into a fresh map rebuilds the same representation).  An element removed from the list
   keeps its Value (container/list does): removed elements are remembered in [dead]. *)
From Coq Require Import String.
From PGV Require Import Base.Bytes Base.MiniGo Spec.LRUSpec Model.LRU.
Open Scope Z_scope.

Inductive lv :=
| LElem (o : option id)              (* *list.Element, nil = None *)
| LKey (o : option K)                (* interface{} key, nil = None *)
| LVal (v : V)
| LB (b : bool)
| LZ (z : Z)
| LMap (m : list (K * id))
| LBad.

Definition lenv := string -> lv.
Definition lget (x : string) (e : lenv) : lv := e x.
Definition lset (x : string) (v : lv) (e : lenv) : lenv := fun y => if String.eqb y x then v else e y.
Definition lempty : lenv := fun _ => LBad.

Record ist := { cache : st; dead : list (id * V) }.

Definition elem_val (i : id) (s : ist) : option V :=
  match lst_val i (lst (cache s)) with Some v => Some v | None => lst_val i (dead s) end.

Definition with_cache (s : ist) (c : st) : ist := {| cache := c; dead := dead s |}.

Section Exec.
  Variable recv : string.                  (* the receiver variable of the method being run *)

  Definition is_recv (e : expr) : bool := match e with EId x => String.eqb x recv | _ => false end.
  Definition is_field (e : expr) (f : string) : bool :=
    match e with ESel r n => is_recv r && String.eqb n f | _ => false end.
  Definition is_list_call (e : expr) (m : string) : bool :=
    match e with ESel l n => is_field l "list" && String.eqb n m | _ => false end.

  Fixpoint leval (s : ist) (e : lenv) (x : expr) {struct x} : lv :=
    match x with
    | EId n => lget n e
    | ELit z => LZ z
    | ESel r n =>
      if is_recv r then
        if String.eqb n "maxSize" then LZ (maxsz (cache s))
        else if String.eqb n "delMapCount" then LZ (delcnt (cache s))
        else if String.eqb n "nodeMap" then LMap (nmap (cache s))
        else LBad
      else if String.eqb n "Value" then
        match leval s e r with
        | LElem (Some i) => match elem_val i s with Some v => LVal v | None => LBad end
        | _ => LBad
        end
      else LBad
    | ECall f [] =>
      if is_list_call f "Len" then LZ (Z.of_nat (List.length (lst (cache s))))
      else if is_list_call f "Back" then
        LElem (match lst (cache s) with [] => None | p :: r => Some (fst (last r p)) end)
      else LBad
    | ECall (EId f) (a :: _) =>
      if String.eqb f "len" then match leval s e a with LMap m => LZ (Z.of_nat (List.length m)) | _ => LBad end
      else if String.eqb f "make" then LMap []
      else LBad
    | EBin op a b =>
      match leval s e a, leval s e b with
      | LZ x, LZ y =>
        if String.eqb op ">" then LB (y <? x)
        else if String.eqb op "!=" then LB (negb (x =? y))
        else if String.eqb op "*" then LZ (x * y)
        else LBad
      | LElem x, LElem y =>
        if String.eqb op "==" then
          LB (match x, y with Some i, Some j => N.eqb i j | None, None => true | _, _ => false end)
        else LBad
      | _, _ => LBad
      end
    | EUn op a =>
      if String.eqb op "-" then match leval s e a with LZ z => LZ (- z) | _ => LBad end
      else if String.eqb op "!" then match leval s e a with LB b => LB (negb b) | _ => LBad end
      else LBad
    | _ => LBad
    end.

  Inductive flow :=
  | FNext (s : ist) (e : lenv)
  | FRet (s : ist) (e : lenv) (vals : list lv)
  | FBreak (s : ist) (e : lenv)
  | FStuck.

  Definition upd_cache (s : ist) c m l n lg : ist := with_cache s (upd (cache s) c m l n lg).

  (* l.list.MoveToFront(e) *)
  Definition move_front (i : id) (s : ist) : option ist :=
    match lst_val i (lst (cache s)) with
    | Some v => let c := cache s in
                Some (upd_cache s (delcnt c) (nmap c) ((i, v) :: lst_del i (lst c)) (next c) (log c))
    | None => None
    end.
  (* e.Value = v *)
  Definition set_value (i : id) (v : V) (s : ist) : ist :=
    let c := cache s in
    upd_cache s (delcnt c) (nmap c) (map (fun p => if N.eqb (fst p) i then (i, v) else p) (lst c)) (next c) (log c).
  (* l.list.Remove(e): the element keeps its value *)
  Definition remove (i : id) (s : ist) : ist :=
    let c := cache s in
    {| cache := upd c (delcnt c) (nmap c) (lst_del i (lst c)) (next c) (log c);
       dead := match lst_val i (lst c) with Some v => (i, v) :: dead s | None => dead s end |}.

  Variable call_delete : ist -> lv -> option ist.     (* l.delete(e): the body of the other method *)

  Definition lock_call (x : expr) : bool :=
    match x with
    | ECall (ESel mu m) [] =>
      is_field mu "rwMu" && (String.eqb m "Lock" || String.eqb m "Unlock" || String.eqb m "RLock" || String.eqb m "RUnlock")
    | _ => false
    end.

  (* for k, v := range m { body }: the entries one by one; break leaves the loop *)
  Fixpoint range_loop (body : ist -> lenv -> flow) (kx vx : string) (ents : list (K * id)) (s : ist) (e : lenv) : flow :=
    match ents with
    | [] => FNext s e
    | (k, i) :: r =>
      match body s (lset vx (LElem (Some i)) (lset kx (LKey (Some k)) e)) with
      | FNext s1 e1 => range_loop body kx vx r s1 e1
      | FBreak s1 e1 => FNext s1 e1
      | other => other
      end
    end.

  Fixpoint lexec (st0 : stmt) (s : ist) (e : lenv) {struct st0} : flow :=
    let run := fix run (l : list stmt) (s : ist) (e : lenv) {struct l} : flow :=
      match l with
      | [] => FNext s e
      | x :: r => match lexec x s e with FNext s1 e1 => run r s1 e1 | other => other end
      end in
    match st0 with
    | SExpr x =>
      if lock_call x then FNext s e else
      match x with
      | ECall f [a] =>
        if is_list_call f "MoveToFront" then
          match leval s e a with
          | LElem (Some i) => match move_front i s with Some s1 => FNext s1 e | None => FStuck end
          | _ => FStuck
          end
        else if is_list_call f "Remove" then
          match leval s e a with LElem (Some i) => FNext (remove i s) e | _ => FStuck end
        else if is_field f "delete" then
          match call_delete s (leval s e a) with Some s1 => FNext s1 e | None => FStuck end
        else FStuck
      | ECall f [a; b] =>
        if is_field f "deleteCallBackFn" then
          match leval s e a, leval s e b with
          | LKey (Some k), LVal v => let c := cache s in
                                     FNext (upd_cache s (delcnt c) (nmap c) (lst c) (next c) (log c ++ [(k, v)])) e
          | LKey None, LVal _ => FNext s e        (* a nil key: outside the model's log (unreachable) *)
          | _, _ => FStuck
          end
        else match f with
             | EId d => if String.eqb d "delete" && is_field a "nodeMap" then
                          match leval s e b with
                          | LKey (Some k) => let c := cache s in
                                             FNext (upd_cache s (delcnt c) (map_del k (nmap c)) (lst c) (next c) (log c)) e
                          | LKey None => FNext s e
                          | _ => FStuck
                          end
                        else FStuck
             | _ => FStuck
             end
      | _ => FStuck
      end
    | SDefer x => if lock_call x then FNext s e else FStuck
    | SVar [x] _ [] => FNext s (lset x (LKey None) e)
    | SAssign _ [EId n; EId okv] [EIndex m k] =>
      if is_field m "nodeMap" then
        match leval s e k with
        | LKey (Some key) =>
          match lookup key (nmap (cache s)) with
          | Some i => FNext s (lset okv (LB true) (lset n (LElem (Some i)) e))
          | None => FNext s (lset okv (LB false) (lset n (LElem None) e))
          end
        | _ => FStuck
        end
      else FStuck
    | SAssign _ [EId x] [ECall f [a]] =>
      if is_list_call f "PushFront" then
        match leval s e a with
        | LVal v => let c := cache s in
                    FNext (upd_cache s (delcnt c) (nmap c) ((next c, v) :: lst c) (N.succ (next c)) (log c))
                          (lset x (LElem (Some (next c))) e)
        | _ => FStuck
        end
      else match leval s e (ECall f [a]) with LBad => FStuck | v => FNext s (lset x v e) end
    | SAssign _ [EId x] [rhs] =>
      match leval s e rhs with
      | LBad => FStuck
      | LKey k => FNext s (lset x (LKey k) e)
      | v => (* key = k inside the search loop: an interface variable takes the map key *)
             FNext s (lset x v e)
      end
    | SAssign _ [ESel (EId n) fld] [rhs] =>
      if String.eqb n recv then
        if String.eqb fld "nodeMap" then
          match leval s e rhs with
          | LMap m => let c := cache s in FNext (upd_cache s (delcnt c) m (lst c) (next c) (log c)) e
          | _ => FStuck
          end
        else if String.eqb fld "delMapCount" then
          match leval s e rhs with
          | LZ z => let c := cache s in FNext (upd_cache s z (nmap c) (lst c) (next c) (log c)) e
          | _ => FStuck
          end
        else FStuck
      else if String.eqb fld "Value" then
        match lget n e, leval s e rhs with
        | LElem (Some i), LVal v => FNext (set_value i v s) e
        | _, _ => FStuck
        end
      else FStuck
    | SAssign _ [EIndex m k] [rhs] =>
      if is_field m "nodeMap" then
        match leval s e k, leval s e rhs with
        | LKey (Some key), LElem (Some i) =>
          let c := cache s in FNext (upd_cache s (delcnt c) ((key, i) :: map_del key (nmap c)) (lst c) (next c) (log c)) e
        | _, _ => FStuck
        end
      else FStuck
    | SIncDec true x =>
      if is_field x "delMapCount" then
        let c := cache s in FNext (upd_cache s (delcnt c + 1) (nmap c) (lst c) (next c) (log c)) e
      else FStuck
    | SIf [] c th el =>
      let cv := match c with
                | EBin op a (EId nl) =>
                  if String.eqb op "!=" && is_field a "deleteCallBackFn" && String.eqb nl "nil" then LB true
                  else leval s e c
                | _ => leval s e c
                end in
      match cv with
      | LB true => run th s e
      | LB false => run el s e
      | _ => FStuck
      end
    | SReturn es => FRet s e (map (leval s e) es)
    | SBreak => FBreak s e
    | SRange (Some kx) (Some vx) _ coll body =>
      match leval s e coll with
      | LMap m => range_loop (run body) kx vx (rev m) s e
      | _ => FStuck
      end
    | SBlock l => run l s e
    | _ => FStuck
    end.

  Fixpoint lexec_list (l : list stmt) (s : ist) (e : lenv) : flow :=
    match l with
    | [] => FNext s e
    | x :: r => match lexec x s e with FNext s1 e1 => lexec_list r s1 e1 | other => other end
    end.
End Exec.

(* ---------- running the extracted methods ---------- *)
Definition recv_of (f : fn) : string := match fn_recv f with Some r => r | None => "" end.

(* delete(node): no nested call of delete inside *)
Definition run_delete (fdel : fn) (s : ist) (arg : lv) : option ist :=
  match fn_params fdel with
  | [(p, _)] =>
    match lexec_list (recv_of fdel) (fun _ _ => None) (fn_body fdel) s (lset p arg lempty) with
    | FNext s1 _ | FRet s1 _ [] => Some s1
    | _ => None
    end
  | _ => None
  end.

Definition param_names (f : fn) : list string := map (fun p => match p with (n, _) => n end) (fn_params f).

Definition run_method (fdel f : fn) (args : list lv) (results0 : lenv) (s : ist) : option (ist * lenv * list lv) :=
  let e0 := (fix bind (ns : list string) (vs : list lv) : lenv :=
               match ns, vs with n :: nr, v :: vr => lset n v (bind nr vr) | _, _ => results0 end) (param_names f) args in
  match lexec_list (recv_of f) (run_delete fdel) (fn_body f) s e0 with
  | FNext s1 e1 => Some (s1, e1, [])
  | FRet s1 e1 vs => Some (s1, e1, vs)
  | _ => None
  end.

Definition fresh (c : st) : ist := {| cache := c; dead := [] |}.

Definition go_store (fdel f : fn) (k : K) (v : V) (c : st) : option st :=
  match run_method fdel f [LKey (Some k); LVal v] lempty (fresh c) with Some (s, _, _) => Some (cache s) | None => None end.
Definition go_delete (fdel f : fn) (k : K) (c : st) : option st :=
  match run_method fdel f [LKey (Some k)] lempty (fresh c) with Some (s, _, _) => Some (cache s) | None => None end.
(* Load has named results data, ok; a bare return gives them back *)
Definition go_load (fdel f : fn) (k : K) (c : st) : option (st * option V) :=
  match run_method fdel f [LKey (Some k)] (lset "ok" (LB false) lempty) (fresh c) with
  | Some (s, e, _) =>
    match lget "ok" e, lget "data" e with
    | LB true, LVal v => Some (cache s, Some v)
    | LB false, _ => Some (cache s, None)
    | _, _ => None
    end
  | None => None
  end.
Definition go_len (fdel f : fn) (c : st) : option Z :=
  match run_method fdel f [] lempty (fresh c) with Some (_, _, [LZ z]) => Some z | _ => None end.
