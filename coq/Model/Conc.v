(* Conc.v — method lock/field summaries, conflict, the race-freedom test, and an interleaving
   semantics of threads calling methods under one reader/writer lock.  The summaries of the
   real methods are regenerated from cache.go by the translator (Extracted/SourceLRU.v). *)
From PGV Require Import Base.Bytes.

Inductive mode := MNone | MRead | MWrite.
Record msum := { m_name : str; m_lock : mode; m_reads : list N; m_writes : list N }.

Definition memb (f : N) (l : list N) := existsb (N.eqb f) l.
Definition touches (a : msum) := m_reads a ++ m_writes a.
Definition conflict (a b : msum) : bool :=
  existsb (fun f => memb f (touches b)) (m_writes a) || existsb (fun f => memb f (touches a)) (m_writes b).
Definition is_w m := match m_lock m with MWrite => true | _ => false end.
Definition holds m := match m_lock m with MNone => false | _ => true end.
Definition excl (a b : msum) : bool := (is_w a && holds b) || (is_w b && holds a).
Definition race_freeb (ms : list msum) : bool :=
  forallb (fun a => forallb (fun b => implb (conflict a b) (excl a b)) ms) ms.

(* interleaving semantics; the RW lock is specified over the set of bodies currently inside *)
Inductive tstate := Idle | Wait (m : msum) | Inside (m : msum).
Definition cfg := nat -> tstate.
Definition upd (c : cfg) (t : nat) (x : tstate) : cfg := fun u => if Nat.eqb u t then x else c u.

Definition can_enter (c : cfg) (t : nat) (m : msum) : Prop :=
  match m_lock m with
  | MNone => True
  | MRead => forall u m', u <> t -> c u = Inside m' -> is_w m' = false
  | MWrite => forall u m', u <> t -> c u = Inside m' -> holds m' = false
  end.

Section Sem.
  Variable ms : list msum.
  Inductive step : cfg -> cfg -> Prop :=
  | s_call c t m : c t = Idle -> In m ms -> step c (upd c t (Wait m))
  | s_enter c t m : c t = Wait m -> can_enter c t m -> step c (upd c t (Inside m))
  | s_exit c t m : c t = Inside m -> step c (upd c t Idle).
  Inductive reach : cfg -> Prop :=
  | r_init : reach (fun _ => Idle)
  | r_step c c' : reach c -> step c c' -> reach c'.

  Definition lock_inv (c : cfg) : Prop :=
    (forall t m, c t = Inside m \/ c t = Wait m -> In m ms) /\
    (forall t u m m', t <> u -> c t = Inside m -> c u = Inside m' -> is_w m = true -> holds m' = false).

End Sem.
