(* Value.v — a first-order image of what package reflect shows the validators: kinds, values,
   and the reflect primitives the repository calls, with their panic conditions. *)
From PGV Require Import Base.Bytes Base.GoStr Base.GoNum Base.Utf8.
Open Scope Z_scope.

Inductive width := W8 | W16 | W32 | W64 | WInt.   (* WInt: int / uint (64 bits here) *)

(* kinds, with the element kind of slices/arrays (VVar.Valid walks ty.Elem()) *)
Inductive kd := KInvalid | KBool | KInt | KUint | KFloat | KString
              | KSlice (e : kd) | KArray (e : kd) | KMap | KStruct | KPtr | KIface | KOther.

(* a float64 value (also what tv.Float() returns for a float32) as an exact dyadic m * 2^e *)
Inductive fl := FNaN | FInf (neg : bool) | FFin (m e : Z).

Record finfo := { f_name : str; f_tags : list (str * str); f_time : bool (* the field's type is time.Time *) }.
Record sinfo := { s_name : str (* Type.Name() *); s_tstr : str (* Type.String() *);
                  s_id : str (* the identity of the type: package PATH and name (two types may print the same String()) *) }.

Inductive val :=
| VInvalid
| VBool (b : bool)
| VInt (w : width) (z : Z)
| VUint (w : width) (n : Z)
| VFloat (is32 : bool) (f : fl) (repr repr64 : str)   (* strconv.FormatFloat(x,'f',-1,bits) and (...,64), from the harness *)
| VStr (s : str)
| VNilPtr (tstr : str)                         (* typed nil pointer; tstr = Type.String() *)
| VPtr (v : val)
| VSlice (isnil : bool) (ek : kd) (etstr : str) (vs : list val)   (* element kind / type string *)
| VArray (ek : kd) (etstr : str) (vs : list val)
| VMap (isnil : bool) (kk : kd) (tstr : str) (entries : list (val * val))
| VStruct (si : sinfo) (fields : list (finfo * val))
| VIface (inner : option val)                  (* a value of interface kind (field / element) *)
| VTime (iszero : bool)                        (* a time.Time struct value; iszero = Value.IsZero() *)
| VOther (tstr : str).                         (* func, chan, ... *)

Definition kind (v : val) : kd :=
  match v with
  | VInvalid => KInvalid | VBool _ => KBool | VInt _ _ => KInt | VUint _ _ => KUint
  | VFloat _ _ _ _ => KFloat | VStr _ => KString | VNilPtr _ => KPtr | VPtr _ => KPtr
  | VSlice _ ek _ _ => KSlice ek | VArray ek _ _ => KArray ek | VMap _ _ _ _ => KMap
  | VStruct _ _ => KStruct | VIface _ => KIface | VTime _ => KStruct | VOther _ => KOther
  end.

Definition is_num_kind (k : kd) (can_float : bool) : bool :=
  match k with KInt | KUint => true | KFloat => can_float | _ => false end.

Definition width_str (w : width) : str :=
  match w with W8 => s2b "8" | W16 => s2b "16" | W32 => s2b "32" | W64 => s2b "64" | WInt => [] end.

(* reflect.Type.String() *)
Fixpoint type_string (v : val) : str :=
  match v with
  | VInvalid => s2b "<invalid>"
  | VBool _ => s2b "bool"
  | VInt w _ => s2b "int" ++ width_str w
  | VUint w _ => s2b "uint" ++ width_str w
  | VFloat is32 _ _ _ => if is32 then s2b "float32" else s2b "float64"
  | VStr _ => s2b "string"
  | VNilPtr t => t
  | VPtr v' => 42%N :: type_string v'
  | VSlice _ _ et _ => s2b "[]" ++ et
  | VArray _ et vs => s2b "[" ++ itoa (Z.of_nat (length vs)) ++ s2b "]" ++ et
  | VMap _ _ t _ => t
  | VStruct si _ => s_tstr si
  | VIface _ => s2b "interface {}"
  | VTime _ => s2b "time.Time"
  | VOther t => t
  end.

(* reflect.Value.String(): the string itself, or "<T Value>" for other kinds *)
Definition value_string (v : val) : str :=
  match v with
  | VStr s => s
  | VInvalid => s2b "<invalid Value>"
  | _ => 60%N :: type_string v ++ s2b " Value>"
  end.

(* RemoveValuePtr: for t.Kind() == Ptr { t = t.Elem() }  (Elem of a nil pointer is the invalid Value) *)
Fixpoint remove_ptr (v : val) : val :=
  match v with
  | VPtr v' => remove_ptr v'
  | VNilPtr _ => VInvalid
  | _ => v
  end.

(* reflect.Value.Type() panics on the zero Value *)
Definition type_of (v : val) : res str :=
  match v with VInvalid => Panic (s2b "reflect: call of reflect.Value.Type on zero Value") | _ => Ok (type_string v) end.

Definition fl_is_zero (f : fl) : bool := match f with FFin m _ => m =? 0 | _ => false end.

(* reflect.Value.IsZero, kind by kind (arrays and structs recursively); panics on the zero Value *)
Fixpoint is_zero_fuel (fuel : nat) (v : val) : res bool :=
  match fuel with
  | O => OutOfFuel
  | S f =>
    let all := fix all (l : list val) : res bool :=
                 match l with
                 | [] => Ok true
                 | x :: r => b <- is_zero_fuel f x ;; if b then all r else Ok false
                 end in
    match v with
    | VInvalid => Panic (s2b "reflect: call of reflect.Value.IsZero on zero Value")
    | VBool b => Ok (negb b)
    | VInt _ z => Ok (z =? 0)
    | VUint _ n => Ok (n =? 0)
    | VFloat _ fv _ _ => Ok (fl_is_zero fv)
    | VStr s => Ok (match s with [] => true | _ => false end)
    | VNilPtr _ => Ok true
    | VPtr _ => Ok false
    | VSlice isnil _ _ _ => Ok isnil
    | VArray _ _ vs => all vs
    | VMap isnil _ _ _ => Ok isnil
    | VStruct _ fs => all (map snd fs)
    | VIface inner => Ok (match inner with None => true | Some _ => false end)
    | VTime z => Ok z
    | VOther _ => Ok false  (* the harness only builds non-nil funcs / chans *)
    end
  end.

(* nesting depth: enough fuel for every walker *)
Fixpoint depth (v : val) : nat :=
  match v with
  | VPtr v' => S (depth v')
  | VSlice _ _ _ vs | VArray _ _ vs =>
    S ((fix maxl (l : list val) : nat := match l with [] => O | x :: r => Nat.max (depth x) (maxl r) end) vs)
  | VMap _ _ _ es =>
    S ((fix maxe (l : list (val * val)) : nat :=
          match l with [] => O | (k, x) :: r => Nat.max (Nat.max (depth k) (depth x)) (maxe r) end) es)
  | VStruct _ fs =>
    S ((fix maxf (l : list (finfo * val)) : nat :=
          match l with [] => O | (_, x) :: r => Nat.max (depth x) (maxf r) end) fs)
  | VIface (Some v') => S (depth v')
  | _ => 1%nat
  end.

Definition is_zero (v : val) : res bool := is_zero_fuel (S (depth v)) v.

(* reflect.Value.Len *)
Definition vlen (v : val) : res Z :=
  match v with
  | VSlice _ _ _ vs | VArray _ _ vs => Ok (Z.of_nat (length vs))
  | VMap _ _ _ es => Ok (Z.of_nat (length es))
  | VStr s => Ok (Z.of_nat (length s))
  | _ => Panic (s2b "reflect: call of reflect.Value.Len on non-collection Value")
  end.

(* ToStr(tv.Interface()) for scalars; other kinds go through fmt's %v, whose text the model does
   not predict: it is the marker below, and echoes are compared only after [echo_filter] *)
Definition opaque_echo : str := s2b "[?".
Definition to_str (v : val) : str :=
  match (match v with VIface (Some x) => x | _ => v end) with
  | VStr s => s
  | VInt _ z => itoa z
  | VUint _ n => itoa n
  | VFloat _ _ repr _ => repr
  | VBool b => if b then s2b "true" else s2b "false"
  | _ => opaque_echo
  end.

(* interface values are what Interface() sees through: ToStr(x.Interface()) of an element of
   []interface{} formats the dynamic value *)
Definition unwrap_iface (v : val) : val := match v with VIface (Some x) => x | _ => v end.
