(* Rules.v — the rule functions of valid/validfn.go and their helpers in valid/common.go,
   as functions from (rule text, object name, field name, value) to the clauses written. *)
From PGV Require Import Base.Bytes Base.GoStr Base.GoNum Base.Utf8 Regex.Re Regex.Rx.
From PGV Require Import Extracted.SourceConst Extracted.SourceRegex.
From PGV Require Import Model.RuleText Model.Value Model.Clause.
Open Scope Z_scope.

(* ---- calls that leave the repository: answered by finite tables the harness fills from the
   real call (net.ParseIP, time.Parse, regexp.MatchString on user patterns, json.Valid, os.Stat) ---- *)
Record oracles := {
  o_ip : list (str * (bool * bool));          (* text -> (ParseIP != nil, To4() != nil) *)
  o_time : list (str * str * bool);           (* (layout, text) -> time.Parse err == nil *)
  o_re : list (str * str * bool);             (* (pattern, text) -> matched (false also on a bad pattern) *)
  o_json : list (str * bool);                 (* text -> json.Valid *)
  o_stat : list (str * option (bool * str))   (* path -> Some (isDir, "") | None with error text in snd... *)
}.
Definition no_oracles : oracles := {| o_ip := []; o_time := []; o_re := []; o_json := []; o_stat := [] |}.

Fixpoint lookup1 {X} (k : str) (l : list (str * X)) : option X :=
  match l with [] => None | (k', x) :: r => if str_eqb k k' then Some x else lookup1 k r end.
Fixpoint lookup2 {X} (k1 k2 : str) (l : list (str * str * X)) : option X :=
  match l with
  | [] => None
  | (a, b, x) :: r => if str_eqb k1 a && str_eqb k2 b then Some x else lookup2 k1 k2 r
  end.

(* ---- common.go:143-248 validInputSize (after the repair of the unsigned / slice branches) ---- *)
Definition fl_cmp_z (f : fl) (z : Z) : option comparison :=   (* None: NaN, every comparison false *)
  match f with
  | FNaN => None
  | FInf neg => Some (if neg then Lt else Gt)
  | FFin m e => Some (if 0 <=? e then (m * 2 ^ e ?= z) else (m ?= z * 2 ^ (- e)))
  end.
Definition c_lt (c : option comparison) := match c with Some Lt => true | _ => false end.
Definition c_gt (c : option comparison) := match c with Some Gt => true | _ => false end.
Definition c_le (c : option comparison) := match c with Some Lt | Some Eq => true | _ => false end.
Definition c_ge (c : option comparison) := match c with Some Gt | Some Eq => true | _ => false end.
Definition c_eq (c : option comparison) := match c with Some Eq => true | _ => false end.

(* returns (isLessThan, isMoreThan, valStr) *)
Definition valid_input_size (min max : Z) (v : val) (has_equal : bool) : bool * bool * str :=
  match v with
  | VStr s =>
    let n := Z.of_nat (rune_count s) in
    if has_equal then (n <? min, max <? n, s) else (n <=? min, max <=? n, s)
  | VFloat _ f _ repr =>
    if has_equal then (c_lt (fl_cmp_z f min), c_gt (fl_cmp_z f max), repr)
    else (c_le (fl_cmp_z f min), c_ge (fl_cmp_z f max), repr)
  | VInt _ z =>
    if has_equal then (z <? min, max <? z, itoa z) else (z <=? min, max <=? z, itoa z)
  | VUint _ n =>
    (* a negative bound is below every unsigned number *)
    if has_equal then ((0 <=? min) && (n <? min), (max <? 0) || (max <? n), itoa n)
    else ((0 <=? min) && (n <=? min), (max <? 0) || (max <=? n), itoa n)
  | VSlice _ _ _ vs =>
    let l := Z.of_nat (length vs) in
    if has_equal then (l <? min, max <? l, itoa l) else (l <=? min, max <=? l, itoa l)
  | _ => (false, false, [])
  end.

(* common.go:251-273 parseTagTo *)
Definition TILDE : str := [126%N].
Definition parse_tag_to (to_val : str) (rule : str) : (Z * Z) + ftext :=
  match split to_val TILDE with
  | [a; b] =>
    match atoi a with
    | (mn, false) => match atoi b with
                     | (mx, false) => inl (mn, mx)
                     | _ => inr FAtoi
                     end
    | _ => inr FAtoi
    end
  | _ => inr (FRuleErr rule)
  end.

Definition body_of (cus : str) (rule : str) : vbody :=
  match cus with [] => VDefault rule | _ => VCustom cus end.

(* validfn.go:26-52 To and 94-120 OTo: the two clauses of the fall-through are both written when
   no custom message is present (min > max) *)
Definition to_like (has_equal : bool) (vn obj field : str) : val -> list clause :=
  let cus := pk_msg vn in
  match parse_tag_to (pk_val vn) (s2b "to") with
  | inr e => fun _ => [CField obj field e]
  | inl (mn, mx) => fun v =>
    let '(lt, gt, vs) := valid_input_size mn mx v has_equal in
    (* after the repair: the violated rule is reported once *)
    if lt || gt then [CValid obj field vs (body_of cus (if has_equal then s2b "to" else s2b "oto"))] else []
  end.

(* Ge / Gt: validInputSize(min, 0, tv[, false]) and only isLessThan; Le / Lt: (0, max) and isMoreThan *)
Definition one_sided (lower has_equal : bool) (rule : str) (vn obj field : str) : val -> list clause :=
  let cus := pk_msg vn in
  let b := fst (atoi (pk_val vn)) in
  fun v =>
  let '(lt, gt, vs) := if lower then valid_input_size b 0 v has_equal else valid_input_size 0 b v has_equal in
  if (if lower then lt else gt) then [CValid obj field vs (body_of cus rule)] else [].

(* validfn.go:190-222 eq (after the repair: slices compare their length, negative bound on unsigned) *)
Definition eq_holds (n : Z) (v : val) : bool :=
  match v with
  | VStr s => Z.of_nat (rune_count s) =? n
  | VInt _ z => z =? n
  | VUint _ u => (0 <=? n) && (u =? n)
  | VFloat _ f _ _ => c_eq (fl_cmp_z f n)
  | VSlice _ _ _ vs => Z.of_nat (length vs) =? n
  | _ => false
  end.
Definition eq_like (want_eq : bool) (vn obj field : str) : val -> list clause :=
  let cus := pk_msg vn in
  let n := fst (atoi (pk_val vn)) in
  fun v =>
  if Bool.eqb (eq_holds n v) want_eq then []
  else [CValid obj field (to_str v) (body_of cus (if want_eq then s2b "eq" else s2b "noeq"))].

Definition rTo := to_like true.
Definition rOTo := to_like false.
Definition rGe := one_sided true true (s2b "ge").
Definition rGt := one_sided true false (s2b "gt").
Definition rLe := one_sided false true (s2b "le").
Definition rLt := one_sided false false (s2b "lt").
Definition rEq := eq_like true.
Definition rNoEq := eq_like false.

(* ================= format and content rules, validfn.go:219-812 ================= *)

Definition pats (x : rx) : list pattern := match patterns 8 x with Some ps => ps | None => [] end.

(* CheckFieldIsStr, common.go:105-112: Some clause when the value is not of kind string *)
Definition check_is_str (obj field : str) (v : val) : option clause :=
  match v with
  | VStr _ => None
  | _ => Some (CValid obj field (value_string v) (VDefault (s2b "notstr")))
  end.

Definition str_of (v : val) : str := match v with VStr s => s | _ => [] end.

(* the shape shared by phone/email/idcard/ip.../json/...: string check, verdict, custom or default *)
Definition str_rule (rule : str) (ok : str -> bool) (vn obj field : str) (v : val) : list clause :=
  match check_is_str obj field v with
  | Some c => [c]
  | None => let s := str_of v in
            if ok s then [] else [CValid obj field s (body_of (pk_msg vn) rule)]
  end.

Definition rPhone := str_rule (s2b "phone") (match_string (pats PhoneRe)).
Definition rEmail := str_rule (s2b "email") (match_string (pats EmailRe)).
Definition rIDCard := str_rule (s2b "idcard") (match_string (pats IdCardRe)).

Section WithOracles.
Variable orc : oracles.

Definition ip_lookup (s : str) : bool * bool := match lookup1 s (o_ip orc) with Some p => p | None => (false, false) end.
Definition rIp := str_rule (s2b "ip") (fun s => fst (ip_lookup s)).
Definition rIpv4 := str_rule (s2b "ipv4") (fun s => fst (ip_lookup s) && snd (ip_lookup s)).
Definition rIpv6 := str_rule (s2b "ipv6") (fun s => fst (ip_lookup s) && negb (snd (ip_lookup s))).

(* init.go GetTimeFmt: mask bits year=1 month=2 day=4 hour=8 min=16 sec=32 *)
Definition join_fn (old split j : str) : str :=
  match old, j with [], _ => j | _, [] => old | _, _ => old ++ split ++ j end.
Definition get_time_fmt (mask : Z) (splits : list str) : str :=
  let d0 := s2b "-" in let d1 := s2b " " in let d2 := s2b ":" in
  let '(sd, sdt, st) := match splits with
                        | [a] => (a, d1, d2)
                        | [a; b] => (a, b, d2)
                        | [a; b; c] => (a, b, c)
                        | _ => (d0, d1, d2)
                        end in
  let bit n := Z.testbit mask n in
  let p0 := if bit 0 then join_fn [] sd (s2b "2006") else [] in
  let p1 := if bit 1 then join_fn p0 sd (s2b "01") else p0 in
  let p2 := if bit 2 then join_fn p1 sd (s2b "02") else p1 in
  let s0 := if bit 3 then join_fn [] st (s2b "15") else [] in
  let s1 := if bit 4 then join_fn s0 st (s2b "04") else s0 in
  let s2 := if bit 5 then join_fn s1 st (s2b "05") else s1 in
  join_fn p2 sdt s2.

Definition time_ok (layout s : str) : bool := match lookup2 layout s (o_time orc) with Some b => b | None => false end.

Definition rYear := str_rule (s2b "year") (time_ok (get_time_fmt 1 [])).
Definition date_split (vn : str) : str :=
  match pk_val vn with [] => s2b "-" | x => trim [QUOTE] x end.
Definition rYear2Month (vn : str) := str_rule (s2b "year2month") (time_ok (get_time_fmt 3 [date_split vn])) vn.
Definition rDate (vn : str) := str_rule (s2b "date") (time_ok (get_time_fmt 7 [date_split vn])) vn.
(* Datetime: up to three separators from the comma list; extra ones are ignored (after the repair) *)
Definition datetime_splits (vn : str) : list str :=
  let d := [s2b "-"; s2b " "; s2b ":"] in
  match pk_val vn with
  | [] => d
  | x => let ps := split1 COMMA [] (trim [QUOTE] x) in
         [nth 0 ps (nth 0 d []); nth 1 ps (nth 1 d []); nth 2 ps (nth 2 d [])]
  end.
Definition rDatetime (vn : str) := str_rule (s2b "datetime") (time_ok (get_time_fmt 63 (datetime_splits vn))) vn.

(* Re, validfn.go:495-545: the pattern is what follows the first quote of the whole rule text, up
   to the first quote not preceded by a backslash; the message is parsed from the rest *)
Definition BACKSLASH : byte := 92%N.
Fixpoint re_scan (s : str) (acc : str) : option (str * str) :=   (* Some (pattern, rest after the closing quote) *)
  match s with
  | [] => None
  | v :: r => match r with
              | [] => None                                   (* next > l-1 *)
              | nx :: r' => if negb (N.eqb v BACKSLASH) && N.eqb nx QUOTE
                            then Some (rev (v :: acc), r')
                            else re_scan r (v :: acc)
              end
  end.
Definition re_ok (pattern s : str) : bool := match lookup2 pattern s (o_re orc) with Some b => b | None => false end.
Definition rRe (vn obj field : str) (v : val) : list clause :=
  match check_is_str obj field v with
  | Some c => [c]
  | None =>
    match index_byte QUOTE vn with
    | None => [CField obj field (FRuleErr (s2b "re"))]
    | Some si =>
      match re_scan (skipn (si + 1) vn) [] with
      | None => [CField obj field (FRuleErr (s2b "re"))]
      | Some (pattern, rest) =>
        let new_vn := firstn si vn ++ QUOTE :: rest in
        if re_ok pattern (str_of v) then []
        else [CValid obj field (str_of v) (body_of (pk_msg new_vn) (s2b "re"))]
      end
    end
  end.

(* in / include, validfn.go:234-284 *)
Definition SLASH : byte := 47%N.
(* the option list: text between the first '(' and the last ')' (None: rule-writing error),
   split on '/' outside quotes, protecting quotes trimmed *)
Definition in_vals (vl : str) : option str :=
  match index_byte LPAREN vl, last_index_byte RPAREN vl with
  | Some lb, Some rb => if Nat.ltb rb lb then None else Some (firstn (rb - (lb + 1)) (skipn (lb + 1) vl))
  | _, _ => None
  end.
Definition in_opts (vl : str) : option (list str) :=
  option_map (fun iv => map (trim [QUOTE]) (names_split SLASH iv)) (in_vals vl).

Definition in_like (vn obj field : str) (v : val) : list clause :=
  let key := pk_key vn in let cus := pk_msg vn in
  let is_include := str_eqb key (s2b "include") in
  let err := CField obj field (FRuleErr (if is_include then s2b "include" else s2b "in")) in
  match in_opts (pk_val vn) with
  | None => [err]
  | Some opts =>
    let go (tv : str) :=
      let hit := existsb (fun o => if is_include then contains tv o else str_eqb tv o) opts in
      if hit then [] else [CValid obj field tv (body_of cus key)] in
    match v with
    | VStr s => go s
    | _ => if is_include then [err] else go (to_str v)
    end
  end.

(* Int / Float *)
Definition rInt (vn obj field : str) (v : val) : list clause :=
  match v with
  | VStr s => if match_string (pats IntRe) s then [] else [CValid obj field s (body_of (pk_msg vn) (s2b "int"))]
  | _ => if is_num_kind (kind v) false then [] else [CValid obj field (to_str v) (body_of (pk_msg vn) (s2b "int"))]
  end.
Definition rFloat (vn obj field : str) (v : val) : list clause :=
  match v with
  | VStr s => if match_string (pats FloatRe) s then [] else [CValid obj field s (body_of (pk_msg vn) (s2b "float"))]
  | VFloat _ _ _ _ => []
  | _ => [CValid obj field (to_str v) (body_of (pk_msg vn) (s2b "float"))]
  end.

(* Ints, validfn.go:572-630 (after the repair: protecting quotes are stripped) *)
Definition elems_of (v : val) : list val := match v with VSlice _ _ _ vs | VArray _ _ vs => vs | _ => [] end.
Definition rInts (vn obj field : str) (v : val) : list clause :=
  let cus := pk_msg vn in
  let sp := match trim [QUOTE] (pk_val vn) with [] => [COMMA] | x => x end in
  match v with
  | VStr s =>
    if forallb (match_string (pats IntRe)) (split s sp) then [] else [CValid obj field s (body_of cus (s2b "ints"))]
  | VSlice _ _ _ _ | VArray _ _ _ =>
    let strs := map to_str (elems_of v) in
    if forallb (match_string (pats IntRe)) strs then []
    else [CValid obj field (s2b "[" ++ join (s2b ", ") strs ++ s2b "]") (body_of cus (s2b "ints"))]
  | _ => if is_num_kind (kind v) false then [] else [CField obj field (FRuleErr (s2b "ints"))]
  end.

(* Unique, validfn.go:656-702 *)
Fixpoint distinct (l : list str) : list str :=
  match l with
  | [] => []
  | x :: r => if existsb (str_eqb x) r then distinct r else x :: distinct r
  end.
Definition rUnique (vn obj field : str) (v : val) : list clause :=
  match v with
  | VStr s =>
    let ps := split1 COMMA [] s in
    if Nat.eqb (length ps) (length (distinct ps)) then [] else [CValid obj field s (body_of (pk_msg vn) (s2b "unique"))]
  | VSlice _ _ _ _ | VArray _ _ _ =>
    let strs := map to_str (elems_of v) in
    if Nat.eqb (length strs) (length (distinct strs)) then []
    else [CValid obj field (s2b "[" ++ join [COMMA] strs ++ s2b "]") (body_of (pk_msg vn) (s2b "unique"))]
  | _ => [CField obj field (FRuleErr (s2b "unique"))]
  end.

(* StrEscape, common.go:396-442 *)
Definition esc1 (c : byte) : str :=
  (if N.eqb c 39 then [92; 39] else if N.eqb c 34 then [92; 34] else if N.eqb c 0 then [92; 48]
   else if N.eqb c 10 then [92; 110] else if N.eqb c 13 then [92; 114] else if N.eqb c 9 then [92; 116]
   else if N.eqb c 26 then [92; 90] else if N.eqb c 92 then [92; 92] else [c])%N.
Definition str_escape (s : str) : str := flat_map esc1 s.

Definition json_ok (s : str) : bool := match lookup1 s (o_json orc) with Some b => b | None => false end.
Definition rJson (vn obj field : str) (v : val) : list clause :=
  match check_is_str obj field v with
  | Some c => [c]
  | None => let s := str_of v in
            if json_ok s then []
            else let shown := if Nat.ltb 256 (length s) then s2b "more than 256 byte(it is ignore)" else s in
                 [CValid obj field (str_escape shown) (body_of (pk_msg vn) (s2b "json"))]
  end.

Definition rPrefix (vn : str) := str_rule (s2b "prefix") (fun s => has_prefix s (trim [QUOTE] (pk_val vn))) vn.
Definition rSuffix (vn : str) := str_rule (s2b "suffix") (fun s => has_suffix s (trim [QUOTE] (pk_val vn))) vn.

(* File / Dir: os.Stat through the oracle: Some (Some isDir) | Some None = error (text not modelled) *)
Definition stat_lookup (p : str) : option (bool * str) := match lookup1 p (o_stat orc) with Some x => x | None => None end.
Definition file_like (want_dir : bool) (vn obj field : str) (v : val) : list clause :=
  match check_is_str obj field v with
  | Some c => [c]
  | None => let s := str_of v in
            match stat_lookup s with
            | None => [CValid obj field s (body_of (pk_msg vn) (s2b "stat"))]   (* after the repair: the custom message, else the os.Stat error text *)
            | Some (is_dir, _) =>
              if Bool.eqb is_dir want_dir then []
              else [CValid obj field s (body_of (pk_msg vn) (if want_dir then s2b "dir" else s2b "file"))]
            end
  end.
Definition rFile := file_like false.
Definition rDir := file_like true.

(* dispatch on the name of the Go function the source's rule table gives *)
Definition rulefn := str -> str -> str -> val -> list clause.
Definition fn_table : list (str * rulefn) :=
  [ (s2b "To", rTo); (s2b "Ge", rGe); (s2b "Le", rLe); (s2b "OTo", rOTo); (s2b "Gt", rGt); (s2b "Lt", rLt);
    (s2b "Eq", rEq); (s2b "NoEq", rNoEq); (s2b "In", in_like); (s2b "Include", in_like);
    (s2b "Phone", rPhone); (s2b "Email", rEmail); (s2b "IDCard", rIDCard);
    (s2b "Year", rYear); (s2b "Year2Month", rYear2Month); (s2b "Date", rDate); (s2b "Datetime", rDatetime);
    (s2b "Int", rInt); (s2b "Ints", rInts); (s2b "Float", rFloat); (s2b "Re", rRe);
    (s2b "Ip", rIp); (s2b "Ipv4", rIpv4); (s2b "Ipv6", rIpv6); (s2b "Unique", rUnique); (s2b "Json", rJson);
    (s2b "Prefix", rPrefix); (s2b "Suffix", rSuffix); (s2b "File", rFile); (s2b "Dir", rDir) ].
Definition fn_by_name (n : str) : option rulefn := lookup1 n fn_table.

End WithOracles.
