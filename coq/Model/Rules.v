(* Rules.v — the rule functions of valid/validfn.go and their helpers in valid/common.go,
   as functions from (rule text, object name, field name, value) to the clauses written. *)
From PGV Require Import Base.Bytes Base.GoStr Base.GoNum Base.Utf8 Regex.Re Regex.Rx.
From PGV Require Import Extracted.SourceConst Extracted.SourceRegex.
From PGV Require Import Model.RuleText Model.Value Model.Clause.
Open Scope Z_scope.

(* ---- calls that leave the repository: answered by finite tables the harness fills from the
   real call (net.ParseIP, time.Parse, regexp.MatchString on user patterns, json.Valid, os.Stat) ---- *)
Record oracles := {
  o_ip : list (str * (bool * bool));          (* text -> (ParseIP != nil, To4() != nil) *)
  o_time : list (str * str * bool);           (* (layout, text) -> time.Parse err == nil *)
  o_re : list (str * str * bool);             (* (pattern, text) -> matched (false also on a bad pattern) *)
  o_json : list (str * bool);                 (* text -> json.Valid *)
  o_stat : list (str * option (bool * str))   (* path -> Some (isDir, "") | None with error text in snd... *)
}.
Definition no_oracles : oracles := {| o_ip := []; o_time := []; o_re := []; o_json := []; o_stat := [] |}.

Fixpoint lookup1 {X} (k : str) (l : list (str * X)) : option X :=
  match l with [] => None | (k', x) :: r => if str_eqb k k' then Some x else lookup1 k r end.
Fixpoint lookup2 {X} (k1 k2 : str) (l : list (str * str * X)) : option X :=
  match l with
  | [] => None
  | (a, b, x) :: r => if str_eqb k1 a && str_eqb k2 b then Some x else lookup2 k1 k2 r
  end.

(* ---- common.go:143-248 validInputSize (after the repair of the unsigned / slice branches) ---- *)
Definition fl_cmp_z (f : fl) (z : Z) : option comparison :=   (* None: NaN, every comparison false *)
  match f with
  | FNaN => None
  | FInf neg => Some (if neg then Lt else Gt)
  | FFin m e => Some (if 0 <=? e then (m * 2 ^ e ?= z) else (m ?= z * 2 ^ (- e)))
  end.
Definition c_lt (c : option comparison) := match c with Some Lt => true | _ => false end.
Definition c_gt (c : option comparison) := match c with Some Gt => true | _ => false end.
Definition c_le (c : option comparison) := match c with Some Lt | Some Eq => true | _ => false end.
Definition c_ge (c : option comparison) := match c with Some Gt | Some Eq => true | _ => false end.
Definition c_eq (c : option comparison) := match c with Some Eq => true | _ => false end.

(* returns (isLessThan, isMoreThan, valStr) *)
Definition valid_input_size (min max : Z) (v : val) (has_equal : bool) : bool * bool * str :=
  match v with
  | VStr s =>
    let n := Z.of_nat (rune_count s) in
    if has_equal then (n <? min, max <? n, s) else (n <=? min, max <=? n, s)
  | VFloat _ f repr =>
    if has_equal then (c_lt (fl_cmp_z f min), c_gt (fl_cmp_z f max), repr)
    else (c_le (fl_cmp_z f min), c_ge (fl_cmp_z f max), repr)
  | VInt _ z =>
    if has_equal then (z <? min, max <? z, itoa z) else (z <=? min, max <=? z, itoa z)
  | VUint _ n =>
    (* a negative bound is below every unsigned number *)
    if has_equal then ((0 <=? min) && (n <? min), (max <? 0) || (max <? n), itoa n)
    else ((0 <=? min) && (n <=? min), (max <? 0) || (max <=? n), itoa n)
  | VSlice _ _ _ vs =>
    let l := Z.of_nat (length vs) in
    if has_equal then (l <? min, max <? l, itoa l) else (l <=? min, max <=? l, itoa l)
  | _ => (false, false, [])
  end.

(* common.go:251-273 parseTagTo *)
Definition TILDE : str := [126%N].
Definition parse_tag_to (to_val : str) (rule : str) : (Z * Z) + ftext :=
  match split to_val TILDE with
  | [a; b] =>
    match atoi a with
    | (mn, false) => match atoi b with
                     | (mx, false) => inl (mn, mx)
                     | _ => inr FAtoi
                     end
    | _ => inr FAtoi
    end
  | _ => inr (FRuleErr rule)
  end.

Definition body_of (cus : str) (rule : str) : vbody :=
  match cus with [] => VDefault rule | _ => VCustom cus end.

(* validfn.go:26-52 To and 94-120 OTo: the two clauses of the fall-through are both written when
   no custom message is present (min > max) *)
Definition to_like (has_equal : bool) (vn obj field : str) (v : val) : list clause :=
  let cus := pk_msg vn in
  match parse_tag_to (pk_val vn) (s2b "to") with
  | inr e => [CField obj field e]
  | inl (mn, mx) =>
    let '(lt, gt, vs) := valid_input_size mn mx v has_equal in
    let c := CValid obj field vs (body_of cus (if has_equal then s2b "to" else s2b "oto")) in
    match cus with
    | [] => (if lt then [c] else []) ++ (if gt then [c] else [])
    | _ => if lt || gt then [c] else []
    end
  end.

(* Ge / Gt: validInputSize(min, 0, tv[, false]) and only isLessThan; Le / Lt: (0, max) and isMoreThan *)
Definition one_sided (lower has_equal : bool) (rule : str) (vn obj field : str) (v : val) : list clause :=
  let cus := pk_msg vn in
  let b := fst (atoi (pk_val vn)) in
  let '(lt, gt, vs) := if lower then valid_input_size b 0 v has_equal else valid_input_size 0 b v has_equal in
  if (if lower then lt else gt) then [CValid obj field vs (body_of cus rule)] else [].

(* validfn.go:190-222 eq (after the repair: slices compare their length, negative bound on unsigned) *)
Definition eq_holds (n : Z) (v : val) : bool :=
  match v with
  | VStr s => Z.of_nat (rune_count s) =? n
  | VInt _ z => z =? n
  | VUint _ u => (0 <=? n) && (u =? n)
  | VFloat _ f _ => c_eq (fl_cmp_z f n)
  | VSlice _ _ _ vs => Z.of_nat (length vs) =? n
  | _ => false
  end.
Definition eq_like (want_eq : bool) (vn obj field : str) (v : val) : list clause :=
  let cus := pk_msg vn in
  let n := fst (atoi (pk_val vn)) in
  if Bool.eqb (eq_holds n v) want_eq then []
  else [CValid obj field (to_str v) (body_of cus (if want_eq then s2b "eq" else s2b "noeq"))].

Definition rTo := to_like true.
Definition rOTo := to_like false.
Definition rGe := one_sided true true (s2b "ge").
Definition rGt := one_sided true false (s2b "gt").
Definition rLe := one_sided false true (s2b "le").
Definition rLt := one_sided false false (s2b "lt").
Definition rEq := eq_like true.
Definition rNoEq := eq_like false.
