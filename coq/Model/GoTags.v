(* GoTags.v — a semantics for the MiniGo syntax tree of tagItems.override (file/handletag.go), the merge of the tags a
   comment asks for into the tags a field has: the heart of C06 / C07.
   A tagItems value is the model's list of (key, value) pairs; slices are immutable lists here.  The one place where
   the Go code writes into a slice's backing array — inTags = append(inTags[:dup], inTags[dup+1:]...) shifts the tail
   left in place — is not observable: the element at dup was copied (a struct of two strings, by value) into overridEd
   before, and nobody holds another view of inTags (the caller's slice is not read again; see Model/Inject.v).
   What is given a meaning (anything else is TBad and the run is stuck):
     identifiers, integer literals, -e, []tagItem{}, a[i] and a[i].key with their run-time bound, a[:i]  a[i:],
     == on strings and integers, + on integers, append(a, x) and append(a, b...),
     :=  =  var x = e, if / else, for i := range a (the length read once) with break, return e
   and for tagItems.format: []string{}, for _, v := range a, v.key v.value, fmt.Sprintf with the one format "%s:%s",
   append of a string, strings.Join *)
From Coq Require Import String.
From PGV Require Import Base.Bytes Base.GoStr Base.MiniGo Model.Inject.
Open Scope Z_scope.

Inductive tv := TItems (l : tagitems) | TItem (i : tagitem) | TZ (z : Z) | TS (s : str) | TB (b : bool) | TStrs (l : list str) | TBad.
Definition tenv := string -> tv.
Definition tset (x : string) (v : tv) (e : tenv) : tenv := fun y => if String.eqb y x then v else e y.
Definition tempty : tenv :=
  fun y => if String.eqb y "[]tagItem{}" then TItems [] else if String.eqb y "[]string{}" then TStrs [] else TBad.

Definition tslice (l : tagitems) (lo hi : option Z) : tv :=
  let n := Z.of_nat (List.length l) in
  let a := match lo with Some x => x | None => 0 end in
  let b := match hi with Some x => x | None => n end in
  if (0 <=? a) && (a <=? b) && (b <=? n) then TItems (firstn (Z.to_nat (b - a)) (skipn (Z.to_nat a) l)) else TBad.

Fixpoint teval (e : tenv) (x : expr) {struct x} : tv :=
  match x with
  | EId n => e n
  | ELit z => TZ z
  | EUn op a => if String.eqb op "-" then match teval e a with TZ z => TZ (- z) | _ => TBad end else TBad
  | EIndex a i =>
    match teval e a, teval e i with
    | TItems l, TZ z => if 0 <=? z then match nth_error l (Z.to_nat z) with Some it => TItem it | None => TBad end else TBad
    | _, _ => TBad
    end
  | ESel a f => if String.eqb f "key" then match teval e a with TItem it => TS (fst it) | _ => TBad end
                else if String.eqb f "value" then match teval e a with TItem it => TS (snd it) | _ => TBad end else TBad
  | EStr s => TS s
  | ECall (ESel (EId pkg) f) [a; b] =>
    if String.eqb pkg "strings" && String.eqb f "Join" then
      match teval e a, teval e b with TStrs l, TS sep => TS (join sep l) | _, _ => TBad end
    else TBad
  | ECall (ESel (EId pkg) f) [EStr fmt; a; b] =>         (* fmt.Sprintf with the one format "%s:%s" *)
    if String.eqb pkg "fmt" && String.eqb f "Sprintf" && str_eqb fmt [37; 115; 58; 37; 115]%N then
      match teval e a, teval e b with TS x, TS y => TS (x ++ 58%N :: y) | _, _ => TBad end
    else TBad
  | ESlice a lo hi =>
    match teval e a with
    | TItems l =>
      let ev := fun o => match o with
                         | None => Some None
                         | Some y => match teval e y with TZ z => Some (Some z) | _ => None end
                         end in
      match ev lo, ev hi with Some l1, Some h1 => tslice l l1 h1 | _, _ => TBad end
    | _ => TBad
    end
  | EBin op a b =>
    match teval e a, teval e b with
    | TS x, TS y => if String.eqb op "==" then TB (str_eqb x y) else TBad
    | TZ x, TZ y => if String.eqb op "==" then TB (x =? y) else if String.eqb op "+" then TZ (x + y) else TBad
    | _, _ => TBad
    end
  | ECall (EId f) [a; EUn dots b] =>
    if String.eqb f "append" && String.eqb dots "..." then
      match teval e a, teval e b with TItems l, TItems m => TItems (l ++ m) | _, _ => TBad end
    else TBad
  | ECall (EId f) [a; b] =>
    if String.eqb f "append" then
      match teval e a, teval e b with
      | TItems l, TItem it => TItems (l ++ [it])
      | TStrs l, TS x => TStrs (l ++ [x])
      | _, _ => TBad
      end
    else TBad
  | _ => TBad
  end.

Inductive tflow := TNext (e : tenv) | TBrk (e : tenv) | TRet (v : tv) | TStuck.

(* for i := range a { body }: n iterations, the index counting up; break ends the loop *)
Fixpoint idx_loop (n : nat) (i : Z) (body : Z -> tenv -> tflow) (e : tenv) : tflow :=
  match n with
  | O => TNext e
  | S m => match body i e with
           | TNext e1 => idx_loop m (i + 1) body e1
           | TBrk e1 => TNext e1
           | other => other
           end
  end.

Fixpoint texec (s : stmt) (e : tenv) {struct s} : tflow :=
  let run := fix run (l : list stmt) (e : tenv) {struct l} : tflow :=
    match l with
    | [] => TNext e
    | x :: r => match texec x e with TNext e1 => run r e1 | other => other end
    end in
  match s with
  | SAssign _ [EId x] [rhs] => match teval e rhs with TBad => TStuck | v => TNext (tset x v e) end
  | SVar [x] _ [rhs] => match teval e rhs with TBad => TStuck | v => TNext (tset x v e) end
  | SIf [] c th el =>
    match teval e c with
    | TB true => run th e
    | TB false => run el e
    | _ => TStuck
    end
  | SRange (Some i) None _ coll body =>
    match teval e coll with
    | TItems l => idx_loop (List.length l) 0 (fun idx e' => run body (tset i (TZ idx) e')) e
    | _ => TStuck
    end
  | SRange (Some i) (Some v) _ coll body =>       (* for i, v := range a: v is a copy of a[i] *)
    match teval e coll with
    | TItems l =>
      idx_loop (List.length l) 0
        (fun idx e' => match nth_error l (Z.to_nat idx) with
                       | Some it => run body (tset v (TItem it) (tset i (TZ idx) e'))
                       | None => TStuck
                       end) e
    | _ => TStuck
    end
  | SBreak => TBrk e
  | SReturn [x] => match teval e x with TBad => TStuck | v => TRet v end
  | _ => TStuck
  end.

Fixpoint texec_list (l : list stmt) (e : tenv) : tflow :=
  match l with
  | [] => TNext e
  | x :: r => match texec x e with TNext e1 => texec_list r e1 | other => other end
  end.

(* (t tagItems) override(inTags tagItems) tagItems *)
Definition run_override (f : fn) (t inTags : tagitems) : option tagitems :=
  match texec_list (fn_body f) (tset "t" (TItems t) (tset "inTags" (TItems inTags) tempty)) with
  | TRet (TItems l) => Some l
  | _ => None
  end.

(* (t tagItems) format() string *)
Definition run_format (f : fn) (t : tagitems) : option str :=
  match texec_list (fn_body f) (tset "t" (TItems t) tempty) with
  | TRet (TS s) => Some s
  | _ => None
  end.
