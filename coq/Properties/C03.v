(* C03 — required means present and non-empty; all other rules skip empty values.  Statements only.
   Known finding C03-missing-entry: for map and URL input a MISSING entry never violates required
   (the walkers iterate the entries, not the rules); the theorems below speak about present entries. *)
From PGV Require Import Base.Bytes Base.GoStr Base.GoNum Base.Utf8.
From PGV Require Import Extracted.SourceConst.
From PGV Require Import Model.RuleText Model.Value Model.Clause Model.Rules Model.Walk.
From PGV Require Import Proofs.RuleContract Proofs.WalkProofs Proofs.WalkProofs2.

(* struct fields: one clause exactly when the value is the zero value of its type or an empty
   slice / array / map; a non-empty value is looked into (nested validation), never reported *)
Theorem C03_required_iff_empty : forall rec sn field cus tv z b, is_zero tv = Ok z ->
  required rec sn field cus tv b =
  if empty_val tv z then Ok (put b [CValid sn field [] (req_body cus Required)])
  else exist rec false sn field cus tv b.
Proof. exact required_iff_empty. Qed.
Print Assumptions C03_required_iff_empty.

Theorem C03_required_var : forall c tv vn z b, vn <> [] -> get_fn c (pk_key vn) = FBuiltin ->
  str_eqb (pk_key vn) Required = true -> is_zero tv = Ok z ->
  var_rule c tv vn b =
  Ok (if negb (match tv with VSlice _ _ _ [] | VArray _ _ [] => true | _ => false end) && negb z then b
      else put b [CValid [] [] [] (req_body (pk_msg vn) Required)]).
Proof. exact required_var. Qed.
Print Assumptions C03_required_var.

(* every other rule is simply not evaluated on a zero value, in all four validators *)
Theorem C03_zero_skip_struct : forall c rec sn fname fv vn b, is_zero fv = Ok true ->
  (exists f, get_fn c (pk_key vn) = FRule f) \/ (exists t, get_fn c (pk_key vn) = FMark t) ->
  on_rule c rec sn fname fv vn b = Ok b.
Proof. exact zero_skip_struct. Qed.
Theorem C03_zero_skip_var : forall c tv vn b, is_zero tv = Ok true ->
  (exists f, get_fn c (pk_key vn) = FRule f) \/ (exists t, get_fn c (pk_key vn) = FMark t) ->
  var_rule c tv vn b = Ok b.
Proof. exact zero_skip_var. Qed.
Print Assumptions C03_zero_skip_var.
Theorem C03_zero_skip_map : forall c prefix key v vn b, is_zero v = Ok true ->
  (exists f, get_fn c (pk_key vn) = FRule f) \/ (exists t, get_fn c (pk_key vn) = FMark t) ->
  map_rule c prefix key v vn b = Ok b.
Proof. exact zero_skip_map. Qed.
Print Assumptions C03_zero_skip_map.
Theorem C03_zero_skip_url : forall c key vn b,
  (exists f, get_fn c (pk_key vn) = FRule f) \/ (exists t, get_fn c (pk_key vn) = FMark t) ->
  url_rule c key [] vn b = Ok b.
Proof. exact zero_skip_url. Qed.
Print Assumptions C03_zero_skip_url.
Print Assumptions C03_zero_skip_struct.

(* a pointer to a non-empty scalar under required is not reported (the spurious "is not struct"
   clause of the pinned tree is gone) *)
Example C03_pointer_to_scalar :
  required (fun _ _ _ b => Ok b) (s2b "PP") (s2b "PS") [] (VPtr (VStr (s2b "abc"))) empty_buf = Ok empty_buf.
Proof. vm_compute. reflexivity. Qed.
