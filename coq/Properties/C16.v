(* C16 — programmatic rules and functions override declared ones, with documented scope.
   Statements only. *)
From PGV Require Import Base.Bytes Base.GoStr Base.GoNum Base.Utf8.
From PGV Require Import Extracted.SourceConst Extracted.SourceTable.
From PGV Require Import Model.RuleText Model.Value Model.Clause Model.Rules Model.Walk.
From PGV Require Import Proofs.RuleContract Proofs.WalkProofs Proofs.WalkProofs2.

(* the rule set in force: a set registered for the struct's type applies wherever the type occurs;
   the unscoped set applies to the outermost struct only, and only when no non-empty typed set
   exists for that type (observed behaviour, adopted where the property text is silent) *)
Theorem C16_scoping : forall c rec sn si fs g b,
  validate_body c rec sn (VStruct si fs) g b =
  on_fields c rec (match sn with [] => s_name si | _ => sn end)
            (effective_rules c (match sn with [] => true | _ => false end) (s_id si)) fs b.
Proof. exact scoping. Qed.
Print Assumptions C16_scoping.

(* a rule supplied for a field replaces its tag rule entirely; unmentioned fields keep their tag rules *)
Theorem C16_replaces_entirely : forall c rec sn cus fi fv fs b r0 r,
  f_time fi || negb (is_exported (f_name fi)) = false -> rm_get cus (f_name fi) = r0 :: r ->
  on_fields c rec sn cus ((fi, fv) :: fs) b =
  (b1 <- on_rules c rec sn (f_name fi) fv (names_split COMMA (r0 :: r)) b ;; on_fields c rec sn cus fs b1).
Proof. exact override_replaces. Qed.
Theorem C16_unmentioned_keeps_tag : forall c rec sn cus fi fv fs b t0 t,
  f_time fi || negb (is_exported (f_name fi)) = false -> rm_get cus (f_name fi) = [] ->
  tag_get (f_tags fi) (c_tag c) = t0 :: t ->
  on_fields c rec sn cus ((fi, fv) :: fs) b =
  (b1 <- on_rules c rec sn (f_name fi) fv (names_split COMMA (t0 :: t)) b ;; on_fields c rec sn cus fs b1).
Proof. exact unmentioned_keeps_tag. Qed.
Print Assumptions C16_unmentioned_keeps_tag.
Print Assumptions C16_replaces_entirely.

(* a name resolves to this call's function, else the globally registered one, else the built-in *)
Theorem C16_resolve_order : forall c name,
  get_fn c name =
  match lookup1 name (c_local c) with
  | Some r => match r with FnNil => FBuiltin | FnMark t => FMark t end
  | None =>
    match lookup1 name (c_global c) with
    | Some r => match r with FnNil => FBuiltin | FnMark t => FMark t end
    | None => match lookup1 name rule_table with
              | Some None => FBuiltin
              | Some (Some fname) => match fn_by_name (c_orc c) fname with Some f => FRule f | None => FErr end
              | None => FErr
              end
    end
  end.
Proof. exact resolve_order. Qed.
Print Assumptions C16_resolve_order.

(* an unknown name writes an error clause for that field; the field's other rules are still evaluated *)
Theorem C16_unknown_keeps_going : forall c rec sn fname fv vn vns b,
  vn <> [] -> get_fn c (pk_key vn) = FErr ->
  on_rules c rec sn fname fv (vn :: vns) b =
  on_rules c rec sn fname fv vns (put b [CField sn fname (FKnown (not_exist_text (pk_key vn)))]).
Proof. exact unknown_keeps_going. Qed.
Print Assumptions C16_unknown_keeps_going.

(* ---- from the source text (regenerated from /repo on every run): validCommon.getValidFn (valid/abstract.go), under the
   semantics of Model/GoWalk.v, looks the name up among this call's functions, then in the global table (registered
   functions shadow the built-ins there), and hands out the "is not exist" error otherwise — get_fn_pair is get_fn with
   the error made explicit; the getValidFn methods of the three flat walkers delegate to it word for word ---- *)
From PGV Require Import Base.MiniGo Extracted.SourceFnsWalk Model.GoWalk Proofs.GoWalkProofs.
Theorem C16_lookup_from_source : forall c rules name,
  run_get_valid_fn c rules fn_validCommon_getValidFn name = Some (get_fn_pair c name) /\
  fn_body fn_VVar_getValidFn = delegation /\ fn_body fn_VMap_getValidFn = delegation /\ fn_body fn_VUrl_getValidFn = delegation.
Proof. intros c rules name. split; [exact (get_valid_fn_from_source c rules name) | exact get_valid_fn_wrappers]. Qed.
Print Assumptions C16_lookup_from_source.

(* what the pair means: the error exactly when the model's lookup fails, else the model's function and no error *)
Theorem C16_lookup_pair_meaning : forall c name,
  (get_fn c name = FErr -> get_fn_pair c name = (WNil, WErr (Some (not_exist_text name)))) /\
  (get_fn c name <> FErr -> get_fn_pair c name = (WFnv (get_fn c name), WNil)).
Proof.
  intros c name. unfold get_fn_pair. destruct (get_fn c name); cbn [is_ferr]; split; intros H; try reflexivity; try discriminate H;
  contradiction H; reflexivity.
Qed.
Print Assumptions C16_lookup_pair_meaning.
