(* C19 — the injector never damages what it cannot process.
   This file holds statements only; every proof is one [exact].
   [parse] is the oracle for file.ParseFile up to its return (go/parser is not modelled): the
   theorems hold for every oracle. *)
From Coq Require Import Permutation.
From PGV Require Import Base.Bytes Base.GoStr.
From PGV Require Import Spec.InjectSpec Model.Inject Proofs.InjectProofs.

(* a name that does not end in .go: nothing is read, nothing is written *)
Theorem C19_non_go_untouched : forall parse (fs : fsys) (name : str),
  has_suffix name GO_SUFFIX = false -> handle_file parse fs name = Ok (fs, false).
Proof. exact non_go_untouched. Qed.
Print Assumptions C19_non_go_untouched.

(* a file that does not parse: the run returns before any write *)
Theorem C19_unparsable_untouched : forall parse (fs : fsys) (name b : str),
  fs_get fs name = Some b -> parse name b = None -> exists m, handle_file parse fs name = Ok (fs, m).
Proof. exact unparsable_untouched. Qed.
Print Assumptions C19_unparsable_untouched.

(* a path that is no regular file (missing, a directory matched by a pattern) *)
Theorem C19_missing_untouched : forall parse (fs : fsys) (name : str),
  fs_get fs name = None -> exists m, handle_file parse fs name = Ok (fs, m).
Proof. exact missing_untouched. Qed.
Print Assumptions C19_missing_untouched.

(* collecting areas never panics, whatever the declarations are: functions, grouped declarations
   (only the first type of a group is looked at), non-struct types, fields WITHOUT a tag literal,
   comments that only mention @tag.  lit_ok is go/parser's invariant that a tag is a string literal
   (two delimiters at least). *)
Theorem C19_collect_total : forall ds : list adecl, Forall decl_ok ds -> exists a, collect_decls ds = Ok a.
Proof. exact collect_decls_total. Qed.
Print Assumptions C19_collect_total.

(* D22, repaired by commit 73b4c2d: without the nil check the same abstract field is a panic *)
Theorem C19_nil_tag_refuted_before_repair :
  is_panic (collect_fields_nocheck [d22_field]) = true /\ collect_fields [d22_field] = Ok [].
Proof. exact d22_panics. Qed.
Print Assumptions C19_nil_tag_refuted_before_repair.

(* isolation: over distinct names, a run leaves every path with what ITS OWN step makes of ITS OWN
   original bytes; paths not named are untouched *)
Theorem C19_isolation : forall parse (names : list str), NoDup names -> forall fs : fsys,
  (forall n, In n names -> is_ok (file_step parse n (fs_get fs n)) = true) ->
  exists fs', handle_list parse fs names = Ok fs' /\
    forall q, if in_dec str_dec q names then file_step parse q (fs_get fs q) = Ok (fs_get fs' q)
              else fs_get fs' q = fs_get fs q.
Proof. exact handle_list_mapwise. Qed.
Print Assumptions C19_isolation.

Theorem C19_isolation_dir : forall parse (dir : str) (entries : list (str * bool)) (fs : fsys),
  NoDup (dir_names dir entries) ->
  (forall n, In n (dir_names dir entries) -> is_ok (file_step parse n (fs_get fs n)) = true) ->
  exists fs' m, handle_dir parse fs dir entries = Ok (fs', m) /\
    forall q, if in_dec str_dec q (dir_names dir entries) then file_step parse q (fs_get fs q) = Ok (fs_get fs' q)
              else fs_get fs' q = fs_get fs q.
Proof. exact handle_dir_mapwise. Qed.
Print Assumptions C19_isolation_dir.

Theorem C19_isolation_pattern : forall parse (names : list str) (fs : fsys), NoDup names ->
  (forall n, In n names -> is_ok (file_step parse n (fs_get fs n)) = true) ->
  exists fs', handle_pattern parse fs names = Ok (fs', negb (is_nil names)) /\
    forall q, if in_dec str_dec q names then file_step parse q (fs_get fs q) = Ok (fs_get fs' q)
              else fs_get fs' q = fs_get fs q.
Proof. exact handle_pattern_mapwise. Qed.
Print Assumptions C19_isolation_pattern.

(* in any order *)
Theorem C19_order_independent : forall parse (names names' : list str) (fs : fsys),
  NoDup names -> Permutation names names' ->
  (forall n, In n names -> is_ok (file_step parse n (fs_get fs n)) = true) ->
  exists fs1 fs2, handle_list parse fs names = Ok fs1 /\ handle_list parse fs names' = Ok fs2 /\
                  forall q, fs_get fs1 q = fs_get fs2 q.
Proof. exact handle_list_order. Qed.
Print Assumptions C19_order_independent.

(* the only thing that ends a run early is a panic while handling one file *)
Theorem C19_only_a_panic_stops : forall parse (names : list str) (fs : fsys),
  is_panic (handle_list parse fs names) = true ->
  exists n fs0, In n names /\ is_panic (handle_file parse fs0 n) = true.
Proof. exact handle_list_panic. Qed.
Print Assumptions C19_only_a_panic_stops.

(* a valid annotated file of C06's shape is a total step with C06's result, whatever surrounds it *)
Theorem C19_valid_file_processed : forall parse (name : str) (f : gofile) (areas : list area),
  wf_file f = true -> areas_of f = Ok areas -> parse name (render f) = Some areas ->
  has_suffix name GO_SUFFIX = true ->
  file_step parse name (Some (render f)) = Ok (Some (render (inject_file f))).
Proof. exact file_step_domain. Qed.
Print Assumptions C19_valid_file_processed.

(* non-vacuity: a directory with a text file, a broken .go file, a sub-directory and a valid annotated
   file, in an order that puts the unprocessable ones first; the valid file is still injected *)
Example C19_hypotheses_satisfiable :
  let good := s2b "package p
type A struct {
	N int `json:""n""` // @tag valid:""required""
}
" in
  let fs : fsys := [ (s2b "d/a.txt", s2b "// @tag a:""b"""); (s2b "d/b.go", s2b "package"); (s2b "d/z.go", good);
                     (s2b "d/sub/x.go", good) ] in
  let parse := fun (p b : str) => if str_eqb b good then Some [mkArea 28 44 (s2b "json:""n""") (s2b "valid:""required""")] else None in
  let entries := [ (s2b "a.txt", false); (s2b "b.go", false); (s2b "sub", true); (s2b "z.go", false) ] in
  NoDup (dir_names (s2b "d") entries) /\
  (forall n, In n (dir_names (s2b "d") entries) -> is_ok (file_step parse n (fs_get fs n)) = true) /\
  exists fs', handle_dir parse fs (s2b "d") entries = Ok (fs', true) /\
    fs_get fs' (s2b "d/a.txt") = fs_get fs (s2b "d/a.txt") /\
    fs_get fs' (s2b "d/b.go") = fs_get fs (s2b "d/b.go") /\
    fs_get fs' (s2b "d/sub/x.go") = fs_get fs (s2b "d/sub/x.go") /\
    fs_get fs' (s2b "d/z.go") = Some (s2b "package p
type A struct {
	N int `json:""n"" valid:""required""` // @tag valid:""required""
}
").
Proof.
  split; [|split].
  - vm_compute. repeat constructor; cbn; intuition discriminate.
  - intros n Hin. vm_compute in Hin. intuition (subst; vm_compute; reflexivity).
  - eexists. vm_compute. repeat split; reflexivity.
Qed.
