(* C13 — validation is total: bad input or bad rules yield an error, never a crash.
   Statements only.  The value universe [val] contains nil, typed nil pointers, nil elements in
   slices and maps, pointers to pointers, scalars, maps with any key kind, non-maps; rule texts and
   rule sets are arbitrary byte strings; registered functions are arbitrary (nil included).
   PARTIAL: the model writes Go's slicing / indexing with total list functions at the sites whose
   bounds were repaired or checked by reading (listed in DESIGN.md); a panic the model does not
   know shows up as a correspondence mismatch on the hostile-input stream, not in these theorems. *)
From PGV Require Import Base.Bytes Base.GoStr Base.GoNum Base.Utf8.
From PGV Require Import Model.RuleText Model.Value Model.Clause Model.Rules Model.Walk.
From PGV Require Import Proofs.WalkProofs Run.Run_Walk.

Theorem C13_struct_total : forall (c : cfg) (src : option val), wf_src src = true ->
  exists o, struct_valid c (S (S (match src with Some v => depth v | None => O end))) src = Ok o.
Proof. exact struct_valid_total. Qed.
Print Assumptions C13_struct_total.

Theorem C13_var_total : forall (c : cfg) (rules : list str) (src : option val), wf_src src = true ->
  exists o, var_valid c rules src = Ok o.
Proof. exact var_valid_total. Qed.
Print Assumptions C13_var_total.

Theorem C13_map_total : forall (c : cfg) (rules : rm) (src : option val), wf_src src = true ->
  exists o, map_valid c rules src = Ok o.
Proof. exact map_valid_total. Qed.
Print Assumptions C13_map_total.

Theorem C13_url_total : forall (c : cfg) (rules : rm) (src : option val),
  exists o, url_valid c rules src = Ok o.
Proof. exact url_valid_total. Qed.
Print Assumptions C13_url_total.

(* IsZero (the only reflect call of the model that can panic) is never applied to the invalid Value *)
Theorem C13_is_zero_total : forall v : val, wf_val v = true -> exists b, is_zero v = Ok b.
Proof. exact is_zero_total. Qed.
Print Assumptions C13_is_zero_total.

(* non-vacuity: typed nil pointer, nil element, pointer to pointer to nil, a non-map for Map *)
Example C13_examples :
  let nilp := VNilPtr (s2b "*main.T") in
  wf_src (Some nilp) = true /\
  struct_valid (cfg0 (s2b "valid") no_oracles) 3 (Some nilp) = Ok (OErrText (s2b "src ""*main.T"" is nil")) /\
  wf_src (Some (VSlice false KPtr (s2b "*main.T") [nilp])) = true /\
  struct_valid (cfg0 (s2b "valid") no_oracles) 4 (Some (VSlice false KPtr (s2b "*main.T") [nilp])) = Ok ONil /\
  map_valid (cfg0 (s2b "valid") no_oracles) [(s2b "a", s2b "required")] (Some (VInt WInt 3)) =
    Ok (OClauses [CField [] [] (FKnown (s2b "val must map"))]).
Proof. vm_compute. repeat split; reflexivity. Qed.

(* index and slice expressions of the functions re-derived from the source text never leave their
   bounds: ParseValidNameKV on every byte string, IsExported on every name (the empty one included)
   return normally under a semantics in which s[i] and s[i:j] out of range are run-time panics *)
From PGV Require Import Base.MiniGo Extracted.SourceFnsParse Model.GoParse Proofs.GoParseProofs.
Theorem C13_parser_never_panics : forall s : str, exists r, run_parse fn_ParseValidNameKV s = Some r.
Proof. exact parser_never_panics. Qed.
Print Assumptions C13_parser_never_panics.
Theorem C13_is_exported_never_panics : forall name : str, exists b, run_bool fn_IsExported name = Some b.
Proof. exact is_exported_never_panics. Qed.
Print Assumptions C13_is_exported_never_panics.

(* ---- from the source text (regenerated from /repo on every run): on a well-formed value the syntax tree of VVar.validate
   (valid/validvar.go), under the semantics of Model/GoWalk.v, returns normally — never a panic, never a form the semantics
   has no meaning for — for every configuration (any rule bytes, registered functions incl. nil) and every buffer, and what
   it has written is exactly the clauses of the variable's rules, in rule order ---- *)
From PGV Require Import Base.MiniGo Extracted.SourceFnsWalk Model.GoWalk Proofs.GoWalkProofs Proofs.GoWalkVar Proofs.GoWalkVarTotal.
Theorem C13_var_walker_source_total : forall (c : cfg) (rules : rm) (tv : val) (b : buf), wf_val tv = true ->
  run_var_validate c rules fn_VVar_validate tv b =
  Some (Ok {| b_cl := rev (var_clauses c rules tv) ++ b_cl b; b_gr := b_gr b |}).
Proof. exact var_walker_source_exact. Qed.
Print Assumptions C13_var_walker_source_total.
