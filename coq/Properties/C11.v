(* C11 — concurrent validations do not interfere.  Statements only.
   PARTIAL: goroutines are modelled as interleavings of atomic actions on the shared state (pool
   get / put, cache load / store, cache forgetting entries); the atomicity of those actions is
   C10 (the cache) and sync.Pool's own contract; real data races are searched with the race
   detector by the harness. *)
From PGV Require Import Base.Bytes Base.GoStr.
From PGV Require Import Model.RuleText Model.Value Model.Clause Model.Rules Model.Walk Model.Shared.
From PGV Require Import Proofs.SharedProofs.

(* every interleaving of any number of goroutines' shared actions keeps: pooled objects clean,
   cache entries correct (a goroutine stores only the analysis it computed, puts back only the
   object it cleaned) *)
Theorem C11_invariant : forall types acts s, sh_inv types s -> Forall (allowed types) acts ->
  sh_inv types (fold_left sh_step acts s).
Proof. exact interleaving_inv. Qed.
Print Assumptions C11_invariant.

(* so whatever a call reads from the shared state at any moment is what it reads when run alone:
   an object without anybody's rule map, and from the cache nothing or the right analysis; its
   result is then the cache-free, pool-free result (C08_validation_unchanged) *)
Theorem C11_isolated : forall types acts tag k, Forall (allowed types) acts ->
  let s := fold_left sh_step acts {| sh_pool := []; sh_cache := [] |} in
  stale_rules (snd (new_vstruct (sh_pool s) tag)) = false /\
  match assoc_get (sh_cache s) k with Some v => entry_ok types k v | None => True end.
Proof. exact reads_as_alone. Qed.
Print Assumptions C11_isolated.
