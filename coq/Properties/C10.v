(* C10 — the LRU cache is safe and linearizable under concurrent use.  Statements only.
   PARTIAL: these theorems are about an interleaving semantics with a reader/writer lock and the
   lock discipline EXTRACTED from cache.go on this run; the Go memory model, sync.RWMutex itself
   and the scheduler are outside (searched with the race detector by the harness). *)
From PGV Require Import Base.Bytes Spec.LRUSpec Model.LRU Model.Conc Model.ConcLRU.
From PGV Require Import Proofs.LRUProofs Proofs.ConcLRUProofs Proofs.LinProofs Proofs.C10Final Run.Run_C10.
From PGV Require Import Extracted.SourceLRU.
Open Scope Z_scope.

(* the summary extracted from the source passes the race-freedom test ... *)
Theorem C10_race_free_summary : race_freeb lru_methods = true /\ all_locked lru_methods = true.
Proof. exact (conj source_race_free source_all_locked). Qed.
Print Assumptions C10_race_free_summary.

(* ... hence in every reachable configuration of any number of threads calling Store, Load,
   Delete, Len, Dump, two threads inside method bodies never touch a common field with one of
   them writing (no data race in the model) *)
Theorem C10_no_race : forall c, reach lru_methods c -> forall t u m m', t <> u ->
  c t = Inside m -> c u = Inside m' -> conflict m m' = false.
Proof. exact source_no_race. Qed.
Print Assumptions C10_no_race.

(* every concurrent execution (bodies snapshot the shared state after their lock acquisition and
   commit when they leave) is linearizable: the completed calls in commit order — each commit lies
   between its call's invocation and return — are a legal sequential history of the model of
   C09 that ends in the current shared state *)
Theorem C10_linearizable : forall cap c, creach lru_methods cap c ->
  replay (init cap) (c_hist c) = (c_shared c, true).
Proof. exact source_linearizes. Qed.
Print Assumptions C10_linearizable.

(* at quiescence (indeed always) C09's internal consistency and capacity bound hold *)
Theorem C10_quiescent_inv : forall cap c, 0 <= cap -> creach lru_methods cap c ->
  (exists a, Inv (c_shared c) a) /\ Z.of_nat (length (lst (c_shared c))) <= cap /\
  len (c_shared c) = Z.of_nat (length (lst (c_shared c))).
Proof. exact source_quiescent. Qed.
Print Assumptions C10_quiescent_inv.

(* the checker applied to recorded histories is sound *)
Theorem C10_checker_sound : forall cap h,
  linearizableb_model cap h = true -> linearizable cstep (init cap) h.
Proof. exact linearizableb_model_sound. Qed.
Print Assumptions C10_checker_sound.

(* non-vacuity: a reachable configuration with a committed Store *)
Example C10_reachable_example :
  exists c, creach lru_methods 2 c /\ c_hist c <> [] /\ lst (c_shared c) <> [].
Proof.
  pose (mS := nth 0 lru_methods {| m_name := []; m_lock := MNone; m_reads := []; m_writes := [] |}).
  eexists. split.
  - eapply cr_step; [eapply cr_step; [eapply cr_step; [apply cr_init|]|]|].
    + apply (cs_call lru_methods _ 0%nat mS (COp (OStore 1 1))); try reflexivity. vm_compute. auto.
    + apply (cs_enter lru_methods _ 0%nat mS (COp (OStore 1 1))); try reflexivity.
      unfold ccan_enter. replace (m_lock mS) with MWrite by reflexivity.
      intros u m' o s _ H. cbn [c_th cinit] in H. unfold cupd in H. destruct (Nat.eqb u 0); discriminate H.
    + apply (cs_exit lru_methods _ 0%nat mS (COp (OStore 1 1)) (init 2)). reflexivity.
  - split; vm_compute; discriminate.
Qed.
