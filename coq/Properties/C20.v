(* C20 — the struct dumper emits well-formed JSON matching the standard encoder.
   This file holds statements only; every proof is one [exact]. *)
From Coq Require Import String.
From PGV Require Import Base.Bytes Base.GoNum Json.Grammar.
From PGV Require Import Model.DumpVal Model.Dump Spec.DumpSpec Proofs.DumpProofs Run.Run_C20.

(* Printing a document whose strings need no escapes and whose number literals are RFC 8259
   numbers, then parsing the text with the RFC 8259 parser, gives the document back: the printed
   text is well-formed JSON.  Every document, no size bound. *)
Theorem C20_wellformed : forall d : jdoc, jwfb d = true -> jparse (jprint d) = Some d.
Proof. exact jparse_jprint. Qed.
Print Assumptions C20_wellformed.

Theorem C20_wellformed_valid : forall d : jdoc, jwfb d = true -> jvalidb (jprint d) = true.
Proof. exact jvalidb_jprint. Qed.
Print Assumptions C20_wellformed_valid.

(* Decimal renderings of integers are JSON numbers (float renderings are an oracle: [dumpable]
   demands jnum_ok of the rendering the harness observed). *)
Theorem C20_int_literals : forall z : Z, jnum_ok (itoa z) = true.
Proof. exact jnum_ok_itoa. Qed.
Print Assumptions C20_int_literals.

Theorem C20_uint_literals : forall n : N, jnum_ok (utoa n) = true.
Proof. exact jnum_ok_utoa. Qed.
Print Assumptions C20_uint_literals.

(* Every value of the property's domain has a document under the specification, and that
   document is well-formed. *)
Theorem C20_domain_has_doc : forall v : val, dumpable v = true ->
  exists d, doc_of v = Some d /\ jwfb d = true.
Proof. exact dumpable_has_doc. Qed.
Print Assumptions C20_domain_has_doc.

(* On the property's domain the dumper prints exactly (compactly) the document of the standard
   encoder with the documented deviations.  Every value, every nesting depth; map entries in the
   order the iteration produced them on both sides. *)
Theorem C20_dump_is_doc : forall (v : val) (fuel : nat) (d : jdoc),
  dumpable v = true -> (depth v < fuel)%nat -> doc_of v = Some d -> dump fuel v = Ok (jprint d).
Proof. exact dump_is_doc. Qed.
Print Assumptions C20_dump_is_doc.

(* Hence the dump is well-formed JSON and decodes to that document. *)
Theorem C20_dump_wellformed : forall (v : val) (fuel : nat),
  dumpable v = true -> (depth v < fuel)%nat ->
  exists d out, doc_of v = Some d /\ dump fuel v = Ok out /\ jparse out = Some d /\ jvalidb out = true.
Proof. exact dump_wellformed. Qed.
Print Assumptions C20_dump_wellformed.

(* The fuel the correspondence runner passes is always enough. *)
Theorem C20_runner_fuel : forall v : val, dumpable v = true ->
  exists d, doc_of v = Some d /\ dump (S (depth v)) v = Ok (jprint d).
Proof. exact dump_never_out_of_fuel. Qed.
Print Assumptions C20_runner_fuel.

(* Why [dumpable] excludes []byte and field names with a non-ASCII capital initial: there the
   dumper's text is not the standard encoder's document (recorded as findings of C20). *)
Theorem C20_byte_slice_refuted :
  doc_of byte_slice_witness = Some (JObj [(s2b "B", JStr (s2b "AQI="))]) /\
  dump (S (depth byte_slice_witness)) byte_slice_witness = Ok (s2b "{""B"":[1,2]}").
Proof. exact byte_slice_differs. Qed.
Print Assumptions C20_byte_slice_refuted.

Theorem C20_nonascii_field_refuted :
  doc_of nonascii_field_witness = Some (JObj [([195; 132; 98]%N, JNum (s2b "3"))]) /\
  dump (S (depth nonascii_field_witness)) nonascii_field_witness = Ok (s2b "{}").
Proof. exact nonascii_field_differs. Qed.
Print Assumptions C20_nonascii_field_refuted.

(* non-vacuity: a nested struct with an empty struct, an unexported first field, unexported fields
   in the middle and at the end, a struct with no exported field, maps with int and string keys,
   nil map, nil pointer, nil / empty / populated slices, an array, bool, negative int, floats *)
Definition ex_f (n : string) : finfo := mkf (s2b n) true false false.
Definition ex_u (n : string) : finfo := mkf (s2b n) false false false.
Definition ex_inner : val :=
  VStruct (s2b "In") [(ex_u "a", VInt 1); (ex_f "B", VBool true); (ex_u "c", VOther);
                      (ex_f "D", VFloat false (s2b "0.5")); (ex_u "e", VStr [34%N])].
Definition ex_hidden : val := VStruct (s2b "H") [(ex_u "x", VInt 1); (ex_u "y", VIface None)].
Definition ex_val : val :=
  VStruct (s2b "T") [
    (ex_u "x", VInt 7);
    (ex_f "E", VStruct (s2b "E") []);
    (ex_f "H", ex_hidden);
    (ex_f "M", VMap false [(VInt (-3), VStr (s2b "v")); (VInt 4, VStr [])]);
    (ex_f "P", VNilPtr);
    (ex_f "S", VSlice false true []);
    (ex_f "S0", VSlice false false []);
    (ex_f "Q", VPtr ex_inner);
    (ex_f "L", VSlice false false [ex_inner; VStruct (s2b "E") []]);
    (ex_f "LP", VSlice false false [VPtr ex_inner; VNilPtr]);
    (ex_f "MS", VMap false [(VStr (s2b "k"), VArray [VUint 1; VUint 2])]);
    (ex_f "N", VMap true []);
    (ex_f "F", VFloat true (s2b "-0.1"));
    (ex_u "z", VOther)].

Example C20_hypotheses_satisfiable :
  dumpable (VPtr ex_val) = true /\
  dump (S (depth (VPtr ex_val))) (VPtr ex_val) =
    Ok (s2b "{""E"":{},""H"":{},""M"":{""-3"":""v"",""4"":""""},""P"":null,""S"":[],""S0"":[],""Q"":{""B"":""true"",""D"":0.5},""L"":[{""B"":""true"",""D"":0.5},{}],""LP"":[{""B"":""true"",""D"":0.5},null],""MS"":{""k"":[1,2]},""N"":{},""F"":-0.1}") /\
  option_map jprint (doc_of (VPtr ex_val)) = Some (match dump (S (depth (VPtr ex_val))) (VPtr ex_val) with Ok s => s | _ => [] end) /\
  check_spec (CDump (VPtr ex_val) (match run_dump (VPtr ex_val) with Ok s => s | _ => [] end) true true) = true.
Proof. vm_compute. repeat split; reflexivity. Qed.
