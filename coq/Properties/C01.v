(* C01 — size/comparison rules judge by the documented measure with exact boundaries.
   Statements only. *)
From PGV Require Import Base.Bytes Base.GoStr Base.GoNum Base.Utf8.
From PGV Require Import Model.RuleText Model.Value Model.Clause Model.Rules Spec.SizeSpec.
From PGV Require Import Proofs.SizeProofs Proofs.C01Final Run.Run_C01.
From PGV Require Import Spec.RuleTextSpec Proofs.NumProofs Proofs.C01Builder.
From PGV Require Import Base.MiniGo Extracted.SourceFnsSize Model.GoSize Proofs.GoSizeProofs.
From PGV Require Import Extracted.SourceFnsRule Model.GoRule Proofs.GoRuleProofs Proofs.GoHelperProofs.
Open Scope Z_scope.

(* to / oto: for EVERY rule text whose value the code parses to integer bounds lo~hi (negative,
   zero and lo > hi included), every object/field name and every non-zero value of a sized kind:
   a clause is written exactly when the measure lies outside [lo,hi] (to) or (lo,hi) (oto), and
   never more than one clause. *)
Theorem C01_verdict_exact_to_oto : forall he vn obj field v lo hi x,
  parse_tag_to (pk_val vn) (s2b "to") = inl (lo, hi) -> sizeable v = true -> measure v = Some x ->
  violated (to_like he vn obj field v) = negb (in_set (if he then RTo else ROTo) lo hi x) /\
  (length (to_like he vn obj field v) <= 1)%nat.
Proof. exact two_bound_rules. Qed.
Print Assumptions C01_verdict_exact_to_oto.

(* ge / gt / le / lt with the bound b the code reads from the rule text *)
Theorem C01_verdict_exact_one_sided : forall lower he rule vn obj field v x,
  sizeable v = true -> measure v = Some x ->
  let b := fst (atoi (pk_val vn)) in
  violated (one_sided lower he rule vn obj field v) =
    negb (in_set (if lower then (if he then RGe else RGt) else (if he then RLe else RLt)) b b x) /\
  (length (one_sided lower he rule vn obj field v) <= 1)%nat.
Proof. exact one_bound_rules. Qed.
Print Assumptions C01_verdict_exact_one_sided.

(* eq / noeq compare the measure for equality *)
Theorem C01_verdict_exact_eq_noeq : forall want vn obj field v x,
  sizeable v = true -> measure v = Some x ->
  violated (eq_like want vn obj field v) = negb (in_set (if want then REq else RNoEq) (fst (atoi (pk_val vn))) 0 x) /\
  (length (eq_like want vn obj field v) <= 1)%nat.
Proof. exact eq_rules. Qed.
Print Assumptions C01_verdict_exact_eq_noeq.

(* the verdict depends on the measure only: not on integer width, not on signedness, not on
   whether the number is carried as an integer or an (integral) float *)
Theorem C01_width_sign_independent : forall r lo hi v1 v2 x,
  sizeable v1 = true -> sizeable v2 = true -> measure v1 = Some x -> measure v2 = Some x ->
  core_verdict r lo hi v1 = core_verdict r lo hi v2.
Proof. exact width_sign_independent. Qed.
Print Assumptions C01_width_sign_independent.

(* the measure of a string is its number of characters under Go's decoding (an invalid byte is
   one character), not its number of bytes *)
Theorem C01_rune_measure : forall s mn mx,
  fst (valid_input_size mn mx (VStr s) true) =
    (Z.of_nat (length (decode s)) <? mn, mx <? Z.of_nat (length (decode s))).
Proof. reflexivity. Qed.
Print Assumptions C01_rune_measure.

(* the rule table of the source dispatches the eight names to the eight functions above *)
Theorem C01_rule_table : forallb (fun p => match Rules.lookup1 (fst p) Extracted.SourceTable.rule_table with
                                          | Some (Some f) => str_eqb f (snd p)
                                          | _ => false
                                          end) size_names = true.
Proof. exact table_ok. Qed.
Print Assumptions C01_rule_table.

(* FINITE statement (bounded as written): through the rule text — builder text, parser, Atoi —
   all 255 non-zero int8 and uint8 values x all bounds / bound pairs of sweep_window x 8 rules *)
Theorem C01_sweep_8bit : sweep_ok = true.
Proof. exact sweep_8bit. Qed.
Print Assumptions C01_sweep_8bit.

(* FROM THE SOURCE TEXT.  fn_validInputSize and fn_eq are the go/ast syntax trees of
   validInputSize (valid/common.go) and eq (valid/validfn.go), regenerated from /repo on every run
   (Extracted/SourceFns.v).  Under the semantics of Model/GoSize.v they compute, for EVERY pair of
   int64 bounds, every value and both modes, exactly what the hand-written model computes; and no
   run meets a statement or expression form the semantics does not know.  A change to either
   function that changes a verdict makes these proofs fail. *)
Theorem C01_size_from_source : forall mn mx v he, in_int64 mn = true -> in_int64 mx = true ->
  run_size fn_validInputSize mn mx v he = Some (valid_input_size mn mx v (he_mode he)).
Proof. exact size_from_source. Qed.
Print Assumptions C01_size_from_source.
Theorem C01_eq_from_source : forall n v, in_int64 n = true -> run_eq fn_eq n v = Some (eq_holds n v).
Proof. exact eq_from_source. Qed.
Print Assumptions C01_eq_from_source.
Theorem C01_source_never_stuck :
  forallb (fun k => forallb (fun he => no_stuck (sym_run fn_validInputSize k he)) [None; Some true; Some false])
          [KStr; KFlt true; KFlt false; KIntW W8; KIntW WInt; KUintW W8; KUintW WInt; KSlc; KOtherKind "Bool"] = true.
Proof. exact size_never_stuck. Qed.
Print Assumptions C01_source_never_stuck.

(* The eight rule functions To, OTo, Ge, Gt, Le, Lt, Eq, NoEq (valid/validfn.go) are glue around those pieces: read the
   rule text, read the bound(s), compare, and write one clause or nothing.  fn_To ... fn_NoEq are their syntax trees,
   regenerated on every run.  Under the semantics of Model/GoRule.v — where a call means the callee's model, each tied
   to the source by its own theorem (parser C14, size comparison and eq above, formatter C15, ToStr C05), the unit text
   U and the text FE of GetJoinFieldErr left abstract — each writes, for EVERY rule text, names and value, exactly the
   text of Proofs/GoRuleProofs.v: the bound on the right side, the closed or open mode, the custom message alone or the
   default wording.  A change that swaps a bound, a mode or a branch in any of them makes this proof fail. *)
Theorem C01_rule_functions_from_source : forall (orc : oracles) (U : val -> str) (FE : str -> str -> ftext -> str) (ST : str -> str) vn obj field v,
  run_rule orc U FE ST fn_To vn obj field v = Some (to_text U FE true vn obj field v) /\
  run_rule orc U FE ST fn_OTo vn obj field v = Some (to_text U FE false vn obj field v) /\
  run_rule orc U FE ST fn_Ge vn obj field v = Some (one_text U true true vn obj field v) /\
  run_rule orc U FE ST fn_Gt vn obj field v = Some (one_text U true false vn obj field v) /\
  run_rule orc U FE ST fn_Le vn obj field v = Some (one_text U false true vn obj field v) /\
  run_rule orc U FE ST fn_Lt vn obj field v = Some (one_text U false false vn obj field v) /\
  run_rule orc U FE ST fn_Eq vn obj field v = Some (eq_text U true vn obj field v) /\
  run_rule orc U FE ST fn_NoEq vn obj field v = Some (eq_text U false vn obj field v).
Proof. exact size_rules_from_source. Qed.
Print Assumptions C01_rule_functions_from_source.

(* ... and they write nothing exactly when the model's rule function (the one the theorems above judge) reports no
   clause: the verdict of the model IS the verdict of the source text *)
Theorem C01_rule_verdict_from_source : forall (orc : oracles) (U : val -> str) (FE : str -> str -> ftext -> str) (ST : str -> str),
  (forall o f t, FE o f t <> []) -> forall vn obj field v,
  (run_rule orc U FE ST fn_To vn obj field v = Some [] <-> rTo vn obj field v = []) /\
  (run_rule orc U FE ST fn_OTo vn obj field v = Some [] <-> rOTo vn obj field v = []) /\
  (run_rule orc U FE ST fn_Ge vn obj field v = Some [] <-> rGe vn obj field v = []) /\
  (run_rule orc U FE ST fn_Gt vn obj field v = Some [] <-> rGt vn obj field v = []) /\
  (run_rule orc U FE ST fn_Le vn obj field v = Some [] <-> rLe vn obj field v = []) /\
  (run_rule orc U FE ST fn_Lt vn obj field v = Some [] <-> rLt vn obj field v = []) /\
  (run_rule orc U FE ST fn_Eq vn obj field v = Some [] <-> rEq vn obj field v = []) /\
  (run_rule orc U FE ST fn_NoEq vn obj field v = Some [] <-> rNoEq vn obj field v = []).
Proof. exact size_rules_write_iff_clause. Qed.
Print Assumptions C01_rule_verdict_from_source.

(* the bound reader of to / oto: parseTagTo (valid/common.go), from its syntax tree regenerated on every run, computes the
   model's parse_tag_to on EVERY text — two parts around one '~', each read by strconv.Atoi (hand model atoi), the
   rule-writing error otherwise; and ReflectKindIsNum is the integer-kind test (with floats when asked) on every kind *)
Theorem C01_bound_reader_from_source : forall (s : str) (he : bool),
  run_parse_to fn_parseTagTo s he = Some (parse_tag_to s (if he then s2b "to" else s2b "oto")).
Proof. exact parse_tag_to_from_source. Qed.
Print Assumptions C01_bound_reader_from_source.
Theorem C01_kind_test_from_source : forall (k : String.string) (flags : list bool),
  run_kind_is_num fn_ReflectKindIsNum k flags =
  Some (kind_name_is_int k || (kind_name_is_float k && match flags with [] => false | b :: _ => b end)).
Proof. exact kind_is_num_from_source. Qed.
Print Assumptions C01_kind_test_from_source.

(* THROUGH THE RULE TEXT, unbounded: strconv.Itoa then strconv.Atoi is the identity on every int64,
   and for every pair of int64 bounds the text  key=lo~hi[|msg]  (resp. key=b[|msg]) written by the
   documented builder is read back by the rule function as exactly (lo, hi) (resp. b) and judged by
   it.  wf_rule is the builder's domain (C14); the Example below shows it is met. *)
Theorem C01_itoa_atoi : forall z, in_int64 z = true -> atoi (itoa z) = (z, false).
Proof. exact atoi_itoa. Qed.
Print Assumptions C01_itoa_atoi.
Theorem C01_to_oto_through_text : forall he key lo hi m obj field v x,
  in_int64 lo = true -> in_int64 hi = true -> not_bracketed key = true ->
  let r := {| r_key := key; r_val := itoa lo ++ TILDE ++ itoa hi; r_msg := m |} in
  wf_rule r = true -> sizeable v = true -> measure v = Some x ->
  violated (to_like he (RuleTextSpec.rule_text r) obj field v) = negb (in_set (if he then RTo else ROTo) lo hi x) /\
  (length (to_like he (RuleTextSpec.rule_text r) obj field v) <= 1)%nat.
Proof. exact two_bound_rules_text. Qed.
Print Assumptions C01_to_oto_through_text.
Theorem C01_one_sided_through_text : forall lower he rule key b m obj field v x,
  in_int64 b = true -> not_bracketed key = true ->
  let r := {| r_key := key; r_val := itoa b; r_msg := m |} in
  wf_rule r = true -> sizeable v = true -> measure v = Some x ->
  violated (one_sided lower he rule (RuleTextSpec.rule_text r) obj field v) =
    negb (in_set (if lower then (if he then RGe else RGt) else (if he then RLe else RLt)) b b x) /\
  (length (one_sided lower he rule (RuleTextSpec.rule_text r) obj field v) <= 1)%nat.
Proof. exact one_bound_rules_text. Qed.
Print Assumptions C01_one_sided_through_text.
Theorem C01_eq_noeq_through_text : forall want key b m obj field v x,
  in_int64 b = true -> not_bracketed key = true ->
  let r := {| r_key := key; r_val := itoa b; r_msg := m |} in
  wf_rule r = true -> sizeable v = true -> measure v = Some x ->
  violated (eq_like want (RuleTextSpec.rule_text r) obj field v) = negb (in_set (if want then REq else RNoEq) b 0 x) /\
  (length (eq_like want (RuleTextSpec.rule_text r) obj field v) <= 1)%nat.
Proof. exact eq_rules_text. Qed.
Print Assumptions C01_eq_noeq_through_text.
Example C01_text_hypotheses_satisfiable :
  let r := {| r_key := s2b "oto"; r_val := itoa (-9223372036854775808) ++ TILDE ++ itoa 9223372036854775807; r_msg := Some (s2b "M1") |} in
  wf_rule r = true /\ not_bracketed (r_key r) = true /\
  RuleTextSpec.rule_text r = s2b "oto=-9223372036854775808~9223372036854775807|M1".
Proof. vm_compute. repeat split; reflexivity. Qed.

(* non-vacuity: negative bounds, lo > hi, a multi-byte string, an unsigned value *)
Example C01_examples :
  parse_tag_to (pk_val (s2b "to=-3~5|M1")) (s2b "to") = inl (-3, 5) /\
  parse_tag_to (pk_val (s2b "oto=7~2")) (s2b "to") = inl (7, 2) /\
  sizeable (VStr (s2b "中文a")) = true /\ measure (VStr (s2b "中文a")) = Some (MInt 3) /\
  violated (rOTo (s2b "oto=1~3") [] [] (VStr (s2b "中文a"))) = true /\
  violated (rGt (s2b "gt=5") [] [] (VUint W8 5)) = true /\
  violated (rGe (s2b "ge=-1") [] [] (VUint W8 5)) = false.
Proof. vm_compute. repeat split; reflexivity. Qed.
