(* C02 — every violated rule is reported exactly once, in order; nil iff none.  Statements only. *)
From PGV Require Import Base.Bytes Base.GoStr Base.GoNum Base.Utf8.
From PGV Require Import Model.RuleText Model.Value Model.Clause Model.Rules Model.Walk.
From PGV Require Import Proofs.RuleContract Proofs.WalkProofs Proofs.WalkProofs2.

(* the result is nil exactly when no clause was written and no group is violated *)
Theorem C02_nil_iff : forall b, get_error b = ONil <-> (b_cl b = [] /\ eval_groups (rev (b_gr b)) = []).
Proof. exact get_error_nil_iff. Qed.
Print Assumptions C02_nil_iff.

(* the error is the clauses in the order they were written, cross-field group clauses last *)
Theorem C02_groups_last : forall b cs, get_error b = OClauses cs -> cs = rev (b_cl b) ++ eval_groups (rev (b_gr b)).
Proof. exact get_error_groups_last. Qed.
Print Assumptions C02_groups_last.

(* the walk never stops at the first failure and never reorders: the buffer only grows, every
   object graph (no invalid Value inside) is walked to the end *)
Theorem C02_append_only : forall c fuel sn v g b, wf_val v = true -> (depth v < fuel)%nat ->
  exists b', validate c fuel sn v g b = Ok b' /\ extends b b'.
Proof. exact (fun c fuel sn v g b Hw Hd => goodP_extends _ _ _ (validate_good c fuel sn v g Hw Hd) b). Qed.
Print Assumptions C02_append_only.

(* rules of a field are evaluated left to right, all of them; fields in declaration order *)
Theorem C02_rules_in_order : forall c rec sn fname fv vns1 vns2 b,
  on_rules c rec sn fname fv (vns1 ++ vns2) b =
  (b1 <- on_rules c rec sn fname fv vns1 b ;; on_rules c rec sn fname fv vns2 b1).
Proof. exact on_rules_app. Qed.
Theorem C02_fields_in_order : forall c rec sn cus fs1 fs2 b,
  on_fields c rec sn cus (fs1 ++ fs2) b = (b1 <- on_fields c rec sn cus fs1 b ;; on_fields c rec sn cus fs2 b1).
Proof. exact on_fields_app. Qed.
Print Assumptions C02_fields_in_order.

(* one rule instance, at most one clause, naming the offending field; a satisfied instance writes nothing
   (the rule functions themselves are characterised in C01 / C05) *)
Theorem C02_rule_instance_once : forall c rec sn fname fv vn f b,
  vn <> [] -> get_fn c (pk_key vn) = FRule f -> is_zero fv = Ok false ->
  on_rule c rec sn fname fv vn b = Ok (put b (f vn sn fname fv)) /\
  (length (f vn sn fname fv) <= 1)%nat /\
  (forall cl, In cl (f vn sn fname fv) -> clause_names cl = Some (sn, fname)).
Proof. exact rule_instance_once. Qed.
Print Assumptions C02_rule_instance_once.

(* every function of the rule table obeys the contract *)
Theorem C02_rule_contract : forall orc name f, fn_by_name orc name = Some f -> contract f.
Proof. exact table_contract. Qed.
Print Assumptions C02_rule_contract.

(* a group yields at most one clause *)
Theorem C02_group_once : forall ms, (length (eval_group ms) <= 1)%nat.
Proof. exact eval_group_once. Qed.

(* layout: a clause text is  "path" input "echo", <label> <message> ; clauses are joined by the
   separator by the caller (errors.New(strings.TrimSuffix(buf, ErrEndFlag))) *)
Example C02_layout :
  clause_text (CValid (s2b "T") (s2b "F") (s2b "abc") (VCustom (s2b "explain: M1"))) =
    Some (s2b """T.F"" input ""abc"", explain: M1") /\
  clause_text (CValid [] (s2b "F") [] (VCustom (s2b "说明: 必填"))) = Some (s2b """F"" input """", 说明: 必填").
Proof. vm_compute. split; reflexivity. Qed.
