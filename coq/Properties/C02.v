(* C02 — every violated rule is reported exactly once, in order; nil iff none.  Statements only. *)
From PGV Require Import Base.Bytes Base.GoStr Base.GoNum Base.Utf8.
From PGV Require Import Extracted.SourceConst.
From PGV Require Import Model.RuleText Model.Value Model.Clause Model.Rules Model.Walk.
From Coq Require Import Sorted.
From PGV Require Import Proofs.RuleContract Proofs.WalkProofs Proofs.WalkProofs2.
From PGV Require Import Spec.WalkAddr Proofs.WalkAddrProofs Proofs.FlatWalkProofs.
From PGV Require Import Base.Url.

(* the result is nil exactly when no clause was written and no group is violated *)
Theorem C02_nil_iff : forall b, get_error b = ONil <-> (b_cl b = [] /\ eval_groups (rev (b_gr b)) = []).
Proof. exact get_error_nil_iff. Qed.
Print Assumptions C02_nil_iff.

(* the error is the clauses in the order they were written, cross-field group clauses last *)
Theorem C02_groups_last : forall b cs, get_error b = OClauses cs -> cs = rev (b_cl b) ++ eval_groups (rev (b_gr b)).
Proof. exact get_error_groups_last. Qed.
Print Assumptions C02_groups_last.

(* the walk never stops at the first failure and never reorders: the buffer only grows, every
   object graph (no invalid Value inside) is walked to the end *)
Theorem C02_append_only : forall c fuel sn v g b, wf_val v = true -> (depth v < fuel)%nat ->
  exists b', validate c fuel sn v g b = Ok b' /\ extends b b'.
Proof. exact (fun c fuel sn v g b Hw Hd => goodP_extends _ _ _ (validate_good c fuel sn v g Hw Hd) b). Qed.
Print Assumptions C02_append_only.

(* rules of a field are evaluated left to right, all of them; fields in declaration order *)
Theorem C02_rules_in_order : forall c rec sn fname fv vns1 vns2 b,
  on_rules c rec sn fname fv (vns1 ++ vns2) b =
  (b1 <- on_rules c rec sn fname fv vns1 b ;; on_rules c rec sn fname fv vns2 b1).
Proof. exact on_rules_app. Qed.
Print Assumptions C02_rules_in_order.
Theorem C02_fields_in_order : forall c rec sn cus fs1 fs2 b,
  on_fields c rec sn cus (fs1 ++ fs2) b = (b1 <- on_fields c rec sn cus fs1 b ;; on_fields c rec sn cus fs2 b1).
Proof. exact on_fields_app. Qed.
Print Assumptions C02_fields_in_order.

(* one rule instance, at most one clause, naming the offending field; a satisfied instance writes nothing
   (the rule functions themselves are characterised in C01 / C05) *)
Theorem C02_rule_instance_once : forall c rec sn fname fv vn f b,
  vn <> [] -> get_fn c (pk_key vn) = FRule f -> is_zero fv = Ok false ->
  on_rule c rec sn fname fv vn b = Ok (put b (f vn sn fname fv)) /\
  (length (f vn sn fname fv) <= 1)%nat /\
  (forall cl, In cl (f vn sn fname fv) -> clause_names cl = Some (sn, fname)).
Proof. exact rule_instance_once. Qed.
Print Assumptions C02_rule_instance_once.

(* every function of the rule table obeys the contract *)
Theorem C02_rule_contract : forall orc name f, fn_by_name orc name = Some f -> contract f.
Proof. exact table_contract. Qed.
Print Assumptions C02_rule_contract.

(* a group yields at most one clause *)
Theorem C02_group_once : forall ms, (length (eval_group ms) <= 1)%nat.
Proof. exact eval_group_once. Qed.
Print Assumptions C02_group_once.

(* layout: a clause text is  "path" input "echo", <label> <message> ; clauses are joined by the
   separator by the caller (errors.New(strings.TrimSuffix(buf, ErrEndFlag))) *)
Example C02_layout :
  clause_text (CValid (s2b "T") (s2b "F") (s2b "abc") (VCustom (s2b "explain: M1"))) =
    Some (s2b """T.F"" input ""abc"", explain: M1") /\
  clause_text (CValid [] (s2b "F") [] (VCustom (s2b "说明: 必填"))) = Some (s2b """F"" input """", 说明: 必填").
Proof. vm_compute. split; reflexivity. Qed.

(* THE WHOLE WALK, at full strength.  Spec/WalkAddr.v says, without buffer, fuel or traversal, which
   addresses resolve to a rule instance of the object graph and what one instance writes by itself.
   For every configuration and every object graph (any depth and width): there is a list L of
   addresses, strictly increasing in the lexicographic order (declaration order of fields, then rule
   order, nested instances after the rule that opens them) and so without repetition, that holds
   exactly the resolving addresses, and the validator appends to its buffer exactly the contribution
   of each address of L, in that order -- it never stops early, never repeats, never invents. *)
Theorem C02_walk_exact : forall c fuel sn v g, wf_val v = true -> (depth v < fuel)%nat ->
  exists L : list (list nat),
    StronglySorted lex_lt L /\ NoDup L /\
    (forall a, In a L <-> resolve c a sn v <> None) /\
    forall b, validate c fuel sn v g b =
      Ok {| b_cl := rev (top_clause sn v g ++ flat_map (fun a => site_clauses c (resolve c a sn v)) L) ++ b_cl b;
            b_gr := rev (flat_map (fun a => site_members c (resolve c a sn v)) L) ++ b_gr b |}.
Proof. exact walk_exact. Qed.
Print Assumptions C02_walk_exact.

(* the entry point valid.Struct / ValidateStruct on a struct, pointers to one, or a slice / array /
   map of them: the error is exactly those clauses in that order, group clauses last, nil iff none *)
Theorem C02_struct_valid_exact : forall c fuel v rv, wf_val v = true -> (depth v < fuel)%nat -> strip_top v = inl rv ->
  exists L : list (list nat),
    StronglySorted lex_lt L /\ NoDup L /\
    (forall a, In a L <-> resolve_top c a rv <> None) /\
    struct_valid c fuel (Some v) =
      Ok (outcome_of (top_clause_of rv ++ flat_map (fun a => site_clauses c (resolve_top c a rv)) L)
                     (flat_map (fun a => site_members c (resolve_top c a rv)) L)).
Proof. exact struct_valid_exact. Qed.
Print Assumptions C02_struct_valid_exact.

(* the order is a strict total order on distinct addresses, so L is unique *)
Theorem C02_order_strict : (forall a, ~ lex_lt a a) /\ (forall a b d, lex_lt a b -> lex_lt b d -> lex_lt a d).
Proof. split; [exact lex_lt_irrefl|exact lex_lt_trans]. Qed.
Print Assumptions C02_order_strict.

(* non-vacuity: a struct with a violated scalar rule and a required slice of structs, the second
   element violating twice: the resolving addresses and what the entry point returns *)
Local Open Scope string_scope.
Definition ex_cfg : cfg := {| c_tag := s2b "valid"; c_typed := []; c_unscoped := None; c_local := []; c_global := []; c_orc := no_oracles |}.
Definition ex_fi (n t : String.string) : finfo := {| f_name := s2b n; f_tags := [(s2b "valid", s2b t)]; f_time := false |}.
Definition ex_inner (a : String.string) (n : Z) : val :=
  VStruct {| s_name := s2b "In"; s_tstr := s2b "main.In"; s_id := s2b "main.In" |}
    [(ex_fi "A" "to=2~3|MA,required|MR", VStr (s2b a)); (ex_fi "N" "ge=5|MN", VInt WInt n)].
Definition ex_outer : val :=
  VPtr (VStruct {| s_name := s2b "Out"; s_tstr := s2b "main.Out"; s_id := s2b "main.Out" |}
    [(ex_fi "S" "le=2|MS", VStr (s2b "abc"));
     (ex_fi "L" "required|ML", VSlice false KStruct (s2b "main.In") [ex_inner "ab" 7; ex_inner "abcd" 3])]).
Example C02_walk_example :
  map fst (enum_top ex_cfg 10 (VStruct {| s_name := s2b "Out"; s_tstr := s2b "main.Out"; s_id := s2b "main.Out" |}
    [(ex_fi "S" "le=2|MS", VStr (s2b "abc"));
     (ex_fi "L" "required|ML", VSlice false KStruct (s2b "main.In") [ex_inner "ab" 7; ex_inner "abcd" 3])]))
  = [[0;0]; [1;0]; [1;0;0;0;0]; [1;0;0;0;1]; [1;0;0;1;0]; [1;0;1;0;0]; [1;0;1;0;1]; [1;0;1;1;0]]%nat /\
  wf_val ex_outer = true /\
  option_map (fun o => match o with OClauses cs => map canon cs | _ => [] end)
    (match struct_valid ex_cfg 10 (Some ex_outer) with Ok o => Some o | _ => None end)
  = Some [s2b "Out.S" ++ US :: s2b "abc" ++ US :: s2b "C:explain: MS";
          s2b "Out.L[1].A" ++ US :: s2b "abcd" ++ US :: s2b "C:explain: MA";
          s2b "Out.L[1].N" ++ US :: s2b "3" ++ US :: s2b "C:explain: MN"].
Proof. vm_compute. repeat split; reflexivity. Qed.

(* THE OTHER THREE ENTRY POINTS, at full strength.  var_out / map_out / url_out say what ONE rule
   instance writes by itself (no buffer).  valid.Var, valid.Map on a string-keyed map and valid.Url
   return exactly the concatenation of those contributions in rule order, entry by entry /
   parameter by parameter in the order presented, group clauses last, nil iff none. *)
Theorem C02_var_exact : forall c rules v, wf_val v = true -> remove_ptr v <> VInvalid ->
  var_supported (kind (remove_ptr v)) = true ->
  rm_get (rm_set [] validVarFieldName rules) validVarFieldName <> [] ->
  var_valid c rules (Some v) =
    Ok (outcome_of (flat_map (var_out c (remove_ptr v))
                             (names_split COMMA (rm_get (rm_set [] validVarFieldName rules) validVarFieldName))) []).
Proof. exact var_valid_exact. Qed.
Print Assumptions C02_var_exact.
Theorem C02_map_exact : forall c rules v isnil t es, wf_val v = true -> rules <> [] ->
  remove_ptr v = VMap isnil KString t es ->
  map_valid c rules (Some v) =
    Ok (outcome_of
          (flat_map (fun e => flat_map (fun vn => fst (map_out c [] (str_of (fst e)) (snd e) vn)) (entry_rules rules (str_of (fst e)))) es)
          (flat_map (fun e => flat_map (fun vn => snd (map_out c [] (str_of (fst e)) (snd e) vn)) (entry_rules rules (str_of (fst e)))) es)).
Proof. exact map_valid_exact. Qed.
Print Assumptions C02_map_exact.
Theorem C02_url_exact : forall c rules s dec, query_unescape s = inl dec ->
  let query := match index QMARK dec with Some i => skipn (i + 1) dec | None => [] end in
  query <> [] ->
  url_valid c rules (Some (VStr s)) =
    Ok (outcome_of
          (flat_map (fun q => flat_map (fun vn => fst (url_out c (param_key q) (param_val q) vn)) (entry_rules rules (param_key q))) (split query AMP))
          (flat_map (fun q => flat_map (fun vn => snd (url_out c (param_key q) (param_val q) vn)) (entry_rules rules (param_key q))) (split query AMP))).
Proof. exact url_valid_exact. Qed.
Print Assumptions C02_url_exact.

(* "one rule instance writes at most one clause", FROM THE SOURCE TEXT of 29 rule functions (the size, string and content
   rules; see C15_message_discipline_from_source): for every rule text, names and value, the function returns and what it
   appended to the error buffer is nothing or the result of ONE call of GetJoinValidErrStr / GetJoinFieldErr on the
   field's own object and field name — one clause, naming its field. *)
From PGV Require Import Base.MiniGo Extracted.SourceFnsRule Extracted.SourceFnsFmt Model.GoRule Proofs.GoMsgDiscipline.
Theorem C02_one_clause_per_instance_from_source :
  forall (orc : oracles) (U : val -> str) (FE : str -> str -> ftext -> str) (ST : str -> str) f vn obj field v,
  In f rule_fns ->
  exists t, run_rule orc U FE ST f vn obj field v = Some t /\ shape FE ST vn obj field t.
Proof. exact message_discipline. Qed.
Print Assumptions C02_one_clause_per_instance_from_source.
