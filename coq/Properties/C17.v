(* C17 — either / botheq groups are judged per object, all-empty and all-equal.  Statements only. *)
From PGV Require Import Base.Bytes Base.GoStr Base.GoNum Base.Utf8.
From PGV Require Import Extracted.SourceConst.
From PGV Require Import Model.RuleText Model.Value Model.Clause Model.Rules Model.Walk.
From PGV Require Import Proofs.RuleContract Proofs.WalkProofs Proofs.WalkProofs2.

(* an either group (two or more members) is violated exactly when every member is empty; the one
   clause lists all members in declaration order *)
Theorem C17_either : forall ms m0 m1 rest, ms = m0 :: m1 :: rest -> str_eqb (pk_key (g_vn m0)) Either = true ->
  eval_group ms = if forallb (fun m => zero_b (g_val m)) ms
                  then [CGroup GEither (map (fun m => (g_obj m, g_field m)) ms)] else [].
Proof. exact either_all_empty. Qed.
(* a botheq group exactly when the members are not all equal (to the first) *)
Theorem C17_botheq : forall ms m0 m1 rest, ms = m0 :: m1 :: rest ->
  str_eqb (pk_key (g_vn m0)) Either = false -> str_eqb (pk_key (g_vn m0)) BothEq = true ->
  eval_group ms = if forallb (fun m => val_eqb (g_val m0) (g_val m)) (m1 :: rest)
                  then [] else [CGroup GBothEq (map (fun m => (g_obj m, g_field m)) ms)].
Proof. exact botheq_all_equal. Qed.
(* a group with a single member is a rule-writing error *)
Theorem C17_single_member : forall m0,
  str_eqb (pk_key (g_vn m0)) Either = true \/ str_eqb (pk_key (g_vn m0)) BothEq = true ->
  exists r, eval_group [m0] = [CField (g_obj m0) (g_field m0) (FRuleErr r)].
Proof. exact single_member_is_rule_error. Qed.
Print Assumptions C17_single_member.
Print Assumptions C17_either.
Print Assumptions C17_botheq.

(* groups are keyed by (object path, rule text): members of different objects — elements of a
   slice, nested objects, entries of a []map — never meet; each group is judged on its own members *)
Theorem C17_group_key_injective : forall o1 v1 o2 v2, nomem 0%N o1 = true -> nomem 0%N o2 = true ->
  gkey o1 v1 = gkey o2 v2 -> o1 = o2 /\ v1 = v2.
Proof. exact gkey_inj. Qed.
Theorem C17_independent : forall ms,
  eval_groups ms = flat_map (fun k => eval_group (filter (fun m => str_eqb (g_key m) k) ms)) (group_keys ms []).
Proof. exact groups_independent. Qed.
Print Assumptions C17_independent.
Print Assumptions C17_group_key_injective.

(* every member recorded while validating an object carries that object's path (struct input) *)
Theorem C17_members_of_their_object : forall c fuel sn v g b, wf_val v = true -> (depth v < fuel)%nat ->
  exists b', validate c fuel sn v g b = Ok b' /\
    exists cs gs, b_cl b' = cs ++ b_cl b /\ b_gr b' = gs ++ b_gr b /\
                  Forall (under sn) cs /\ Forall (gunder sn) gs.
Proof. exact clause_paths_extend. Qed.
Print Assumptions C17_members_of_their_object.
