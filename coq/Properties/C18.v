(* C18 — the same rule on the same value gives the same verdict through every entry point.
   Statements only.  Known findings: map[string]interface{} values are never unwrapped
   (C18-iface-map-values); the URL is unescaped before it is split (C18-url-reserved). *)
From PGV Require Import Base.Bytes Base.GoStr Base.GoNum Base.Utf8.
From PGV Require Import Model.RuleText Model.Value Model.Clause Model.Rules Model.Walk.
From PGV Require Import Proofs.RuleContract Proofs.WalkProofs Proofs.WalkProofs2.

(* for every rule text that resolves to a rule function and every non-zero value: the struct, the
   variable, the map and (for strings) the URL validator all hand the value to the same function,
   whose verdict does not depend on the object / field names it is given; only the path differs *)
Theorem C18_same_verdict : forall c vn f v s prefix key b1 b2 b3 b4 sn fname rec,
  vn <> [] -> get_fn c (pk_key vn) = FRule f -> is_zero v = Ok false ->
  exists cs1 cs2 cs3,
    on_rule c rec sn fname v vn b1 = Ok (put b1 cs1) /\
    var_rule c v vn b2 = Ok (put b2 cs2) /\
    map_rule c prefix key v vn b3 = Ok (put b3 cs3) /\
    violated cs1 = violated cs2 /\ violated cs2 = violated cs3 /\
    (v = VStr s -> s <> [] ->
     exists cs4, url_rule c key s vn b4 = Ok (put b4 cs4) /\ violated cs3 = violated cs4).
Proof. exact same_verdict_everywhere. Qed.
Print Assumptions C18_same_verdict.

(* the names never influence a verdict: every function of the rule table *)
Theorem C18_names_irrelevant : forall orc name f, fn_by_name orc name = Some f ->
  forall vn obj field obj' field' v, violated (f vn obj field v) = violated (f vn obj' field' v).
Proof. exact (fun orc name f H vn obj field obj' field' v => proj2 (proj2 (table_contract orc name f H vn obj field v)) obj' field'). Qed.
Print Assumptions C18_names_irrelevant.
