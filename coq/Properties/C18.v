(* C18 — the same rule on the same value gives the same verdict through every entry point.
   Statements only.  Known findings: map[string]interface{} values are never unwrapped
   (C18-iface-map-values); the URL is unescaped before it is split (C18-url-reserved). *)
From PGV Require Import Base.Bytes Base.GoStr Base.GoNum Base.Utf8.
From PGV Require Import Model.RuleText Model.Value Model.Clause Model.Rules Model.Walk.
From PGV Require Import Proofs.RuleContract Proofs.WalkProofs Proofs.WalkProofs2.

(* for every rule text that resolves to a rule function and every non-zero value: the struct, the
   variable, the map and (for strings) the URL validator all hand the value to the same function,
   whose verdict does not depend on the object / field names it is given; only the path differs *)
Theorem C18_same_verdict : forall c vn f v s prefix key b1 b2 b3 b4 sn fname rec,
  vn <> [] -> get_fn c (pk_key vn) = FRule f -> is_zero v = Ok false ->
  exists cs1 cs2 cs3,
    on_rule c rec sn fname v vn b1 = Ok (put b1 cs1) /\
    var_rule c v vn b2 = Ok (put b2 cs2) /\
    map_rule c prefix key v vn b3 = Ok (put b3 cs3) /\
    violated cs1 = violated cs2 /\ violated cs2 = violated cs3 /\
    (v = VStr s -> s <> [] ->
     exists cs4, url_rule c key s vn b4 = Ok (put b4 cs4) /\ violated cs3 = violated cs4).
Proof. exact same_verdict_everywhere. Qed.
Print Assumptions C18_same_verdict.

(* the names never influence a verdict: every function of the rule table *)
Theorem C18_names_irrelevant : forall orc name f, fn_by_name orc name = Some f ->
  forall vn obj field obj' field' v, violated (f vn obj field v) = violated (f vn obj' field' v).
Proof. exact (fun orc name f H vn obj field obj' field' v => proj2 (proj2 (table_contract orc name f H vn obj field v)) obj' field'). Qed.
Print Assumptions C18_names_irrelevant.

(* ---- from the source text (regenerated from /repo on every run): VVar.validate (valid/validvar.go), under the semantics
   of Model/GoWalk.v, IS the model's walker over the rules of a variable — for every configuration, rule map, value and
   buffer: "have no set rule" when nothing is set, otherwise the fold of var_rule over the split rule text (unknown
   name: error clause and go on; nil function: required by emptiness, any other name "is no support"; a rule function
   only on a non-zero value); and VVar.Valid as a whole is that followed by getError ---- *)
From PGV Require Import Base.MiniGo Extracted.SourceConst Extracted.SourceFnsWalk Model.GoWalk Proofs.GoWalkProofs Proofs.GoWalkVar Proofs.GoWalkVarFinal.
Theorem C18_var_walker_from_source : forall c rules tv b,
  run_var_validate c rules fn_VVar_validate tv b =
  Some (match rm_get rules validVarFieldName with
        | [] => Ok (put b [CField [] [] (FKnown (s2b "have no set rule"))])
        | vns => var_rules c tv (names_split COMMA vns) b
        end).
Proof. exact var_validate_from_source. Qed.
Print Assumptions C18_var_walker_from_source.

Theorem C18_var_entry_from_source : forall c rules (rs : list str) v,
  rules = rm_set [] validVarFieldName rs ->
  remove_ptr v <> VInvalid -> var_supported (kind (remove_ptr v)) = true ->
  match run_var_validate c rules fn_VVar_validate (remove_ptr v) empty_buf with
  | Some r => var_valid c rs (Some v) = (b <- r ;; Ok (get_error b))
  | None => False
  end.
Proof. exact var_valid_via_source. Qed.
Print Assumptions C18_var_entry_from_source.

(* VMap.getKey (valid/validmap.go) from the source text: the path of a map entry *)
Theorem C18_map_key_path_from_source : forall c rules prefix key,
  run_get_key c rules fn_VMap_getKey prefix key = Some (map_get_key prefix key).
Proof. exact get_key_from_source. Qed.
Print Assumptions C18_map_key_path_from_source.
