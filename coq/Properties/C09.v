(* C09 — the LRU cache behaves as a bounded least-recently-used map.  Statements only. *)
From PGV Require Import Base.Bytes Spec.LRUSpec Model.LRU Proofs.LRUProofs Proofs.LRUTimeProofs Proofs.C09Final.
From PGV Require Import Base.MiniGo Extracted.SourceFnsLRU Model.GoLRU Proofs.GoLRUProofs.
Open Scope Z_scope.

(* Every history of Store/Load/Delete/Len on a cache of capacity c >= 0: the model of cache.go
   returns, step by step, what the abstract most-recent-first list returns; the callback log
   is exactly the list of evicted / deleted (key, value) pairs, in order; the Dump order is the
   recency order; the size bound holds.  (rebuild branch of delete() included) *)
Theorem C09_refines : forall (c : Z) (ops : list op), 0 <= c ->
  let '(s, outs) := run (init c) ops in let '(a, outs', evs) := a_run c [] ops in
  outs = outs' /\ log s = evs /\ dump s = map snd a /\ Z.of_nat (length a) <= c.
Proof. exact refines_abstract. Qed.
Print Assumptions C09_refines.

(* node map and list stay in bijection (distinct keys, distinct element ids, same id sets) *)
Theorem C09_inv : forall (c : Z) (ops : list op), 0 <= c -> exists a, Inv (fst (run (init c) ops)) a.
Proof. exact reachable_inv. Qed.
Print Assumptions C09_inv.

(* the number of entries never exceeds c, capacity 0 included *)
Theorem C09_bounded : forall (c : Z) (ops : list op), 0 <= c ->
  let s := fst (run (init c) ops) in
  Z.of_nat (length (lst s)) <= c /\ length (nmap s) = length (lst s).
Proof. exact bounded. Qed.
Print Assumptions C09_bounded.

(* Len equals the number of live entries and is never the sentinel -1 *)
Theorem C09_len_exact : forall (c : Z) (ops : list op), 0 <= c ->
  let s := fst (run (init c) ops) in len s = Z.of_nat (length (lst s)) /\ 0 <= len s <= c.
Proof. exact len_exact. Qed.
Print Assumptions C09_len_exact.

(* Against the order-free timestamp specification: a Load hits exactly the keys the map holds and
   returns the value most recently stored; an overflowing insertion removes the entry whose last
   store-or-load is the OLDEST; every removal (eviction or Delete) is reported once, with its key
   and value, in order (C09_load_hits_live_latest, C09_evicts_least_recent,
   C09_callback_exactly_once in one statement about outputs and callback log). *)
Theorem C09_least_recently_used : forall (c : Z) (ops : list op), 0 <= c ->
  let '(s, outs) := run (init c) ops in let '(_, outs', evs) := t_run c 0 [] ops in
  outs = outs' /\ log s = evs.
Proof. exact refines_timestamps. Qed.
Print Assumptions C09_least_recently_used.

(* non-vacuity: a history with a re-store, an eviction, a hit, a miss, a delete *)
Example C09_example :
  let ops := [OStore 1 1; OStore 2 1; OStore 1 2; OStore 3 1; OLoad 1; OLoad 2; ODelete 3; OLen]%N in
  snd (run (init 2) ops) = [RNone; RNone; RNone; RNone; RLoad (Some 2%N); RLoad None; RNone; RLen 1]
  /\ log (fst (run (init 2) ops)) = [(2, 1); (3, 1)]%N.
Proof. vm_compute. split; reflexivity. Qed.

(* FROM THE SOURCE TEXT.  fn_LRUCache_Store / Load / Delete / delete / Len are the go/ast syntax
   trees of the methods of valid/cache.go, regenerated from /repo on every run
   (Extracted/SourceFns.v).  Under the semantics of Model/GoLRU.v, executing those bodies on any
   state that satisfies the cache invariant gives exactly the model's step, and therefore every
   history, from every capacity c >= 0, run through the extracted bodies equals the model's run —
   to which all the theorems above apply.  A change to cache.go that changes what a method computes
   (or uses a statement form the semantics does not know) makes these proofs fail. *)
Theorem C09_store_from_source : forall c a k v, Inv c a ->
  go_store fn_LRUCache_delete fn_LRUCache_Store k v c = Some (store k v c).
Proof. exact go_store_model. Qed.
Print Assumptions C09_store_from_source.
Theorem C09_load_from_source : forall c a k, Inv c a ->
  go_load fn_LRUCache_delete fn_LRUCache_Load k c = Some (load k c).
Proof. exact go_load_model. Qed.
Print Assumptions C09_load_from_source.
Theorem C09_delete_from_source : forall c a k, Inv c a ->
  go_delete fn_LRUCache_delete fn_LRUCache_Delete k c = Some (del k c).
Proof. exact go_delete_model. Qed.
Print Assumptions C09_delete_from_source.
Theorem C09_len_from_source : forall c, go_len fn_LRUCache_delete fn_LRUCache_Len c = Some (len c).
Proof. exact go_len_model. Qed.
Print Assumptions C09_len_from_source.
Theorem C09_histories_from_source : forall (c : Z) (ops : list op), 0 <= c ->
  go_run (init c) ops = Some (run (init c) ops).
Proof. exact go_run_init. Qed.
Print Assumptions C09_histories_from_source.
