(* C09 — the LRU cache behaves as a bounded least-recently-used map.  Statements only. *)
From PGV Require Import Base.Bytes Spec.LRUSpec Model.LRU Proofs.LRUProofs Proofs.LRUTimeProofs Proofs.C09Final.
Open Scope Z_scope.

(* Every history of Store/Load/Delete/Len on a cache of capacity c >= 0: the model of cache.go
   returns, step by step, what the abstract most-recent-first list returns; the callback log
   is exactly the list of evicted / deleted (key, value) pairs, in order; the Dump order is the
   recency order; the size bound holds.  (rebuild branch of delete() included) *)
Theorem C09_refines : forall (c : Z) (ops : list op), 0 <= c ->
  let '(s, outs) := run (init c) ops in let '(a, outs', evs) := a_run c [] ops in
  outs = outs' /\ log s = evs /\ dump s = map snd a /\ Z.of_nat (length a) <= c.
Proof. exact refines_abstract. Qed.
Print Assumptions C09_refines.

(* node map and list stay in bijection (distinct keys, distinct element ids, same id sets) *)
Theorem C09_inv : forall (c : Z) (ops : list op), 0 <= c -> exists a, Inv (fst (run (init c) ops)) a.
Proof. exact reachable_inv. Qed.
Print Assumptions C09_inv.

(* the number of entries never exceeds c, capacity 0 included *)
Theorem C09_bounded : forall (c : Z) (ops : list op), 0 <= c ->
  let s := fst (run (init c) ops) in
  Z.of_nat (length (lst s)) <= c /\ length (nmap s) = length (lst s).
Proof. exact bounded. Qed.
Print Assumptions C09_bounded.

(* Len equals the number of live entries and is never the sentinel -1 *)
Theorem C09_len_exact : forall (c : Z) (ops : list op), 0 <= c ->
  let s := fst (run (init c) ops) in len s = Z.of_nat (length (lst s)) /\ 0 <= len s <= c.
Proof. exact len_exact. Qed.
Print Assumptions C09_len_exact.

(* Against the order-free timestamp specification: a Load hits exactly the keys the map holds and
   returns the value most recently stored; an overflowing insertion removes the entry whose last
   store-or-load is the OLDEST; every removal (eviction or Delete) is reported once, with its key
   and value, in order (C09_load_hits_live_latest, C09_evicts_least_recent,
   C09_callback_exactly_once in one statement about outputs and callback log). *)
Theorem C09_least_recently_used : forall (c : Z) (ops : list op), 0 <= c ->
  let '(s, outs) := run (init c) ops in let '(_, outs', evs) := t_run c 0 [] ops in
  outs = outs' /\ log s = evs.
Proof. exact refines_timestamps. Qed.
Print Assumptions C09_least_recently_used.

(* non-vacuity: a history with a re-store, an eviction, a hit, a miss, a delete *)
Example C09_example :
  let ops := [OStore 1 1; OStore 2 1; OStore 1 2; OStore 3 1; OLoad 1; OLoad 2; ODelete 3; OLen]%N in
  snd (run (init 2) ops) = [RNone; RNone; RNone; RNone; RLoad (Some 2%N); RLoad None; RNone; RLen 1]
  /\ log (fst (run (init 2) ops)) = [(2, 1); (3, 1)]%N.
Proof. vm_compute. split; reflexivity. Qed.
