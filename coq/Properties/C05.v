(* C05 — format and content rules accept exactly their documented language.  Statements only.
   PARTIAL for the rules that delegate the decision to the standard library (ip*, dates, re,
   json, file, dir): what is proved is the wiring around the call, the layout builder and the
   pattern extraction; the repository's own regular expressions are proved in full against the
   trees regenerated from valid/init.go on every run. *)
From PGV Require Import Base.Bytes Base.GoStr Base.GoNum Base.Utf8 Regex.Re Regex.Rx.
From PGV Require Import Extracted.SourceRegex.
From PGV Require Import Model.RuleText Model.Value Model.Clause Model.Rules Spec.FormatSpec.
From PGV Require Import Proofs.RegexProofs Proofs.FormatProofs Proofs.C05Final Run.Run_C05.
Open Scope Z_scope.

(* ---- the repository's own regular expressions: every string ---- *)
Theorem C05_phone_re : forall s : str, match_string (pats PhoneRe) s = phone_spec (decode s).
Proof. exact phone_re_spec. Qed.
Print Assumptions C05_phone_re.
Theorem C05_email_re : forall s : str, match_string (pats EmailRe) s = email_spec (decode s).
Proof. exact email_re_spec. Qed.
Print Assumptions C05_email_re.
Theorem C05_idcard_re : forall s : str, match_string (pats IdCardRe) s = idcard_spec (decode s).
Proof. exact idcard_re_spec. Qed.
Print Assumptions C05_idcard_re.
Theorem C05_int_re : forall s : str, match_string (pats IntRe) s = digits_spec (decode s).
Proof. exact int_re_spec. Qed.
Print Assumptions C05_int_re.
Theorem C05_float_re : forall s : str, match_string (pats FloatRe) s = float_spec (decode s).
Proof. exact float_re_spec. Qed.
Print Assumptions C05_float_re.

(* ---- the rule functions: a clause exactly when the value is outside the language ---- *)
Theorem C05_phone : forall vn obj field s, violated (rPhone vn obj field (VStr s)) = negb (phone_spec (decode s)).
Proof. exact phone_rule. Qed.
Print Assumptions C05_phone.
Theorem C05_email : forall vn obj field s, violated (rEmail vn obj field (VStr s)) = negb (email_spec (decode s)).
Proof. exact email_rule. Qed.
Print Assumptions C05_email.
Theorem C05_idcard : forall vn obj field s, violated (rIDCard vn obj field (VStr s)) = negb (idcard_spec (decode s)).
Proof. exact idcard_rule. Qed.
Print Assumptions C05_idcard.
Theorem C05_int : forall vn obj field v b, in_language FInt v = Some b -> violated (rInt vn obj field v) = negb b.
Proof. exact int_rule. Qed.
Print Assumptions C05_int.
Theorem C05_float : forall vn obj field v b, in_language FFloat v = Some b -> violated (rFloat vn obj field v) = negb b.
Proof. exact float_rule. Qed.
Print Assumptions C05_float.
Theorem C05_ints : forall vn obj field v b, in_language (FInts (ints_sep vn)) v = Some b -> violated (rInts vn obj field v) = negb b.
Proof. exact ints_rule. Qed.
Theorem C05_unique : forall vn obj field v b, in_language FUnique v = Some b -> violated (rUnique vn obj field v) = negb b.
Proof. exact unique_rule. Qed.
Theorem C05_prefix : forall vn obj field s p, trim [QUOTE] (pk_val vn) = p ->
  violated (rPrefix vn obj field (VStr s)) = negb (has_prefix s p).
Proof. exact prefix_rule. Qed.
Print Assumptions C05_prefix.
Theorem C05_suffix : forall vn obj field s p, trim [QUOTE] (pk_val vn) = p ->
  violated (rSuffix vn obj field (VStr s)) = negb (has_suffix s p).
Proof. exact suffix_rule. Qed.
Print Assumptions C05_suffix.
Print Assumptions C05_ints.
Print Assumptions C05_unique.

(* in / include: for every rule text whose option list the code reads as opts; numbers are
   compared by their canonical decimal rendering *)
Theorem C05_in : forall vn obj field v opts b,
  pk_key vn <> s2b "include" -> in_opts (pk_val vn) = Some opts -> in_language (FIn opts) v = Some b ->
  violated (in_like vn obj field v) = negb b.
Proof. exact in_rule. Qed.
Print Assumptions C05_in.
Theorem C05_include : forall vn obj field s opts,
  pk_key vn = s2b "include" -> in_opts (pk_val vn) = Some opts ->
  violated (in_like vn obj field (VStr s)) = negb (existsb (fun o => contains s o) opts).
Proof. exact include_rule. Qed.
Print Assumptions C05_include.
(* the builder's (o1/o2/...) is read back as the options; PARTIAL: options without quotes and
   slashes (quoted options containing '/' are covered by the correspondence only) *)
Theorem C05_in_builder_partial : forall opts, opts <> [] ->
  Forall (fun o => o <> [] /\ nomem QUOTE o = true /\ nomem SLASH o = true) opts ->
  in_opts (LPAREN :: join1 SLASH opts ++ [RPAREN]) = Some opts.
Proof. exact builder_options. Qed.
Print Assumptions C05_in_builder_partial.

(* ---- dates: the layout handed to the parser, for every mask and separator triple ---- *)
Theorem C05_time_layout : forall (b0 b1 b2 b3 b4 b5 : bool) (a b c : str),
  let mask := (if b0 then 1 else 0) + (if b1 then 2 else 0) + (if b2 then 4 else 0)
              + (if b3 then 8 else 0) + (if b4 then 16 else 0) + (if b5 then 32 else 0) in
  get_time_fmt mask [a; b; c] = layout_spec mask a b c.
Proof. exact time_layout. Qed.
Print Assumptions C05_time_layout.

(* ---- wiring of the oracle-backed rules (any oracle) ---- *)
Theorem C05_ip_wiring : forall orc vn obj field s,
  violated (rIp orc vn obj field (VStr s)) = negb (fst (ip_lookup orc s)) /\
  violated (rIpv4 orc vn obj field (VStr s)) = negb (fst (ip_lookup orc s) && snd (ip_lookup orc s)) /\
  violated (rIpv6 orc vn obj field (VStr s)) = negb (fst (ip_lookup orc s) && negb (snd (ip_lookup orc s))).
Proof. exact ip_rules. Qed.
Print Assumptions C05_ip_wiring.
Theorem C05_json_wiring : forall orc vn obj field s, violated (rJson orc vn obj field (VStr s)) = negb (json_ok orc s).
Proof. exact json_rule. Qed.
Print Assumptions C05_json_wiring.
Theorem C05_file_dir_wiring : forall orc vn obj field s is_dir e, stat_lookup orc s = Some (is_dir, e) ->
  violated (rFile orc vn obj field (VStr s)) = is_dir /\ violated (rDir orc vn obj field (VStr s)) = negb is_dir.
Proof. exact file_dir_rules. Qed.
Print Assumptions C05_file_dir_wiring.
(* a path os.Stat cannot read (missing, dangling link) violates file and dir alike, with the rule's own message *)
Theorem C05_file_dir_missing : forall orc vn obj field s, stat_lookup orc s = None ->
  rFile orc vn obj field (VStr s) = [CValid obj field s (body_of (pk_msg vn) (s2b "stat"))] /\
  rDir orc vn obj field (VStr s) = [CValid obj field s (body_of (pk_msg vn) (s2b "stat"))].
Proof. exact file_dir_missing. Qed.
Print Assumptions C05_file_dir_missing.
Theorem C05_date_wiring : forall orc vn obj field s,
  violated (rYear orc vn obj field (VStr s)) = negb (time_ok orc (s2b "2006") s) /\
  violated (rYear2Month orc vn obj field (VStr s)) = negb (time_ok orc (s2b "2006" ++ date_split vn ++ s2b "01") s) /\
  violated (rDate orc vn obj field (VStr s)) =
    negb (time_ok orc (s2b "2006" ++ date_split vn ++ s2b "01" ++ date_split vn ++ s2b "02") s).
Proof. exact date_rules. Qed.
Print Assumptions C05_date_wiring.
Theorem C05_datetime_wiring : forall orc vn obj field s a b c, datetime_splits vn = [a; b; c] ->
  violated (rDatetime orc vn obj field (VStr s)) =
    negb (time_ok orc (s2b "2006" ++ a ++ s2b "01" ++ a ++ s2b "02" ++ b ++ s2b "15" ++ c ++ s2b "04" ++ c ++ s2b "05") s).
Proof. exact datetime_rule. Qed.
Print Assumptions C05_datetime_wiring.
(* re: the pattern given to the engine is the text between the protecting quotes, escaped quotes
   (backslash quote), alternation bars and commas included *)
Theorem C05_re_pattern : forall orc vn obj field s p msg_part,
  re_pat_okb p = true ->
  vn = s2b "re=" ++ QUOTE :: p ++ QUOTE :: msg_part ->
  violated (rRe orc vn obj field (VStr s)) = negb (re_ok orc p s).
Proof. exact (fun orc vn obj field s p m H => re_rule orc vn obj field s p m (re_pat_okb_sound p H) eq_refl). Qed.
Print Assumptions C05_re_pattern.

(* non-vacuity *)
Example C05_examples :
  phone_spec (decode (s2b "13812345678")) = true /\ phone_spec (decode (s2b "1,123456789")) = false /\
  email_spec (decode (s2b "a.b+c@x-y.example.com")) = true /\ email_spec (decode (s2b "a@b")) = false /\
  float_spec (decode (s2b "1x5")) = false /\ idcard_spec (decode (s2b "12345678901234567x")) = true /\
  in_opts (pk_val (s2b "in=(a/'b/c'/1)|M1")) = Some [s2b "a"; s2b "b/c"; s2b "1"] /\
  re_pat_okb (s2b "^x\'y|a,b$") = true /\
  datetime_splits (s2b "datetime='/,T,.'") = [s2b "/"; s2b "T"; s2b "."].
Proof. vm_compute. repeat split; reflexivity. Qed.

(* FROM THE SOURCE TEXT.  "in / unique compare numbers by their canonical decimal rendering": that rendering is ToStr
   (valid/common.go).  fn_ToStr is its go/ast syntax tree (a type switch), regenerated from /repo on every run; under
   the semantics of Model/GoToStr.v it returns, on every string, signed, unsigned, floating-point and boolean value,
   exactly the model's to_str (decimal digits of the exact value; for floats strconv's shortest 'f' text at the
   value's own precision), and fmt's %v for every other kind. *)
From PGV Require Import Base.MiniGo Extracted.SourceFnsToStr Model.GoToStr Proofs.GoToStrProofs.
Theorem C05_tostr_from_source : forall v, scalar v = true -> run_tostr fn_ToStr v = Some (to_str v).
Proof. exact tostr_from_source. Qed.
Print Assumptions C05_tostr_from_source.
Theorem C05_tostr_other_kinds : forall v, scalar v = false -> run_tostr fn_ToStr v = Some opaque_echo.
Proof. exact tostr_other. Qed.
Print Assumptions C05_tostr_other_kinds.

(* The string rule functions Phone, Email, IDCard, Ip, Ipv4, Ipv6, Year, Year2Month, Date, Prefix, Suffix
   (valid/validfn.go) and CheckFieldIsStr (valid/common.go): their go/ast syntax trees, regenerated on every run, under
   the semantics of Model/GoRule.v (a call means the callee's model; the three regular expressions are the translated
   patterns; net.ParseIP and time.Parse are the oracle tables; GetTimeFmt is get_time_fmt) write, for EVERY rule text,
   names and value of any kind, exactly the text of Proofs/GoFmtProofs.v: the kind error for a non-string, nothing for
   a member of the language, else the custom message alone or the default wording — with the right recogniser, the
   right IP family test, the right layout mask and separator for each rule.  A change that swaps a recogniser, a mask
   or a branch in any of them makes this proof fail. *)
From PGV Require Import Extracted.SourceFnsFmt Model.GoRule Proofs.GoFmtProofs.
Theorem C05_string_rules_from_source : forall (orc : oracles) (U : val -> str) (FE : str -> str -> ftext -> str) (ST : str -> str) vn obj field v,
  run_rule orc U FE ST fn_Phone vn obj field v = Some (str_text (s2b "it is not phone") (match_string (pats PhoneRe)) vn obj field v) /\
  run_rule orc U FE ST fn_Email vn obj field v = Some (str_text (s2b "it is not email") (match_string (pats EmailRe)) vn obj field v) /\
  run_rule orc U FE ST fn_IDCard vn obj field v = Some (str_text (s2b "it is not idcard") (match_string (pats IdCardRe)) vn obj field v) /\
  run_rule orc U FE ST fn_Ip vn obj field v = Some (str_text (s2b "it is not ip") (fun s => fst (ip_lookup orc s)) vn obj field v) /\
  run_rule orc U FE ST fn_Ipv4 vn obj field v =
    Some (str_text (s2b "it is not ipv4") (fun s => fst (ip_lookup orc s) && snd (ip_lookup orc s)) vn obj field v) /\
  run_rule orc U FE ST fn_Ipv6 vn obj field v =
    Some (str_text (s2b "it is not ipv6") (fun s => fst (ip_lookup orc s) && negb (snd (ip_lookup orc s))) vn obj field v) /\
  run_rule orc U FE ST fn_Year vn obj field v =
    Some (str_text (s2b "it is not year, eg: 1996") (time_ok orc (get_time_fmt 1 [])) vn obj field v) /\
  run_rule orc U FE ST fn_Year2Month vn obj field v =
    Some (str_text (s2b "it is not year2month, eg: 1996" ++ date_split vn ++ s2b "09")
                   (time_ok orc (get_time_fmt 3 [date_split vn])) vn obj field v) /\
  run_rule orc U FE ST fn_Date vn obj field v =
    Some (str_text (s2b "it is not date, eg: 1996" ++ date_split vn ++ s2b "09" ++ date_split vn ++ s2b "28")
                   (time_ok orc (get_time_fmt 7 [date_split vn])) vn obj field v) /\
  run_rule orc U FE ST fn_Prefix vn obj field v =
    Some (str_text (s2b "prefix is not ok") (fun s => has_prefix s (trim [QUOTE] (pk_val vn))) vn obj field v) /\
  run_rule orc U FE ST fn_Suffix vn obj field v =
    Some (str_text (s2b "suffix is not ok") (fun s => has_suffix s (trim [QUOTE] (pk_val vn))) vn obj field v).
Proof. exact str_rules_from_source. Qed.
Print Assumptions C05_string_rules_from_source.

(* ... and they write nothing exactly when the model's rule function (the one the language theorems above judge)
   reports no clause: the verdict of the model IS the verdict of the source text *)
Theorem C05_string_rules_verdict_from_source :
  forall (orc : oracles) (U : val -> str) (FE : str -> str -> ftext -> str) (ST : str -> str) vn obj field v,
  (run_rule orc U FE ST fn_Phone vn obj field v = Some [] <-> rPhone vn obj field v = []) /\
  (run_rule orc U FE ST fn_Email vn obj field v = Some [] <-> rEmail vn obj field v = []) /\
  (run_rule orc U FE ST fn_IDCard vn obj field v = Some [] <-> rIDCard vn obj field v = []) /\
  (run_rule orc U FE ST fn_Ip vn obj field v = Some [] <-> rIp orc vn obj field v = []) /\
  (run_rule orc U FE ST fn_Ipv4 vn obj field v = Some [] <-> rIpv4 orc vn obj field v = []) /\
  (run_rule orc U FE ST fn_Ipv6 vn obj field v = Some [] <-> rIpv6 orc vn obj field v = []) /\
  (run_rule orc U FE ST fn_Year vn obj field v = Some [] <-> rYear orc vn obj field v = []) /\
  (run_rule orc U FE ST fn_Year2Month vn obj field v = Some [] <-> rYear2Month orc vn obj field v = []) /\
  (run_rule orc U FE ST fn_Date vn obj field v = Some [] <-> rDate orc vn obj field v = []) /\
  (run_rule orc U FE ST fn_Prefix vn obj field v = Some [] <-> rPrefix vn obj field v = []) /\
  (run_rule orc U FE ST fn_Suffix vn obj field v = Some [] <-> rSuffix vn obj field v = []).
Proof. exact str_rules_write_iff_clause. Qed.
Print Assumptions C05_string_rules_verdict_from_source.

Theorem C05_check_str_from_source : forall (orc : oracles) obj field v,
  run_check_str orc fn_CheckFieldIsStr obj field v = Some (check_str_err obj field v).
Proof. exact check_str_from_source. Qed.
Print Assumptions C05_check_str_from_source.

(* Likewise Int, Float, Json, File and Dir: the kind dispatch (a string is matched against IntRe / FloatRe, an integer
   kind passes int, only a float kind passes float, everything else is echoed through ToStr), json.Valid and os.Stat
   through the oracle tables, the 256-byte cut and StrEscape of the json echo, and — after the repair a7bad91 — the
   custom message, else os.Stat's own text (ST, abstract), for a path that cannot be read. *)
Theorem C05_content_rules_from_source :
  forall (orc : oracles) (U : val -> str) (FE : str -> str -> ftext -> str) (ST : str -> str) vn obj field v,
  run_rule orc U FE ST fn_Int vn obj field v = Some (int_text vn obj field v) /\
  run_rule orc U FE ST fn_Float vn obj field v = Some (float_text vn obj field v) /\
  run_rule orc U FE ST fn_Json vn obj field v = Some (json_text orc vn obj field v) /\
  run_rule orc U FE ST fn_File vn obj field v = Some (file_text orc ST false vn obj field v) /\
  run_rule orc U FE ST fn_Dir vn obj field v = Some (file_text orc ST true vn obj field v).
Proof. exact content_rules_from_source. Qed.
Print Assumptions C05_content_rules_from_source.

Theorem C05_content_rules_verdict_from_source :
  forall (orc : oracles) (U : val -> str) (FE : str -> str -> ftext -> str) (ST : str -> str) vn obj field v,
  (run_rule orc U FE ST fn_Int vn obj field v = Some [] <-> rInt vn obj field v = []) /\
  (run_rule orc U FE ST fn_Float vn obj field v = Some [] <-> rFloat vn obj field v = []) /\
  (run_rule orc U FE ST fn_Json vn obj field v = Some [] <-> rJson orc vn obj field v = []) /\
  (run_rule orc U FE ST fn_File vn obj field v = Some [] <-> rFile orc vn obj field v = []) /\
  (run_rule orc U FE ST fn_Dir vn obj field v = Some [] <-> rDir orc vn obj field v = []).
Proof. exact content_rules_write_iff_clause. Qed.
Print Assumptions C05_content_rules_verdict_from_source.

(* In, Include and the function in() they share (valid/validfn.go).  in() takes the comparison as a function value; In
   passes func(a, b string) bool { return a == b }, Include passes strings.Contains — function literals the translator
   prints as such.  For EVERY comparison function g the body of in() — option list between the first '(' and the last
   ')' with its slice bounds, a non-string value rendered by ToStr (refused by include), the loop over
   ValidNamesSplit(options, '/') with protecting quotes trimmed and its break, custom message or default wording —
   writes in_text g (the loop by induction over the options); In and Include are in() with equality and containment. *)
From PGV Require Import Extracted.SourceFnsIn Proofs.GoInProofs.
Theorem C05_in_include_from_source :
  forall (orc : oracles) (U : val -> str) (FE : str -> str -> ftext -> str) (ST : str -> str) vn obj field v,
  (forall g, run_in orc U FE ST fn_in g vn obj field v = in_text FE g vn obj field v) /\
  run_rule orc U FE ST fn_In vn obj field v = in_text FE g_eq vn obj field v /\
  run_rule orc U FE ST fn_Include vn obj field v = in_text FE g_contains vn obj field v.
Proof. exact in_rules_from_source. Qed.
Print Assumptions C05_in_include_from_source.

(* ... and they write nothing exactly when the model's in_like (the function C05_in and C05_include judge) reports no clause *)
Theorem C05_in_include_verdict_from_source :
  forall (orc : oracles) (U : val -> str) (FE : str -> str -> ftext -> str) (ST : str -> str),
  (forall o f t, FE o f t <> []) -> forall vn obj field v,
  (str_eqb (pk_key vn) (s2b "include") = false ->
     (run_rule orc U FE ST fn_In vn obj field v = Some [] <-> in_like vn obj field v = [])) /\
  (str_eqb (pk_key vn) (s2b "include") = true ->
     (run_rule orc U FE ST fn_Include vn obj field v = Some [] <-> in_like vn obj field v = [])).
Proof. exact in_rules_write_iff_clause. Qed.
Print Assumptions C05_in_include_verdict_from_source.

(* Ints (valid/validfn.go), with its two loops: a string is split on the rule's separator (protecting quotes stripped, a
   comma by default; the loop stops at the first part that is no number), the elements of a slice or array are rendered
   by ToStr one after the other (a counted loop: every element is looked at, the echo "[a, b]" grows); an integer kind
   passes, any other kind is a rule-writing error.  From its syntax tree regenerated on every run, for EVERY rule text,
   names and value — both loops by induction — it writes ints_text, and nothing exactly when the model's rInts (the
   function C05_ints judges) reports no clause. *)
From PGV Require Import Extracted.SourceFnsInts Proofs.GoIntsProofs.
Theorem C05_ints_from_source :
  forall (orc : oracles) (U : val -> str) (FE : str -> str -> ftext -> str) (ST : str -> str) vn obj field v,
  run_rule orc U FE ST fn_Ints vn obj field v = Some (ints_text FE vn obj field v).
Proof. exact ints_rule_from_source. Qed.
Print Assumptions C05_ints_from_source.
Theorem C05_ints_verdict_from_source :
  forall (orc : oracles) (U : val -> str) (FE : str -> str -> ftext -> str) (ST : str -> str),
  (forall o f t, FE o f t <> []) -> forall vn obj field v,
  run_rule orc U FE ST fn_Ints vn obj field v = Some [] <-> rInts vn obj field v = [].
Proof. exact ints_rule_writes_iff_clause. Qed.
Print Assumptions C05_ints_verdict_from_source.

(* Unique (valid/validfn.go): the parts of a string split on ',', resp. the ToStr renderings of the elements of a slice or
   array — "numbers by their canonical decimal rendering" —, are put into a map[string]struct{} used as a set, and the
   rule holds when the set has as many keys as there were parts.  From its syntax tree regenerated on every run, both
   loops by induction, with the fact that such a set has length (distinct l) keys: it writes unique_text, and nothing
   exactly when the model's rUnique (the function C05_unique judges) reports no clause. *)
From PGV Require Import Proofs.GoUniqueProofs.
Theorem C05_unique_from_source :
  forall (orc : oracles) (U : val -> str) (FE : str -> str -> ftext -> str) (ST : str -> str) vn obj field v,
  run_rule orc U FE ST fn_Unique vn obj field v = Some (unique_text FE vn obj field v).
Proof. exact unique_rule_from_source. Qed.
Print Assumptions C05_unique_from_source.
Theorem C05_unique_verdict_from_source :
  forall (orc : oracles) (U : val -> str) (FE : str -> str -> ftext -> str) (ST : str -> str),
  (forall o f t, FE o f t <> []) -> forall vn obj field v,
  run_rule orc U FE ST fn_Unique vn obj field v = Some [] <-> rUnique vn obj field v = [].
Proof. exact unique_rule_writes_iff_clause. Qed.
Print Assumptions C05_unique_verdict_from_source.

(* Datetime (valid/validfn.go), "with default or custom separators": up to three separators from the comma list of the
   rule's value (protecting quotes stripped) replace "-", " ", ":" in order, a fourth and later ones are ignored (the loop
   with its break, by induction); the layout is GetTimeFmt(DateTimeFmt, separators...) — datetime_splits and mask 63 of
   C05_datetime_wiring —, time.Parse decides (oracle), the default wording spells an example with the separators in use
   (fmt.Sprintf with %s verbs).  From its syntax tree regenerated on every run. *)
From PGV Require Import Proofs.GoDatetimeProofs.
Theorem C05_datetime_from_source :
  forall (orc : oracles) (U : val -> str) (FE : str -> str -> ftext -> str) (ST : str -> str) vn obj field v,
  run_rule orc U FE ST fn_Datetime vn obj field v = Some (datetime_text orc vn obj field v) /\
  (run_rule orc U FE ST fn_Datetime vn obj field v = Some [] <-> rDatetime orc vn obj field v = []).
Proof. exact datetime_rule_from_source. Qed.
Print Assumptions C05_datetime_from_source.

(* Re (valid/validfn.go), the last of the rule functions: the pattern is what follows the first quote of the WHOLE rule
   text up to the first quote not preceded by a backslash — the byte loop `for ; i < l; i++` with its append, its
   return and its break is, by induction, the model's re_scan —; the message is parsed from the rule text with the
   pattern cut out (two slices, in range); regexp.MatchString decides (oracle).  From its syntax tree regenerated on
   every run, for every rule text of bytes, names and value; it writes nothing exactly when the model's rRe (the
   function C05_re_pattern judges) reports no clause. *)
From PGV Require Import Proofs.GoReProofs.
Theorem C05_re_from_source :
  forall (orc : oracles) (U : val -> str) (FE : str -> str -> ftext -> str) (ST : str -> str) vn obj field v,
  forallb (fun c => N.ltb c 256) vn = true ->
  run_rule orc U FE ST fn_Re vn obj field v = Some (re_text orc FE vn obj field v).
Proof. exact re_rule_from_source. Qed.
Print Assumptions C05_re_from_source.
Theorem C05_re_verdict_from_source :
  forall (orc : oracles) (U : val -> str) (FE : str -> str -> ftext -> str) (ST : str -> str),
  (forall o f t, FE o f t <> []) -> forall vn obj field v, forallb (fun c => N.ltb c 256) vn = true ->
  (run_rule orc U FE ST fn_Re vn obj field v = Some [] <-> rRe orc vn obj field v = []).
Proof. exact re_rule_writes_iff_clause. Qed.
Print Assumptions C05_re_verdict_from_source.

(* GetTimeFmt (valid/init.go), the layout builder every date rule hands to time.Parse: from its syntax tree regenerated
   on every run — the switch on the number of separators, the function literal joinFn with its two early returns, the
   six flag tests — it computes the model's get_time_fmt for every combination of the six flags (the only values its
   callers pass are such combinations) and every list of separators: none, one, two, three or more (ignored). *)
From PGV Require Import Extracted.SourceFnsTimeFmt Model.GoTimeFmt Proofs.GoTimeFmtProofs.
Theorem C05_timefmt_from_source :
  forall (y mo d h mi s : bool) (splits : list str),
  run_timefmt fn_GetTimeFmt (mask6 y mo d h mi s) splits = Some (get_time_fmt (mask6 y mo d h mi s) splits).
Proof. exact timefmt_from_source. Qed.
Print Assumptions C05_timefmt_from_source.
