(* C08 — the struct-type cache is transparent.  Statements only. *)
From PGV Require Import Base.Bytes Base.GoStr.
From PGV Require Import Model.RuleText Model.Value Model.Clause Model.Rules Model.Walk Model.Shared.
From PGV Require Import Proofs.SharedProofs.

(* For ANY cache whose loads return nothing or a value stored under that key (R is its
   representation invariant), every history of lookups — any keys (type, tag name), any order,
   first sight, hit, evicted and re-analysed — returns the fresh analysis of that type for that
   tag name. *)
Theorem C08_transparent : forall (types : str -> list finfo) (C : cache_impl) (R : cst C -> Prop),
  (forall s k s' r, R s -> c_load C s k = (s', r) -> R s' /\ match r with Some v => entry_ok types k v | None => True end) ->
  (forall s k v, R s -> entry_ok types k v -> R (c_store C s k v)) ->
  forall ks s, R s ->
  snd (lookups types C s ks) = map (fun k => analyse (snd k) (types (fst k))) ks /\ R (fst (lookups types C s ks)).
Proof. exact (fun types C R Hl Hs ks s HR => history_transparent types C R Hl Hs ks s HR). Qed.
Print Assumptions C08_transparent.

(* hence the validation of a struct value is the cache-free one *)
Theorem C08_validation_unchanged : forall (types : str -> list finfo) (C : cache_impl) (R : cst C -> Prop),
  (forall s k s' r, R s -> c_load C s k = (s', r) -> R s' /\ match r with Some v => entry_ok types k v | None => True end) ->
  (forall s k v, R s -> entry_ok types k v -> R (c_store C s k v)) ->
  forall s c rec sn cus tstr vals b, R s -> length vals = length (types tstr) ->
  on_fields_a c rec sn cus (snd (get_cached C s (tstr, c_tag c) (types tstr))) vals b =
  on_fields c rec sn cus (combine (types tstr) vals) b.
Proof. exact (fun types C R Hl Hs s c rec sn cus tstr vals b HR Hlen => struct_walk_transparent types C R Hl Hs s c rec sn cus tstr vals b HR Hlen). Qed.
Print Assumptions C08_validation_unchanged.

(* the caches the property names satisfy the hypotheses: a cache that forgets everything, an
   unbounded map, an LRU of ANY capacity (0 included) *)
Theorem C08_always_miss : forall types s k s' r, True -> c_load always_miss s k = (s', r) ->
  True /\ match r with Some v => entry_ok types k v | None => True end.
Proof. exact always_miss_lossy. Qed.
Print Assumptions C08_always_miss.
Theorem C08_unbounded_map : forall types s k s' r, all_ok types s -> c_load unbounded_map s k = (s', r) ->
  all_ok types s' /\ match r with Some v => entry_ok types k v | None => True end.
Proof. exact map_lossy. Qed.
Print Assumptions C08_unbounded_map.
Theorem C08_unbounded_map_store : forall types s k v, all_ok types s -> entry_ok types k v -> all_ok types (c_store unbounded_map s k v).
Proof. exact map_store_ok. Qed.
Print Assumptions C08_unbounded_map_store.
Theorem C08_lru_any_capacity : forall cap types s k s' r, all_ok types s -> c_load (lru_cache cap) s k = (s', r) ->
  all_ok types s' /\ match r with Some v => entry_ok types k v | None => True end.
Proof. exact lru_lossy. Qed.
Theorem C08_lru_store : forall cap types s k v, all_ok types s -> entry_ok types k v -> all_ok types (c_store (lru_cache cap) s k v).
Proof. exact lru_store_ok. Qed.
Print Assumptions C08_lru_store.
Print Assumptions C08_lru_any_capacity.

(* the tag name requested in the call decides: the key carries it *)
Example C08_tag_respected :
  let fis := [{| f_name := s2b "A"; f_tags := [(s2b "a", s2b "required"); (s2b "b", s2b "to=1~2")]; f_time := false |}] in
  let types := fun _ : str => fis in
  snd (lookups types (lru_cache 1) [] [(s2b "T", s2b "a"); (s2b "T", s2b "b"); (s2b "T", s2b "a")]) =
  [analyse (s2b "a") fis; analyse (s2b "b") fis; analyse (s2b "a") fis] /\
  analyse (s2b "a") fis <> analyse (s2b "b") fis.
Proof. vm_compute. split; [reflexivity|discriminate]. Qed.
