(* C12 — a call's result depends only on its own arguments and stays fixed afterwards.
   Statements only.  PARTIAL: "inputs unmodified" and "error text / tokens never change later" are
   about Go memory (aliasing of strings.Builder buffers and of the splitter's scratch slice); the
   functional model cannot exhibit them, they are carried by the correspondence harness, which deep
   copies inputs and re-reads earlier strings after thousands of later calls. *)
From PGV Require Import Base.Bytes Base.GoStr.
From PGV Require Import Model.RuleText Model.Value Model.Clause Model.Rules Model.Walk Model.Shared.
From PGV Require Import Proofs.SharedProofs.

(* an object taken from the pool carries nobody's rule map: earlier calls' rule overrides do not
   leak (free() clears them before Put; early returns never Put) *)
Theorem C12_pooled_object_fresh : forall pool tag, Forall (fun o => clean o = true) pool ->
  stale_rules (snd (new_vstruct pool tag)) = false /\ Forall (fun o => clean o = true) (fst (new_vstruct pool tag)).
Proof. exact new_vstruct_fresh. Qed.
Theorem C12_free_cleans : forall pool o, Forall (fun o => clean o = true) pool -> Forall (fun o => clean o = true) (free_vstruct pool o).
Proof. exact free_vstruct_clean. Qed.
Print Assumptions C12_free_cleans.
Print Assumptions C12_pooled_object_fresh.

(* any history of calls (a sequential history is one interleaving): what the next call reads from
   the shared state is what it reads in the initial state *)
Theorem C12_history_independent : forall types acts tag k, Forall (allowed types) acts ->
  let s := fold_left sh_step acts {| sh_pool := []; sh_cache := [] |} in
  stale_rules (snd (new_vstruct (sh_pool s) tag)) = false /\
  match assoc_get (sh_cache s) k with Some v => entry_ok types k v | None => True end.
Proof. exact reads_as_alone. Qed.
Print Assumptions C12_history_independent.

(* a per-call rule override is applied while walking, never written into the cached analysis: the
   value the cache keeps for (type, tag) is the analysis, whatever overrides the call carried *)
Theorem C12_override_on_copy : forall (types : str -> list finfo) (C : cache_impl) (R : cst C -> Prop),
  (forall s k s' r, R s -> c_load C s k = (s', r) -> R s' /\ match r with Some v => entry_ok types k v | None => True end) ->
  (forall s k v, R s -> entry_ok types k v -> R (c_store C s k v)) ->
  forall s k, R s -> snd (get_cached C s k (types (fst k))) = analyse (snd k) (types (fst k)) /\
                     R (fst (get_cached C s k (types (fst k)))).
Proof. exact (fun types C R Hl Hs s k HR => get_cached_ok types C R Hl Hs s k HR). Qed.
Print Assumptions C12_override_on_copy.

(* the validators themselves are functions of their arguments in the model (no hidden state):
   this file states what makes that a faithful model of the pooled, cached implementation *)
