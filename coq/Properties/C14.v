(* C14 — rule text round-trips through the builder, the splitter and the parser.
   This file holds statements only; every proof is one [exact]. *)
From PGV Require Import Base.Bytes Base.GoStr Base.Utf8.
From PGV Require Import Extracted.SourceConst.
From PGV Require Import Model.RuleText Spec.RuleTextSpec Proofs.RuleTextProofs Proofs.C14Final Run.Run_C14.
From PGV Require Import Base.MiniGo Extracted.SourceFnsParse Model.GoParse Proofs.GoParseProofs.
From PGV Require Import Extracted.SourceFnsSplit Model.GoSplit Proofs.GoSplitProofs.
From PGV Require Import Extracted.SourceFnsGen Proofs.GoGenProofs Proofs.GoRMProofs.

(* Splitting loses no characters: the pieces joined by the separator give back the text, up to
   one trailing separator.  For every byte string and every separator byte other than the quote
   (separators >= 0x80 are excluded: the code searches for their two-byte rune encoding). *)
Theorem C14_split_no_loss : forall (sep : byte) (s : str), sep <> QUOTE -> (sep < 128)%N ->
  join1 sep (names_split sep s) = s \/ join1 sep (names_split sep s) ++ [sep] = s.
Proof. exact split_no_loss. Qed.
Print Assumptions C14_split_no_loss.

(* Commas inside (balanced) single-quoted segments never split a rule: any list of non-empty
   pieces whose commas are all quoted is recovered exactly from its comma-joined text. *)
Theorem C14_quoted_commas : forall ps : list str, Forall piece_ok ps ->
  names_split COMMA (join1 COMMA ps) = ps.
Proof. exact quoted_commas_never_split. Qed.
Print Assumptions C14_quoted_commas.

(* The documented helper writes the documented text key[=value][|message]. *)
Theorem C14_builder_text : forall r : rule, wf_rule r = true ->
  gen_kv (r_key r) (args_of r) = rule_text r.
Proof. exact builder_text. Qed.
Print Assumptions C14_builder_text.

(* The parser recovers key, value and message, the message gaining only its label. *)
Theorem C14_gen_parse_partial : forall r : rule, wf_rule r = true ->
  parse_kv (rule_text r) = parsed_spec ExplainEn ExplainZh r.
Proof. exact parse_rule_text. Qed.
Print Assumptions C14_gen_parse_partial.

(* The whole pipeline the harness runs: GenValidKV per rule -> RM.Set (one call per rule) ->
   RM.Get -> ValidNamesSplit -> ParseValidNameKV returns the same rules, in order. *)
Theorem C14_list_roundtrip : forall (f : str) (rules : list (str * str * option str)),
  field_ok f -> forallb (fun x => wf_rule (to_rule x)) rules = true ->
  round_model f rules = map (fun x => parsed_spec ExplainEn ExplainZh (to_rule x)) rules.
Proof. exact round_model_roundtrip. Qed.
Print Assumptions C14_list_roundtrip.

(* Why "_partial": wf_rule demands a value without '|'.  That hypothesis is forced — the grammar
   has no escape for '|' — and is recorded as known finding D14: *)
Theorem C14_bar_in_value_refuted :
  parse_kv (gen_rule d14_rule) <> parsed_spec ExplainEn ExplainZh d14_rule.
Proof. exact bar_in_value_breaks. Qed.
Print Assumptions C14_bar_in_value_refuted.

(* non-vacuity: a concrete list with CJK, '=' '~' '/' in values, quoted commas and messages *)
Example C14_hypotheses_satisfiable :
  let rules := [ (s2b "required", [], Some (s2b "必填"));
                 (s2b "to", s2b "1~2", Some (s2b "a=b|c"));
                 (s2b "in", s2b "a/'b,c'", None);
                 (s2b "re", s2b "'^\d+,x$'", Some (s2b "x")) ] in
  forallb (fun x => wf_rule (to_rule x)) rules = true /\ field_ok (s2b "Name") /\
  round_model (s2b "Name") rules = map (fun x => parsed_spec ExplainEn ExplainZh (to_rule x)) rules.
Proof. vm_compute. repeat split; congruence. Qed.

(* FROM THE SOURCE TEXT.  fn_ParseValidNameKV is the go/ast syntax tree of ParseValidNameKV
   (valid/common.go), regenerated from /repo on every run (Extracted/SourceFns.v).  Under the semantics
   of Model/GoParse.v (strings.Index, slices with their run-time bounds, len, IncludeZhRe.MatchString,
   string concatenation) it computes, on EVERY byte string, exactly the model's parse_kv — to which the
   round-trip theorems above apply — and it never slices out of range. *)
Theorem C14_parser_from_source : forall s : str, run_parse fn_ParseValidNameKV s = Some (parse_kv s).
Proof. exact parse_from_source. Qed.
Print Assumptions C14_parser_from_source.

(* fn_ValidNamesSplit is the syntax tree of ValidNamesSplit (valid/common.go), regenerated on every run.  Under the
   semantics of Model/GoSplit.v (the for loop with its continue statements, the byte stack of internal/stack.go as
   modelled, strings.Split for the fast path) it computes the model's names_split on every text of bytes and every
   one-byte separator: the quote-aware splitter of the theorems above IS what the source text says. *)
Theorem C14_splitter_from_source : forall (s : str) (seps : list byte),
  forallb (fun c => N.ltb c 256) s = true -> (sep_of seps < 256)%N ->
  run_split fn_ValidNamesSplit s seps = Some (names_split (sep_of seps) s).
Proof. exact split_from_source. Qed.
Print Assumptions C14_splitter_from_source.

(* fn_GenValidKV is the syntax tree of GenValidKV (valid/rule.go), the documented helper that writes one rule,
   regenerated on every run.  Under the semantics of Model/GoParse.v (the variadic values, the pooled
   strings.Builder as the text written so far, the switch on the key, byte indexing with its run-time bound, && and ||
   evaluating their right operand only when needed) it computes the model's gen_kv for EVERY key and EVERY list of
   values — no guard on their shape — and never indexes out of range: the builder of the round-trip theorems above IS
   what the source text says. *)
Theorem C14_builder_from_source : forall (key : str) (values : list str),
  run_gen fn_GenValidKV key values = Some (gen_kv key values).
Proof. exact gen_from_source. Qed.
Print Assumptions C14_builder_from_source.

(* fn_RM_Set and fn_RM_Get are the syntax trees of (r RM) Set and (r RM) Get (valid/rule.go), regenerated on every run.
   Under the semantics of Model/GoParse.v (the map as the model's association list — only Get observes it —, the range
   loop over strings.Split(filedNames, ","), v, ok := r[k], r[k] = x, r[k] += x, strings.Join) they compute the model's
   rm_set and rm_get for EVERY rule map, field-name text and list of rules (rm_set by induction over the field names).
   With the three theorems above, every stage of the pipeline of C14_list_roundtrip is the source text's. *)
Theorem C14_rule_map_from_source : forall (r : rm) (fields field : str) (rules : list str),
  run_rm_set fn_RM_Set r fields rules = Some (rm_set r fields rules) /\
  run_rm_get fn_RM_Get r field = Some (rm_get r field).
Proof. exact (fun r fields field rules => conj (rm_set_from_source r fields rules) (rm_get_from_source r field)). Qed.
Print Assumptions C14_rule_map_from_source.
