(* C15 — custom messages replace the default text verbatim and can be extracted alone.
   Statements only.  The text format has no escaping: an echoed input that contains the separator
   (or a label) is outside [clean1]; with the repaired extractor the plain witness of the design
   round ("a; b" echoed) no longer yields a wrong result, so no finding is recorded for it. *)
From PGV Require Import Base.Bytes Base.GoStr Base.Utf8.
From PGV Require Import Extracted.SourceConst.
From PGV Require Import Model.RuleText Model.Value Model.Clause Model.Rules Model.Walk Model.Explain.
From PGV Require Import Spec.RuleTextSpec Spec.ExplainSpec.
From PGV Require Import Proofs.RuleTextProofs Proofs.RuleContract Proofs.C15Final Proofs.ExplainProofs.
From PGV Require Import Base.MiniGo Extracted.SourceFnsMsg Model.GoParse Proofs.GoMsgProofs.

(* the label: Chinese when the message contains a CJK character (the class of the source's
   IncludeZhRe), English otherwise; then one blank and the message unchanged *)
Theorem C15_label : forall m, label m = (if existsb is_cjk (decode m) then ExplainZh else ExplainEn) ++ 32%N :: m.
Proof. exact label_choice. Qed.
Print Assumptions C15_label.

(* a clause whose rule carried the custom message m reads: "path" input "echo", <label> m *)
Theorem C15_custom_verbatim : forall obj field echo m,
  clause_text (CValid obj field echo (VCustom (label m))) =
  Some (quoted_prefix (valid_path obj field) ++ s2b "input """ ++ echo ++ [DQ] ++ s2b ", " ++ label m).
Proof. exact custom_clause_text. Qed.
Print Assumptions C15_custom_verbatim.

(* FROM THE SOURCE TEXT.  fn_GetJoinValidErrStr is the go/ast syntax tree of GetJoinValidErrStr (valid/common.go), the
   function that words every rule violation, regenerated from /repo on every run.  Under the semantics of
   Model/GoParse.v (the pooled strings.Builder, strings.Contains, the range loop over the further texts with its
   continue) it computes the model's join_valid_err for EVERY object name, field name, echoed input and EVERY list of
   further texts — by induction over that list — and never indexes out of range. *)
Theorem C15_formatter_from_source : forall (obj field echo : str) (others : list str),
  run_join fn_GetJoinValidErrStr obj field echo others = Some (join_valid_err obj field echo others).
Proof. exact join_from_source. Qed.
Print Assumptions C15_formatter_from_source.

(* ... so the clause of C15_custom_verbatim is what the source writes for a custom message m as the parser hands it
   over (label m): the message verbatim behind its one label, then the clause separator *)
Theorem C15_custom_from_source : forall obj field echo m,
  run_join fn_GetJoinValidErrStr obj field echo [label m] =
  Some (quoted_prefix (valid_path obj field) ++ s2b "input """ ++ echo ++ [DQ] ++ s2b ", " ++ label m ++ ErrEndFlag).
Proof. exact custom_from_source. Qed.
Print Assumptions C15_custom_from_source.

(* every rule function that supports a message: its clause carries the message of the rule text
   when there is one and the default wording only when there is none *)
Theorem C15_message_or_default :
  (forall r ok, body_discipline (str_rule r ok)) /\ (forall he, body_discipline (to_like he)) /\
  (forall l he r, body_discipline (one_sided l he r)) /\ (forall w, body_discipline (eq_like w)) /\
  body_discipline in_like /\ body_discipline rInt /\ body_discipline rFloat /\ body_discipline rInts /\
  body_discipline rUnique.
Proof.
  exact (conj str_rule_disc (conj to_like_disc (conj one_sided_disc (conj eq_like_disc
        (conj in_like_disc (conj rInt_disc (conj rFloat_disc (conj rInts_disc rUnique_disc)))))))).
Qed.
Print Assumptions C15_message_or_default.

(* the extractor: for any number and any order of Chinese-labelled, English-labelled and unlabelled
   clauses (each clean: its own label comes first, no separator inside), the result is exactly the
   explanations of the clauses that have one, in order, joined by the separator, none trailing *)
Theorem C15_extract : forall cs, cs <> [] -> Forall clean1 cs -> join ErrEndFlag (map render1 cs) <> [] ->
  only_explain (join ErrEndFlag (map render1 cs)) = join ErrEndFlag (explanations cs).
Proof. exact extract_exact. Qed.
Print Assumptions C15_extract.

(* non-vacuity: the three witnesses of the repaired defect (unlabelled before labelled, English
   before Chinese, trailing unlabelled) *)
Example C15_examples :
  let u := Unlabelled (s2b "valid ""zz"" is not exist, You can call SetValidFn") in
  let e := Labelled (s2b """A"" input """", ") ExplainEn (s2b "foo") in
  let z := Labelled (s2b """B"" input ""x"", ") ExplainZh (s2b "中文") in
  Forall clean1 [u; e] /\ Forall clean1 [e; z] /\ Forall clean1 [e; u] /\
  only_explain (join ErrEndFlag (map render1 [u; e])) = s2b "foo" /\
  only_explain (join ErrEndFlag (map render1 [e; z])) = s2b "foo; 中文" /\
  only_explain (join ErrEndFlag (map render1 [e; u])) = s2b "foo".
Proof.
  repeat split; try (vm_compute; reflexivity);
    repeat (constructor; [split; vm_compute; reflexivity|]); constructor.
Qed.
