(* C15 — custom messages replace the default text verbatim and can be extracted alone.
   Statements only.  The text format has no escaping: an echoed input that contains the separator
   (or a label) is outside [clean1]; with the repaired extractor the plain witness of the design
   round ("a; b" echoed) no longer yields a wrong result, so no finding is recorded for it. *)
From PGV Require Import Base.Bytes Base.GoStr Base.Utf8.
From PGV Require Import Extracted.SourceConst.
From PGV Require Import Model.RuleText Model.Value Model.Clause Model.Rules Model.Walk Model.Explain.
From PGV Require Import Spec.RuleTextSpec Spec.ExplainSpec.
From PGV Require Import Proofs.RuleTextProofs Proofs.RuleContract Proofs.C15Final Proofs.ExplainProofs.
From PGV Require Import Base.MiniGo Extracted.SourceFnsMsg Model.GoParse Proofs.GoMsgProofs.
From PGV Require Import Extracted.SourceFnsParse Proofs.GoParseProofs Extracted.SourceFnsRule Extracted.SourceFnsFmt Model.GoRule Proofs.GoMsgDiscipline Proofs.GoExplainProofs.

(* the label: Chinese when the message contains a CJK character (the class of the source's
   IncludeZhRe), English otherwise; then one blank and the message unchanged *)
Theorem C15_label : forall m, label m = (if existsb is_cjk (decode m) then ExplainZh else ExplainEn) ++ 32%N :: m.
Proof. exact label_choice. Qed.
Print Assumptions C15_label.

(* a clause whose rule carried the custom message m reads: "path" input "echo", <label> m *)
Theorem C15_custom_verbatim : forall obj field echo m,
  clause_text (CValid obj field echo (VCustom (label m))) =
  Some (quoted_prefix (valid_path obj field) ++ s2b "input """ ++ echo ++ [DQ] ++ s2b ", " ++ label m).
Proof. exact custom_clause_text. Qed.
Print Assumptions C15_custom_verbatim.

(* FROM THE SOURCE TEXT.  fn_GetJoinValidErrStr is the go/ast syntax tree of GetJoinValidErrStr (valid/common.go), the
   function that words every rule violation, regenerated from /repo on every run.  Under the semantics of
   Model/GoParse.v (the pooled strings.Builder, strings.Contains, the range loop over the further texts with its
   continue) it computes the model's join_valid_err for EVERY object name, field name, echoed input and EVERY list of
   further texts — by induction over that list — and never indexes out of range. *)
Theorem C15_formatter_from_source : forall (obj field echo : str) (others : list str),
  run_join fn_GetJoinValidErrStr obj field echo others = Some (join_valid_err obj field echo others).
Proof. exact join_from_source. Qed.
Print Assumptions C15_formatter_from_source.

(* ... so the clause of C15_custom_verbatim is what the source writes for a custom message m as the parser hands it
   over (label m): the message verbatim behind its one label, then the clause separator *)
Theorem C15_custom_from_source : forall obj field echo m,
  run_join fn_GetJoinValidErrStr obj field echo [label m] =
  Some (quoted_prefix (valid_path obj field) ++ s2b "input """ ++ echo ++ [DQ] ++ s2b ", " ++ label m ++ ErrEndFlag).
Proof. exact custom_from_source. Qed.
Print Assumptions C15_custom_from_source.

(* GetJoinFieldErr (valid/common.go), the clause of a rule that cannot be read, likewise from its syntax tree (a type switch
   on the error argument: a string, an error, anything else): quoted path, the text, the separator — never empty, so a
   rule-writing error is never silent (the FE of the rule-function theorems of C01 / C05 can be taken to be this) *)
Theorem C15_field_error_from_source : forall obj field : str,
  (forall t, run_field_err fn_GetJoinFieldErr obj field (PS t) = Some (field_err_text obj field (PS t))) /\
  (forall t, run_field_err fn_GetJoinFieldErr obj field (PE t) = Some (field_err_text obj field (PE t))) /\
  run_field_err fn_GetJoinFieldErr obj field PO = Some (field_err_text obj field PO).
Proof. exact field_err_from_source. Qed.
Print Assumptions C15_field_error_from_source.

(* ... and the label is chosen by the parser from the MESSAGE alone: ParseValidNameKV's syntax tree, regenerated on every
   run, computes parse_kv (whose message part is label m, see C15_label) on every rule text — a CJK rule argument does
   not decide it *)
Theorem C15_parser_from_source : forall s : str, run_parse fn_ParseValidNameKV s = Some (parse_kv s).
Proof. exact parse_from_source. Qed.
Print Assumptions C15_parser_from_source.

(* THE DISCIPLINE, FROM THE SOURCE TEXT OF 29 RULE FUNCTIONS (to oto ge gt le lt eq noeq phone email idcard ip ipv4 ipv6
   year year2month date prefix suffix int float json file dir ints unique in include datetime; re is hand-modelled):
   for every rule text, names and value each of them returns, and what it wrote is nothing, or ONE clause of
   GetJoinValidErrStr whose explanation is the rule's message alone when the rule text has one (sh_custom) and the default
   wording behind the English label only when it has none (sh_default; for an unreadable path os.Stat's text, sh_stat);
   the exceptions come before the message is looked at: a value of the wrong kind (sh_kind), a rule that cannot be
   read (sh_rule). *)
Theorem C15_message_discipline_from_source :
  forall (orc : oracles) (U : val -> str) (FE : str -> str -> ftext -> str) (ST : str -> str) f vn obj field v,
  In f rule_fns ->
  exists t, run_rule orc U FE ST f vn obj field v = Some t /\ shape FE ST vn obj field t.
Proof. exact message_discipline. Qed.
Print Assumptions C15_message_discipline_from_source.

(* every rule function that supports a message: its clause carries the message of the rule text
   when there is one and the default wording only when there is none *)
Theorem C15_message_or_default :
  (forall r ok, body_discipline (str_rule r ok)) /\ (forall he, body_discipline (to_like he)) /\
  (forall l he r, body_discipline (one_sided l he r)) /\ (forall w, body_discipline (eq_like w)) /\
  body_discipline in_like /\ body_discipline rInt /\ body_discipline rFloat /\ body_discipline rInts /\
  body_discipline rUnique.
Proof.
  exact (conj str_rule_disc (conj to_like_disc (conj one_sided_disc (conj eq_like_disc
        (conj in_like_disc (conj rInt_disc (conj rFloat_disc (conj rInts_disc rUnique_disc)))))))).
Qed.
Print Assumptions C15_message_or_default.

(* the extractor: for any number and any order of Chinese-labelled, English-labelled and unlabelled
   clauses (each clean: its own label comes first, no separator inside), the result is exactly the
   explanations of the clauses that have one, in order, joined by the separator, none trailing *)
Theorem C15_extract : forall cs, cs <> [] -> Forall clean1 cs -> join ErrEndFlag (map render1 cs) <> [] ->
  only_explain (join ErrEndFlag (map render1 cs)) = join ErrEndFlag (explanations cs).
Proof. exact extract_exact. Qed.
Print Assumptions C15_extract.

(* THE EXTRACTOR FROM THE SOURCE TEXT.  fn_GetOnlyExplainErr is the go/ast syntax tree of GetOnlyExplainErr (valid/init.go,
   with the repair), regenerated on every run.  Under the semantics of Model/GoParse.v (strings.Split on the two-byte
   separator, strings.Index on the labels, the slice with its run-time bound, strings.TrimPrefix, the builder, continue)
   it computes the model's only_explain — the function C15_extract is about — on EVERY text, by an invariant over the
   clauses; in particular it never slices out of range: "never fails". *)
Theorem C15_extractor_from_source : forall msg : str, run_explain fn_GetOnlyExplainErr msg = Some (only_explain msg).
Proof. exact explain_from_source. Qed.
Print Assumptions C15_extractor_from_source.

(* non-vacuity: the three witnesses of the repaired defect (unlabelled before labelled, English
   before Chinese, trailing unlabelled) *)
Example C15_examples :
  let u := Unlabelled (s2b "valid ""zz"" is not exist, You can call SetValidFn") in
  let e := Labelled (s2b """A"" input """", ") ExplainEn (s2b "foo") in
  let z := Labelled (s2b """B"" input ""x"", ") ExplainZh (s2b "中文") in
  Forall clean1 [u; e] /\ Forall clean1 [e; z] /\ Forall clean1 [e; u] /\
  only_explain (join ErrEndFlag (map render1 [u; e])) = s2b "foo" /\
  only_explain (join ErrEndFlag (map render1 [e; z])) = s2b "foo; 中文" /\
  only_explain (join ErrEndFlag (map render1 [e; u])) = s2b "foo".
Proof.
  repeat split; try (vm_compute; reflexivity);
    repeat (constructor; [split; vm_compute; reflexivity|]); constructor.
Qed.
