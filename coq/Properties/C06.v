(* C06 — tag injection merges comment tags into struct tags and changes nothing else.
   This file holds statements only; every proof is one [exact]. *)
From PGV Require Import Base.Bytes Base.GoStr Regex.Rx.
From PGV Require Import Extracted.SourceRegex.
From PGV Require Import Spec.InjectSpec Model.Inject Proofs.InjectProofs Proofs.C06Final Run.Run_C06.

(* The merge loop of tagItems.override meets the property's four clauses (each injected key has the
   injected value; untouched keys keep their value; old keys keep their position and new keys follow
   in comment order; no key is duplicated) whenever the literal and the comment each have distinct keys. *)
Theorem C06_merge : forall old inj : tagitems, NoDup (keys old) -> NoDup (keys inj) ->
  merge_spec old inj (override old inj).
Proof. exact override_meets_spec. Qed.
Print Assumptions C06_merge.

(* ... and the four clauses leave no freedom: what the code computes is the only such list. *)
Theorem C06_merge_unique : forall old inj r : tagitems, NoDup (keys old) -> NoDup (keys inj) ->
  merge_spec old inj r -> r = override old inj.
Proof. exact merge_spec_override_unique. Qed.
Print Assumptions C06_merge_unique.

(* newTagItems reads back exactly the items a conventional literal or comment was written from
   (key \w+, value non-empty without double quote or line break; the code keeps the quotes in the value). *)
Theorem C06_scan_format : forall items : tagitems, forallb conv_item items = true ->
  scan_tags (format_items items) = map quote_item items.
Proof. exact scan_tags_format. Qed.
Print Assumptions C06_scan_format.

(* The whole file: for ANY number and interleaving of raw text and visited fields (with or without
   literal, with or without comment, several annotated fields per struct and file, any bytes —
   non-ASCII included — in raw text, field text, comment lead and trail) the areas computed from the
   positions go/parser reports, applied from the last to the first, write exactly the file in which the
   items of every annotated field are the merge and every other byte is where it was. *)
Theorem C06_splice_frame : forall f : gofile, wf_file f = true ->
  exists areas, areas_of f = Ok areas /\ write_file (render f) areas = Ok (render (inject_file f)).
Proof. exact splice_frame. Qed.
Print Assumptions C06_splice_frame.

(* inject_file is the relational statement of the property (frame + merge_spec per annotated field) *)
Theorem C06_inject_file_meets_spec : forall f : gofile, wf_file f = true -> file_injected f (inject_file f).
Proof. exact inject_file_injected. Qed.
Print Assumptions C06_inject_file_meets_spec.

(* fields without an @tag comment (and files without any) are untouched *)
Theorem C06_unannotated_untouched : forall f : gofile,
  forallb (fun e => match e with Raw _ => true | Fld fd => negb (annotated fd) end) f = true -> inject_file f = f.
Proof. exact inject_file_unannotated. Qed.
Print Assumptions C06_unannotated_untouched.

(* The scanners of the model are written for exactly the three expressions of file/parse.go, which the
   translator re-reads from the source on every run: an edited expression breaks this obligation. *)
Theorem C06_regex_ref : rTags = rTags_ref /\ rInject = rInject_ref /\ rComment = rComment_ref.
Proof. exact regex_ref. Qed.
Print Assumptions C06_regex_ref.

(* On the domain, a harness case that agrees with the model satisfies the specification. *)
Theorem C06_case_model_implies_spec : forall f areas outs, wf_file f = true ->
  check_model (CFile f areas outs) = true -> check_spec (CFile f areas outs) = true.
Proof. exact cfile_model_implies_spec. Qed.
Print Assumptions C06_case_model_implies_spec.

(* Why the domain asks for a non-empty back-quoted literal that is the last back-quoted thing on its
   line: outside it the code does not do what the property says (recorded findings). *)
Theorem C06_empty_literal_refuted :
  let src := s2b "package p
type A struct {
	E int `` // @tag a:""b""
}
" in write_file src [mkArea 28 36 [] (s2b "a:""b""")] = Ok src.
Proof. exact finding_empty_literal. Qed.
Print Assumptions C06_empty_literal_refuted.

Theorem C06_backquote_in_type_refuted :
  write_file (s2b "package p
type A struct {
	E struct{ X int `json:""x""` } `json:""e""` // @tag a:""b""
}
") [mkArea 28 67 (s2b "json:""e""") (s2b "a:""b""")]
  = Ok (s2b "package p
type A struct {
	E struct{ X int `json:""e"" a:""b""` // @tag a:""b""
}
").
Proof. exact finding_backquote_in_type. Qed.
Print Assumptions C06_backquote_in_type_refuted.

(* non-vacuity: two structs' worth of fields, CJK before and inside comments, override + add + both,
   values with $ \ | ' ; an un-annotated field, a field without literal, a comment that only mentions
   @tag; the hypotheses hold and the second annotated field's offsets have shifted. *)
Example C06_hypotheses_satisfiable :
  let f : gofile :=
    [ Raw (s2b "// 生成的文件
package p

type A struct {
	");
      Fld (mkField (s2b "Name string ") (Some [(s2b "protobuf", s2b "bytes,1,opt,name=name"); (s2b "json", s2b "name,omitempty")])
                   (s2b " ") (CTag (s2b "// 名字 ") [(s2b "json", s2b "n"); (s2b "valid", s2b "required|必填")] []));
      Raw (s2b "
	");
      Fld (mkField (s2b "Age int32 ") (Some [(s2b "json", s2b "age")]) (s2b "  ") (CPlain (s2b "// see @tag")));
      Raw (s2b "
	");
      Fld (mkField (s2b "X, Y *int ") None (s2b " ") (CTag (s2b "// ") [(s2b "a", s2b "b")] []));
      Raw (s2b "
	");
      Fld (mkField (s2b "Re string ") (Some [(s2b "json", s2b "re")]) (s2b "	")
                   (CTag (s2b "//") [(s2b "valid", s2b "re='^\d+$1x|a;b'")] (s2b " 说明")));
      Raw (s2b "
}
") ] in
  wf_file f = true /\
  tool_run f = Ok (render (inject_file f)) /\
  render (inject_file f) <> render f /\
  exists r, nth_error (inject_file f) 1 = Some (Fld r) /\
            f_tag r = Some [(s2b "protobuf", s2b "bytes,1,opt,name=name"); (s2b "json", s2b "n"); (s2b "valid", s2b "required|必填")].
Proof. vm_compute. repeat split; try congruence. eexists. split; reflexivity. Qed.

(* THE MERGE FROM THE SOURCE TEXT.  fn_tagItems_override is the go/ast syntax tree of (t tagItems) override(inTags)
   (file/handletag.go), regenerated from /repo on every run.  Under the semantics of Model/GoTags.v (slices as lists —
   the in-place shift of inTags is not observable, see that file —, a[i].key and a[i:j] with their run-time bounds,
   append, the two nested range loops with break) it computes the model's override — the function C06_merge and
   C07_idempotent_merge are about — on EVERY pair of tag lists, each loop by an invariant, and never indexes or slices
   out of range. *)
From PGV Require Import Base.MiniGo Extracted.SourceFnsTags Model.GoTags Proofs.GoTagsProofs.
Theorem C06_merge_from_source : forall t inTags : tagitems,
  run_override fn_tagItems_override t inTags = Some (override t inTags).
Proof. exact override_from_source. Qed.
Print Assumptions C06_merge_from_source.

(* ... and tagItems.format (the text written back between the back quotes: key:value pairs joined by one blank), from its
   syntax tree, computes the model's format on every tag list *)
Theorem C06_format_from_source : forall t : tagitems, run_format fn_tagItems_format t = Some (format t).
Proof. exact format_from_source. Qed.
Print Assumptions C06_format_from_source.
