(* C07 — tag injection is idempotent.
   This file holds statements only; every proof is one [exact]. *)
From PGV Require Import Base.Bytes Base.GoStr.
From PGV Require Import Spec.InjectSpec Model.Inject Proofs.InjectProofs Proofs.C06Final Run.Run_C06.

(* the merge loop: merging the same comment into its own result changes nothing (a second pass
   overrides in place with the same values and has nothing left to append) *)
Theorem C07_idempotent_merge : forall old inj : tagitems, NoDup (keys old) -> NoDup (keys inj) ->
  override (override old inj) inj = override old inj.
Proof. exact override_idempotent. Qed.
Print Assumptions C07_idempotent_merge.

Theorem C07_idempotent_abstract : forall f : gofile, wf_file f = true ->
  inject_file (inject_file f) = inject_file f.
Proof. exact inject_file_idempotent. Qed.
Print Assumptions C07_idempotent_abstract.

(* the domain is closed under a run, so the theorems of C06 apply to the output again *)
Theorem C07_domain_closed : forall f : gofile, wf_file f = true -> wf_file (inject_file f) = true.
Proof. exact wf_file_inject. Qed.
Print Assumptions C07_domain_closed.

(* bytes: the run on an already processed file writes the bytes it found *)
Theorem C07_idempotent_bytes : forall f : gofile, wf_file f = true ->
  tool_run (inject_file f) = Ok (render (inject_file f)).
Proof. exact tool_run_twice. Qed.
Print Assumptions C07_idempotent_bytes.

(* a file without annotations: nothing to apply, the content is written back unchanged *)
Theorem C07_no_annotation : forall b : str, write_file b [] = Ok b.
Proof. exact write_file_no_areas. Qed.
Print Assumptions C07_no_annotation.

(* any number of runs: the (n+1)-th run, on what n runs left, writes what the first run wrote *)
Theorem C07_converges : forall (f : gofile) (n : nat), wf_file f = true ->
  tool_run (Nat.iter n inject_file f) = Ok (render (inject_file f)).
Proof. exact tool_run_converges. Qed.
Print Assumptions C07_converges.

Theorem C07_converges_abstract : forall (f : gofile) (n : nat), wf_file f = true ->
  Nat.iter (S n) inject_file f = inject_file f.
Proof. exact inject_file_iter. Qed.
Print Assumptions C07_converges_abstract.

(* whole runs (-d / -p): when every named file settles — it is no .go file, is missing, does not
   parse, or is a file of C06's domain that go/parser reads as expected — a second run over the same
   names leaves every path as the first run left it *)
Theorem C07_run_twice : forall parse (names : list str), NoDup names -> forall fs : fsys,
  (forall n, In n names -> settles parse n (fs_get fs n)) ->
  exists fs1 fs2, handle_list parse fs names = Ok fs1 /\ handle_list parse fs1 names = Ok fs2 /\
                  forall q, fs_get fs2 q = fs_get fs1 q.
Proof. exact handle_list_twice. Qed.
Print Assumptions C07_run_twice.

Theorem C07_domain_file_settles : forall parse (n : str) (f : gofile) (a a' : list area),
  wf_file f = true -> has_suffix n GO_SUFFIX = true ->
  areas_of f = Ok a -> parse n (render f) = Some a ->
  areas_of (inject_file f) = Ok a' -> parse n (render (inject_file f)) = Some a' ->
  settles parse n (Some (render f)).
Proof. exact settles_domain. Qed.
Print Assumptions C07_domain_file_settles.

(* On the domain, a repeated-run case that agrees with the model satisfies the specification. *)
Theorem C07_case_model_implies_spec : forall f steps, wf_file f = true ->
  check_model (CRepeat f steps) = true -> check_spec (CRepeat f steps) = true.
Proof. exact crepeat_model_implies_spec. Qed.
Print Assumptions C07_case_model_implies_spec.

(* non-vacuity: a field whose comment overrides one key and adds another; three runs *)
Example C07_hypotheses_satisfiable :
  let f : gofile :=
    [ Raw (s2b "package p
type A struct {
	");
      Fld (mkField (s2b "Name string ") (Some [(s2b "json", s2b "name"); (s2b "xml", s2b "n")]) (s2b " ")
                   (CTag (s2b "// 名字 ") [(s2b "valid", s2b "to=1~3"); (s2b "json", s2b "N")] []));
      Raw (s2b "
}
") ] in
  wf_file f = true /\ inject_file f <> f /\
  tool_run f = Ok (render (inject_file f)) /\
  tool_run (inject_file f) = Ok (render (inject_file f)) /\
  tool_run (inject_file (inject_file f)) = Ok (render (inject_file f)).
Proof. vm_compute. repeat split; congruence. Qed.

(* the merge whose idempotence C07_idempotent_merge states is the source text's (see C06_merge_from_source) *)
From PGV Require Import Base.MiniGo Extracted.SourceFnsTags Model.GoTags Proofs.GoTagsProofs.
Theorem C07_merge_from_source : forall t inTags : tagitems,
  run_override fn_tagItems_override t inTags = Some (override t inTags).
Proof. exact override_from_source. Qed.
Print Assumptions C07_merge_from_source.
