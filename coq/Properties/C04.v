(* C04 — nested validation reaches exactly the marked sub-objects and names them by path.
   Statements only. *)
From PGV Require Import Base.Bytes Base.GoStr Base.GoNum Base.Utf8.
From PGV Require Import Extracted.SourceConst.
From PGV Require Import Model.RuleText Model.Value Model.Clause Model.Rules Model.Walk.
From PGV Require Import Proofs.RuleContract Proofs.WalkProofs Proofs.WalkProofs2.
From PGV Require Import Spec.WalkAddr Proofs.WalkAddrProofs.
From PGV Require Import Base.MiniGo Extracted.SourceFnsParse Model.GoParse Proofs.GoParseProofs.

(* into a struct, through any number of pointer levels, under Parent.Field *)
Theorem C04_enters_struct : forall rec ivk sn field cus tv si fs b,
  is_zero tv = Ok false -> remove_ptr tv = VStruct si fs -> (forall z, tv <> VTime z) ->
  (match tv with VPtr _ | VStruct _ _ => True | _ => False end) ->
  exist rec ivk sn field cus tv b = rec (sn ++ DOT :: field) tv false b.
Proof. exact exist_enters_struct. Qed.
(* into every element of a slice under Parent.Field[i], every entry of a map under Parent.Field[key] *)
Theorem C04_enters_slice : forall rec ivk sn field cus isnil ek et vs b,
  is_zero (VSlice isnil ek et vs) = Ok false ->
  exist rec ivk sn field cus (VSlice isnil ek et vs) b = on_elems rec (sn ++ DOT :: field) O vs b.
Proof. exact exist_enters_slice. Qed.
Print Assumptions C04_enters_slice.
Theorem C04_enters_map : forall rec ivk sn field cus isnil kk t es b,
  is_zero (VMap isnil kk t es) = Ok false ->
  exist rec ivk sn field cus (VMap isnil kk t es) b = on_entries rec (sn ++ DOT :: field) es b.
Proof. exact exist_enters_map. Qed.
Print Assumptions C04_enters_map.
Print Assumptions C04_enters_struct.

(* nil or zero sub-objects under exist are skipped silently; time.Time is never entered *)
Theorem C04_exist_skips_zero : forall rec ivk sn field cus tv b, is_zero tv = Ok true -> exist rec ivk sn field cus tv b = Ok b.
Proof. exact exist_skips_zero. Qed.
Print Assumptions C04_exist_skips_zero.
Theorem C04_time_never_entered : forall rec ivk sn field cus z b, exist rec ivk sn field cus (VTime z) b = Ok b.
Proof. exact exist_skips_time. Qed.
Print Assumptions C04_time_never_entered.

(* sub-objects on fields without required / exist are never validated: the result does not depend
   on the recursive call at all; unexported and time.Time fields are skipped whatever they carry *)
Theorem C04_unmarked_never_entered : forall c rec1 rec2 sn fname fv vn b,
  (get_fn c (pk_key vn) <> FBuiltin \/ (str_eqb (pk_key vn) Required = false /\ str_eqb (pk_key vn) Exist = false)) ->
  on_rule c rec1 sn fname fv vn b = on_rule c rec2 sn fname fv vn b.
Proof. exact unmarked_never_entered. Qed.
Theorem C04_hidden_field_skipped : forall c rec sn cus fi fv fs b,
  f_time fi || negb (is_exported (f_name fi)) = true ->
  on_fields c rec sn cus ((fi, fv) :: fs) b = on_fields c rec sn cus fs b.
Proof. exact hidden_field_skipped. Qed.
Print Assumptions C04_hidden_field_skipped.
Theorem C04_untagged_field_skipped : forall c rec sn cus fi fv fs b,
  rm_get cus (f_name fi) = [] -> tag_get (f_tags fi) (c_tag c) = [] ->
  on_fields c rec sn cus ((fi, fv) :: fs) b = on_fields c rec sn cus fs b.
Proof. exact untagged_field_skipped. Qed.
Print Assumptions C04_untagged_field_skipped.
Print Assumptions C04_unmarked_never_entered.

(* every clause (and group member) found while validating an object, at any depth, carries a path
   that extends the path of that object *)
Theorem C04_paths_extend : forall c fuel sn v g b, wf_val v = true -> (depth v < fuel)%nat ->
  exists b', validate c fuel sn v g b = Ok b' /\
    exists cs gs, b_cl b' = cs ++ b_cl b /\ b_gr b' = gs ++ b_gr b /\
                  Forall (under sn) cs /\ Forall (gunder sn) gs.
Proof. exact clause_paths_extend. Qed.
Print Assumptions C04_paths_extend.

(* REACHES EXACTLY.  [resolve] (Spec/WalkAddr.v, structural on the address) enters a field's value only
   through a built-in required / exist rule on a non-empty value, names what it enters Parent.Field,
   Parent.Field[i] or Parent.Field[key], and finds no rule instance on unexported fields, time.Time
   fields, fields without rules for the requested tag, nil pointers and non-struct elements.  A
   clause is written during the validation of an object graph, at whatever depth, if and only if it
   is the contribution of a rule instance that some address resolves to (or the one "is not struct"
   clause of a non-struct top value). *)
Theorem C04_reaches_exactly : forall c fuel sn v g b b', wf_val v = true -> (depth v < fuel)%nat ->
  validate c fuel sn v g b = Ok b' ->
  exists cs, b_cl b' = rev cs ++ b_cl b /\
    forall cl, In cl cs <-> (In cl (top_clause sn v g) \/ exists a s, resolve c a sn v = Some s /\ In cl (fst (local c s))).
Proof. exact walk_clause_iff. Qed.
Print Assumptions C04_reaches_exactly.

(* facts read off the definition of resolve: nothing resolves below an unmarked rule, a zero value,
   a hidden field; everything resolves below a marked non-empty one *)
Theorem C04_no_descent_without_mark : forall c vn fv, descends c vn fv = true ->
  get_fn c (pk_key vn) = FBuiltin /\ (str_eqb (pk_key vn) Required = true \/ str_eqb (pk_key vn) Exist = true) /\ zero_b fv = false.
Proof.
  intros c vn fv. unfold descends. destruct (get_fn c (pk_key vn)); try discriminate.
  destruct (str_eqb (pk_key vn) Required).
  - intros H. apply negb_true_iff, orb_false_iff in H. destruct H as [_ H]. repeat split; auto.
  - destruct (str_eqb (pk_key vn) Exist); [|discriminate]. intros H. apply negb_true_iff in H. repeat split; auto.
Qed.
Print Assumptions C04_no_descent_without_mark.
Theorem C04_hidden_field_has_no_instances : forall c cus fi,
  f_time fi || negb (is_exported (f_name fi)) = true -> field_rules c cus fi = [].
Proof. intros c cus fi H. unfold field_rules. now rewrite H. Qed.
Print Assumptions C04_hidden_field_has_no_instances.
Theorem C04_nil_and_non_struct_have_no_instances : forall c a sn v,
  match remove_ptr v with VStruct _ _ => False | _ => True end -> resolve c a sn v = None.
Proof.
  intros c a sn v H. destruct a as [|i [|j rest]]; try reflexivity. cbn [resolve].
  destruct (remove_ptr v); try reflexivity. destruct H.
Qed.
Print Assumptions C04_nil_and_non_struct_have_no_instances.

(* which fields are hidden: IsExported (valid/common.go), from its source text regenerated on every run,
   computes the model's is_exported on every name (and never indexes an empty name) *)
Theorem C04_is_exported_from_source : forall name : str, run_bool fn_IsExported name = Some (is_exported name).
Proof. exact is_exported_from_source. Qed.
Print Assumptions C04_is_exported_from_source.

(* "a struct reached through any number of pointer levels": RemoveValuePtr (valid/common.go), the loop every walker looks
   through pointers with, from its source text regenerated on every run, computes the model's remove_ptr on EVERY
   value — any number of levels (by induction on the value), a nil pointer at any level giving the invalid Value *)
From PGV Require Import Extracted.SourceFnsPtr Model.GoPtr Proofs.GoPtrProofs.
Theorem C04_pointer_levels_from_source : forall v : val, run_remove_ptr fn_RemoveValuePtr v = Some (remove_ptr v).
Proof. exact remove_ptr_from_source. Qed.
Print Assumptions C04_pointer_levels_from_source.
