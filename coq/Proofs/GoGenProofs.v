(* GoGenProofs.v — the body of GenValidKV (valid/rule.go) extracted from /repo computes the model's gen_kv,
   for every key and every list of values. *)
From Coq Require Import String.
From PGV Require Import Base.Bytes Base.GoStr Base.Utf8 Base.MiniGo Extracted.SourceConst Extracted.SourceFnsGen.
From PGV Require Import Model.RuleText Model.GoParse.
Open Scope Z_scope.

Ltac gstep :=
  lazy beta iota zeta delta
    [run_gen pexec pexec_list peval pset pempty fn_body fn_GenValidKV
     String.eqb Ascii.eqb Bool.eqb andb orb negb].

Lemma len_ne0 n : (Z.of_nat (S n) =? 0) = false.
Proof. apply Z.eqb_neq. lia. Qed.
Lemma len_ge2 n : (2 <=? Z.of_nat (S (S n))) = true.
Proof. apply Z.leb_le. lia. Qed.
Lemma len_1 : (2 <=? Z.of_nat 1) = false.
Proof. reflexivity. Qed.
Lemma len_gt1 n : (1 <? Z.of_nat (S (S n))) = true.
Proof. apply Z.ltb_lt. lia. Qed.
Lemma byte_eqb c k : (Z.of_N c =? Z.of_N k) = N.eqb c k.
Proof. destruct (N.eqb_spec c k); [apply Z.eqb_eq|apply Z.eqb_neq]; lia. Qed.

Ltac gnorm :=
  gstep; cbn [List.length Z.leb Z.ltb Z.compare Pos.compare Pos.compare_cont Z.to_nat Pos.to_nat Pos.iter_op Nat.add nth_error str_eqb N.eqb Pos.eqb];
  rewrite ?len_ne0, ?len_ge2, ?len_gt1, ?len_1, ?Pos2Nat.inj_1.

Lemma byte_eqb_pos c k : (Z.of_N c =? Z.pos k) = N.eqb c (N.pos k).
Proof. apply (byte_eqb c (N.pos k)). Qed.
Lemma len_1' : (1 <? Z.of_nat 1) = false.
Proof. reflexivity. Qed.

Theorem gen_from_source key values : run_gen fn_GenValidKV key values = Some (gen_kv key values).
Proof.
  destruct values as [|v rest]; [reflexivity|].
  destruct v as [|c0 [|c1 v']]; destruct rest as [|m rest'].
  all: unfold gen_kv, is_in_key, is_re_key, EQ, QUOTE, LPAREN, RPAREN, BAR.
  all: repeat (gnorm; rewrite ?byte_eqb_pos, ?len_1';
               try match goal with
                   | |- context[if N.eqb ?a ?b then _ else _] => destruct (N.eqb a b) eqn:?
                   | |- context[if str_eqb ?kk ?k then _ else _] => is_var kk; destruct (str_eqb kk k) eqn:?
                   end).
  all: cbn [app Z.to_N Nat.ltb Nat.leb andb orb nth List.length]; rewrite <- ?app_assoc, ?app_nil_r; try reflexivity.
  all: repeat match goal with H : N.eqb _ _ = _ |- _ => rewrite ?H; clear H end.
  all: cbn [app]; rewrite <- ?app_assoc; cbn [app]; try reflexivity.
Qed.

Lemma gen_never_panics key values : exists r, run_gen fn_GenValidKV key values = Some r.
Proof. eexists. apply gen_from_source. Qed.
