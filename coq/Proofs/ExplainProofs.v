(* C15: the extractor returns exactly the explanations of the clauses that have one. *)
From PGV Require Import Base.Bytes Base.GoStr.
From PGV Require Import Extracted.SourceConst.
From PGV Require Import Model.Explain Spec.ExplainSpec.

(* the separator of the source: two distinct bytes *)
Lemma sep_shape : exists a b, ErrEndFlag = [a; b] /\ a <> b.
Proof. exists 59%N, 32%N. split; [reflexivity|discriminate]. Qed.

Lemma has_prefix_nil s : has_prefix s [] = true.
Proof. destruct s; reflexivity. Qed.

Section Split2.
  Variables a b : byte.
  Hypothesis Hab : a <> b.
  Let sep := [a; b].

  Lemma index_cons_none c t : index sep (c :: t) = None -> has_prefix (c :: t) sep = false /\ index sep t = None.
  Proof.
    unfold sep. cbn [index]. destruct (has_prefix (c :: t) [a; b]); [discriminate|].
    destruct (index [a; b] t); [discriminate|auto].
  Qed.

  (* a clean piece followed by the separator: the scan finds that separator first *)
  Lemma split_go_piece fuel : forall t cur rest, index sep t = None -> (length t + 2 + length rest < fuel)%nat ->
    split_go fuel sep cur (t ++ sep ++ rest) = (rev cur ++ t) :: split_go (fuel - length t - 1) sep [] rest.
  Proof.
    induction fuel as [|f IH]; intros t cur rest Hn Hf; [lia|].
    destruct t as [|c t].
    - subst sep. cbn [app length split_go has_prefix]. rewrite !N.eqb_refl, has_prefix_nil. cbn [andb skipn length].
      rewrite app_nil_r. replace (S f - 0 - 1)%nat with f by lia. reflexivity.
    - destruct (index_cons_none c t Hn) as [Hp Hn'].
      change ((c :: t) ++ sep ++ rest) with (c :: (t ++ sep ++ rest)). cbn [split_go].
      assert (Hp' : has_prefix (c :: t ++ sep ++ rest) sep = false).
      { unfold sep in *. cbn [has_prefix] in *. destruct (N.eqb_spec c a) as [->|]; [|reflexivity]. cbn [andb] in *.
        destruct t as [|d t']; cbn [app has_prefix] in *.
        - destruct (N.eqb_spec a b); [contradiction|reflexivity].
        - rewrite has_prefix_nil in *. destruct (N.eqb d b); [discriminate|reflexivity]. }
      rewrite Hp'. rewrite (IH t (c :: cur) rest Hn'); [|cbn [length] in Hf; lia].
      cbn [rev length]. rewrite <- app_assoc. cbn [app].
      replace (S f - S (length t) - 1)%nat with (f - length t - 1)%nat by lia. reflexivity.
  Qed.

  Lemma split_go_last fuel : forall t cur, index sep t = None -> (length t < fuel)%nat ->
    split_go fuel sep cur t = [rev cur ++ t].
  Proof.
    induction fuel as [|f IH]; intros t cur Hn Hf; [lia|].
    destruct t as [|c t]; [cbn; now rewrite app_nil_r|].
    destruct (index_cons_none c t Hn) as [Hp Hn']. cbn [split_go]. rewrite Hp.
    rewrite (IH t (c :: cur) Hn'); [|cbn [length] in Hf; lia]. cbn [rev]. now rewrite <- app_assoc.
  Qed.

  (* splitting the join of clean pieces gives the pieces back *)
  Lemma split_go_join ts : ts <> [] -> Forall (fun t => index sep t = None) ts ->
    forall fuel, (length (join sep ts) < fuel)%nat -> split_go fuel sep [] (join sep ts) = ts.
  Proof.
    induction ts as [|t ts IH]; intros Hne Hall fuel Hf; [congruence|].
    inversion Hall as [|? ? Ht Hts]; subst.
    destruct ts as [|u ts].
    - cbn [join] in *. now apply split_go_last.
    - change (join sep (t :: u :: ts)) with (t ++ sep ++ join sep (u :: ts)) in *.
      assert (Hlen : (length t + 2 + length (join sep (u :: ts)) < fuel)%nat).
      { rewrite !app_length in Hf. subst sep. cbn [length] in *. lia. }
      rewrite split_go_piece; [|exact Ht|exact Hlen].
      cbn [rev app]. f_equal. apply IH; [congruence|exact Hts|lia].
  Qed.

  Lemma split_join ts : ts <> [] -> Forall (fun t => index sep t = None) ts -> split (join sep ts) sep = ts.
  Proof. intros Hne Hall. unfold split. apply split_go_join; auto. Qed.
End Split2.

(* the domain: every clause, as the extractor scans it, has its own label first (or none), and
   contains no separator — forced by the text format, which has no escaping *)
Definition clean1 (c : sclause) : Prop :=
  index ErrEndFlag (render1 c) = None /\
  match c with
  | Labelled pre lab msg => first_label (render1 c) = Some (length pre, length lab)
  | Unlabelled txt => first_label txt = None
  end.

Lemma explain1_clean c : clean1 c -> explain1 (render1 c) = explanation c.
Proof.
  intros [_ H]. unfold explain1. destruct c as [pre lab msg|txt]; cbn [explanation render1] in *; rewrite H; [|reflexivity].
  f_equal. rewrite app_assoc. replace (length pre + length lab)%nat with (length (pre ++ lab)) by apply app_length.
  rewrite skipn_app_len0. reflexivity.
Qed.

Lemma filter_map_render cs : Forall clean1 cs -> filter_map explain1 (map render1 cs) = explanations cs.
Proof.
  induction cs as [|c cs IH]; intros H; [reflexivity|]. inversion H; subst. cbn [map filter_map explanations].
  rewrite explain1_clean by assumption. destruct (explanation c); now rewrite IH.
Qed.

Theorem extract_exact cs : cs <> [] -> Forall clean1 cs -> join ErrEndFlag (map render1 cs) <> [] ->
  only_explain (join ErrEndFlag (map render1 cs)) = join ErrEndFlag (explanations cs).
Proof.
  intros Hne Hall Hnz. unfold only_explain. destruct (join ErrEndFlag (map render1 cs)) as [|x0 xs] eqn:Ej; [congruence|].
  rewrite <- Ej. destruct sep_shape as (a & b & Es & Hab). rewrite Es.
  rewrite (split_join a b Hab).
  - rewrite <- Es. now rewrite filter_map_render.
  - destruct cs; [congruence|discriminate].
  - rewrite <- Es. apply Forall_forall. intros t Ht. apply in_map_iff in Ht as (c & <- & Hc).
    rewrite Forall_forall in Hall. apply (Hall c Hc).
Qed.

(* the extractor is a total function: it is built from total list functions (no slicing by
   computed offsets is left in the repaired code) *)
Lemma extract_total : forall s, exists r, only_explain s = r.
Proof. intros s. eauto. Qed.
